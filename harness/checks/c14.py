"""C14 - data handed to custom templates describes the interfaces faithfully.

Inputs: Go modules from harness/gen_pkgs.py (several source packages per module so that one
mockery run covers many interfaces).  Implementation: the REAL mockery binary (built from
the working tree) run with two custom file:// templates:
  harness/probes/c14_dump.templ    dumps every accessor of the documented data model
  harness/probes/c14_reemit.templ  re-emits each interface + forwarding wrappers as Go source
in three placements (in-package, external _test package in the same directory, separate
package).  Correspondence: every dumped Go text is parsed by go/parser (harness/go/gotype)
into a canonical S-expression and compared with the model's structured values
(coq/Harness/C14.v, vm_compute).  Oracle (independent of the model): the Go type checker on
the re-emitted sources plus harness-written mutual-assignability assertions.
"""
import json, re
from common import *
import gen_pkgs
from gen_pkgs import MOD, basic, named

PROBES = VERIF / "harness" / "probes"
# layouts of the output file:
#   in  : dir = source dir, pkgname = source package name        (true in-package: no self import, bare local types)
#   xt  : dir = source dir, pkgname = <src>_test                 (external test package: must import and qualify the source package)
#   out : another dir, another package name
#   sn  : another dir, pkgname EQUAL to the source package's name (not in-package: must import and qualify)
PLACEMENTS = ("in", "xt", "out", "sn")

# --------------------------------------------------------------------------------------
# AST helpers (types are gen_pkgs dicts)
# --------------------------------------------------------------------------------------
def P(n, t):
    return {"n": n, "t": t}


def SIG(params, results, variadic=False):
    return {"params": params, "variadic": variadic, "results": results}


BYTES = {"k": "slice", "e": basic("byte")}


def known_ifaces(m):
    """Declarations (type parameters, explicit methods, embeds) of the interfaces that
    generated interfaces may embed, keyed by (package path, name); "" = the source package."""
    t = {
        ("io", "Reader"): {"tparams": [], "embeds": [], "methods": [{"n": "Read", "sig": SIG([P("p", BYTES)], [P("n", basic("int")), P("err", basic("error"))])}]},
        ("io", "Writer"): {"tparams": [], "embeds": [], "methods": [{"n": "Write", "sig": SIG([P("p", BYTES)], [P("n", basic("int")), P("err", basic("error"))])}]},
        ("context", "Context"): {"tparams": [], "embeds": [], "methods": [
            {"n": "Deadline", "sig": SIG([], [P("deadline", named("time", "Time")), P("ok", basic("bool"))])},
            {"n": "Done", "sig": SIG([], [P("", {"k": "chan", "dir": "recv", "e": {"k": "struct", "fields": []}})])},
            {"n": "Err", "sig": SIG([], [P("", basic("error"))])},
            {"n": "Value", "sig": SIG([P("key", basic("any"))], [P("", basic("any"))])}]},
        ("", "LocalIface"): {"tparams": [], "embeds": [], "methods": [
            {"n": "LocalMethod", "sig": SIG([P("l", named("", "Local"))], [P("", named("", "Key")), P("", basic("error"))])}]},
        ("", "Gen"): {"tparams": ["T"], "embeds": [], "methods": [
            {"n": "Produce", "sig": SIG([], [P("", {"k": "tparam", "n": "T"})])},
            {"n": "Consume", "sig": SIG([P("v", {"k": "tparam", "n": "T"})], [P("", basic("error"))])}]},
    }
    for e in m["ext"]:
        t[(e["path"], "Handler")] = {"tparams": [], "embeds": [], "methods": [
            {"n": "Handle", "sig": SIG([P("c", {"k": "ptr", "e": named(e["path"], "Client")})], [P("", basic("error"))])}]}
    for d in m.get("extra_ifaces", []):          # C02: deeper embedding chains declared in the source package
        t[("", d["name"])] = {"tparams": [tp["n"] for tp in d["tparams"]], "embeds": d["embeds"], "methods": d["methods"]}
    return t


def map_ty(f, t):
    """Rebuild t with f applied to every child type."""
    k = t["k"]
    if k in ("named", "alias"):
        return dict(t, targs=[f(a) for a in t["targs"]])
    if k in ("ptr", "slice", "array", "chan"):
        return dict(t, e=f(t["e"]))
    if k == "map":
        return dict(t, key=f(t["key"]), e=f(t["e"]))
    if k == "func":
        return dict(t, sig=map_sig(f, t["sig"]))
    if k == "struct":
        return dict(t, fields=[dict(x, t=f(x["t"])) for x in t["fields"]])
    if k == "iface":
        return dict(t, methods=[dict(x, sig=map_sig(f, x["sig"])) for x in t["methods"]], embeds=[f(e) for e in t["embeds"]])
    if k == "union":
        return dict(t, terms=[dict(x, t=f(x["t"])) for x in t["terms"]])
    return t


def map_sig(f, s):
    return {"params": [dict(p, t=f(p["t"])) for p in s["params"]], "variadic": s["variadic"],
            "results": [dict(p, t=f(p["t"])) for p in s["results"]]}


def subst(t, env):
    if t["k"] == "tparam":
        return env.get(t["n"], t)
    return map_ty(lambda x: subst(x, env), t)


def is_exported(n):
    return n[:1].isupper()


def gotypes_order(methods):
    """go/types sorts methods (object.less): exported names first, then by name."""
    return sorted(methods, key=lambda x: (0 if is_exported(x["n"]) else 1, x["n"].encode()))


def method_set(iface, table, depth=0):
    """The completed method set, in go/types order (trusted specification, recomputed here)."""
    out = {}

    def add(decl, env, d):
        assert d < 12
        for mm in decl["methods"]:
            out.setdefault(mm["n"], {"n": mm["n"], "sig": map_sig(lambda x: subst(x, env), mm["sig"])})
        for e in decl["embeds"]:
            e = subst(e, env)
            tgt = table[(e["pkg"], e["n"])]
            add(tgt, dict(zip(tgt["tparams"], e["targs"])), d + 1)
    add(iface, {}, 0)
    return gotypes_order(list(out.values()))


def walk(t, f):
    f(t)
    map_ty(lambda x: (walk(x, f), x)[1], t)


def walk_sig(s, f):
    for p in s["params"] + s["results"]:
        walk(p["t"], f)


# --------------------------------------------------------------------------------------
# Gallina printing
# --------------------------------------------------------------------------------------
def cb(s):
    return coq_bytes(s.encode() if isinstance(s, str) else s)


def lbl(n="", tag="", flag=False):
    if not tag and not flag:
        return "nl" if n == "" else "(L %s)" % cb(n)
    return "(FL %s %s %s)" % (cb(n), cb(tag), coq_bool(flag))


def items_term(ps, src):
    return coq_list("(%s, %s)" % (lbl(p["n"]), ty_term(p["t"], src)) for p in ps)


def ty_term(t, src):
    k = t["k"]
    if k == "basic":
        n = t["n"]
        if n == "error":
            return '(TNamed None (B "error") [])'
        if n == "any":
            return '(TAlias None (B "any") [])'
        if n == "unsafe.Pointer":
            return "TUnsafePtr"
        return "(TBasic %s)" % cb(n)
    if k in ("named", "alias"):
        p = "None" if t["pkg"] is None else "(Some %s)" % cb(src if t["pkg"] == "" else t["pkg"])
        return "(%s %s %s %s)" % ("TNamed" if k == "named" else "TAlias", p, cb(t["n"]),
                                  coq_list("(nl, %s)" % ty_term(a, src) for a in t["targs"]))
    if k == "tparam":
        return "(TParam %s)" % cb(t["n"])
    if k == "ptr":
        return "(TPtr %s)" % ty_term(t["e"], src)
    if k == "slice":
        return "(TSlice %s)" % ty_term(t["e"], src)
    if k == "array":
        return "(TArray %d %s)" % (t["len"], ty_term(t["e"], src))
    if k == "map":
        return "(TMap %s %s)" % (ty_term(t["key"], src), ty_term(t["e"], src))
    if k == "chan":
        return "(TChan %s %s)" % ({"both": "DBoth", "send": "DSend", "recv": "DRecv"}[t["dir"]], ty_term(t["e"], src))
    if k == "func":
        s = t["sig"]
        return "(TFunc %s %s %s)" % (items_term(s["params"], src), coq_bool(s["variadic"]), items_term(s["results"], src))
    if k == "struct":
        return "(TStruct %s)" % coq_list("(%s, %s)" % (lbl(f["n"], f["tag"], f["emb"]), ty_term(f["t"], src)) for f in t["fields"])
    if k == "iface":
        ms = gotypes_order(t["methods"])
        return "(TIface %s %s)" % (
            coq_list("(%s, %s)" % (lbl(mm["n"]), ty_term({"k": "func", "sig": mm["sig"]}, src)) for mm in ms),
            coq_list("(nl, %s)" % ty_term(e, src) for e in t["embeds"]))
    if k == "union":
        return "(TUnion %s)" % coq_list("(%s, %s)" % (lbl("", "", x["tilde"]), ty_term(x["t"], src)) for x in t["terms"])
    raise ValueError(k)


def sig_term(s, src):
    return "{| sparams := %s; svariadic := %s; sresults := %s |}" % (items_term(s["params"], src), coq_bool(s["variadic"]), items_term(s["results"], src))


def iface_term(i, methods, src):
    return "{| if_name := %s; if_struct := %s; if_tparams := %s; if_methods := %s |}" % (
        cb(i["name"]), cb("Mk" + i["name"]),
        coq_list("(%s, %s)" % (lbl(tp["n"]), ty_term(tp["c"], src)) for tp in i["tparams"]),
        coq_list("(%s, %s)" % (cb(mm["n"]), sig_term(mm["sig"], src)) for mm in methods))


LOWER = [("É", "é"), ("Ω", "ω"), ("Ñ", "ñ"), ("Δ", "δ")]


def digest(x):
    """djb2 (32 bit) of the UTF-8 bytes, as Harness/C14.v digest"""
    h = 5381
    for b in (x.encode("utf-8", "surrogateescape") if isinstance(x, str) else x):
        h = (h * 33 + b) & 0xFFFFFFFF
    return h


def names_table(m):
    t = [(e["path"], e["name"]) for e in m["ext"]] + [(s["path"], s["name"]) for s in m["std"]] + [("unsafe", "unsafe")]
    t += [(s["path"], s["name"]) for s in m["srcs"]]
    return t


def case_term(m, k, placement, obs):
    s = m["srcs"][k]
    dst, inpkg = dst_of(m, k, placement)
    return ("{| c_dst := %s; c_inpkg := %s; c_names := %s; c_lower := %s; c_upper := %s; c_ifaces := %s; c_obs := %s |}" % (
        cb(dst), coq_bool(inpkg),
        coq_list("(%s, %s)" % (cb(a), cb(b)) for a, b in names_table(m)),
        coq_list("(%s, %s)" % (cb(a), cb(b)) for a, b in LOWER),
        coq_list("(%s, %s)" % (cb(b), cb(a)) for a, b in LOWER),
        coq_list(iface_term(i, method_set(i, known_ifaces(dict(m, **s))), s["path"]) for i in selected(s, placement)),
        coq_list("%d%%N" % digest(x) for x in obs)))


# --------------------------------------------------------------------------------------
# Modules with several source packages
# --------------------------------------------------------------------------------------
GEN_STATS = {}

# result types that IMPLEMENT error without being the predeclared error (accessor consistency:
# ReturnsError must be true iff some result is exactly `error`); NotFound / Coded are declared by
# ERR_TYPES_GO in every source package, os / net are extra stdlib packages of the C14 stream
# (os.PathError is an ALIAS of fs.PathError: go/types hands mockery a *types.Alias, whose generated name is "v")
C14_STD = [{"path": "os", "name": "os", "types": [("File", "struct")]},
           {"path": "net", "name": "net", "types": [("Error", "iface")]}]
ERR_TYPES_GO = """package %s

// declared by the C14 harness: types that implement error without being error
type NotFound struct{ What string }

func (e *NotFound) Error() string { return e.What }

type Coded interface {
	error
	Code() int
}
"""


def errlike(rng):
    return rng.choice([{"k": "ptr", "e": named("", "NotFound")}, named("", "Coded"),
                       {"k": "ptr", "e": {"k": "alias", "pkg": "os", "n": "PathError", "targs": []}}, named("net", "Error")])


def inject_underscore_names(rng, ifaces, p=0.1):
    """Declared names with leading underscores whose remainder is a keyword, starts with a digit or
    equals another declared name (declared names are offered as declared)."""
    for i in ifaces:
        for mm in i["methods"]:
            sig = mm["sig"]
            vs = [x for x in sig["params"] + sig["results"]]
            named_ps = [x for x in sig["params"] if x["n"] not in ("", "_")]
            if len(named_ps) != len(sig["params"]) or not named_ps or rng.random() >= p:
                continue
            used = {x["n"] for x in vs}
            k = rng.randint(1, min(2, len(named_ps)))
            for x in rng.sample(named_ps, k):
                others = [y["n"] for y in vs if y is not x and y["n"] not in ("", "_") and not y["n"].startswith("_")]
                cands = ["_type", "_func", "_range", "_go", "_map", "_var", "_1", "_2x", "__x", "_"] + ["_" + o for o in others] + ["__" + o for o in others[:1]]
                n = rng.choice([c for c in cands if c != "_"])
                if n in used:
                    continue
                used.discard(x["n"])
                used.add(n)
                x["n"] = n
            if sig["results"] and all(r["n"] not in ("", "_") for r in sig["results"]) and rng.random() < 0.5:
                r = sig["results"][-1]
                n = "_" + r["n"].lstrip("_")
                if n not in used and n != "_":
                    used.add(n)
                    r["n"] = n
            GEN_STATS["underscore"] = GEN_STATS.get("underscore", 0) + 1


def inject_slice_results(rng, ifaces, p=0.5):
    """Variadic methods WITH results whose types are slices / maps of slices (a result must never be
    described as variadic)."""
    sl = lambda t: {"k": "slice", "e": t}
    for i in ifaces:
        for mm in i["methods"]:
            sig = mm["sig"]
            if not sig["variadic"] or rng.random() >= p:
                continue
            named_res = any(r["n"] for r in sig["results"])
            choices = [[sl(basic("int"))], [{"k": "map", "key": basic("string"), "e": sl(basic("int"))}, basic("error")],
                       [sl(basic("string")), sl(basic("error"))], [sl(sl(named("", "Local")))], [basic("int"), sl(basic("byte"))]]
            ts = rng.choice(choices)
            used = {x["n"] for x in sig["params"]}
            res = []
            for j, t in enumerate(ts):
                n = ""
                if named_res:
                    n = "out%d" % j
                    while n in used:
                        n += "R"
                res.append({"n": n, "t": t})
            sig["results"] = res
            GEN_STATS["slice_results"] = GEN_STATS.get("slice_results", 0) + 1


def inject_error_like(rng, ifaces, p=0.2):
    """Some methods get a result that merely implements error (alone, next to other results, or
    next to a real error)."""
    for i in ifaces:
        for mm in i["methods"]:
            if rng.random() >= p:
                continue
            sig = mm["sig"]
            used = {x["n"] for x in sig["params"]}
            shape = rng.choice(["alone", "alone", "with_value", "with_error", "named"])
            e = errlike(rng)
            if shape == "alone":
                sig["results"] = [{"n": "", "t": e}]
            elif shape == "with_value":
                sig["results"] = [{"n": "", "t": basic(rng.choice(["int", "string", "bool"]))}, {"n": "", "t": e}]
            elif shape == "with_error":
                sig["results"] = [{"n": "", "t": e}, {"n": "", "t": basic("error")}]
            else:
                n1, n2 = "failure", "count"
                while n1 in used:
                    n1 += "R"
                while n2 in used:
                    n2 += "R"
                sig["results"] = [{"n": n2, "t": basic("int")}, {"n": n1, "t": e}]
            GEN_STATS["errlike"] = GEN_STATS.get("errlike", 0) + 1


def gen_module(rng, nsrc, **genkw):
    """One Go module example.com/m with source packages src0..src<n-1> (each an independent
    gen_pkgs module over the same external packages)."""
    mod_kw = {k: genkw.pop(k) for k in ("lower_tparams",) if k in genkw}
    srcs = []
    base = None
    for k in range(nsrc):
        genkw.setdefault("std", gen_pkgs.STD + C14_STD)
        genkw.setdefault("wide", 0.15)            # methods with 3-10 long-named parameters (wide accessor strings)
        g = gen_pkgs.DenseGen(rng, **genkw)       # dense multi-mention generic types + name tuples X, X1 (see gen_pkgs.DenseGen)
        mm = g.module(src_name="src%d" % k, **mod_kw)
        for kk, vv in g.stats.items():
            GEN_STATS[kk] = GEN_STATS.get(kk, 0) + vv
        inject_error_like(rng, mm["ifaces"])
        inject_slice_results(rng, mm["ifaces"])
        inject_underscore_names(rng, mm["ifaces"])
        base = base or mm
        srcs.append({"path": mm["src"]["path"], "name": mm["src"]["name"], "ifaces": mm["ifaces"], "nonascii": mm["nonascii"]})
    return {"mod": MOD, "ext": base["ext"], "std": base["std"], "srcs": srcs}


def one_src(m, k):
    s = m["srcs"][k]
    return {"mod": m["mod"], "src": {"path": s["path"], "name": s["name"]}, "ifaces": s["ifaces"], "ext": m["ext"], "std": m["std"],
            "nonascii": s.get("nonascii", False)}


def write_module(m, root):
    for k in range(len(m["srcs"])):
        gen_pkgs.write_module(one_src(m, k), root)
        (root / m["srcs"][k]["name"] / "zz_c14_errs.go").write_text(ERR_TYPES_GO % m["srcs"][k]["name"])
    run(["cp", str(REPO / "go.sum"), str(root / "go.sum")], check=True)


def dst_of(m, k, placement):
    s = m["srcs"][k]
    if placement == "in":
        return s["path"], True
    if placement == "xt":
        return s["path"], False
    if placement == "sn":
        return m["mod"] + "/mocks2/" + s["name"], False
    return m["mod"] + "/mocks/" + s["name"], False


def unexported_use(i, m, s):
    """Does the interface use anything that cannot be named from another package?"""
    bad = []

    def chk(t):
        k = t["k"]
        if k in ("named", "alias") and t["pkg"] == "" and not is_exported(t["n"]):
            bad.append(t["n"])
        if k == "struct" and any(not is_exported(f["n"]) for f in t["fields"]):
            bad.append("field")
        if k == "iface" and any(not is_exported(x["n"]) for x in t["methods"]):
            bad.append("method")
    for tp in i["tparams"]:
        walk(tp["c"], chk)
    for mm in method_set(i, known_ifaces(dict(m, **s))):
        if not is_exported(mm["n"]):
            bad.append(mm["n"])
        walk_sig(mm["sig"], chk)
    return bool(bad) or not is_exported(i["name"])


def selected(s, placement):
    """Interfaces rendered in a placement (file order = source order).  Interfaces that cannot
    be named from another package are only rendered in-package (the property excludes them)."""
    return [i for i in s["ifaces"] if placement == "in" or not i.get("_unexp")]


def mark(m):
    for s in m["srcs"]:
        for i in s["ifaces"]:
            i["_unexp"] = unexported_use(i, m, s)


def config(m, root, template, fname, placements=PLACEMENTS):
    pk = {}
    for k, s in enumerate(m["srcs"]):
        ifs = {}
        for i in s["ifaces"]:
            cfgs = []
            for pl in placements:
                if i not in selected(s, pl):
                    continue
                if pl == "in":
                    cfgs.append({"dir": "{{.InterfaceDir}}", "pkgname": s["name"], "filename": fname["in"]})
                elif pl == "xt":
                    cfgs.append({"dir": "{{.InterfaceDir}}", "pkgname": s["name"] + "_test", "filename": fname["xt"]})
                elif pl == "sn":
                    cfgs.append({"dir": str(root / "mocks2" / s["name"]), "pkgname": s["name"], "filename": fname["sn"]})
                else:
                    cfgs.append({"dir": str(root / "mocks" / s["name"]), "pkgname": "mk", "filename": fname["out"]})
            if cfgs:
                ifs[i["name"]] = {"configs": cfgs}
        if ifs:
            pk[s["path"]] = {"interfaces": ifs}
    return {"template": "file://" + str(template), "require-template-schema-exists": False, "formatter": "noop",
            "force-file-write": True, "log-level": "error", "structname": "Mk{{.InterfaceName}}", "packages": pk}


def out_path(m, k, root, placement, fname):
    s = m["srcs"][k]
    if placement == "out":
        return root / "mocks" / s["name"] / fname["out"]
    if placement == "sn":
        return root / "mocks2" / s["name"] / fname["sn"]
    return root / s["name"] / fname[placement]


def run_mockery(ctx, root, cfg, name):
    cf = root / (".mockery_%s.json" % name)
    cf.write_text(json.dumps(cfg, indent=1))
    env = dict(os.environ, GOPROXY="off", GOFLAGS="-mod=mod")
    p = run([ctx.bins["mockery"], "--config", str(cf)], cwd=root, env=env, timeout=600)
    return p.returncode, (p.stdout + p.stderr).decode(errors="replace")


DUMP_FILES = {"in": "zz_dump_in.txt", "xt": "zz_dump_xt.txt", "out": "zz_dump_out.txt", "sn": "zz_dump_sn.txt"}
REEMIT_FILES = {"in": "zz_reemit.go", "xt": "zz_reemit_x_test.go", "out": "zz_reemit.go", "sn": "zz_reemit.go"}


def parse_dump(text):
    """-> (list of (kind, text) for the model comparison, list of x-lines)"""
    main, extra = [], []
    for line in text.split("\n"):
        if not line:
            continue
        kind, _, rest = line.partition("\t")
        if kind.startswith("x:"):
            extra.append((kind[2:], rest, len(main)))
        else:
            main.append((kind, rest))
    return main, extra


def gotype_batch(ctx, items):
    p = run([ctx.bins["gotype"]], inp=json.dumps([{"k": k, "s": s} for k, s in items]).encode(), timeout=600)
    if p.returncode != 0:
        raise RuntimeError("gotype failed: " + p.stderr.decode(errors="replace")[-2000:])
    return json.loads(p.stdout)


# --------------------------------------------------------------------------------------
# Python mirror of the Coq guard predicates (the Coq evaluation is authoritative)
# --------------------------------------------------------------------------------------
def bare_idents(t, inpkg_src=True):
    """identifiers a rendered type uses without a qualifier (types of the source package are
    bare only when the output is in-package)"""
    out = set()

    def f(x):
        k = x["k"]
        if k == "basic" and x["n"] != "unsafe.Pointer":
            out.add(x["n"])
        elif k in ("named", "alias") and (x["pkg"] is None or (x["pkg"] == "" and inpkg_src)):
            out.add(x["n"])
        elif k == "tparam":
            out.add(x["n"])
    walk(t, f)
    return out


def is_atomic(t):
    return t["k"] in ("basic", "tparam") or (t["k"] in ("named", "alias") and not t["targs"])


def capture_class(sig):
    """explicit parameter/result names that equal an identifier used inside a COMPOSITE type of
    the same signature (known finding C14-name-captures-inner-type)"""
    inner = set()
    for p in sig["params"] + sig["results"]:
        if not is_atomic(p["t"]):
            inner |= bare_idents(p["t"])
    return [p["n"] for p in sig["params"] + sig["results"] if p["n"] in inner]


def steer(m):
    """Keep the main stream outside the known-finding class: rename explicit names that would
    capture an identifier of a composite type in the same signature."""
    for s in m["srcs"]:
        table = known_ifaces(dict(m, **s))
        for i in s["ifaces"]:
            for mm in i["methods"]:
                bad = set(capture_class(mm["sig"]))
                if not bad:
                    continue
                used = {p["n"] for p in mm["sig"]["params"] + mm["sig"]["results"]}
                for p in mm["sig"]["params"] + mm["sig"]["results"]:
                    if p["n"] in bad:
                        n = p["n"] + "Q"
                        while n in used:
                            n += "Q"
                        used.add(n)
                        p["n"] = n


# --------------------------------------------------------------------------------------
# Oracle: re-emitted interfaces, assertions written by the harness
# --------------------------------------------------------------------------------------
def assertion_file(m, k, placement):
    """Go source asserting mutual assignability between each source interface and its
    re-emission Re_<I>; written by the harness from the abstract description (NOT from the
    data model).  Generic interfaces are compared inside generic functions that repeat the
    source constraints."""
    s = m["srcs"][k]
    ifs = [i for i in selected(s, placement)]
    pkgname = {"in": s["name"], "xt": s["name"] + "_test", "out": "mk", "sn": s["name"]}[placement]
    used = set()
    for i in ifs:
        for tp in i["tparams"]:
            gen_pkgs.collect_pkgs(tp["c"], used)
    qual, imports = {}, []
    n = 0
    for p in sorted(used):
        qual[p] = "zq%d" % n
        imports.append('\tzq%d "%s"' % (n, p))
        n += 1
    srcq = ""
    if placement != "in":
        qual[""] = "zsrc"     # Render looks up t["pkg"]; "" is the source package
        imports.append('\tzsrc "%s"' % s["path"])
        srcq = "zsrc."

    class R(gen_pkgs.Render):
        def ty(self, t):
            if t["k"] in ("named", "alias") and t["pkg"] == "" and placement != "in":
                base = "zsrc." + t["n"]
                if t["targs"]:
                    base += "[" + ", ".join(self.ty(a) for a in t["targs"]) + "]"
                return base
            return super().ty(t)
    r = R(qual)
    out = ["package %s\n" % pkgname]
    if imports and ifs:
        out.append("import (\n%s\n)\n" % "\n".join(imports))
    for i in ifs:
        tpd = tpi = ""
        if i["tparams"]:
            tpd = "[" + ", ".join("%s %s" % (tp["n"], r.ty(tp["c"])) for tp in i["tparams"]) + "]"
            tpi = "[" + ", ".join(tp["n"] for tp in i["tparams"]) + "]"
        out.append("func zz_assert_%s%s() {\n\tvar a %s%s%s\n\tvar b Re_%s%s\n\ta = b\n\tb = a\n\t_, _ = a, b\n}\n" % (
            i["name"], tpd, srcq, i["name"], tpi, i["name"], tpi))
        # every boolean accessor against the source signature (constant map keys must be distinct:
        # the declaration only compiles when the comparison is true)
        for mm in method_set(i, known_ifaces(dict(m, **s))):
            out.append('var _ = map[bool]int{false: 0, ZZ_%s_%s_flags == "%s": 1}' % (i["name"], mm["n"], expected_flags(mm["sig"])))
            # Variadic of each variable: only the last parameter of a variadic signature; never a result
            np_ = len(mm["sig"]["params"])
            pv = "".join(" true" if (mm["sig"]["variadic"] and j == np_ - 1) else " false" for j in range(np_))
            out.append('var _ = map[bool]int{false: 0, ZZ_%s_%s_variadic == "P:%s R:%s": 1}' % (i["name"], mm["n"], pv, " false" * len(mm["sig"]["results"])))
        out.append("")
    return "\n".join(out)


def expected_flags(sig):
    """IsVariadic HasParams HasReturns ReturnsError AcceptsContext [ReturnStatement], from the source signature"""
    ps, rs = sig["params"], sig["results"]
    b = lambda x: "true" if x else "false"
    ctx0 = bool(ps) and ps[0]["t"]["k"] == "named" and ps[0]["t"]["pkg"] == "context" and ps[0]["t"]["n"] == "Context" and not (sig["variadic"] and len(ps) == 1)
    return "%s %s %s %s %s [%s]" % (b(sig["variadic"] and ps), b(ps), b(rs), b(any(r["t"] == basic("error") for r in rs)), b(ctx0), "return" if rs else "")


SLICE_CHECK_GO = """
// ArgCallListSlice(NoEllipsis) start end must name exactly the parameters start..end-1 of the
// full call list (end < 0: to the end), with "..." only on the variadic parameter of the source
func checkSlices(t *testing.T, tag string, reg map[string][]string, want map[string][2]int) {
	for name, w := range want {
		v, ok := reg[name]
		if !ok {
			t.Errorf("SLICEFAIL %s %s: no slice table", tag, name)
			continue
		}
		var full []string
		if v[0] != "" {
			full = strings.Split(v[0], ", ")
		}
		if len(full) != w[0] {
			t.Errorf("SLICEFAIL %s %s: ArgCallListNoEllipsis has %d elements, the source method %d parameters", tag, name, len(full), w[0])
			continue
		}
		for i := 1; i+1 < len(v); i += 2 {
			var s, e int
			var kind string
			if _, err := fmtSscan(v[i], &s, &e, &kind); err != nil {
				t.Errorf("SLICEFAIL %s %s: bad key %q", tag, name, v[i])
				continue
			}
			if e < 0 {
				e = len(full)
			}
			exp := strings.Join(full[s:e], ", ")
			if kind == "E" && w[1] == 1 && e == len(full) && e > s {
				exp += "..."
			}
			if v[i+1] != exp {
				t.Errorf("SLICEFAIL %s %s: ArgCallListSlice%s %s gives %q, expected %q", tag, name, map[string]string{"E": "", "N": "NoEllipsis"}[kind], v[i], v[i+1], exp)
			}
		}
	}
}

func fmtSscan(x string, s, e *int, kind *string) (int, error) {
	f := strings.Fields(x)
	if len(f) != 3 {
		return 0, errBad
	}
	var err error
	if *s, err = atoi(f[0]); err != nil {
		return 0, err
	}
	if *e, err = atoi(f[1]); err != nil {
		return 0, err
	}
	*kind = f[2]
	return 3, nil
}

type badErr struct{}

func (badErr) Error() string { return "bad" }

var errBad = badErr{}

func atoi(x string) (int, error) {
	neg := strings.HasPrefix(x, "-")
	x = strings.TrimPrefix(x, "-")
	if x == "" {
		return 0, errBad
	}
	n := 0
	for _, c := range x {
		if c < '0' || c > '9' {
			return 0, errBad
		}
		n = n*10 + int(c-'0')
	}
	if neg {
		n = -n
	}
	return n, nil
}
"""


def value_run(m, root, oracle):
    """Value-level oracle: one test binary that imports every re-emitted package (in-package and
    separate-package placements) and runs the checks the probe registered in ZZ_Vals."""
    regs = []
    for k, s in enumerate(m["srcs"]):
        for pl in ("in", "out"):
            # (the separate package imports the source package, which contains the in-package re-emission)
            if (s["name"], pl) in oracle or (s["name"], "in") in oracle or not out_path(m, k, root, pl, REEMIT_FILES).exists():
                continue
            regs.append((s["name"], pl, s["path"] if pl == "in" else m["mod"] + "/mocks/" + s["name"]))
    if not regs:
        return {}
    d = root / "zzrun"
    d.mkdir(exist_ok=True)
    src = ["package zzrun\n", "import (\n\t\"strings\"\n\t\"testing\""] + ['\tp%d "%s"' % (j, path) for j, (_, _, path) in enumerate(regs)] + [")\n",
           SLICE_CHECK_GO, "func TestVals(t *testing.T) {"]
    byname = {s["name"]: (k, s) for k, s in enumerate(m["srcs"])}
    for j, (name, pl, _) in enumerate(regs):
        src.append('\tfor k, f := range p%d.ZZ_Vals {\n\t\tif !f() {\n\t\t\tt.Errorf("VALFAIL %s %s %%s", k)\n\t\t}\n\t}' % (j, name, pl))
        # arity and variadic flag of every method, from the SOURCE description
        k0, s0 = byname[name]
        want = []
        for i in selected(s0, pl):
            for mm in method_set(i, known_ifaces(dict(m, **s0))):
                want.append('"%s.%s": {%d, %d}' % (i["name"], mm["n"], len(mm["sig"]["params"]), 1 if mm["sig"]["variadic"] else 0))
        src.append('\tcheckSlices(t, "%s %s", p%d.ZZ_Slices, map[string][2]int{%s})' % (name, pl, j, ", ".join(want)))
    src.append("}\n")
    (d / "run_test.go").write_text("\n".join(src))
    env = dict(os.environ, GOPROXY="off", GOFLAGS="-mod=mod")
    p = run(["go", "test", "-count=1", "-vet=off", "-run", "TestVals", "./zzrun/"], cwd=root, env=env, timeout=900)
    text = (p.stdout + p.stderr).decode(errors="replace")
    res = {}
    for name, pl, what in re.findall(r"SLICEFAIL (\S+) (\S+) (.*)", text):
        res.setdefault((name, pl), []).append("slicing accessor: " + what.strip())
    for name, pl, what in re.findall(r"VALFAIL (\S+) (\S+) (\S+)", text):
        res.setdefault((name, pl), []).append("value level: a variadic call built from Call / ArgCallList / ArgCallListSlice delivered the wrong number of variadic elements to %s" % what)
    if p.returncode != 0 and not res:
        raise RuntimeError("value-level runner failed although every package type-checks:\n" + text[-3000:])
    return res


ASSERT_FILES = {"in": "zz_assert.go", "xt": "zz_assert_x_test.go", "out": "zz_assert.go", "sn": "zz_assert.go"}


def go_check(root):
    """Type-check every package of the module, test packages included (go build for the
    ordinary packages; go list -test -export compiles the test variants without linking).
    Returns {(source package name, placement): [normalised messages]}."""
    env = dict(os.environ, GOPROXY="off", GOFLAGS="-mod=mod")
    lines = []
    p = run(["go", "build", "-gcflags=-e", "./..."], cwd=root, env=env, timeout=900)
    lines += (p.stdout + p.stderr).decode(errors="replace").split("\n")
    # NOTE: with -e the compile errors of (external) test packages are NOT printed on stderr; they are in .Error
    p = run(["go", "list", "-test", "-export", "-e", "-f", "{{if .Error}}{{.Error}}{{end}}", "./..."], cwd=root, env=env, timeout=900)
    lines += (p.stdout + p.stderr).decode(errors="replace").split("\n")
    res = {}
    for e in lines:
        mm = re.match(r"^(?:\./)?((?:mocks2?/)?[^/\s:]+)/([^/\s:]+\.go):\d+:\d+:\s*(.*)$", e.strip())
        if not mm:
            continue
        d, f, msg = mm.groups()
        pl = "out" if d.startswith("mocks/") else "sn" if d.startswith("mocks2/") else ("xt" if f.endswith("_test.go") else "in")
        key = (d.split("/")[-1], pl)
        msg = re.sub(r'"[^"]*/([^"/]+)"\.', r"\1.", msg)
        if msg.strip() == "too many errors":       # the compiler's cut-off notice (go list has no -gcflags=-e), not a finding
            continue
        if msg not in res.setdefault(key, []):
            res[key].append(msg)
    return res


# --------------------------------------------------------------------------------------
# Correspondence run
# --------------------------------------------------------------------------------------
def dump_cases(ctx, m, root, placements=PLACEMENTS):
    """Runs the dump probe; returns (rc, log, {(k, placement): {"obs": [...], "extra": [...], "raw": [(kind, text)]}})."""
    rc, log = run_mockery(ctx, root, config(m, root, PROBES / "c14_dump.templ", DUMP_FILES, placements), "dump")
    res = {}
    batch, where = [], []
    for k, s in enumerate(m["srcs"]):
        for pl in placements:
            if not selected(s, pl):
                continue
            f = out_path(m, k, root, pl, DUMP_FILES)
            if not f.exists():
                res[(k, pl)] = {"missing": True, "obs": [], "extra": [], "raw": []}
                continue
            main, extra = parse_dump(f.read_bytes().decode("utf-8", "surrogateescape"))
            res[(k, pl)] = {"raw": main, "extra": extra, "obs": [None] * len(main)}
            fill_guards(m, k, pl, res[(k, pl)])
            for j, (kind, text) in enumerate(main):
                if kind in ("raw", "guard"):
                    res[(k, pl)]["obs"][j] = text
                else:
                    batch.append((kind, text))
                    where.append((k, pl, j))
    if batch:
        conv = gotype_batch(ctx, [(kd, tx.encode("utf-8", "surrogateescape").decode("utf-8", "replace")) for kd, tx in batch])
        for (k, pl, j), sx in zip(where, conv):
            res[(k, pl)]["obs"][j] = sx
    return rc, log, res


COQ_MODS = "Gen.Alloc Gen.Types Gen.Render Harness.C14"


def coq_strlist(ctx, term, name="show"):
    """Evaluate a Gallina [list str] and return it as a list of Python strings."""
    rc, out, err = coq_eval(ctx, name, "From Mk Require Import Lib.Bytes %s.\nOpen Scope string_scope." % COQ_MODS, "",
                            "Definition R := Eval vm_compute in (map (fun s => String.string_of_list_byte (hex s)) (%s)).\nPrint R." % term)
    if rc != 0:
        raise RuntimeError("coqc failed: " + err[-1500:])
    out = " ".join(out.split())
    body = out[out.index("=") + 1: out.rindex(":")]
    return [bytes.fromhex(h).decode("utf-8", "replace") for h in re.findall(r'"([0-9a-f]*)"', body)]


def explain_mismatch(ctx, term, r):
    """First differing dump entry of one case: index, observed Go text, its S-expression, the model's value."""
    model = coq_strlist(ctx, "model_dump (%s)" % term, name="explain")
    obs = r["obs"]
    for j in range(max(len(model), len(obs))):
        a = model[j] if j < len(model) else "<end of model dump>"
        b = obs[j] if j < len(obs) else "<end of observed dump>"
        if a != b:
            ctxt = [t for _, t in r["raw"][max(0, j - 8):j]]
            return {"index": j, "observed_text": r["raw"][j] if j < len(r["raw"]) else None, "observed": b, "model": a, "preceding": ctxt}
    return None


def reemit(ctx, m, root, placements=PLACEMENTS):
    """Runs the re-emission probe and writes the harness' assertion files."""
    rc, log = run_mockery(ctx, root, config(m, root, PROBES / "c14_reemit.templ", REEMIT_FILES, placements), "reemit")
    for k, s in enumerate(m["srcs"]):
        for pl in placements:
            if selected(s, pl) and out_path(m, k, root, pl, REEMIT_FILES).exists():
                out_path(m, k, root, pl, ASSERT_FILES).write_text(assertion_file(m, k, pl))
    return rc, log


def structure(raw):
    """Positions of the interface / method / variable markers in a dump."""
    ifaces = []
    for j, (kind, text) in enumerate(raw):
        if kind != "raw":
            continue
        if text == "#I":
            ifaces.append({"at": j, "name": raw[j + 1][1], "methods": []})
        elif text == "#M":
            ifaces[-1]["methods"].append({"at": j, "name": raw[j + 1][1], "vars": []})
        elif text in ("#P", "#R"):
            ifaces[-1]["methods"][-1]["vars"].append({"at": j, "name": raw[j + 1][1], "type": raw[j + 3][1]})
    return ifaces


def fill_guards(m, k, pl, r):
    """The harness' own evaluation of the guard capture_free (Gen/Render.v) for every method:
    does an OFFERED name equal an identifier that a type of the same signature uses without
    a qualifier?  Written into the dump at the 'guard' entries; the Coq evaluation of the
    same predicate on the model's data is compared with it like every other entry."""
    s = m["srcs"][k]
    table = known_ifaces(dict(m, **s))
    sigs = {}
    for i in selected(s, pl):
        for mm in method_set(i, table):
            sigs[(i["name"], mm["n"])] = mm["sig"]
    raw = r["raw"]
    gpos = [j for j, (kind, _) in enumerate(raw) if kind == "guard"]
    g = 0
    r["captured"] = []
    for i in structure(raw):
        for mt in i["methods"]:
            sig = sigs.get((i["name"], mt["name"]))
            val = "true"
            if sig is not None:
                idents, inner, atoms = set(), set(), set()
                for p in sig["params"] + sig["results"]:
                    b = bare_idents(p["t"], pl == "in")
                    idents |= b
                    if is_atomic(p["t"]):
                        atoms |= b
                    else:
                        inner |= b
                if any(v["name"] in idents for v in mt["vars"]):
                    val = "false"
                # the known-finding class proper: the identifier occurs ONLY inside composite
                # types (for a type that is a bare identifier the code guarantees the renaming,
                # C14_names, so a capture there is a violation, not a known finding)
                cap = [v["name"] for v in mt["vars"] if v["name"] in inner and v["name"] not in atoms]
                if cap:
                    r["captured"].append((i["name"], mt["name"], cap))
            if g < len(gpos):
                raw[gpos[g]] = ("guard", val)
            g += 1


def extra_checks(m, k, pl, r):
    """Consistency of the remaining fields of the data model (outside the Coq model)."""
    s = m["srcs"][k]
    errs = []
    raw = r["raw"]
    for key, rest, at in r["extra"]:
        if key == "pkgname":
            want = {"in": s["name"], "xt": s["name"] + "_test", "out": "mk", "sn": s["name"]}[pl]
            if rest != want:
                errs.append("PkgName %r, configured %r" % (rest, want))
        elif key == "srcq":
            want = "" if pl == "in" else s["name"] + "."
            if rest != want:
                errs.append("SrcPkgQualifier %r, expected %r" % (rest, want))
        elif key == "var":
            f = rest.split("\t")
            j = max(j for j, (kd, tx) in enumerate(raw[:at]) if kd == "raw" and tx in ("#P", "#R"))
            if f[0] != raw[j + 1][1]:
                errs.append("Var.Name %r differs from Name %r" % (f[0], raw[j + 1][1]))
            if f[1] != raw[j + 3][1]:
                errs.append("Var.TypeString %r differs from TypeString %r" % (f[1], raw[j + 3][1]))
    return errs


# --------------------------------------------------------------------------------------
# The check
# --------------------------------------------------------------------------------------
def corpus_srcs():
    f = VERIF / "corpus" / "C14" / "edge.json"
    out = []
    if f.exists():
        for s in json.loads(f.read_text()):
            out.append({"path": MOD + "/" + s["name"], "name": s["name"], "ifaces": s["ifaces"], "nonascii": s.get("nonascii", False)})
    return out


def witness_module(kind):
    w = json.loads((VERIF / "corpus" / "C14" / "witness.json").read_text())[kind]
    return {"mod": MOD, "ext": gen_pkgs.EXT, "std": gen_pkgs.STD,
            "srcs": [{"path": MOD + "/" + s["name"], "name": s["name"], "ifaces": s["ifaces"], "nonascii": s.get("nonascii", False)} for s in w]}


def process(ctx, m, root, placements=PLACEMENTS, oracle=True):
    """Everything for one module: dump + correspondence cases + re-emission oracle."""
    write_module(m, root)
    p0 = run(["go", "build", "./..."], cwd=root, env=dict(os.environ, GOPROXY="off", GOFLAGS="-mod=mod"), timeout=900)
    if p0.returncode != 0:
        raise RuntimeError("harness bug: the generated module does not compile before mockery runs:\n" + (p0.stdout + p0.stderr).decode(errors="replace")[-3000:])
    rc, log, res = dump_cases(ctx, m, root, placements)
    out = {"rc_dump": rc, "log_dump": log[-2000:], "cases": res, "oracle": {}, "extra": {}}
    for (k, pl), r in res.items():
        if not r.get("missing"):
            e = extra_checks(m, k, pl, r)
            if e:
                out["extra"][(k, pl)] = e
    if oracle:
        rc2, log2 = reemit(ctx, m, root, placements)
        out["rc_reemit"], out["log_reemit"] = rc2, log2[-2000:]
        out["oracle"] = go_check(root)
        for key, msgs in value_run(m, root, out["oracle"]).items():
            out["oracle"].setdefault(key, []).extend(msgs)
        for k, s in enumerate(m["srcs"]):
            for pl in placements:
                if selected(s, pl) and not out_path(m, k, root, pl, REEMIT_FILES).exists():
                    out["oracle"].setdefault((s["name"], pl), []).append("mockery wrote no file for the re-emission probe")
    return out


def sub_module(m, k, iface=None, method=None):
    """m restricted to source package k (optionally one interface / one explicit method)."""
    s = json.loads(json.dumps(m["srcs"][k]))
    if iface is not None:
        s["ifaces"] = [i for i in s["ifaces"] if i["name"] == iface]
        if method is not None:
            for i in s["ifaces"]:
                i["methods"] = [x for x in i["methods"] if x["n"] == method]
                i["embeds"] = []
    mm = dict(m, srcs=[s])
    mark(mm)
    return mm


def shrink_oracle(ctx, m, k, pl, tag):
    """Smallest sub-input (one interface, then one method) on which the oracle still fails."""
    name = m["srcs"][k]["name"]
    best = sub_module(m, k)
    n = [0]

    def fails(mm):
        n[0] += 1
        root = ctx.scratch / ("shr_%s_%d" % (tag, n[0]))
        r = process(ctx, mm, root, placements=(pl,))
        return r["oracle"].get((name, pl))
    for i in m["srcs"][k]["ifaces"]:
        c = sub_module(m, k, i["name"])
        if not selected(c["srcs"][0], pl):
            continue
        e = fails(c)
        if e:
            best = c
            for x in i["methods"]:
                c2 = sub_module(m, k, i["name"], x["n"])
                e2 = fails(c2)
                if e2:
                    return c2, e2
            return best, e
    return best, fails(best)


KNOWN_SYMPTOMS = {
    "C14-name-captures-inner-type": r"is not a type|\(type\) is not an expression|\(variable of type .*\) is not a type",
    "C14-lowercase-type-parameter": r"undefined: [a-z]\w*",
}


def module_stats(m, hist):
    def f(t):
        hist["type:" + t["k"]] = hist.get("type:" + t["k"], 0) + 1
    for s in m["srcs"]:
        table = known_ifaces(dict(m, **s))
        for i in s["ifaces"]:
            hist["interfaces"] = hist.get("interfaces", 0) + 1
            if i["tparams"]:
                hist["generic interfaces"] = hist.get("generic interfaces", 0) + 1
            if i["embeds"]:
                hist["interfaces with embedded interfaces"] = hist.get("interfaces with embedded interfaces", 0) + 1
            if i.get("_unexp"):
                hist["interfaces only rendered in-package (not nameable elsewhere)"] = hist.get("interfaces only rendered in-package (not nameable elsewhere)", 0) + 1
            for mm in method_set(i, table):
                hist["methods"] = hist.get("methods", 0) + 1
                if mm["sig"]["variadic"]:
                    hist["variadic methods"] = hist.get("variadic methods", 0) + 1
                for p in mm["sig"]["params"] + mm["sig"]["results"]:
                    hist["params+results"] = hist.get("params+results", 0) + 1
                    kind = "unnamed" if p["n"] in ("", "_") else "named"
                    hist["names:" + kind] = hist.get("names:" + kind, 0) + 1
                    walk(p["t"], f)


def check(ctx, only=None):
    phase = {}
    t0 = time.time()
    gate = proof_gate(ctx)
    phase["proof_gate (incl. waiting for the shared Coq build lock)"] = round(time.time() - t0, 1)
    t0 = time.time()
    if not ctx.build_tree(drivers=["gotype"]):
        ctx.write_evidence(gate, 0, 0, "build failed", [])
        return
    phase["build mockery + gotype"] = round(time.time() - t0, 1)
    known = {k["id"]: k for k in load_known("C14")}
    hist, samples = {}, []
    evaluations = 0
    nontrivial = set()
    oracle_failed = False
    corr_bad = []

    # ---------------- main stream (+ corpus) ----------------
    if only is not None:
        modules = only
    else:
        nmod, nsrc = (10, 30) if ctx.thorough() else (1, 20)
        modules = []
        for j in range(nmod):
            m = gen_module(ctx.rng, nsrc)
            if j == 0:
                m["srcs"] += corpus_srcs()
            steer(m)
            modules.append(m)
    for j, m in enumerate(modules):
        mark(m)
        module_stats(m, hist)
        root = ctx.scratch / ("mod%d" % j)
        t0 = time.time()
        out = process(ctx, m, root)
        phase["mockery probes + go type checker"] = round(phase.get("mockery probes + go type checker", 0) + time.time() - t0, 1)
        keys = sorted(out["cases"])
        terms = [case_term(m, k, pl, out["cases"][(k, pl)]["obs"]) for k, pl in keys]
        t0 = time.time()
        bad, errs = coq_mismatches(ctx, COQ_MODS, terms, shard=8)
        phase["model evaluation in Coq"] = round(phase.get("model evaluation in Coq", 0) + time.time() - t0, 1)
        evaluations += len(keys) + sum(1 for k, s in enumerate(m["srcs"]) for pl in PLACEMENTS if selected(s, pl))
        for (k, pl) in keys:
            r = out["cases"][(k, pl)]
            hist["files:" + pl] = hist.get("files:" + pl, 0) + 1
            aliased = any(kind == "raw" and j3 > 0 and r["raw"][j3 - 1][0] == "raw" and tx and r["raw"][j3 + 1][1].startswith(tx + " \"")
                          for j3, (kind, tx) in enumerate(r["raw"][:-1]))
            renamed = any(kind == "raw" and re.fullmatch(r"[A-Za-z_]\w*?\d+", tx or "") for kind, tx in r["raw"])
            if aliased or renamed:
                nontrivial.add(hashlib.sha256("\n".join(map(str, r["obs"])).encode("utf-8", "replace")).hexdigest())
            if aliased:
                hist["files with an aliased import"] = hist.get("files with an aliased import", 0) + 1
            if r.get("captured"):
                hist["files inside class C14-name-captures-inner-type (main stream)"] = hist.get("files inside class C14-name-captures-inner-type (main stream)", 0) + 1
        if len(samples) < 2 and keys:
            k0, pl0 = keys[0]
            samples.append({"package": m["srcs"][k0]["name"], "placement": pl0, "dump_head": [t for _, t in out["cases"][(k0, pl0)]["raw"][:40]]})
        # ---- oracle failures
        byname = {s["name"]: k for k, s in enumerate(m["srcs"])}
        reported = 0
        for (name, pl), msgs in sorted(out["oracle"].items()):
            if name not in byname:
                continue
            k = byname[name]
            r = out["cases"].get((k, pl), {})
            text = "\n".join(msgs)
            if (r.get("captured") and "C14-name-captures-inner-type" in known
                    and all(re.search(known["C14-name-captures-inner-type"]["symptom"], x) and any(c in x for _, _, cs in r["captured"] for c in cs) for x in msgs)):
                ctx.known("C14-name-captures-inner-type: %s/%s %s: %s" % (name, pl, r["captured"][:2], msgs[0][:120]))
                continue
            oracle_failed = True
            if reported >= 2:
                continue
            reported += 1
            small, e = shrink_oracle(ctx, m, k, pl, "m%d_%s_%s" % (j, name, pl))
            rp = ctx.write_replay("oracle-%s-%s" % (name, pl), {
                "what": "the Go type checker rejects the source re-emitted from the template data model (or its mutual assignability with the source interface)",
                "messages": (e or msgs)[:12], "placement": pl, "module": small, "full_package_messages": msgs[:12]})
            ctx.violation(rp)
        for (k, pl), e in sorted(out["extra"].items())[:2]:
            oracle_failed = True
            rp = ctx.write_replay("datamodel-%s-%s" % (m["srcs"][k]["name"], pl), {"what": e[:10], "placement": pl, "module": sub_module(m, k)})
            ctx.violation(rp)
        if out["rc_dump"] != 0 or out.get("rc_reemit", 0) != 0:
            oracle_failed = True
            rp = ctx.write_replay("mockery-failed-%d" % j, {"what": "mockery exited with an error on a probe template", "dump_log": out["log_dump"], "reemit_log": out.get("log_reemit"), "module": m})
            ctx.violation(rp)
        # ---- correspondence
        for i in bad:
            corr_bad.append((j, keys[i], terms[i], out["cases"][keys[i]]))
        for e in errs:
            corr_bad.append((j, None, None, {"coq_error": e}))

    # ---------------- witness streams of the known findings ----------------
    if only is None:
        for kind, kid in (("capture", "C14-name-captures-inner-type"), ("lower", "C14-lowercase-type-parameter")):
            w = witness_module(kind)
            mark(w)
            out = process(ctx, w, ctx.scratch / ("wit_" + kind), placements=("in",))
            evaluations += 2
            msgs = [x for v in out["oracle"].values() for x in v]
            keys = sorted(out["cases"])
            terms = [case_term(w, k, pl, out["cases"][(k, pl)]["obs"]) for k, pl in keys]
            bad, errs = coq_mismatches(ctx, COQ_MODS, terms, shard=8)
            for i in bad:
                corr_bad.append(("witness-" + kind, keys[i], terms[i], out["cases"][keys[i]]))
            hit = [x for x in msgs if re.search(KNOWN_SYMPTOMS[kid], x)]
            if kid in known and hit and re.search(known[kid]["symptom"], "\n".join(msgs)):
                ctx.known("%s: witness %s: %s" % (kid, w["srcs"][0]["ifaces"][0]["name"], hit[0][:140]))
            else:
                rp = ctx.write_replay("known-finding-changed-" + kind, {
                    "what": "the witness of known finding %s no longer shows the listed symptom (fixed? then move the entry to 'fixed' and drop the guard)" % kid,
                    "observed_messages": msgs[:10], "module": w, "obligation": "known/C14.json entry " + kid})
                ctx.violation(rp, nofail=True)

    # ---------------- out-of-range slicing: the model says the Go slice expression panics ----------------
    if only is None:
        w = witness_module("lower")            # Low[t any].M(x t): one parameter
        mark(w)
        for start, end in ((2, 1), (0, 3), (2, -1)):
            root = ctx.scratch / ("oob_%d_%d" % (start, end if end >= 0 else 99))
            write_module(w, root)
            tp = root / "oob.templ"
            tp.write_text("{{ range .Interfaces }}{{ range .Methods }}[{{ .ArgCallListSlice %d %d }}]{{ end }}{{ end }}\n" % (start, end))
            rc, log = run_mockery(ctx, root, config(w, root, tp, DUMP_FILES, ("in",)), "oob")
            evaluations += 1
            n, e2 = 1, (1 if end < 0 else end)
            model_panics = not (start <= e2 <= n)          # C14_slices: None exactly out of range
            impl_fails = rc != 0 and "slice bounds out of range" in log
            if model_panics != impl_fails:
                rp = ctx.write_replay("slice-out-of-range-%d-%d" % (start, end), {
                    "what": "ArgCallListSlice %d %d on a method with one parameter: model (C14_slices) says %s, mockery %s" % (
                        start, end, "panic => failed render" if model_panics else "a list", "failed with a slice-bounds panic" if impl_fails else "rendered %r (rc %d)" % (log[-300:], rc)),
                    "obligation": "correspondence: arg_call_list_slice = None out of range", "module": w,
                    "template": tp.read_text(), "rendered": (out_path(w, 0, root, "in", DUMP_FILES).read_text() if out_path(w, 0, root, "in", DUMP_FILES).exists() else None)})
                ctx.violation(rp, nofail=True)

    # ---------------- verdicts for proofs / correspondence ----------------
    if not gate["ok"] and not oracle_failed:
        ctx.violation(gate["replay"], nofail=True)
    if corr_bad:
        detail = []
        for j, key, term, r in corr_bad[:3]:
            if term is None:
                detail.append(r)
                continue
            try:
                ex = explain_mismatch(ctx, term, r)
            except Exception as e:      # noqa
                ex = {"error": str(e)[-800:]}
            mm = modules[j] if isinstance(j, int) else witness_module(j.split("-")[1])
            mark(mm)
            detail.append({"package": mm["srcs"][key[0]]["name"], "placement": key[1], "first_difference": ex, "module": sub_module(mm, key[0])})
        rp = ctx.write_replay("correspondence", {
            "what": "the model Gen/Render.v and the implementation disagree on the template data of %d file(s)" % len(corr_bad),
            "obligation": "correspondence Harness/C14.v check_case (every accessor of the data model, as S-expressions)",
            "examples": detail})
        ctx.violation(rp, nofail=not oracle_failed)

    ctx.write_evidence(gate, evaluations, len(nontrivial),
                       "one evaluation = one output file's complete data-model dump compared with the model (every accessor of every method/parameter) or one package x placement type-checked by the re-emission oracle; non-trivial = the file has an aliased import or a name changed by collision resolution; distinct by hash of the dump",
                       samples,
                       extra={"input_histogram": dict(hist, **{"generator: dense multi-mention types": GEN_STATS.get("dense", 0), "generator: methods with a name tuple X, X1": GEN_STATS.get("tuples", 0), "generator: wide methods (3-10 long-named parameters)": GEN_STATS.get("wide", 0), "generator: methods with a result that implements error without being error": GEN_STATS.get("errlike", 0), "generator: variadic methods with slice / map-of-slice results": GEN_STATS.get("slice_results", 0), "generator: methods with declared names _<keyword> / _<digit> / _<other name>": GEN_STATS.get("underscore", 0)}), "model_mismatches": len(corr_bad), "oracle_failed": oracle_failed,
                              "mockery_runs": 2 * len(modules) + (7 if only is None else 0), "phase_seconds": phase},
                       assumptions=["go/types method-set completion and method order are recomputed by the harness (exported names by name, then unexported) and are inputs of the model",
                                    "go/parser (harness/go/gotype) is trusted to read Go type expressions; identifier visibility (exported/unexported across packages) is not modelled: interfaces that cannot be named from another package are rendered in-package only",
                                    "template_funcs.Exported is a parameter of the model (property C16); the harness instantiates it for ASCII names",
                                    "the model describes the tree with fixes c14-varname-first-rune, c14-variadic-underlying, c14-tparam-names-visible applied"])


def replay(ctx, path):
    d = json.loads(open(path).read())
    mods = []
    if "module" in d:
        mods.append(d["module"])
    for e in d.get("examples", []):
        if "module" in e:
            mods.append(e["module"])
    check(ctx, only=mods)
