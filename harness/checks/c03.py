"""C03 - testify-style mocks route arguments, callbacks and return values faithfully.

Pipeline per generated Go module: interfaces (harness/gen_pkgs.py + corpus/C03/edge.json) ->
real mockery `template: testify` (goimports; one mock per interface and unroll-variadic
setting) -> harness/go/drv_testify linked with the fresh mocks replays seeded histories ->
observations are (i) judged by a model-free oracle that evaluates the property text and
(ii) compared inside Coq with Mock/Testify.v (Harness/C03.v check_case)."""
import json, random, re, shutil, zlib
from common import *
import gen_pkgs

HARNESS = "Mock.Testify Harness.C03"
MOD = gen_pkgs.MOD
QUIRK = {1, 2}          # string tokens "mock.Anything" / "(Missing)"
MAXTOK = 5


# --------------------------------------------------------------------------- modules
def edge_module():
    d = json.loads((VERIF / "corpus" / "C03" / "edge.json").read_text())
    return {"mod": MOD, "src": {"path": MOD + "/src", "name": "src"}, "ifaces": d["ifaces"],
            "ext": gen_pkgs.EXT, "std": gen_pkgs.STD, "nonascii": False}


# ---- replace-type slice: the signature a mock REALLY has is the one after replace-type; nillability
# (nil guards of results and of typed Run arguments) must follow the replaced type.
KINDS_SRC = """
type ID int
type Rec struct{ N int }
type Flag bool
type Label string
type Failer interface{ Error() string }
type Opaque interface{ hidden() }
type ClientPtr *Client
type Names []string
type Hook func(int) error
type Table map[string]int
"""
KIND_NILLABLE = {"ID": False, "Rec": False, "Flag": False, "Label": False, "Failer": True, "Opaque": True,
                 "ClientPtr": True, "Names": True, "Hook": True, "Table": True}


def repl_module(rng):
    """Interfaces over named types of ext/http; every mock (configs entry) replaces some of them by
    named types of ext3/http0 (and one package-level replacement), mostly changing nillability."""
    ext = [e for e in gen_pkgs.EXT if e["name"] in ("http", "http0")]
    src_pkg, dst_pkg, dst2_pkg = ext[0]["path"], ext[2]["path"], ext[1]["path"]
    kinds = sorted(KIND_NILLABLE)
    def nt(n):
        return gen_pkgs.named(src_pkg, n)
    ifaces = []
    for name in ("ReplA", "ReplB", "ReplC"):
        ms = []
        for mn in rng.sample(["Do", "Get", "Put", "List", "Apply"], rng.randint(2, 4)):
            ps = [{"n": "p%d" % j, "t": nt(rng.choice(kinds)) if rng.random() < 0.8 else gen_pkgs.basic(rng.choice(["int", "string", "error"]))}
                  for j in range(rng.randint(0, 3))]
            variadic = bool(ps) and rng.random() < 0.3
            if variadic:
                ps[-1] = {"n": ps[-1]["n"], "t": {"k": "slice", "e": gen_pkgs.basic(rng.choice(["int", "any", "error"]))}}
            rs = [{"n": "", "t": nt(rng.choice(kinds)) if rng.random() < 0.8 else gen_pkgs.basic("error")} for _ in range(rng.choice([1, 1, 2, 2, 3]))]
            ms.append({"n": mn, "sig": {"params": ps, "variadic": variadic, "results": rs}})
        ifaces.append({"name": name, "tparams": [], "methods": ms, "embeds": [], "exported": True})
    specs = []
    for i in ifaces:
        for k in range(rng.randint(2, 3)):
            repl = []
            for n in kinds:
                if n == "Label" or rng.random() < 0.3:
                    continue                                  # Label: package level; some types stay as declared
                cands = [t for t in kinds if KIND_NILLABLE[t] != KIND_NILLABLE[n]] if rng.random() < 0.75 else kinds
                repl.append([src_pkg, n, rng.choice([dst_pkg, dst_pkg, dst2_pkg]), rng.choice(cands)])
            specs.append({"struct": "Mock%sR%d" % (i["name"], k), "iface_name": i["name"], "unroll": rng.choice([None, True, False]), "replace": repl})
    extra = {}
    for e in ext:
        extra[e["path"][len(MOD) + 1:] + "/kinds.go"] = "package %s\n%s" % (e["name"], KINDS_SRC)
    return {"mod": MOD, "src": {"path": MOD + "/src", "name": "src"}, "ifaces": ifaces, "ext": ext, "std": gen_pkgs.STD, "nonascii": False,
            "extra_files": extra, "repl_specs": specs, "pkg_replace": [[src_pkg, "Label", dst_pkg, rng.choice(["Names", "Failer", "Table"])]]}


def gen_module(rng, generic):
    # ext5/mock collides with the template's hard-wired `mock` import and []unsafe.Pointer results get an
    # invalid generated name: both are compile-level defects outside C03 (C01), kept out of this generator
    g = gen_pkgs.Gen(rng, pools=("ordinary", "case", "qualifier"), allow_generic=generic, allow_unsafe=False,
                     n_ifaces=(5, 8), n_methods=(1, 5), ext=[e for e in gen_pkgs.EXT if e["name"] != "mock"])
    return g.module()


def inst_type(c):
    """A concrete type expression (as written in drv/reg.go) satisfying a constraint, or None."""
    k = c["k"]
    if k == "basic":
        return "string"
    if k == "named":
        if c["n"] == "comparable":
            return "int"
        if c["n"] == "Num":
            return "int"
        if c["pkg"] == "io":
            return "io.Reader"
        return None
    if k == "union":
        return c["terms"][0]["t"]["n"]
    return None


def ctor_name(struct):
    return ("new" if struct[0].islower() else "New") + struct[0].upper() + struct[1:]


T_, F_, U_, O_ = "true", "false", "unset", "unset-other-key"
# settings of the mocks that share ONE output file.  U = template-data absent at every level,
# O = template-data present without the key.  [T,U] and [U,T] together guarantee, whatever order
# mockery renders the mocks of a file in, a file in which an unset mock follows an unrolled one.
PATTERNS = [[T_, U_], [U_, T_], [T_, U_, T_], [U_, U_, T_], [F_, T_, U_], [T_, F_, U_], [T_, O_], [O_, T_], [T_, O_, T_], [F_, T_, O_, T_]]


def mock_specs(m, explicit_false=False, groups=True):
    """One dict per mock: struct name, interface, unroll-variadic setting (True / False / None = unset),
    tdata ('none' | 'other' for unset mocks), output file stem, instantiation.
    Regular mocks have a file of their own; group mocks share a file with 1-3 others whose
    settings differ (state leaking from one mock of a file to the next must be visible)."""
    if m.get("repl_specs"):
        byname = {i["name"]: i for i in m["ifaces"]}
        return [{"struct": r["struct"], "iface": byname[r["iface_name"]], "unroll": r["unroll"], "tdata": "none", "file": r["struct"],
                 "inst": "", "group": None, "replace": r["replace"]} for r in m["repl_specs"]]
    out, usable = [], []
    for i in m["ifaces"]:
        inst = ""
        if i["tparams"]:
            ts = [inst_type(t["c"]) for t in i["tparams"]]
            if any(t is None for t in ts):
                continue
            inst = "[" + ", ".join(ts) + "]"
        usable.append((i, inst))
        for suffix, unroll in (("", False if explicit_false else None), ("U", True)):
            st = "Mock" + i["name"] + suffix
            out.append({"struct": st, "iface": i, "unroll": unroll, "tdata": "none", "file": st, "inst": inst, "group": None})
    if not groups or not usable:
        return out
    r = random.Random(zlib.crc32(json.dumps(m["ifaces"], sort_keys=True).encode()))
    variadic = [u for u in usable if any(mm["sig"]["variadic"] for mm in u[0]["methods"])]
    plans = []          # (pattern, [iface choices])
    if any(i["name"] == "EdgeRoll" for i, _ in usable):            # corpus module: every pattern, deterministically
        byname = {i["name"]: (i, inst) for i, inst in usable}
        for pat in PATTERNS[:6]:
            plans.append((pat, [byname["EdgeRoll"]] * len(pat)))
        mix = ["EdgeVar0", "EdgeVar2", "EdgeRoll", "EdgeNames", "EdgeNil", "EdgeMisc"]
        for k, pat in enumerate(PATTERNS[6:] + PATTERNS[:2]):
            plans.append((pat, [byname[mix[(k + j) % len(mix)]] for j in range(len(pat))]))
    else:
        for _ in range(2):
            pat = r.choice(PATTERNS)
            pool = variadic if (variadic and r.random() < 0.8) else usable
            plans.append((pat, [r.choice(pool) if r.random() < 0.7 else r.choice(usable) for _ in pat]))
    for g, (pat, choice) in enumerate(plans):
        for k, (setting, (i, inst)) in enumerate(zip(pat, choice)):
            lower = (g + k) % 3 == 1                                # some struct names start in lower case: constructor new...
            st = "%sock%sG%d%s" % ("m" if lower else "M", i["name"], g, "abcd"[k])
            out.append({"struct": st, "iface": i, "unroll": True if setting == T_ else False if setting == F_ else None,
                        "tdata": "other" if setting == O_ else "none", "file": "grp%d" % g, "inst": inst, "group": (g, pat)})
    return out


def replace_lines(repl, indent):
    by = {}
    for fp, fn, tp, tn in repl:
        by.setdefault(fp, []).append((fn, tp, tn))
    out = [indent + "replace-type:"]
    for fp, l in by.items():
        out.append(indent + "  %s:" % fp)
        for fn, tp, tn in l:
            out += [indent + "    %s:" % fn, indent + "      pkg-path: %s" % tp, indent + "      type-name: %s" % tn]
    return out


def write_config(root, specs, pkg_replace=None):
    lines = ["template: testify", "formatter: goimports", "force-file-write: true", 'dir: "{{.InterfaceDir}}"',
             'pkgname: "{{.SrcPackageName}}"', 'filename: "mock_{{.StructName}}.go"', "packages:", "  %s/src:" % MOD]
    if pkg_replace:
        lines += ["    config:"] + replace_lines(pkg_replace, "      ")
    lines.append("    interfaces:")
    by_iface = {}
    for s in specs:
        by_iface.setdefault(s["iface"]["name"], []).append(s)
    for name, ss in by_iface.items():
        lines += ["      %s:" % name, "        configs:"]
        for s in ss:
            lines.append("          - structname: %s" % s["struct"])
            lines.append("            filename: mock_%s.go" % s["file"])
            if s["unroll"] is not None:
                lines += ["            template-data:", "              unroll-variadic: %s" % ("true" if s["unroll"] else "false")]
            elif s["tdata"] == "other":
                lines += ["            template-data:", '              mock-build-tags: ""']
            if s.get("replace"):
                lines += replace_lines(s["replace"], "            ")
    (root / ".mockery.yml").write_text("\n".join(lines) + "\n")


def build_module(ctx, idx, m, explicit_false):
    """Generate mocks with the real mockery, link the driver.  Returns dict with the driver
    binary, the surviving mock specs and the dropped ones (with reasons)."""
    root = ctx.scratch / ("mod%d" % idx)
    gen_pkgs.write_module(m, root)
    for rel, content in (m.get("extra_files") or {}).items():
        (root / rel).write_text(content)
    shutil.copy(REPO / "go.sum", root / "go.sum")
    env = go_env({"GOFLAGS": "-mod=mod"})
    specs = mock_specs(m, explicit_false)
    dropped = []

    def drop_file(stem, stage, error):
        nonlocal specs
        for s in [x for x in specs if x["file"] == stem]:
            dropped.append({"spec": s, "stage": stage, "error": error})
        specs = [x for x in specs if x["file"] != stem]

    # --- mockery (a failing file aborts the run: drop its mocks and run again)
    for _ in range(len(specs) + 1):
        write_config(root, specs, m.get("pkg_replace"))
        p = run([ctx.bins["mockery"]], cwd=root, env=env, timeout=300)
        if p.returncode == 0:
            break
        log = (p.stdout + p.stderr).decode(errors="replace")
        errline = ([l for l in log.splitlines() if " ERR " in l and "file=" in l] or [""])[0]
        mm = re.search(r"file=\S*?mock_(\w+)\.go", errline)
        if not mm or not any(s["file"] == mm.group(1) for s in specs):
            raise RuntimeError("mockery failed without naming a mock file:\n" + log[-1500:])
        err = re.search(r'error="([^"]*)"', errline)
        drop_file(mm.group(1), "mockery", err.group(1) if err else log[-300:])
        for f in (root / "src").glob("mock_*.go"):
            f.unlink()
    # --- registry (inside the package: constructors of lower-case struct names are unexported) + driver
    (root / "drv").mkdir()
    shutil.copy(VERIF / "harness" / "go" / "drv_testify" / "main.go", root / "drv" / "main.go")
    (root / "drv" / "reg.go").write_text('package main\n\nimport src "%s/src"\n\nfunc init() {\n\tfor k, v := range src.VerifCtors {\n\t\tregister(k, v)\n\t}\n}\n' % MOD)
    for _ in range(8):
        imp = 'import io "io"\n\n' if any("io." in s["inst"] for s in specs) else ""
        (root / "src" / "zz_verif_reg.go").write_text(
            "package src\n\n" + imp + "var VerifCtors = map[string]interface{}{\n" +
            "".join('\t"%s": %s%s,\n' % (s["struct"], ctor_name(s["struct"]), s["inst"]) for s in specs) + "}\n")
        p = run(["go", "build", "-o", str(root / "drvbin"), "./drv"], cwd=root, env=env, timeout=900)
        if p.returncode == 0:
            break
        log = p.stderr.decode(errors="replace")
        stems = set(re.findall(r"src/mock_(\w+)\.go:\d+", log))
        undefined = set(re.findall(r"zz_verif_reg\.go:\d+:\d+: undefined: (\w+)", log))
        bad_ctor = [s for s in specs if ctor_name(s["struct"]) in undefined and s["file"] not in stems]
        if not stems and not bad_ctor:
            raise RuntimeError("driver build failed:\n" + log[-2500:])
        for stem in sorted(stems):
            first = [l for l in log.splitlines() if "mock_%s.go" % stem in l][:2]
            drop_file(stem, "compile", " | ".join(first))
            (root / "src" / ("mock_%s.go" % stem)).unlink()
        for s in bad_ctor:
            dropped.append({"spec": s, "stage": "constructor", "error": "undefined: %s (the generated constructor has another name)" % ctor_name(s["struct"])})
        specs = [s for s in specs if s not in bad_ctor]
    else:
        raise RuntimeError("driver build did not converge")
    desc = {}
    if specs:
        p = run([str(root / "drvbin"), "describe"], cwd=root, timeout=120, check=True)
        desc = json.loads(p.stdout)
    return {"root": root, "bin": str(root / "drvbin"), "specs": specs, "dropped": dropped, "desc": desc}


# --------------------------------------------------------------------------- method tables
def is_tparam(t):
    return t["k"] == "tparam"


def method_table(spec, desc):
    """Join the reflection description with the source AST (parameter names, type-parameter positions)."""
    ast = {mm["n"]: mm["sig"] for mm in spec["iface"]["methods"]}
    out = []
    for md in desc:
        sig = ast.get(md["name"])
        ps = []
        for i, d in enumerate(md["params"]):
            d = dict(d)
            n = ""
            tp = False
            if sig and len(sig["params"]) == len(md["params"]):
                n = sig["params"][i]["n"]
                t = sig["params"][i]["t"]
                tp = is_tparam(t)
            d["name"] = n if n and n != "_" else "p%d" % i
            d["nillable"] = d["nilk"] or tp
            ps.append(d)
        names = [p["name"] for p in ps]
        if len(set(names)) != len(names):
            for i, p in enumerate(ps):
                p["name"] = "p%d" % i
        rs = []
        for i, d in enumerate(md["results"]):
            d = dict(d)
            tp = bool(sig and len(sig["results"]) == len(md["results"]) and is_tparam(sig["results"][i]["t"]))
            d["nillable"] = d["nilk"] or tp
            rs.append(d)
        e = None
        if md["variadic"]:
            e = dict(md["elem"])
            tp = bool(sig and sig["params"] and sig["params"][-1]["t"]["k"] == "slice" and is_tparam(sig["params"][-1]["t"]["e"]))
            e["nillable"] = e["nilk"] or tp
        if sig is not None and (len(sig["params"]) != len(md["params"]) or sig["variadic"] != md["variadic"] or len(sig["results"]) != len(md["results"])):
            raise RuntimeError("mock method %s does not have the interface's shape" % md["name"])
        out.append({"name": md["name"], "params": ps, "variadic": md["variadic"], "elem": e, "results": rs,
                    "nfixed": len(ps) - (1 if md["variadic"] else 0)})
    return out


# --------------------------------------------------------------------------- history generation
def tok(rng, d, quirk=0.0):
    cap = min(d["cap"], MAXTOK)
    if cap <= 1 or rng.random() < 0.2:
        return 0
    k = rng.randrange(cap)
    if d["id"] == 0 and k in QUIRK and rng.random() >= quirk:
        k = 3 if cap > 3 else 0
    return k


def gen_expect(rng, mt, unroll, fid, style=None):
    """One expectation: returns step dict (driver form)."""
    m = mt
    args = []
    for d in m["params"][:m["nfixed"]]:
        r = rng.random()
        if d["fn"]:
            args.append({"any": True} if r < 0.93 else {"k": tok(rng, d)})
        elif r < 0.2:
            args.append({"any": True})
        elif r < 0.24:
            args.append({"nil": True})
        else:
            args.append({"k": tok(rng, d)})
    if m["variadic"]:
        e = m["elem"]
        n = rng.choice([0, 0, 1, 1, 2, 3])
        def elem():
            r = rng.random()
            if e["fn"]:
                return {"k": 0}
            return {"k": tok(rng, e)}
        if unroll:
            for _ in range(n):
                r = rng.random()
                args.append({"any": True} if (r < 0.2 or e["fn"]) else {"nil": True} if r < 0.25 else elem())
        else:
            r = rng.random()
            if n > 0 or r < 0.1:
                if r < 0.12:
                    args.append({"any": True})
                else:
                    args.append({"sl": [elem() for _ in range(n)], "nonnil": n == 0})
    nres = len(m["results"])
    styles = ["return", "run+return", "runandreturn", "providers", "none", "run"]
    if style is None:
        style = rng.choices(styles, [5, 3, 4, 3, 0.6, 1.2 if nres == 0 else 0.5])[0]
    setups = []
    def rets():
        return [{"k": tok(rng, d)} for d in m["results"]]
    if style in ("run+return", "run"):
        setups.append({"s": "run", "f": fid()})
    if style in ("return", "run+return"):
        setups.append({"s": "return", "vals": rets()})
    if style == "runandreturn":
        setups.append({"s": "runandreturn", "f": fid(), "rets": rets()})
    if style == "providers":
        vals = []
        r = rng.random()
        if nres >= 2 and r < 0.35:
            vals.append({"prov": "whole", "f": fid(), "rets": rets()})
        elif nres >= 2 and m["variadic"] and not unroll and r < 0.5:
            vals.append({"prov": "legacy", "f": fid(), "rets": rets()})
        else:
            for i, d in enumerate(m["results"]):
                r = rng.random()
                if r < 0.55:
                    vals.append({"prov": "res", "i": i, "f": fid(), "rets": [{"k": tok(rng, d)}]})
                elif r < 0.7 and (d["nillable"] or d["err"]):
                    vals.append({"nil": True})
                elif r < 0.73:
                    vals.append({"nil": True})          # malformed when the result is not nillable: type assertion panic
                else:
                    vals.append({"k": tok(rng, d)})
            if vals and rng.random() < 0.04:
                vals.pop()                      # malformed: too few return values
        setups.append({"s": "rawreturn", "vals": vals})
    r = rng.random()
    if r < 0.45:
        n = rng.choice([1, 1, 1, 2, 2, 3]) if rng.random() < 0.94 else rng.choice([0, -1])
        setups.insert(rng.randrange(len(setups) + 1), {"s": "times", "n": n})
    return {"op": "expect", "m": m["name"], "args": args, "setups": setups}


def call_for(rng, m, unroll, exp):
    """Arguments of a call; with an expectation given, arguments chosen to match it."""
    args = []
    ea = exp["args"] if exp else None
    for i, d in enumerate(m["params"][:m["nfixed"]]):
        if ea is not None and "k" in ea[i] and rng.random() < 0.93:
            args.append({"k": ea[i]["k"]})
        elif ea is not None and ea[i].get("nil") and d["iface"] and rng.random() < 0.9:
            args.append({"k": 0})
        else:
            args.append({"k": tok(rng, d, quirk=0.3)})
    if m["variadic"]:
        e = m["elem"]
        rest = None
        if ea is not None and rng.random() < 0.93:
            tail = ea[m["nfixed"]:]
            if unroll:
                rest = [({"k": x["k"]} if "k" in x else {"k": 0} if (x.get("nil") and e["iface"]) else {"k": tok(rng, e)}) for x in tail]
            elif tail and "sl" in tail[0]:
                rest = [dict(x) for x in tail[0]["sl"]]
            elif tail:
                rest = [{"k": tok(rng, e)} for _ in range(rng.choice([1, 2]))]
            else:
                rest = []
        if rest is None:
            rest = [{"k": tok(rng, e, quirk=0.3)} for _ in range(rng.choice([0, 1, 1, 2, 3]))]
        if e["fn"]:
            rest = [{"k": x["k"]} for x in rest]
        args.append({"sl": rest})
    return {"op": "call", "m": m["name"], "args": args}


def gen_history(rng, spec, table, style=None, prefer_variadic=False):
    unroll = spec["unroll"] is True
    ctor = rng.random() < 0.96
    counter = [0]
    def fid():
        counter[0] += 1
        return counter[0]
    ms = rng.sample(table, min(len(table), rng.choice([1, 1, 2, 3])))
    va = [m for m in table if m["variadic"]]
    if prefer_variadic and va and rng.random() < 0.8 and not any(m["variadic"] for m in ms):
        ms[0] = rng.choice(va)             # mocks sharing a file: the mode of THIS mock is what is being checked
    steps, exps = [], []
    bufs = {}                      # buffer id -> [method, current contents]: caller-owned []interface{} slices
    n = rng.randint(4, 12)
    while len(steps) < n:
        r = rng.random()
        m = rng.choice(ms)
        mine = [e for e in exps if e["m"] == m["name"]]
        if bufs and r < 0.12:
            # the test overwrites one element of a buffer it spread into an earlier EXPECT() call
            b = rng.choice(sorted(bufs))
            bm, cur = bufs[b]
            if cur:
                i = rng.randrange(len(cur))
                v = gen_expect(rng, bm, unroll, fid, "none")["args"][bm["nfixed"]:]
                v = v[0] if v else {"any": True}
                if ("sl" in v) == ("sl" in cur[i]) or not unroll:
                    cur[i] = v
                    steps.append({"op": "mutate", "b": b, "m": bm["name"], "i": i, "v": v})
            continue
        if r < 0.38 or not exps:
            e = gen_expect(rng, m, unroll, fid, style)
            if mine and rng.random() < 0.3:
                e["args"] = json.loads(json.dumps(rng.choice(mine)["args"]))      # same arguments: ordering / shadowing
            snapshot = {"m": e["m"], "args": json.loads(json.dumps(e["args"]))}
            if m["variadic"] and rng.random() < 0.35:
                # EXPECT().M(fixed..., buf...): table-driven tests reuse one buffer for several registrations
                tail = e["args"][m["nfixed"]:]
                same = [b for b in sorted(bufs) if bufs[b][0] is m]
                b = rng.choice(same) if same and rng.random() < 0.6 else len(bufs) + 1
                bufs[b] = [m, json.loads(json.dumps(tail))]
                steps.append({"op": "setbuf", "b": b, "m": m["name"], "args": tail})
                e["args"] = e["args"][:m["nfixed"]]
                e["buf"] = b
            steps.append(e); exps.append(snapshot)
        elif r < 0.93:
            e = rng.choice(mine) if mine and rng.random() < 0.85 else None
            c = call_for(rng, m, unroll, e)
            for _ in range(rng.choice([1, 1, 1, 2, 3])):
                steps.append(json.loads(json.dumps(c)))
        else:
            steps.append({"op": "cleanup"})
    if rng.random() < 0.2:
        steps.insert(rng.randrange(len(steps) + 1), {"op": "terrorf"})     # an unrelated non-fatal t.Errorf of the test
    if rng.random() < 0.85:
        steps.append({"op": "cleanup"})
    return {"mock": spec["struct"], "ctor": ctor, "steps": steps}


# --------------------------------------------------------------------------- Gallina printing
def ty_term(d):
    return "(mkT %d %s %s %s %s %s)" % (d["id"], coq_bool(d["iface"]), coq_bool(d["empty"]), coq_bool(d["fn"]),
                                       coq_bool(d["err"]), coq_bool(d["nillable"]))


def dty_term(d):
    return "(DId %d %s)" % (d["id"], coq_bool(d["fn"]))


def sig_term(m):
    E = ty_term(m["elem"]) if m["variadic"] else "(mkT 0 false false false false false)"
    return "(mkM %s %s %s %s %s)" % (coq_bytes(m["name"].encode()),
                                     coq_list("(mkP %s %s)" % (coq_bytes(p["name"].encode()), ty_term(p)) for p in m["params"]),
                                     coq_bool(m["variadic"]), E, coq_list(ty_term(r) for r in m["results"]))


def val_term(d, k):
    if d["iface"]:
        return "VNil" if k == 0 else "(VTok tok_ty %d)" % k
    return "(VTok %s %d)" % (dty_term(d), k)


def slice_term(m, elems):
    return "(VSlice %s %s)" % (dty_term(m["params"][-1]), coq_list(elems))


def spec_val_term(d, v):
    """expecter / raw Return argument of static type d"""
    if v.get("any"):
        return "VAnything"
    if v.get("nil"):
        return "VNil"
    return val_term(d, v.get("k", 0))


def fn_ty_term(m, variadic, results):
    return "(DFn %s %s %s)" % (coq_list(str(p["id"]) for p in m["params"]), coq_bool(variadic), coq_list(str(r["id"]) for r in results))


def z_term(n):
    return "(%d)%%Z" % n


def tail_term(m, a):
    """an expectation argument in a variadic position"""
    if "sl" in a:
        return slice_term(m, [spec_val_term(m["elem"], x) for x in a["sl"]])
    return spec_val_term(m["elem"], a)


def step_term(step, mi, m, beh):
    if step["op"] == "cleanup":
        return "WOp OCleanup"
    if step["op"] == "terrorf":
        return "WTestErrorf"
    if step["op"] == "setbuf":
        return "WSetBuf %d %s" % (step["b"], coq_list(tail_term(m, a) for a in step["args"]))
    if step["op"] == "mutate":
        return "WMutate %d %d %s" % (step["b"], step["i"], tail_term(m, step["v"]))
    if step["op"] == "call":
        vs = [val_term(d, a.get("k", 0)) for d, a in zip(m["params"][:m["nfixed"]], step["args"])]
        if m["variadic"]:
            vs.append(slice_term(m, [val_term(m["elem"], x.get("k", 0)) for x in step["args"][m["nfixed"]]["sl"]]))
        return "WOp (OCall %d %s)" % (mi, coq_list(vs))
    xs = [spec_val_term(m["params"][i], a) for i, a in enumerate(step["args"][:m["nfixed"]])] + \
         [tail_term(m, a) for a in step["args"][m["nfixed"]:]]
    ss = []
    for su in step["setups"]:
        if su["s"] == "return":
            ss.append("SetReturn %s" % coq_list(val_term(d, v.get("k", 0)) for d, v in zip(m["results"], su["vals"])))
        elif su["s"] == "run":
            ss.append("SetRun %d" % su["f"])
        elif su["s"] == "runandreturn":
            ss.append("SetRunAndReturn %d" % su["f"])
            beh.append((su["f"], [val_term(d, v.get("k", 0)) for d, v in zip(m["results"], su["rets"])]))
        elif su["s"] == "times":
            ss.append("SetTimes %s" % z_term(su["n"]))
        elif su["s"] == "rawreturn":
            vals = []
            for i, v in enumerate(su["vals"]):
                if v.get("prov") == "whole":
                    vals.append("(VTok %s %d)" % (fn_ty_term(m, m["variadic"], m["results"]), v["f"]))
                    beh.append((v["f"], [val_term(d, x.get("k", 0)) for d, x in zip(m["results"], v["rets"])]))
                elif v.get("prov") == "legacy":
                    vals.append("(VTok %s %d)" % (fn_ty_term(m, False, m["results"]), v["f"]))
                    beh.append((v["f"], [val_term(d, x.get("k", 0)) for d, x in zip(m["results"], v["rets"])]))
                elif v.get("prov") == "res":
                    d = m["results"][v["i"]]
                    vals.append("(VTok %s %d)" % (fn_ty_term(m, m["variadic"], [d]), v["f"]))
                    beh.append((v["f"], [val_term(d, v["rets"][0].get("k", 0))]))
                else:
                    vals.append(spec_val_term(m["results"][i], v))
            ss.append("SetReturn %s" % coq_list(vals))
    if "buf" in step:
        return "WExpectBuf %d %s %d %s" % (mi, coq_list(xs), step["buf"], coq_list(ss))
    return "WOp (OExpect %d %s %s)" % (mi, coq_list(xs), coq_list(ss))


BADV = "(VTok (DId 999999 false) 0)"


def dump_term(d, x):
    """observed value of static type d"""
    if x == "nil":
        return "VNil" if d["iface"] else BADV
    if isinstance(x, dict) and "k" in x:
        if d["iface"]:
            return "(VTok tok_ty %d)" % x["k"]
        return "(VTok %s %d)" % (dty_term(d), x["k"])
    if isinstance(x, dict) and "sl" in x and "ty" in x:
        anyd = {"iface": True}
        return "(VSlice (DId %d false) %s)" % (x["ty"], coq_list(dump_term(anyd, y) for y in x["sl"]))
    return BADV


def cb_args_term(m, args):
    out = []
    for i, a in enumerate(args):
        if m["variadic"] and i == len(m["params"]) - 1:
            out.append(slice_term(m, [dump_term(m["elem"], y) for y in a["sl"]]))
        else:
            out.append(dump_term(m["params"][i], a))
    return coq_list(out)


PCLASS = {"typeassert": "PTypeAssert", "getrange": "PGetRange", "errortype": "PErrorType", "onfunc": "POnFunc",
          "failpanic": "PFailNoTest", "runtime": "PRuntime"}
EKIND = {"noexp": "ENoExpectation", "closest": "EClosest", "over": "EOverCalled", "assert": "EAssert"}


def obs_term(o, m):
    evs = []
    for e in o["events"]:
        if e["e"] == "logf":
            evs.append("EvLogf")
        elif e["e"] == "failnow":
            evs.append("EvFailNow")
        elif e["e"] == "errorf":
            evs.append("EvErrorf %s" % EKIND.get(e["kind"], "EAssert"))
        else:
            evs.append("EvCallback %d %s" % (e["f"], cb_args_term(m, e["args"])))
    if o["out"] == "ret":
        out = "Returned %s" % coq_list(dump_term(d, x) for d, x in zip(m["results"], o.get("vals", [])))
    elif o["out"] == "fail":
        out = "TestFailed"
    elif o["out"] == "done":
        out = "Done"
    elif o.get("class") == "noreturn":
        out = "Panicked (PNoReturn %s)" % (coq_bytes(m["name"].encode()) if o.get("names") else '(B "<other name>")')
    else:
        out = "Panicked %s" % PCLASS.get(o.get("class"), "(PNoReturn (B \"<unclassified panic>\"))")
    return "(%s, %s)" % (out, coq_list(evs))


def case_term(h, obs, spec, table):
    idx = {m["name"]: i for i, m in enumerate(table)}
    beh, ops, ob = [], [], []
    for s, o in zip(h["steps"], obs):
        m = table[idx[s["m"]]] if "m" in s else None
        ops.append(step_term(s, idx.get(s.get("m"), 0), m, beh))
        if s["op"] not in ("setbuf", "mutate", "terrorf"):
            ob.append(obs_term(o, m))
    return "mkC %s %s %s %s\n  %s\n  %s" % (coq_list(sig_term(m) for m in table), coq_bool(spec["unroll"] is True), coq_bool(h["ctor"]),
                                       coq_list("(%d, %s)" % (f, coq_list(r)) for f, r in beh), coq_list(ops), coq_list(ob))


# --------------------------------------------------------------------------- oracle (model-free)
def canon_call(m, step):
    """canonical (dump-form) typed arguments of a call"""
    def c(d, k):
        return "nil" if (d["iface"] and k == 0) else {"k": k}
    out = [c(d, a.get("k", 0)) for d, a in zip(m["params"][:m["nfixed"]], step["args"])]
    if m["variadic"]:
        out.append({"sl": [c(m["elem"], x.get("k", 0)) for x in step["args"][m["nfixed"]]["sl"]]})
    return out


def canon_spec(d, v):
    if v.get("any"):
        return "ANY"
    if v.get("nil"):
        return "nil"
    k = v.get("k", 0)
    if d["iface"]:
        return "nil" if k == 0 else {"k": k, "t": 1}
    return {"k": k, "t": d["id"]}


def canon_actual(d, x):
    if x == "nil":
        return "nil"
    return {"k": x["k"], "t": 1 if d["iface"] else d["id"]}


def is_anything(x):
    return x == "ANY" or x == {"k": 1, "t": 0}


def pos_match(e, a):
    return is_anything(e) or is_anything(a) or e == a


def arg_match(exp_list, act_list):
    n = max(len(exp_list), len(act_list))
    miss = {"k": 2, "t": 0}
    for i in range(n):
        e = exp_list[i] if i < len(exp_list) else miss
        a = act_list[i] if i < len(act_list) else miss
        if not pos_match(e, a):
            return False
    return True


def effective_args(steps):
    """per step: the arguments an EXPECT() call really passes (fixed + the buffer's contents at that moment)"""
    bufs, out = {}, []
    for s in steps:
        eff = None
        if s["op"] == "setbuf":
            bufs[s["b"]] = list(s["args"])
        elif s["op"] == "mutate":
            l = list(bufs.get(s["b"], []))
            if s["i"] < len(l):
                l[s["i"]] = s["v"]
            bufs[s["b"]] = l
        elif s["op"] == "expect":
            eff = s["args"] + (bufs.get(s["buf"], []) if "buf" in s else [])
        out.append(eff)
    return out


def oracle(h, obs, spec, table):
    """The property text evaluated on the observed history.  Returns (errors, stats)."""
    errs = []
    stats = {"decided": 0, "unmatched": 0, "callbacks": 0, "noreturn": 0, "unspecified": 0, "cleanup_reported": 0}
    if not h["ctor"]:
        return errs, stats                       # the property speaks about mocks made by the generated constructor
    unroll = spec["unroll"] is True
    by = {m["name"]: m for m in table}
    exps = []
    eff = effective_args(h["steps"])
    for si, (s, o) in enumerate(zip(h["steps"], obs)):
        def bad(msg):
            errs.append("step %d (%s %s): %s" % (si, s["op"], s.get("m", ""), msg))
        for e in o["events"]:
            if e["e"] == "errorf" and e["kind"] == "other":
                bad("unclassified Errorf")
        if o["out"] == "panic" and o.get("class") == "ctor":
            bad("the generated constructor did more than wiring t: %s" % o.get("msg"))
            break
        if o["out"] == "panic" and o.get("class") in ("other", None):
            bad("unclassified panic: %s" % o.get("msg"))
        if s["op"] in ("setbuf", "mutate", "terrorf"):
            if o["out"] != "done":
                bad("writing the caller's buffer / failing the test failed: %s" % o)
            continue
        if s["op"] == "expect":
            m = by[s["m"]]
            fnarg = False
            el = []
            for i, a in enumerate(eff[si]):
                if i < m["nfixed"]:
                    d = m["params"][i]
                    el.append(canon_spec(d, a))
                    fnarg = fnarg or (d["fn"] and "k" in a)
                elif "sl" in a:
                    el.append({"sl": [canon_spec(m["elem"], x) for x in a["sl"]]})
                else:
                    el.append(canon_spec(m["elem"], a))
                    fnarg = fnarg or (m["elem"]["fn"] and "k" in a)
            if fnarg:
                if not (o["out"] == "panic" and o["class"] == "onfunc"):
                    bad("testify must refuse func-kinded expectation arguments")
                continue
            if o["out"] != "done":
                bad("registration did not complete: %s" % o)
                continue
            left = None
            for su in s["setups"]:
                if su["s"] == "times":
                    left = su["n"]
            exps.append({"step": s, "args": el, "left": (None if left in (None, 0) else left), "dead": left is not None and left < 0,
                         "decided": 0, "m": m})
        elif s["op"] == "call":
            m = by[s["m"]]
            typed_args = canon_call(m, s)
            # what testify sees
            act = [canon_actual(d, x) for d, x in zip(m["params"][:m["nfixed"]], typed_args)]
            if m["variadic"]:
                rest = [canon_actual(m["elem"], x) for x in typed_args[-1]["sl"]]
                if unroll:
                    act += rest                               # element-wise
                elif rest:
                    act.append({"sl": rest})                  # one trailing slice, absent when empty
            cbs = [e for e in o["events"] if e["e"] == "cb"]
            stats["callbacks"] += len(cbs)
            for e in cbs:                                      # callbacks receive exactly the arguments of the call
                if e["args"] != typed_args:
                    bad("callback %d received %s, the call's arguments are %s" % (e["f"], e["args"], typed_args))
            ids = [e["f"] for e in cbs]
            if len(set(ids)) != len(ids):
                bad("a callback ran more than once for one call: %s" % ids)
            dec = None
            for e in exps:
                if e["m"] is m and not e["dead"] and arg_match(e["args"], act):
                    dec = e
                    break
            if dec is None:
                stats["unmatched"] += 1
                kinds = [e["e"] for e in o["events"]]
                if o["out"] != "fail" or kinds != ["errorf", "failnow"]:
                    bad("no live matching expectation, but the call did not fail the test: %s" % o)
                continue
            stats["decided"] += 1
            dec["decided"] += 1
            if dec["left"] is not None:
                dec["left"] -= 1
                if dec["left"] == 0:
                    dec["dead"] = True
            # expected behaviour of the deciding expectation
            ret, run_ids, want, unspecified = None, [], None, False
            for su in dec["step"]["setups"]:
                if su["s"] == "return":
                    ret = ("vals", su["vals"])
                elif su["s"] == "rawreturn":
                    ret = ("raw", su["vals"])
                elif su["s"] == "run":
                    run_ids = [su["f"]]
                elif su["s"] == "runandreturn":
                    if m["results"]:
                        ret = ("fn", su)
                    else:
                        run_ids = [su["f"]]
            nres = len(m["results"])
            def cres(vals):
                return ["nil" if (d["iface"] and v.get("k", 0) == 0) else {"k": v.get("k", 0)} for d, v in zip(m["results"], vals)]
            want_cbs = list(run_ids)
            if nres == 0:
                want = []
            elif ret is None or (ret[0] == "raw" and not ret[1]):
                want = "noreturn"
            elif ret[0] == "vals":
                want = cres(ret[1])
            elif ret[0] == "fn":
                want = cres(ret[1]["rets"]); want_cbs.append(ret[1]["f"])
            else:
                vals = ret[1]
                if vals[0].get("prov") in ("whole", "legacy"):
                    want = cres(vals[0]["rets"]); want_cbs.append(vals[0]["f"])
                elif len(vals) != nres:
                    unspecified = True
                else:
                    want = []
                    for d, v in zip(m["results"], vals):
                        if v.get("prov") == "res":
                            want += cres2(d, v["rets"][0]); want_cbs.append(v["f"])
                        elif v.get("nil"):
                            if d["nillable"] or d["err"]:
                                want.append("nil" if d["iface"] else {"k": 0})     # nil for a nillable result
                            else:
                                unspecified = True
                        else:
                            want += cres2(d, v)
            if unspecified:
                stats["unspecified"] += 1
                continue
            if sorted(ids) != sorted(want_cbs):
                bad("callbacks %s ran, expected exactly %s once each" % (ids, want_cbs))
            if want == "noreturn":
                stats["noreturn"] += 1
                if not (o["out"] == "panic" and o.get("class") == "noreturn" and o.get("names")):
                    bad("no return values configured: expected a panic naming the method, got %s" % o)
            elif o["out"] != "ret" or o.get("vals", []) != want:
                bad("returned %s, configured %s" % (o if o["out"] != "ret" else o.get("vals"), want))
        else:
            unmet = [e for e in exps if e["decided"] == 0 or (e["left"] is not None and e["left"] > 0 and not e["dead"])]
            sure = [e for e in unmet if (e["left"] is not None and e["left"] > 0) or not shadowed(e, h, obs, si, by, unroll)]
            reported = any(e["e"] == "errorf" for e in o["events"])
            if sure and not reported:
                bad("unmet expectation(s) not reported at cleanup")
            if not unmet and reported:
                bad("cleanup reported although every expectation was met")
            stats["cleanup_reported"] += int(reported)
    return errs, stats


def cres2(d, v):
    k = v.get("k", 0)
    return ["nil" if (d["iface"] and k == 0) else {"k": k}]


def shadowed(e, h, obs, upto, by, unroll):
    """testify counts an expectation as met when some successful call had matching arguments,
    even if another expectation answered it; the property text does not decide this case."""
    m = e["m"]
    for s, o in list(zip(h["steps"], obs))[:upto]:
        if s["op"] != "call" or s["m"] != m["name"] or o["out"] == "fail":
            continue
        ta = canon_call(m, s)
        act = [canon_actual(d, x) for d, x in zip(m["params"][:m["nfixed"]], ta)]
        if m["variadic"]:
            rest = [canon_actual(m["elem"], x) for x in ta[-1]["sl"]]
            if unroll:
                act += rest
            elif rest:
                act.append({"sl": rest})
        if arg_match(e["args"], act):
            return True
    return False


# --------------------------------------------------------------------------- running
def structs_of(h):
    return [h["mock"]] + h.get("extra", [])


def project(h, ob, k):
    """The history as mock number k of it sees it: its own steps, the steps on the shared t (the test
    failing t, cleanups), and of every cleanup step only what ITS cleanup did on t."""
    steps, obs = [], []
    for s, o in zip(h["steps"], ob):
        if s["op"] == "cleanup":
            seg, cur = [], None
            for e in o["events"]:
                if e["e"] == "cleanup":
                    cur = e["k"]
                elif cur == k:
                    seg.append(e)
            steps.append(s); obs.append(dict(o, events=seg))
        elif s["op"] == "terrorf" or s.get("k", 0) == k:
            steps.append({x: y for x, y in s.items() if x != "k"}); obs.append(o)
    return {"mock": structs_of(h)[k], "ctor": h["ctor"], "steps": steps}, obs


def judge(mod, h, ob):
    """oracle of every mock of the history, each on its own projection"""
    errs, stats = [], {}
    for k, st in enumerate(structs_of(h)):
        spec, table = mod["tables"][st]
        hk, ok = project(h, ob, k)
        e, s2 = oracle(hk, ok, spec, table)
        errs += [("mock %d (%s): " % (k, st) if len(structs_of(h)) > 1 else "") + x for x in e]
        for a, b in s2.items():
            stats[a] = stats.get(a, 0) + b
    return errs, stats


def case_terms(mod, h, ob):
    out = []
    for k, st in enumerate(structs_of(h)):
        spec, table = mod["tables"][st]
        hk, ok = project(h, ob, k)
        out.append(case_term(hk, ok, spec, table))
    return out


def gen_multi(rng, parts):
    """2-3 mocks constructed on ONE t: their histories interleaved; the cleanups run together."""
    subs = []
    for k, (spec, table) in enumerate(parts):
        st = [dict(x, k=k) for x in gen_history(rng, spec, table)["steps"] if x["op"] != "cleanup"]
        subs.append(st)
    steps = []
    while any(subs):
        k = rng.choice([i for i, x in enumerate(subs) if x])
        steps.append(subs[k].pop(0))
    if rng.random() < 0.3:
        steps.insert(rng.randrange(len(steps) + 1), {"op": "cleanup"})
    if rng.random() < 0.25:
        steps.insert(rng.randrange(len(steps) + 1), {"op": "terrorf"})
    steps.append({"op": "cleanup"})
    return {"mock": parts[0][0]["struct"], "extra": [p[0]["struct"] for p in parts[1:]], "ctor": rng.random() < 0.97, "steps": steps}


def run_histories(mod, hs):
    p = run([mod["bin"], "run"], cwd=mod["root"], inp=json.dumps(hs).encode(), timeout=600)
    if p.returncode != 0:
        raise RuntimeError("drv_testify failed: " + p.stderr.decode(errors="replace")[-2000:])
    res = json.loads(p.stdout)
    for r, h in zip(res, hs):
        if r.get("err"):
            raise RuntimeError("drv_testify: %s on %s" % (r["err"], json.dumps(h)[:600]))
        for o in r["obs"]:
            if o["out"] == "panic" and str(o.get("msg", "")).startswith("driver:"):
                raise RuntimeError("drv_testify: %s on %s" % (o["msg"], json.dumps(h)[:600]))
    return [r["obs"] for r in res]


def symptom_class(msg):
    for needle, cls in (("received", "callback-args"), ("ran more than once", "callback-count"), ("expected exactly", "callback-count"),
                        ("configured", "return"), ("did not fail the test", "unmatched"), ("naming the method", "noreturn"),
                        ("generated constructor", "constructor"), ("cleanup", "cleanup"), ("unclassified", "unclassified"), ("refuse func", "onfunc"), ("registration", "registration")):
        if needle in msg:
            return cls
    return "other"


def owned_class(d):
    """A mock that could not be generated / compiled: is it one of the failures C03 owns (input
    class AND symptom)?  Everything else (name collisions, invalid identifiers, ...) belongs to C01."""
    spec = d["spec"]
    if d["stage"] == "constructor":
        return "the constructor of %s is not %s" % (spec["struct"], ctor_name(spec["struct"]))
    for mm in spec["iface"]["methods"]:
        sg = mm["sig"]
        if sg["variadic"] and spec["unroll"] is True and len(sg["results"]) >= 2 and d["stage"] == "compile" and "non-variadic" in d["error"]:
            return "variadic method %s with %d results, unroll-variadic: true: the whole-function provider call does not compile" % (mm["n"], len(sg["results"]))
        if sg["variadic"] and spec["unroll"] is True and len(sg["results"]) == 0 and d["stage"] == "mockery" and "found _mock" in d["error"]:
            return "variadic method %s without results, unroll-variadic: true: the generated file is not parseable" % mm["n"]
    return None


def shrink_history(mod, spec, table, h, fails):
    steps = list(h["steps"])
    i = 0
    while i < len(steps) and len(steps) > 1:
        cand = dict(h, steps=steps[:i] + steps[i + 1:])
        try:
            ob = run_histories(mod, [cand])[0]
            keep = fails(cand, ob)
        except Exception:
            keep = False
        if keep:
            steps = cand["steps"]
        else:
            i += 1
    return dict(h, steps=steps)


def check(ctx, only=None):
    gate = proof_gate(ctx)
    if not ctx.build_tree():
        ctx.write_evidence(gate, 0, 0, "build failed", [])
        return
    thorough = ctx.thorough()
    n_mod = 40 if thorough else 10
    per_mock = 80 if thorough else 16
    mods = [("edge", edge_module(), False), ("repl", repl_module(random.Random(ctx.rng.getrandbits(64))), False)]
    for i in range(n_mod):
        r = random.Random(ctx.rng.getrandbits(64))
        mods.append(("gen%d" % i, gen_module(r, generic=(i % 3 == 2)), i % 2 == 1))
    if only is not None:
        mods = [(o["module_name"], o["module"], o["explicit_false"]) for o in only]
    seeds = [ctx.rng.getrandbits(64) for _ in mods]

    def do_module(k):
        name, m, explicit_false = mods[k]
        rng = random.Random(seeds[k])
        import time as _t
        t0 = _t.time()
        mod = build_module(ctx, k, m, explicit_false)
        t1 = _t.time()
        mod["name"], mod["module"], mod["explicit_false"] = name, m, explicit_false
        mod["items"] = []           # (spec, table, history); spec/table of the history's first mock
        mod["tables"] = {}
        for spec in mod["specs"]:
            table = method_table(spec, mod["desc"][spec["struct"]])
            if table:
                mod["tables"][spec["struct"]] = (spec, table)
        for spec in mod["specs"]:
            if spec["struct"] not in mod["tables"]:
                continue
            table = mod["tables"][spec["struct"]][1]
            if only is not None:
                hs = [o2 for o in only if o["module_name"] == name for o2 in o["histories"] if o2["mock"] == spec["struct"]]
            else:
                n_h = per_mock * (2 if (name == "edge" and spec["group"] is None) else 2 if name == "repl" else 1)
                hs = [gen_history(rng, spec, table, prefer_variadic=spec["group"] is not None) for _ in range(n_h)]
            for h in hs:
                if all(x in mod["tables"] for x in structs_of(h)):
                    mod["items"].append((spec, table, h))
        if only is None and len(mod["tables"]) >= 2:
            # several mocks constructed on the same t (the later mock's cleanup runs first and may fail t)
            pool = sorted(mod["tables"])
            for _ in range(per_mock * (4 if name == "edge" else 2)):
                parts = [mod["tables"][x] for x in rng.sample(pool, min(len(pool), rng.choice([2, 2, 3])))]
                mod["items"].append((parts[0][0], parts[0][1], gen_multi(rng, parts)))
        mod["obs"] = run_histories(mod, [h for _, _, h in mod["items"]]) if mod["items"] else []
        mod["secs"] = [round(x, 1) for x in (t1 - t0, _t.time() - t1)]
        return mod

    import time as _t
    t_start = _t.time()
    results = pmap(do_module, range(len(mods)), workers=min(JOBS, 8))
    timing = {"modules_s": round(_t.time() - t_start, 1), "per_module_s": [m.get("secs") for m in results]}

    # ---- mocks that could not be generated / compiled
    dropped_other, owned_fail = [], []
    for mod in results:
        for d in mod["dropped"]:
            cls = owned_class(d)
            (owned_fail if cls else dropped_other).append((mod, d, cls))
    for mod, d, cls in owned_fail[:3]:
        rp = ctx.write_replay("nomock-%s-%s" % (mod["name"], d["spec"]["struct"]), {
            "what": "mockery produced no usable mock (%s stage) for an interface in C03's domain: %s" % (d["stage"], cls),
            "error": d["error"], "interface": d["spec"]["iface"], "unroll-variadic": d["spec"]["unroll"],
            "output_file": "mock_%s.go" % d["spec"]["file"], "settings_of_the_mocks_in_that_file": (d["spec"]["group"] or [None, None])[1],
            "module_name": mod["name"], "module": mod["module"], "explicit_false": mod["explicit_false"], "histories": []})
        ctx.violation(rp)

    # ---- oracle + correspondence
    flat = []           # (mod, spec, table, history, obs)
    for mod in results:
        for (spec, table, h), ob in zip(mod["items"], mod["obs"]):
            flat.append((mod, spec, table, h, ob))
    oracle_fail, stats = {}, {}
    for i, (mod, spec, table, h, ob) in enumerate(flat):
        e, st = judge(mod, h, ob)
        for k, v in st.items():
            stats[k] = stats.get(k, 0) + v
        if e:
            oracle_fail[i] = e
    terms, owner = [], []
    for i, (mod, spec, table, h, ob) in enumerate(flat):
        for t in case_terms(mod, h, ob):
            terms.append(t); owner.append(i)
    t_c = _t.time()
    bad, errs = coq_mismatches(ctx, HARNESS, terms, shard=120) if terms else ([], [])
    bad = sorted({owner[j] for j in bad})
    timing["coq_s"] = round(_t.time() - t_c, 1)

    reported = set()
    for i in sorted(oracle_fail):
        mod, spec, table, h, ob = flat[i]
        key = (spec["iface"]["name"], spec["unroll"] is True, spec["group"] is not None, len(structs_of(h)) > 1, symptom_class(oracle_fail[i][0]))
        if key in reported or len(reported) >= 8:
            continue
        reported.add(key)
        cls = key[4]
        small = shrink_history(mod, spec, table, h, lambda hh, oo: any(symptom_class(x) == cls for x in judge(mod, hh, oo)[0]))
        so = run_histories(mod, [small])[0]
        rp = ctx.write_replay("oracle-%s-%s-%d" % (spec["struct"], cls, i), {
            "what": judge(mod, small, so)[0] or oracle_fail[i], "mock": spec["struct"], "mocks_on_the_same_t": structs_of(small), "unroll-variadic": spec["unroll"],
            "template-data": spec["tdata"], "output_file": "mock_%s.go" % spec["file"],
            "settings_of_the_mocks_in_that_file": (spec["group"] or [None, None])[1],
            "interface": spec["iface"], "history": small, "observed": so,
            "module_name": mod["name"], "module": mod["module"], "explicit_false": mod["explicit_false"], "histories": [small]})
        ctx.violation(rp)
    if not gate["ok"] and not oracle_fail and not owned_fail:
        ctx.violation(gate["replay"], nofail=True)
    if (bad or errs) and not oracle_fail and not owned_fail:
        detail = []
        for i in bad[:3]:
            mod, spec, table, h, ob = flat[i]
            def fails(hh, oo):
                b2, e2 = coq_mismatches(ctx, HARNESS, case_terms(mod, hh, oo))
                return bool(b2 or e2)
            small = shrink_history(mod, spec, table, h, fails)
            so = run_histories(mod, [small])[0]
            exp = [coq_show(ctx, HARNESS, "model_obs (%s)" % t, name="show%d" % j) for j, t in enumerate(case_terms(mod, small, so))]
            detail.append({"mock": spec["struct"], "unroll-variadic": spec["unroll"], "interface": spec["iface"], "history": small,
                           "observed": so, "model_expected": exp, "module_name": mod["name"], "module": mod["module"],
                           "explicit_false": mod["explicit_false"], "histories": [small]})
        rp = ctx.write_replay("correspondence", {
            "what": "model Mock/Testify.v and the generated mocks disagree; the model-free oracle found no failing history among %d" % len(flat),
            "obligation": "correspondence Harness/C03.v check_case (outcome and TestingT/callback events of every step)",
            "mismatching_cases": len(bad), "coq_errors": errs, "examples": detail})
        ctx.violation(rp, nofail=True)

    # ---- evidence
    hist = {"mocks": sum(len(m["specs"]) for m in results), "histories": len(flat), "steps": sum(len(h["steps"]) for _, _, _, h, _ in flat),
            "unroll_true": sum(1 for _, s, _, _, _ in flat if s["unroll"] is True), "no_ctor": sum(1 for _, _, _, h, _ in flat if not h["ctor"]),
            "histories_with_several_mocks_on_one_t": sum(1 for _, _, _, h, _ in flat if h.get("extra")),
            "histories_where_the_test_fails_t_itself": sum(1 for _, _, _, h, _ in flat if any(s["op"] == "terrorf" for s in h["steps"])),
            "cleanups_on_an_already_failed_t": 0, "model_cases": len(terms),
            "methods": {}, "position_types": {}, "generic_mocks": 0, "mocks_sharing_a_file": 0, "caller_buffers": {}, "shared_file_settings": {}, "lower_case_structs": 0, "setup_styles": {}, "outcomes": {}, "dropped_not_owned": [{"mock": d["spec"]["struct"], "stage": d["stage"], "error": d["error"][:200]} for _, d, _ in dropped_other][:20],
            "dropped_owned": len(owned_fail)}
    # replace-type slice: how the generated signatures differ from the declared ones
    rt = {"mocks": 0, "positions": {}, "configured_but_not_applied": 0}
    for mod in results:
        if not mod["module"].get("repl_specs"):
            continue
        pkgmap = {(fp, fn): tn for fp, fn, tp, tn in mod["module"].get("pkg_replace", [])}
        for spec in mod["specs"]:
            rt["mocks"] += 1
            want = dict(pkgmap)
            want.update({(fp, fn): tn for fp, fn, tp, tn in spec.get("replace", [])})
            ast = {mm["n"]: mm["sig"] for mm in spec["iface"]["methods"]}
            for md in mod["desc"][spec["struct"]]:
                sg = ast[md["name"]]
                for a, d in list(zip(sg["params"], md["params"])) + list(zip(sg["results"], md["results"])):
                    t = a["t"]
                    if t["k"] != "named" or t["n"] not in KIND_NILLABLE:
                        continue
                    target = want.get((t["pkg"], t["n"]))
                    if target and not d["str"].endswith("." + target):
                        rt["configured_but_not_applied"] += 1
                    k = "%s -> %s" % ("nillable" if KIND_NILLABLE[t["n"]] else "non-nillable", "nillable" if d["nilk"] else "non-nillable")
                    if target:
                        rt["positions"][k] = rt["positions"].get(k, 0) + 1
    seen_m = set()
    for mod, spec, table, h, ob in flat:
        if (mod["name"], spec["struct"]) not in seen_m:
            seen_m.add((mod["name"], spec["struct"]))
            for m in table:
                k = "%s/%dres" % ("variadic" if m["variadic"] else "fixed", min(len(m["results"]), 3))
                hist["methods"][k] = hist["methods"].get(k, 0) + 1
                for d in m["params"] + m["results"] + ([m["elem"]] if m["variadic"] else []):
                    k = "error" if d["err"] else "any" if d["empty"] else "other-interface" if d["iface"] else "func" if d["fn"] else \
                        "nillable-concrete" if d["nillable"] else "bool" if d["cap"] == 2 else "zero-only" if d["cap"] == 1 else "plain"
                    hist["position_types"][k] = hist["position_types"].get(k, 0) + 1
            if spec["inst"]:
                hist["generic_mocks"] += 1
            if spec["group"] is not None:
                hist["mocks_sharing_a_file"] += 1
                k = "%s in %s" % ("true" if spec["unroll"] is True else "false" if spec["unroll"] is False else ("unset" if spec["tdata"] == "none" else "unset-other-key"),
                                  ",".join(spec["group"][1]))
                hist["shared_file_settings"][k] = hist["shared_file_settings"].get(k, 0) + 1
            if spec["struct"][0].islower():
                hist["lower_case_structs"] += 1
        failed = False
        for s, o in zip(h["steps"], ob):
            if s["op"] == "cleanup" and failed and h["ctor"]:
                hist["cleanups_on_an_already_failed_t"] += 1
            failed = failed or s["op"] == "terrorf" or any(e["e"] in ("errorf", "failnow") for e in o["events"])
            if s["op"] in ("setbuf", "mutate") or (s["op"] == "expect" and "buf" in s):
                k = "expect-spreading-buffer" if s["op"] == "expect" else s["op"]
                hist["caller_buffers"][k] = hist["caller_buffers"].get(k, 0) + 1
            if s["op"] == "expect":
                k = "+".join(su["s"] for su in s["setups"]) or "none"
                hist["setup_styles"][k] = hist["setup_styles"].get(k, 0) + 1
            k = o["out"] + ("/" + o["class"] if o["out"] == "panic" else "")
            hist["outcomes"][k] = hist["outcomes"].get(k, 0) + 1
    def nontrivial(h, ob):
        return any(s["op"] == "call" and o["out"] == "ret" and (o["events"] or o.get("vals")) for s, o in zip(h["steps"], ob))
    distinct = len({json.dumps([spec["struct"], h], sort_keys=True) for _, spec, _, h, ob in flat if nontrivial(h, ob)})
    samples = [{"mock": spec["struct"], "history": h, "observed": ob} for _, spec, _, h, ob in flat[:2]]
    ctx.write_evidence(gate, 2 * len(flat), distinct,
                       "seeded histories (4-15 steps: EXPECT registrations in 6 setup styles with Once/Times, calls, cleanups) against freshly generated mocks of generated and hand-picked interfaces, both unroll-variadic settings; every history is judged by the model-free oracle and compared with the model in Coq; non-trivial = at least one call returned values or ran a callback; distinct by (mock, full history)",
                       samples, extra={"input_histogram": hist, "oracle_stats": stats, "model_mismatches": len(bad), "oracle_failures": len(oracle_fail),
                                       "coq_errors": errs[:3], "timing": timing, "replace_type_slice": rt},
                       assumptions=["values are built from small tokens injectively w.r.t. reflect.DeepEqual (driver drv_testify); interface-typed positions hold nil or the driver's token type only",
                                    "user callbacks/providers are functions returning scripted constants",
                                    "testify matchers other than mock.Anything, Maybe/WaitUntil/After/Unset/NotBefore are not exercised"])


def replay(ctx, path):
    d = json.loads(open(path).read())
    items = [d] if "module" in d else d.get("examples", [])
    check(ctx, only=[{"module_name": x["module_name"], "module": x["module"], "explicit_false": x["explicit_false"], "histories": x["histories"]} for x in items])
