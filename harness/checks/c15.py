"""C15 - name and import allocators never collide."""
import json
from common import *

PREFIXES = [b"x", b"x1", b"x10", b"x2", b"http", b"http0", b"http00", b"http1", b"a", b"", b"ret", b"_a0",
            b"\xc3\xa9", b"0", b"1", b"ctx", b"ctx1"]
NAMES = [b"http", b"http0", b"http00", b"http1", b"x", b"x0", b"x1", b"", b"0", b"pkg", b"a", b"\xc3\xa9p"]
PATHS = [b"a/http", b"b/http", b"c/http0", b"d/http", b"e/x", b"f/x", b"dst/pkg", b"net/http", b"z", b"", b"a/http/v2",
         b"A/http", b"a/\xc3\xa9"]
DSTS = [b"dst/pkg", b"a/http", b"other"]


def gen_case(rng, big=False):
    n = rng.randint(10, 60) if not big else rng.randint(60, 200)
    # small alphabets per case force suffix chains
    pre = rng.sample(PREFIXES, rng.randint(1, 4))
    names = rng.sample(NAMES, rng.randint(1, 4))
    paths = rng.sample(PATHS, rng.randint(2, 7))
    dst = rng.choice(DSTS)
    if rng.random() < 0.5 and dst not in paths:
        paths.append(dst)
    ops = []
    # prelude: imports as mockery itself adds them before a method scope exists
    for _ in range(rng.randint(0, 5)):
        ops.append(("AddImport", rng.choice(names), rng.choice(paths)))
    ops.append(("NewScope", b"", b""))
    weights = [("AllocateName", 5), ("SuggestName", 3), ("AddName", 3), ("NameExists", 3), ("AddImport", 4),
               ("Imports", 1), ("PkgQualifier", 2), ("NewScope", 0.3)]
    tot = sum(w for _, w in weights)
    while len(ops) < n:
        r = rng.random() * tot
        for k, w in weights:
            r -= w
            if r <= 0:
                break
        if k in ("AllocateName", "SuggestName"):
            ops.append((k, rng.choice(pre), b""))
        elif k in ("AddName", "NameExists"):
            p = rng.choice(pre)
            if rng.random() < 0.6:
                p = p + str(rng.randint(0, 12)).encode()
            ops.append((k, p, b""))
        elif k == "AddImport":
            ops.append((k, rng.choice(names), rng.choice(paths)))
        elif k == "PkgQualifier":
            ops.append((k, rng.choice(paths), b""))
        else:
            ops.append((k, b"", b""))
    return {"dst": dst, "inpkg": rng.random() < 0.5, "ops": ops}


PURE = {"SuggestName", "NameExists", "Imports", "PkgQualifier"}


def to_json(c):
    return {"dst": hx(c["dst"]), "inpkg": c["inpkg"], "ops": [{"op": o, "a": hx(a), "b": hx(b)} for o, a, b in c["ops"]]}


def run_impl(ctx, cases):
    p = run([ctx.bins["drv_alloc"]], inp=json.dumps([to_json(c) for c in cases]).encode(), timeout=600)
    if p.returncode != 0:
        raise RuntimeError("drv_alloc failed: " + p.stderr.decode(errors="replace")[-2000:])
    return json.loads(p.stdout)


def oracle(c, outs):
    """The property, evaluated directly on the observed trace (no model involved)."""
    errs = []
    if len(outs) != len(c["ops"]) or any(o["k"] == "panic" for o in outs):
        return ["panic or truncated trace: %s" % [o for o in outs if o["k"] == "panic"]]
    visible, quals_now = set(), {}
    path_q = {}
    self_path = c["dst"] if c["inpkg"] else None
    exists_true = set()
    for i, ((op, a, b), o) in enumerate(zip(c["ops"], outs)):
        if op == "NewScope":
            visible = set(quals_now.values()); exists_true = set()
        elif op == "AllocateName":
            n = bytes.fromhex(o.get("a", ""))
            if n in visible:
                errs.append("op %d: AllocateName(%r) returned visible name %r" % (i, a, n))
            visible.add(n)
        elif op == "AddName":
            visible.add(a)
        elif op == "NameExists":
            t = o.get("t", False)
            if a in exists_true and not t:
                errs.append("op %d: NameExists(%r) was true earlier, now false" % (i, a))
            if t:
                exists_true.add(a)
            if t != (a in visible):
                errs.append("op %d: NameExists(%r)=%s but visible-set says %s" % (i, a, t, a in visible))
        elif op == "AddImport":
            pth, q = bytes.fromhex(o.get("a", "")), bytes.fromhex(o.get("b", ""))
            if b == self_path:
                continue
            if pth != b:
                errs.append("op %d: AddImport returned path %r for %r" % (i, pth, b))
            if b in path_q and path_q[b] != q:
                errs.append("op %d: AddImport(%r) qualifier changed %r -> %r" % (i, b, path_q[b], q))
            for p2, q2 in path_q.items():
                if p2 != b and q2 == q:
                    errs.append("op %d: qualifier %r used for both %r and %r" % (i, q, p2, b))
            path_q[b] = q; quals_now[b] = q
        elif op == "Imports":
            l = [(bytes.fromhex(x), bytes.fromhex(y)) for x, y in o.get("l", [])]
            ps = [x for x, _ in l]
            if ps != sorted(ps) or len(set(ps)) != len(ps):
                errs.append("op %d: Imports not sorted/unique by path: %r" % (i, ps))
            if dict(l) != path_q:
                errs.append("op %d: Imports %r differs from qualifiers handed out %r" % (i, l, path_q))
        elif op == "PkgQualifier":
            if o["k"] == "qual":
                if path_q.get(a) != bytes.fromhex(o.get("a", "")):
                    errs.append("op %d: PkgQualifier(%r)=%r but AddImport gave %r" % (i, a, o.get("a"), path_q.get(a)))
            elif a in path_q:
                errs.append("op %d: PkgQualifier(%r) unknown but it was added" % (i, a))
    return errs


def out_term(o):
    k = o["k"]
    g = lambda f: coq_bytes(bytes.fromhex(o.get(f, "")))
    if k == "name": return "OName %s" % g("a")
    if k == "bool": return "OBool %s" % coq_bool(o.get("t", False))
    if k == "unit": return "OUnit"
    if k == "imp": return "OImp %s %s" % (g("a"), g("b"))
    if k == "imports": return "OImports %s" % coq_list("(%s, %s)" % (coq_bytes(bytes.fromhex(x)), coq_bytes(bytes.fromhex(y))) for x, y in o.get("l", []))
    if k == "qual": return "OQual (Some %s)" % g("a")
    if k == "qual_err": return "OQual None"
    return "OName (B \"<panic>\")"


def op_term(op, a, b):
    if op in ("AllocateName", "SuggestName", "AddName", "NameExists", "PkgQualifier"):
        return "%s %s" % (op, coq_bytes(a))
    if op == "AddImport":
        return "AddImport %s %s" % (coq_bytes(a), coq_bytes(b))
    return op


def case_term(c, outs):
    return "{| c_dst := %s; c_inpkg := %s; c_ops := %s; c_obs := %s |}" % (
        coq_bytes(c["dst"]), coq_bool(c["inpkg"]),
        coq_list(op_term(*o) for o in c["ops"]), coq_list(out_term(o) for o in outs))


def describe(c, outs=None):
    d = {"dst": c["dst"].decode(errors="replace"), "inpkg": c["inpkg"],
         "ops": ["%s(%s)" % (o, ",".join(x.decode(errors="replace") for x in (a, b) if x or o in ("AddName", "AllocateName"))) for o, a, b in c["ops"]]}
    if outs is not None:
        d["observed"] = [dict((k, (bytes.fromhex(v).decode(errors="replace") if k in ("a", "b") else v)) for k, v in o.items()) for o in outs]
    return d


def shrink(ctx, c, fails):
    """Greedy op deletion keeping the failure."""
    ops = list(c["ops"])
    i = 0
    while i < len(ops):
        cand = dict(c, ops=ops[:i] + ops[i + 1:])
        outs = run_impl(ctx, [cand])[0]
        if fails(cand, outs):
            ops = cand["ops"]
        else:
            i += 1
    return dict(c, ops=ops)


def corpus():
    f = VERIF / "corpus" / "C15" / "cases.json"
    if not f.exists():
        return []
    return [{"dst": bytes.fromhex(c["dst"]), "inpkg": c["inpkg"], "ops": [(o["op"], bytes.fromhex(o["a"]), bytes.fromhex(o["b"])) for o in c["ops"]]} for c in json.loads(f.read_text())]


def check(ctx, only=None):
    gate = proof_gate(ctx)
    if not ctx.build_tree(drivers=["drv_alloc"]):
        ctx.write_evidence(gate, 0, 0, "build failed", [])
        return
    n = 3000 if ctx.thorough() else 300
    cases = only if only is not None else corpus() + [gen_case(ctx.rng, big=(i % 10 == 0)) for i in range(n)]
    outs = run_impl(ctx, cases)
    # purity: the same histories with all queries deleted must give the same remaining answers
    stripped = [dict(c, ops=[o for o in c["ops"] if o[0] not in PURE]) for c in cases]
    outs_s = run_impl(ctx, stripped)
    oracle_fail = {}
    for i, (c, o) in enumerate(zip(cases, outs)):
        e = oracle(c, o)
        kept = [x for (op, _, _), x in zip(c["ops"], o) if op not in PURE]
        if kept != outs_s[i]:
            e.append("deleting the query calls changed other answers")
        if e:
            oracle_fail[i] = e
    bad, errs = coq_mismatches(ctx, "Gen.Alloc Harness.C15", [case_term(c, o) for c, o in zip(cases, outs)])
    # classification
    for i in sorted(oracle_fail)[:3]:
        def fails(cc, oo):
            return bool(oracle(cc, oo))
        small = shrink(ctx, cases[i], fails) if oracle(cases[i], outs[i]) else cases[i]
        so = run_impl(ctx, [small])[0]
        rp = ctx.write_replay("oracle-%d" % i, {"what": oracle(small, so) or oracle_fail[i], "case": to_json(small), "readable": describe(small, so)})
        ctx.violation(rp)
    if not gate["ok"] and not oracle_fail:
        ctx.violation(gate["replay"], nofail=True)
    if (bad or errs) and not oracle_fail:
        detail = []
        for i in bad[:3]:
            def fails(cc, oo):
                b2, e2 = coq_mismatches(ctx, "Gen.Alloc Harness.C15", [case_term(cc, oo)])
                return bool(b2 or e2)
            small = shrink(ctx, cases[i], fails)
            so = run_impl(ctx, [small])[0]
            exp = coq_show(ctx, "Gen.Alloc Harness.C15", "model_outs (%s)" % case_term(small, so))
            detail.append({"case": to_json(small), "readable": describe(small, so), "model_expected": exp})
        rp = ctx.write_replay("correspondence", {
            "what": "model Gen/Alloc.v and the implementation disagree; the set-based oracle found no failing history among %d" % len(cases),
            "obligation": "correspondence Harness/C15.v check_case (answers of every call, verbatim)",
            "mismatching_cases": len(bad), "coq_errors": errs, "examples": detail})
        ctx.violation(rp, nofail=True)
    # evidence
    def nontrivial(c, o):
        # a history is non-trivial if at least one answer needed a numeric suffix
        for (op, a, b), x in zip(c["ops"], o):
            if op in ("AllocateName", "SuggestName") and x.get("a") != hx(a): return True
            if op == "AddImport" and x.get("b") != hx(a) and x.get("a"): return True
        return False
    distinct = len({json.dumps(to_json(c), sort_keys=True) for c, o in zip(cases, outs) if nontrivial(c, o)})
    hist = {}
    for c in cases:
        for o in c["ops"]:
            hist[o[0]] = hist.get(o[0], 0) + 1
    ctx.write_evidence(gate, 2 * len(cases), distinct,
                       "seeded histories (10-200 calls) over small alphabets that force suffix chains; non-trivial = at least one answer carries a numeric suffix; distinct by full history; every history is also re-run with all query calls deleted",
                       [describe(c, o) for c, o in list(zip(cases, outs))[:2]],
                       extra={"op_histogram": hist, "model_mismatches": len(bad), "oracle_failures": len(oracle_fail),
                              "total_calls": sum(len(c["ops"]) for c in cases)},
                       assumptions=["driver drv_alloc calls template.NewRegistry(nil, dst, inPackage): the source package is not needed by these calls"])


def replay(ctx, path):
    d = json.loads(open(path).read())
    cs = [d["case"]] if "case" in d else [e["case"] for e in d.get("examples", [])]
    cases = [{"dst": bytes.fromhex(c["dst"]), "inpkg": c["inpkg"], "ops": [(o["op"], bytes.fromhex(o["a"]), bytes.fromhex(o["b"])) for o in c["ops"]]} for c in cs]
    check(ctx, only=cases)
