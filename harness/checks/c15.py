"""C15 - name and import allocators never collide."""
import json
from common import *

PREFIXES = [b"x", b"x1", b"x10", b"x2", b"http", b"http0", b"http00", b"http1", b"a", b"", b"ret", b"_a0",
            b"\xc3\xa9", b"0", b"1", b"ctx", b"ctx1",
            # keywords and printed types: AddVar records them too, they are names like any other
            b"type", b"range", b"func", b"[]string", b"map[string]T", b"*T", b"a.b", b"a b"]
NAMES = [b"http", b"http0", b"http00", b"http1", b"x", b"x0", b"x1", b"", b"0", b"pkg", b"a", b"\xc3\xa9p"]
PATHS = [b"a/http", b"b/http", b"c/http0", b"d/http", b"e/x", b"f/x", b"dst/pkg", b"net/http", b"z", b"", b"a/http/v2",
         b"A/http", b"a/\xc3\xa9"]
DSTS = [b"dst/pkg", b"a/http", b"other"]
# path pairs that a normalising refactoring could confuse: vendor form vs plain form, case, trailing slash, prefixes
LOOKALIKE = [(b"github.com/foo/bar", b"example.com/app/vendor/github.com/foo/bar"), (b"x/y", b"vendor/x/y"),
             (b"a/http", b"a/http/"), (b"a/http", b"./a/http"), (b"e/x", b"E/x"), (b"net/http", b"net/http/httptest"),
             (b"k8s.io/api/core/v1", b"k8s.io/api/apps/v1"), (b"a/b", b"a/b/internal/b")]


def gen_case(rng, big=False):
    n = rng.randint(10, 60) if not big else rng.randint(60, 200)
    # small alphabets per case force suffix chains
    pre = rng.sample(PREFIXES, rng.randint(1, 4))
    names = rng.sample(NAMES, rng.randint(1, 4))
    paths = rng.sample(PATHS, rng.randint(2, 7))
    dst = rng.choice(DSTS)
    if rng.random() < 0.5 and dst not in paths:
        paths.append(dst)
    if rng.random() < 0.4:
        for q in rng.choice(LOOKALIKE):
            if q not in paths:
                paths.append(q)
        names = names + [b"bar", b"v1", b"y", b"b"][: rng.randint(1, 3)]
    ops = []
    # prelude: imports as mockery itself adds them before a method scope exists
    for _ in range(rng.randint(0, 5)):
        ops.append(("AddImport", rng.choice(names), rng.choice(paths)))
    ops.append(("NewScope", b"", b""))
    weights = [("AllocateName", 5), ("SuggestName", 3), ("AddName", 3), ("NameExists", 3), ("AddImport", 4),
               ("Imports", 1), ("PkgQualifier", 2), ("NewScope", 0.3)]
    tot = sum(w for _, w in weights)
    while len(ops) < n:
        r = rng.random() * tot
        for k, w in weights:
            r -= w
            if r <= 0:
                break
        if k in ("AllocateName", "SuggestName"):
            ops.append((k, rng.choice(pre), b""))
        elif k in ("AddName", "NameExists"):
            p = rng.choice(pre)
            if rng.random() < 0.6:
                p = p + str(rng.randint(0, 12)).encode()
            ops.append((k, p, b""))
        elif k == "AddImport":
            ops.append((k, rng.choice(names), rng.choice(paths)))
        elif k == "PkgQualifier":
            ops.append((k, rng.choice(paths), b""))
        else:
            ops.append((k, b"", b""))
    return {"dst": dst, "inpkg": rng.random() < 0.5, "ops": ops}


PURE = {"SuggestName", "NameExists", "Imports", "PkgQualifier"}


def to_json(c):
    return {"dst": hx(c["dst"]), "inpkg": c["inpkg"], "ops": [{"op": o, "a": hx(a), "b": hx(b)} for o, a, b in c["ops"]]}


def run_impl(ctx, cases):
    p = run([ctx.bins["drv_alloc"]], inp=json.dumps([to_json(c) for c in cases]).encode(), timeout=600)
    if p.returncode != 0:
        raise RuntimeError("drv_alloc failed: " + p.stderr.decode(errors="replace")[-2000:])
    return json.loads(p.stdout)


def oracle(c, outs):
    """The property, evaluated directly on the observed trace (no model involved)."""
    errs = []
    if len(outs) != len(c["ops"]) or any(o["k"] == "panic" for o in outs):
        return ["panic or truncated trace: %s" % [o for o in outs if o["k"] == "panic"]]
    visible, quals_now = set(), {}
    path_q = {}
    self_path = c["dst"] if c["inpkg"] else None
    exists_true = set()
    for i, ((op, a, b), o) in enumerate(zip(c["ops"], outs)):
        if op == "NewScope":
            visible = set(quals_now.values()); exists_true = set()
        elif op == "AllocateName":
            n = bytes.fromhex(o.get("a", ""))
            if n in visible:
                errs.append("op %d: AllocateName(%r) returned visible name %r" % (i, a, n))
            visible.add(n)
        elif op == "AddName":
            visible.add(a)
        elif op == "NameExists":
            t = o.get("t", False)
            if a in exists_true and not t:
                errs.append("op %d: NameExists(%r) was true earlier, now false" % (i, a))
            if t:
                exists_true.add(a)
            if t != (a in visible):
                errs.append("op %d: NameExists(%r)=%s but visible-set says %s" % (i, a, t, a in visible))
        elif op == "AddImport":
            pth, q = bytes.fromhex(o.get("a", "")), bytes.fromhex(o.get("b", ""))
            if b == self_path:
                continue
            if pth != b:
                errs.append("op %d: AddImport returned path %r for %r" % (i, pth, b))
            if b in path_q and path_q[b] != q:
                errs.append("op %d: AddImport(%r) qualifier changed %r -> %r" % (i, b, path_q[b], q))
            for p2, q2 in path_q.items():
                if p2 != b and q2 == q:
                    errs.append("op %d: qualifier %r used for both %r and %r" % (i, q, p2, b))
            path_q[b] = q; quals_now[b] = q
        elif op == "Imports":
            l = [(bytes.fromhex(x), bytes.fromhex(y)) for x, y in o.get("l", [])]
            ps = [x for x, _ in l]
            if ps != sorted(ps) or len(set(ps)) != len(ps):
                errs.append("op %d: Imports not sorted/unique by path: %r" % (i, ps))
            if dict(l) != path_q:
                errs.append("op %d: Imports %r differs from qualifiers handed out %r" % (i, l, path_q))
        elif op == "PkgQualifier":
            if o["k"] == "qual":
                if path_q.get(a) != bytes.fromhex(o.get("a", "")):
                    errs.append("op %d: PkgQualifier(%r)=%r but AddImport gave %r" % (i, a, o.get("a"), path_q.get(a)))
            elif a in path_q:
                errs.append("op %d: PkgQualifier(%r) unknown but it was added" % (i, a))
    return errs


def out_term(o):
    k = o["k"]
    g = lambda f: coq_bytes(bytes.fromhex(o.get(f, "")))
    if k == "name": return "OName %s" % g("a")
    if k == "bool": return "OBool %s" % coq_bool(o.get("t", False))
    if k == "unit": return "OUnit"
    if k == "imp": return "OImp %s %s" % (g("a"), g("b"))
    if k == "imports": return "OImports %s" % coq_list("(%s, %s)" % (coq_bytes(bytes.fromhex(x)), coq_bytes(bytes.fromhex(y))) for x, y in o.get("l", []))
    if k == "qual": return "OQual (Some %s)" % g("a")
    if k == "qual_err": return "OQual None"
    return "OName (B \"<panic>\")"


def op_term(op, a, b):
    if op in ("AllocateName", "SuggestName", "AddName", "NameExists", "PkgQualifier"):
        return "%s %s" % (op, coq_bytes(a))
    if op == "AddImport":
        return "AddImport %s %s" % (coq_bytes(a), coq_bytes(b))
    return op


def case_term(c, outs):
    return "{| c_dst := %s; c_inpkg := %s; c_ops := %s; c_obs := %s |}" % (
        coq_bytes(c["dst"]), coq_bool(c["inpkg"]),
        coq_list(op_term(*o) for o in c["ops"]), coq_list(out_term(o) for o in outs))


def describe(c, outs=None):
    d = {"dst": c["dst"].decode(errors="replace"), "inpkg": c["inpkg"],
         "ops": ["%s(%s)" % (o, ",".join(x.decode(errors="replace") for x in (a, b) if x or o in ("AddName", "AllocateName"))) for o, a, b in c["ops"]]}
    if outs is not None:
        d["observed"] = [dict((k, (bytes.fromhex(v).decode(errors="replace") if k in ("a", "b") else v)) for k, v in o.items()) for o in outs]
    return d


def shrink(ctx, c, fails):
    """Greedy op deletion keeping the failure."""
    ops = list(c["ops"])
    i = 0
    while i < len(ops):
        cand = dict(c, ops=ops[:i] + ops[i + 1:])
        outs = run_impl(ctx, [cand])[0]
        if fails(cand, outs):
            ops = cand["ops"]
        else:
            i += 1
    return dict(c, ops=ops)


def corpus():
    f = VERIF / "corpus" / "C15" / "cases.json"
    if not f.exists():
        return []
    return [{"dst": bytes.fromhex(c["dst"]), "inpkg": c["inpkg"], "ops": [(o["op"], bytes.fromhex(o["a"]), bytes.fromhex(o["b"])) for o in c["ops"]]} for c in json.loads(f.read_text())]


# ---------------------------------------------------------------------------------------
# probe stream: the same calls made from inside a custom template run by the real binary,
# on the registry / method scope of a real method of a generated package
# ---------------------------------------------------------------------------------------
def go_lit(b):
    return '"' + "".join(chr(c) if 32 <= c < 127 and c not in (34, 92) else "\\x%02x" % c for c in b) + '"'


def probe_template(target_iface, target_method, ops, ex_names):
    L = ["package {{.PkgName}}", "{{- range $i, $iface := .Interfaces}}{{range $j, $m := $iface.Methods}}",
         '{{- if and (eq $iface.Name %s) (eq $m.Name %s)}}' % (go_lit(target_iface.encode()), go_lit(target_method.encode())),
         "// @START",
         "{{- range $.Registry.Imports}}", '// @IMP {{printf "%x" .Path}} {{printf "%x" .Qualifier}}', "{{- end}}"]
    for n in ex_names:
        L.append('// @EX %s {{$m.Scope.NameExists %s}}' % (n.hex() or "-", go_lit(n)))
    for k, (op, a, b) in enumerate(ops):
        if op in ("AllocateName", "SuggestName"):
            L.append('// @OP %d name {{printf "%%x" ($m.Scope.%s %s)}}' % (k, op, go_lit(a)))
        elif op == "NameExists":
            L.append('// @OP %d bool {{$m.Scope.NameExists %s}}' % (k, go_lit(a)))
        elif op == "AddImport":
            L.append('// @OP %d imp {{with $p := $.Registry.AddImport %s %s}}{{printf "%%x" $p.Path}} {{printf "%%x" $p.Qualifier}}{{else}}NIL{{end}}' % (k, go_lit(a), go_lit(b)))
        elif op == "Imports":
            L.append('// @OP %d imports{{range $.Registry.Imports}} {{printf "%%x" .Path}}={{printf "%%x" .Qualifier}}{{end}}' % k)
        elif op == "PkgQualifier":
            L.append('// @OP %d qual {{printf "%%x" ($.Registry.Imports.PkgQualifier %s)}}' % (k, go_lit(a)))
    L += ["// @END", "{{- end}}{{end}}{{end}}", ""]
    return "\n".join(L)


def gen_probe_history(rng, dst, inpkg):
    pre = rng.sample([p for p in PREFIXES if p], rng.randint(1, 3)) + rng.sample([b"http", b"ctx", b"s", b"err", b"mock", b"string", b"h1", b"context"], 2)
    names = rng.sample(NAMES, rng.randint(2, 4)) + [b"http", b"context"]
    paths = rng.sample([p for p in PATHS if p], rng.randint(2, 5)) + [b"example.com/m/ext/http", b"context", b"fresh/ctx", dst] + list(rng.choice(LOOKALIKE))
    ops, added = [], set()
    for _ in range(rng.randint(8, 40)):
        k = rng.choice(["AllocateName"] * 4 + ["SuggestName"] * 2 + ["NameExists"] * 2 + ["AddImport"] * 4 + ["Imports", "PkgQualifier"])
        if k in ("AllocateName", "SuggestName"):
            ops.append((k, rng.choice(pre), b""))
        elif k == "NameExists":
            p = rng.choice(pre)
            ops.append((k, p + (str(rng.randint(0, 9)).encode() if rng.random() < 0.6 else b""), b""))
        elif k == "AddImport":
            p = rng.choice(paths)
            ops.append((k, rng.choice(names), p))
            if not (inpkg and p == dst):
                added.add(p)
        elif k == "PkgQualifier":
            if added:
                ops.append((k, rng.choice(sorted(added)), b""))
        else:
            ops.append((k, b"", b""))
    ex = set()
    for op, a, b in ops:
        if op in ("AllocateName", "SuggestName"):
            ex.add(a)
            for i in range(1, len(ops) + 3):
                ex.add(a + str(i).encode())
        elif op == "NameExists":
            ex.add(a)
    return ops, sorted(ex)


def probe_stream(ctx, n):
    """Returns (cases, errors). A case: dict(dst,inpkg,imports,scope,ops,obs) with obs in the out_term format."""
    import gen_pkgs, shutil
    root = ctx.scratch / "pm"
    for _ in range(50):
        # a module can come out with generic interfaces only: draw again (same PRNG, so runs replay exactly)
        g = gen_pkgs.Gen(ctx.rng)
        m = g.module()
        targets = [(i["name"], mm["n"]) for i in m["ifaces"] if not i["tparams"] for mm in i["methods"] if mm["n"][0].isupper()]
        if targets:
            break
    gen_pkgs.write_module(m, root, testify=False)
    if not targets:
        return [], ["generated module has no usable method"]
    jobs = []
    for k in range(n):
        inpkg = k % 2 == 0
        dst = (m["src"]["path"] if inpkg else m["mod"] + "/probe_out_%d" % k).encode()
        ti, tm = ctx.rng.choice(targets)
        ops, ex = gen_probe_history(ctx.rng, dst, inpkg)
        tpl = root / ("probe_%d.templ" % k)
        tpl.write_text(probe_template(ti, tm, ops, ex))
        cfg = root / ("cfg_%d.yml" % k)
        cfg.write_text("\n".join([
            "template: file://%s" % tpl, "require-template-schema-exists: false", "formatter: noop", "force-file-write: true",
            "dir: %s" % ("src" if inpkg else "probe_out_%d" % k), "filename: probe_%d.txt" % k,
            "pkgname: %s" % ("src" if inpkg else "probeout"), "packages:", "  %s:" % m["src"]["path"], "    config:", "      all: true", ""]))
        jobs.append((k, inpkg, dst, ops, ex, cfg, root / ("src" if inpkg else "probe_out_%d" % k) / ("probe_%d.txt" % k)))

    def one(j):
        k, inpkg, dst, ops, ex, cfg, outp = j
        p = run([ctx.bins["mockery"], "--config", str(cfg), "--log-level", "error"], cwd=root, env=go_env({"GOFLAGS": "-mod=mod"}), timeout=120)
        if p.returncode != 0 or not outp.exists():
            return None, "probe run %d failed (exit %d): %s" % (k, p.returncode, (p.stdout + p.stderr).decode(errors="replace")[-800:])
        imports, scope, obs = [], [], {}
        for line in outp.read_text().split("\n"):
            f = line.split()
            if len(f) >= 2 and f[0] == "//" and f[1] == "@IMP":
                imports.append((bytes.fromhex(f[2]) if len(f) > 2 else b"", bytes.fromhex(f[3]) if len(f) > 3 else b""))
            elif len(f) >= 4 and f[1] == "@EX":
                if f[3] == "true":
                    scope.append(b"" if f[2] == "-" else bytes.fromhex(f[2]))
            elif len(f) >= 4 and f[1] == "@OP":
                kind, rest = f[3], f[4:]
                if kind == "name": obs[int(f[2])] = {"k": "name", "a": rest[0] if rest else ""}
                elif kind == "bool": obs[int(f[2])] = {"k": "bool", "t": rest[0] == "true"}
                elif kind == "imp":
                    obs[int(f[2])] = {"k": "imp", "a": "", "b": ""} if rest == ["NIL"] else {"k": "imp", "a": rest[0] if rest else "", "b": rest[1] if len(rest) > 1 else ""}
                elif kind == "qual": obs[int(f[2])] = {"k": "qual", "a": rest[0] if rest else ""}
                elif kind == "imports": obs[int(f[2])] = {"k": "imports", "l": [tuple(x.split("=")) for x in rest]}
        if len(obs) != len(ops):
            return None, "probe run %d: %d answers for %d calls" % (k, len(obs), len(ops))
        return {"dst": dst, "inpkg": inpkg, "imports": imports, "scope": scope, "ops": ops, "obs": [obs[i] for i in range(len(ops))]}, None

    res = pmap(one, jobs)
    return [c for c, e in res if c], [e for c, e in res if e]


def pcase_term(c):
    return "{| p_dst := %s; p_inpkg := %s; p_imports := %s; p_scope := %s; p_ops := %s; p_obs := %s |}" % (
        coq_bytes(c["dst"]), coq_bool(c["inpkg"]),
        coq_list("(%s, %s)" % (coq_bytes(a), coq_bytes(b)) for a, b in c["imports"]),
        coq_list(coq_bytes(x) for x in c["scope"]),
        coq_list(op_term(*o) for o in c["ops"]), coq_list(out_term(o) for o in c["obs"]))


def probe_oracle(c):
    """Property clauses on the observed probe trace: allocated names fresh w.r.t. everything known visible,
    stable and injective qualifiers (including against the imports present at the start), sorted listing."""
    errs = []
    visible = set(c["scope"])
    path_q = dict(c["imports"])
    for i, ((op, a, b), o) in enumerate(zip(c["ops"], c["obs"])):
        if op == "AllocateName":
            n = bytes.fromhex(o["a"])
            if n in visible:
                errs.append("op %d: AllocateName(%r) returned visible name %r" % (i, a, n))
            visible.add(n)
        elif op == "AddImport":
            if c["inpkg"] and b == c["dst"]:
                continue
            q = bytes.fromhex(o["b"])
            if b in path_q and path_q[b] != q:
                errs.append("op %d: qualifier for %r changed %r -> %r" % (i, b, path_q[b], q))
            for p2, q2 in path_q.items():
                if p2 != b and q2 == q:
                    errs.append("op %d: qualifier %r used for %r and %r" % (i, q, p2, b))
            path_q[b] = q
        elif op == "Imports":
            ps = [bytes.fromhex(x) for x, _ in o["l"]]
            if ps != sorted(ps) or len(set(ps)) != len(ps):
                errs.append("op %d: import list not sorted/unique" % i)
    return errs


def check(ctx, only=None):
    gate = proof_gate(ctx)
    if not ctx.build_tree(drivers=["drv_alloc"]):
        ctx.write_evidence(gate, 0, 0, "build failed", [])
        return
    n = 3000 if ctx.thorough() else 300
    cases = only if only is not None else corpus() + [gen_case(ctx.rng, big=(i % 10 == 0)) for i in range(n)]
    outs = run_impl(ctx, cases)
    # purity: the same histories with all queries deleted must give the same remaining answers
    stripped = [dict(c, ops=[o for o in c["ops"] if o[0] not in PURE]) for c in cases]
    outs_s = run_impl(ctx, stripped)
    oracle_fail = {}
    for i, (c, o) in enumerate(zip(cases, outs)):
        e = oracle(c, o)
        kept = [x for (op, _, _), x in zip(c["ops"], o) if op not in PURE]
        if kept != outs_s[i]:
            e.append("deleting the query calls changed other answers")
        if e:
            oracle_fail[i] = e
    bad, errs = coq_mismatches(ctx, "Gen.Alloc Harness.C15", [case_term(c, o) for c, o in zip(cases, outs)])
    # probe stream through the real binary (skipped when replaying API histories)
    pcs, perrs, pbad = [], [], []
    if only is None:
        pcs, perrs = probe_stream(ctx, 160 if ctx.thorough() else 32)
        for k, c in enumerate(pcs):
            e = probe_oracle(c)
            if e:
                oracle_fail[("probe", k)] = e
                if sum(1 for x in oracle_fail if isinstance(x, tuple)) > 3:
                    continue
                rp = ctx.write_replay("probe-oracle-%d" % k, {"what": e, "probe_case": {"dst": c["dst"].decode(), "inpkg": c["inpkg"], "ops": [[o, a.decode(errors="replace"), b.decode(errors="replace")] for o, a, b in c["ops"]], "observed": c["obs"], "initial_imports": [[a.decode(), b.decode()] for a, b in c["imports"]]}})
                ctx.violation(rp)
                oracle_fail[("probe", k)] = e
        if pcs:
            pbad, e2 = coq_mismatches(ctx, "Gen.Alloc Harness.C15", [pcase_term(c) for c in pcs], check="p_mismatches")
            perrs += e2
        if (pbad or perrs) and not oracle_fail:
            ex = []
            for k in pbad[:3]:
                ex.append({"ops": [[o, a.decode(errors="replace"), b.decode(errors="replace")] for o, a, b in pcs[k]["ops"]], "observed": pcs[k]["obs"],
                           "model_expected": coq_show(ctx, "Gen.Alloc Harness.C15", "p_model_outs (%s)" % pcase_term(pcs[k]), name="show_p%d" % k)})
            rp = ctx.write_replay("probe-correspondence", {"what": "probe-template histories run by the real binary disagree with the model (or the probe failed)",
                                                           "obligation": "correspondence Harness/C15.v p_check", "errors": perrs, "examples": ex})
            ctx.violation(rp, nofail=True)
    oracle_fail = {k: v for k, v in oracle_fail.items() if not isinstance(k, tuple)}
    # classification
    for i in sorted(oracle_fail)[:3]:
        def fails(cc, oo):
            return bool(oracle(cc, oo))
        small = shrink(ctx, cases[i], fails) if oracle(cases[i], outs[i]) else cases[i]
        so = run_impl(ctx, [small])[0]
        rp = ctx.write_replay("oracle-%d" % i, {"what": oracle(small, so) or oracle_fail[i], "case": to_json(small), "readable": describe(small, so)})
        ctx.violation(rp)
    if not gate["ok"] and not oracle_fail:
        ctx.violation(gate["replay"], nofail=True)
    if (bad or errs) and not oracle_fail:
        detail = []
        for i in bad[:3]:
            def fails(cc, oo):
                b2, e2 = coq_mismatches(ctx, "Gen.Alloc Harness.C15", [case_term(cc, oo)])
                return bool(b2 or e2)
            small = shrink(ctx, cases[i], fails)
            so = run_impl(ctx, [small])[0]
            exp = coq_show(ctx, "Gen.Alloc Harness.C15", "model_outs (%s)" % case_term(small, so))
            detail.append({"case": to_json(small), "readable": describe(small, so), "model_expected": exp})
        rp = ctx.write_replay("correspondence", {
            "what": "model Gen/Alloc.v and the implementation disagree; the set-based oracle found no failing history among %d" % len(cases),
            "obligation": "correspondence Harness/C15.v check_case (answers of every call, verbatim)",
            "mismatching_cases": len(bad), "coq_errors": errs, "examples": detail})
        ctx.violation(rp, nofail=True)
    # evidence
    def nontrivial(c, o):
        # a history is non-trivial if at least one answer needed a numeric suffix
        for (op, a, b), x in zip(c["ops"], o):
            if op in ("AllocateName", "SuggestName") and x.get("a") != hx(a): return True
            if op == "AddImport" and x.get("b") != hx(a) and x.get("a"): return True
        return False
    distinct = len({json.dumps(to_json(c), sort_keys=True) for c, o in zip(cases, outs) if nontrivial(c, o)})
    hist = {}
    for c in cases:
        for o in c["ops"]:
            hist[o[0]] = hist.get(o[0], 0) + 1
    ctx.write_evidence(gate, 2 * len(cases), distinct,
                       "seeded histories (10-200 calls) over small alphabets that force suffix chains; non-trivial = at least one answer carries a numeric suffix; distinct by full history; every history is also re-run with all query calls deleted",
                       [describe(c, o) for c, o in list(zip(cases, outs))[:2]],
                       extra={"op_histogram": hist, "model_mismatches": len(bad), "probe_histories_through_binary": len(pcs), "probe_mismatches": len(pbad), "oracle_failures": len(oracle_fail),
                              "total_calls": sum(len(c["ops"]) for c in cases)},
                       assumptions=["driver drv_alloc calls template.NewRegistry(nil, dst, inPackage): the source package is not needed by these calls"])


def replay(ctx, path):
    d = json.loads(open(path).read())
    cs = [d["case"]] if "case" in d else [e["case"] for e in d.get("examples", [])]
    cases = [{"dst": bytes.fromhex(c["dst"]), "inpkg": c["inpkg"], "ops": [(o["op"], bytes.fromhex(o["a"]), bytes.fromhex(o["b"])) for o in c["ops"]]} for c in cs]
    check(ctx, only=cases)
