"""C05 - generated mocks are safe under concurrent use.

(1) translator tie: the freshly generated matryer and testify mock files are parsed by
    harness/go/goskel into the instruction language of Mock/Conc.v; the kernel checks
    `forallb mock_ok generated = true` (lock discipline of every path of every generated method,
    one append / snapshot / clear where it belongs, testify wrappers local-only), so the theorems
    of Properties/C05.v apply to what the templates emit now;
(2) oracle: drv_conc built with `go build -race` hammers the same mocks from many goroutines and
    checks the property directly (no race report, no lost / duplicated / mixed record,
    snapshots extend each other, <M>Func ran once per call)."""
import json
from common import *
from checks import c04
import gen_pkgs

HM = "Mock.Conc Harness.C05"


# ---------------------------------------------------------------- inputs
def gen_pkgs_own(rng, n_matryer, n_testify):
    """Packages of the C04 generator (the class whose mocks compile and whose values drv_conc can build)."""
    pkgs = []
    for i in range(n_matryer):
        pkg = c04.gen_pkg(rng, i, c04.COMBOS[(i * 3 + 1) % 8] if i >= 2 else c04.COMBOS[(1, 3)[i]])   # the first two have resets
        pkg["template"] = "matryer"
        pkgs.append(pkg)
    for i in range(n_testify):
        pkg = c04.gen_pkg(rng, n_matryer + i, {"skip-ensure": True, "stub-impl": False, "with-resets": False})
        unroll = i % 2 == 0                      # both unroll-variadic settings
        pkg["template"], pkg["opts"], pkg["structpat"] = "testify", {"unroll-variadic": unroll}, "Mock%s"
        for it in pkg["ifaces"]:
            if i < 2 and not any(m["variadic"] and m["results"] for m in it["methods"]):
                # make sure typed Run handlers of variadic methods are exercised in every run
                it["methods"].append(c04.gen_variadic_method(rng, "Logf"))
            # outside C05 (findings of C01/C03): variadic methods with >= 2 results do not compile; func-typed
            # results are taken for providers by the wrapper
            # ... and with unroll-variadic a variadic method WITHOUT results does not compile either (pre-existing)
            it["methods"] = [m for m in it["methods"] if not (m["variadic"] and len(m["results"]) >= 2)
                             and not (m["variadic"] and unroll and not m["results"])
                             and not any(r["type"].startswith("func") for r in m["results"])]
        pkg["ifaces"] = [it for it in pkg["ifaces"] if it["methods"]]
        if pkg["ifaces"]:
            pkgs.append(pkg)
    return pkgs


def shared_module(ctx, rng, tag):
    """A module of the shared generator (all type shapes): only generated and translated, never compiled."""
    g = gen_pkgs.Gen(rng, pools=("ordinary", "qualifier", "typelike"), n_ifaces=(4, 7), n_methods=(1, 5))
    m = g.module()
    root = ctx.scratch / tag
    shutil.rmtree(root, ignore_errors=True)
    gen_pkgs.write_module(m, root)
    shutil.copy(REPO / "go.sum", root / "go.sum")
    files = []
    for tmpl, td in (("matryer", "{with-resets: true, skip-ensure: true}"), ("testify", "{}")):
        (root / ".mockery.yml").write_text(
            "template: %s\nfilename: mocks_%s_gen.go\npkgname: \"{{.SrcPackageName}}\"\ndir: \"{{.InterfaceDir}}\"\nforce-file-write: true\n"
            "template-data: %s\npackages:\n  %s:\n    config:\n      all: true\n" % (tmpl, tmpl, td, m["src"]["path"]))
        p = run([ctx.bins["mockery"]], cwd=root, env=go_env({"GOFLAGS": "-mod=mod"}), timeout=600)
        f = root / m["src"]["name"] / ("mocks_%s_gen.go" % tmpl)
        if p.returncode == 0 and f.exists():
            out = root / ("generated_%s.go.txt" % tmpl)      # out of the package: a generated file that does not type-check
            shutil.move(str(f), str(out))                    # (C01's findings) must not break loading for the next template
            files.append(str(out))
    return files, len(m["ifaces"])


# ---------------------------------------------------------------- translation -> Gallina
def instr_term(i):
    n, m = i
    if n == "Local":
        return "Local"
    if n == "WriteApp":
        return "WriteApp %d 0" % m
    return "%s %d" % (n, m)


def role_term(r):
    k = r["k"]
    if k == "call": return "RCall %d" % r["m"]
    if k == "calls": return "RCalls %d" % r["m"]
    if k == "reset": return "RReset %d" % r["m"]
    if k == "resetall": return "RResetAll %s" % coq_list(str(x) for x in r.get("ms") or [])
    return "RTestify"


def mock_term(fileno, mk):
    bodies = []
    for b in mk["bodies"]:
        paths = coq_list("(%s, %s)" % ("PPanic" if p["end"] == "panic" else "PReturn", coq_list(instr_term(i) for i in p["ins"])) for p in b["paths"])
        bodies.append("{| b_name := %s; b_role := %s; b_paths := %s |}" % (coq_bytes(b["name"].encode()), role_term(b["role"]), paths))
    return "{| g_name := %s; g_nmeth := %d; g_bodies := %s |}" % (coq_bytes(("f%d.%s" % (fileno, mk["name"])).encode()), len(mk["methods"] or []), coq_list(bodies))


def translate(ctx, files):
    """goskel on the generated files. Returns (list of file dicts, error text)."""
    p = run([ctx.bins["goskel"]] + files, timeout=600)
    if p.returncode != 0:
        return None, p.stderr.decode(errors="replace")[-3000:]
    return json.loads(p.stdout), None


def kernel_check(ctx, skel, name="Generated"):
    terms = [mock_term(i, mk) for i, f in enumerate(skel) for mk in f["mocks"]]
    defs = "Definition generated : list gmock := [\n%s\n]." % ";\n".join(terms)
    q = ("Example generated_ok : forallb mock_ok generated = true.\nProof. vm_compute. reflexivity. Qed.\n"
         "Example generated_wl : forallb (wl HNone) (programs generated) = true.\nProof. vm_compute. reflexivity. Qed.\n"
         "Print Assumptions generated_ok.\n")
    rc, out, err = coq_eval(ctx, name, "From Mk Require Import Lib.Bytes %s." % HM, defs, q)
    if rc == 0 and "Closed under the global context" in out:
        return True, ""
    # which bodies fail?
    rc2, out2, err2 = coq_eval(ctx, name + "_diag", "From Coq Require Import Strings.String.\nFrom Mk Require Import Lib.Bytes %s." % HM, defs,
                               "Definition F := Eval vm_compute in (map (fun x => (string_of_list_byte (fst x), string_of_list_byte (snd x))) (failing generated)).\nPrint F.")
    return False, (" ".join(out2.split()) if rc2 == 0 else err[-2000:])


def stats(skel):
    st = {"files": len(skel), "mocks": 0, "bodies": 0, "paths": 0, "instructions": 0, "by_role": {}, "by_instr": {}, "defer_bodies": 0}
    for f in skel:
        for mk in f["mocks"]:
            st["mocks"] += 1
            for b in mk["bodies"]:
                st["bodies"] += 1
                st["defer_bodies"] += bool(b.get("defer"))
                st["by_role"][b["role"]["k"]] = st["by_role"].get(b["role"]["k"], 0) + 1
                for p in b["paths"]:
                    st["paths"] += 1
                    for i in p["ins"]:
                        st["instructions"] += 1
                        st["by_instr"][i[0]] = st["by_instr"].get(i[0], 0) + 1
    return st


# ---------------------------------------------------------------- stress
def run_stress(binary, jobs, timeout=3600, watchdog_ms=None):
    env = dict(os.environ, GORACE="halt_on_error=0 exitcode=66")
    if watchdog_ms:
        env["DRV_WATCHDOG_MS"] = str(watchdog_ms)
    p = subprocess.run([binary], input=json.dumps(jobs).encode(), stdout=subprocess.PIPE, stderr=subprocess.PIPE, timeout=timeout, env=env)
    err = p.stderr.decode(errors="replace")
    races = err.count("WARNING: DATA RACE")
    try:
        res = json.loads(p.stdout)
    except Exception:
        res = None
    return res, races, err, p.returncode


def race_summary(err):
    """First race report, reduced to the frames inside generated code (no addresses, no goroutine ids)."""
    i = err.find("WARNING: DATA RACE")
    if i < 0:
        return []
    blk = err[i:i + 6000].split("==================")[0]
    return [re.sub(r"0x[0-9a-f]+|goroutine \d+|\+0x[0-9a-f]+", "", l).strip() for l in blk.split("\n")
            if "mocks_gen.go" in l or l.startswith(("Write at", "Read at", "Previous write", "Previous read"))][:12]


def jobs_for(pkgs, rng, thorough):
    jobs = []
    for pkg in pkgs:
        for it in pkg["ifaces"]:
            jobs.append({"mock": c04.mock_key(pkg, it), "kind": pkg.get("template", "matryer"), "goroutines": 12 if thorough else 8,
                         "calls": 600 if thorough else 200, "readers": 3, "seed": rng.randint(0, 999),
                         "stub": bool(pkg["opts"].get("stub-impl")) and rng.random() < 0.5,
                         "unroll": bool(pkg["opts"].get("unroll-variadic"))})
    return jobs


def check(ctx, only=None):
    gate = proof_gate(ctx)
    if not ctx.build_tree(drivers=["goskel"]):
        ctx.write_evidence(gate, 0, 0, "build failed", [])
        return
    if only is not None:
        pkgs = []
        for j, pk in enumerate(only):
            pkgs.append(dict(pk, name="p%d" % j))
    else:
        pkgs = gen_pkgs_own(ctx.rng, 24 if ctx.thorough() else 9, 12 if ctx.thorough() else 5)
    problems, failing = [], []
    binary, err = c04.build_module(ctx, pkgs, tag="conc", driver="drv_conc", race=True)
    gen_files = sorted(str(p) for p in (ctx.scratch / "conc").glob("p*/mocks_gen.go"))
    if not gen_files:
        rp = ctx.write_replay("generate", {"what": err, "obligation": "C05: nothing was generated, nothing can be translated or run"})
        ctx.violation(rp, nofail=True)
        ctx.write_evidence(gate, 0, 0, "generation failed", [])
        return
    # (1) translator tie
    skel, terr = translate(ctx, gen_files)
    tie_ok, diag = False, terr
    st = {}
    if skel is not None:
        tie_ok, diag = kernel_check(ctx, skel)
        st = stats(skel)
    shared_stats, shared_ok, shared_diag = {}, True, ""
    if only is None:
        sfiles, nif = shared_module(ctx, ctx.rng, "shared")
        if sfiles:
            sskel, serr = translate(ctx, sfiles)
            if sskel is None:
                shared_ok, shared_diag = False, serr
            else:
                shared_ok, shared_diag = kernel_check(ctx, sskel, "GeneratedShared")
                shared_stats = stats(sskel)
        shared_stats["interfaces"] = nif
        shared_stats["generated_files"] = len(sfiles)
    # (2) oracle
    results, races, rerr = [], 0, ""
    tstats = {"timeouts_first_stage": 0, "timeouts_retried": 0, "timeouts_confirmed": 0, "timeouts_not_confirmed": 0, "timeouts_confirmed_by_class": 0}
    jobs = jobs_for(pkgs, ctx.rng, ctx.thorough())
    if binary is None:
        problems.append(err)
    else:
        results, races, rerr, rc = run_stress(binary, jobs)
        if results is None:
            problems.append("drv_conc crashed (exit %d): %s" % (rc, rerr[-2000:]))
            results = []
        # a watchdog timeout of the main run is only a first-stage verdict (the machine may be overloaded): the job is
        # re-run ALONE in a fresh process with a 60 s watchdog and its result replaces the first one; at most 3
        # confirmations per run (a real deadlock costs the whole watchdog), further ones count as confirmed by class
        for i, r in enumerate(results):
            if not r.get("timeouts"):
                continue
            tstats["timeouts_first_stage"] += 1
            if tstats["timeouts_confirmed"] >= 3:
                tstats["timeouts_confirmed_by_class"] += 1
                continue
            tstats["timeouts_retried"] += 1
            r2, races2, rerr2, rc2 = run_stress(binary, [jobs[i]], watchdog_ms=60000)
            if not r2:
                problems.append("drv_conc crashed while re-running %s alone (exit %d): %s" % (r["mock"], rc2, rerr2[-1500:]))
                continue
            results[i] = r2[0]
            races += races2
            rerr += rerr2
            if r2[0].get("timeouts"):
                tstats["timeouts_confirmed"] += 1
            else:
                tstats["timeouts_not_confirmed"] += 1
    bad = [r for r in results if r["errors"]]
    spec = {"packages": pkgs}
    if races or bad:
        rp = ctx.write_replay("stress", {
            "what": ("%d data race report(s) from the Go race detector; " % races if races else "") +
                    ("%d mock(s) with lost/duplicated/mixed records or wrong forwarding" % len(bad) if bad else ""),
            "race_report_frames": race_summary(rerr), "first_race_report": re.sub(r"0x[0-9a-f]+", "0x..", rerr[rerr.find("WARNING: DATA RACE"):][:3500]) if races else "", "errors": [e for r in bad for e in r["errors"]][:20],
            "translation": "well-locked: %s %s" % (tie_ok, diag[:1500]),
            "case": spec, "jobs": jobs,
            "readable": [x for pk in pkgs[:3] for x in c04.render_pkg(pk).split("\n") if x.strip()][:60]})
        ctx.violation(rp)
    elif problems:
        rp = ctx.write_replay("build", {"what": problems, "obligation": "C05 oracle: the stress driver could not be built/run against the generated mocks", "case": spec})
        ctx.violation(rp, nofail=True)
    if not (races or bad):
        if not gate["ok"]:
            ctx.violation(gate["replay"], nofail=True)
        if not tie_ok or not shared_ok:
            rp = ctx.write_replay("translation", {
                "what": "the freshly generated mock code no longer satisfies the lock discipline the theorems need (or goskel met code it does not understand: fail closed); "
                        "the race-detector stress run (%d concurrent calls) found no failing schedule" % sum(r["calls"] for r in results),
                "obligation": "Example generated_ok : forallb mock_ok generated = true (hypothesis `Forall (fun p => wl HNone p = true) ps` of C05_race_free, "
                              "C05_no_lost_call, C05_snapshot_prefix; `forallb testify_instr` of C05_testify_no_shared)",
                "failing_bodies_or_error": diag if not tie_ok else shared_diag, "case": spec})
            ctx.violation(rp, nofail=True)
    total_calls = sum(r["calls"] for r in results)
    ctx.write_evidence(gate, total_calls + st.get("paths", 0) + shared_stats.get("paths", 0),
                       len([r for r in results if r["calls"] > 0 and (r["snapshots"] > 0 or r["mock"])]),
                       "evaluations = concurrent mock calls executed under the race detector + generated method paths checked by the kernel; "
                       "distinct non-trivial = mocks (distinct generated interfaces/option sets) that were called from >= 8 goroutines",
                       [{"mock": r["mock"], "calls": r["calls"], "records_checked": r["records"], "snapshots": r["snapshots"], "resets": r["resets"]} for r in results[:4]],
                       extra={"timeouts_retried": tstats["timeouts_retried"], "timeouts_confirmed": tstats["timeouts_confirmed"], "timeouts": tstats,
                              "translation": st, "translation_shared_generator": shared_stats, "generated_ok": tie_ok, "generated_shared_ok": shared_ok,
                              "race_reports": races, "mocks_with_errors": len(bad),
                              "stress": {"mocks": len(results), "calls": total_calls, "records_checked": sum(r["records"] for r in results),
                                         "snapshots": sum(r["snapshots"] for r in results), "concurrent_resets": sum(r["resets"] for r in results),
                                         "matryer": len([j for j in jobs if j["kind"] == "matryer"]), "testify": len([j for j in jobs if j["kind"] == "testify"]),
                                         "stub_nil_funcs": len([j for j in jobs if j["stub"]]),
                                         "testify_typed_handlers": sum(r.get("typed_handlers", 0) for r in results),
                                         "testify_typed_handlers_skipped_sequentially_broken": sorted(x for r in results for x in r.get("typed_skipped") or [])[:40],
                                         "testify_unroll_variadic_jobs": len([j for j in jobs if j["kind"] == "testify" and j["unroll"]])},
                              "input_histogram": {"options": {",".join(k for k, v in sorted(pk["opts"].items()) if v) or "none": 1 for pk in pkgs},
                                                  "templates": {t: len([pk for pk in pkgs if pk.get("template") == t]) for t in ("matryer", "testify")},
                                                  "methods": sum(len(it["methods"]) for pk in pkgs for it in pk["ifaces"]),
                                                  "variadic_methods": sum(m["variadic"] for pk in pkgs for it in pk["ifaces"] for m in it["methods"]),
                                                  "generic_interfaces": sum(it["generic"] for pk in pkgs for it in pk["ifaces"])}},
                       assumptions=["Go's memory model, scheduler and sync.RWMutex are modelled (interleaving semantics, RWMutex specification), not verified",
                                    "testify's own locking inside mock.Mock is trusted (Embedded instructions have no effect in the model)",
                                    "the stress run samples schedules; the for-all-schedules claim is the theorem plus the kernel-checked translation",
                                    "testify interfaces exclude variadic methods with >= 2 results and func-typed results (C01/C03 findings)"])


def replay(ctx, path):
    d = json.loads(open(path).read())
    check(ctx, only=d["case"]["packages"])
