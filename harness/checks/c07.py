"""C07 - exactly the configured interfaces and packages are mocked, once per config entry.

Abstract input (JSON-able): a module tree (directories with declarations), a root config,
a packages map, an iteration order.  It is printed three times: as a Go module + YAML config
for the real mockery, as a Gallina term for the model (Cfg/Select.v), and it is evaluated
directly by the oracle below (documented rules, Python `re`, no model involved).
Observable: exit class + multiset of (source package, interface, struct name) read from the
files written through a probe template."""
import copy, json, re, shutil
from common import *

MOD = "example.com/m"
TAG = "verifextra"
PROBE = "{{- range .Interfaces }}MOCK {{ $.Registry.SrcPkg.PkgPath }} {{ .Name }} {{ .StructName }}\n{{ end -}}\n"

# ------------------------------------------------------------------ regex AST
# ("eps",) ("lit", s) ("any",) ("class", neg, [(lo, hi)]) ("cat", a, b) ("alt", a, b) ("star", r) ("plus", r) ("opt", r)


def _cls(rs):
    return "".join(lo if lo == hi else "%s-%s" % (lo, hi) for lo, hi in rs)


def re_go(r):
    k = r[0]
    if k == "eps": return "(?:)"
    if k == "lit": return re.escape(r[1]) if r[1] else "(?:)"
    if k == "any": return "."
    if k == "class": return "[%s%s]" % ("^" if r[1] else "", _cls(r[2]))
    if k == "cat": return "(?:%s)(?:%s)" % (re_go(r[1]), re_go(r[2]))
    if k == "alt": return "(?:%s|%s)" % (re_go(r[1]), re_go(r[2]))
    if k == "star": return "(?:%s)*" % re_go(r[1])
    if k == "plus": return "(?:%s)+" % re_go(r[1])
    if k == "opt": return "(?:%s)?" % re_go(r[1])
    raise ValueError(k)


def re_coq(r):
    k = r[0]
    if k == "eps": return "REps"
    if k == "lit": return "(RLit %s)" % coq_bytes(r[1])
    if k == "any": return "RAny"
    if k == "class": return "(RClass %s %s)" % (coq_bool(r[1]), coq_list('("%s"%%byte, "%s"%%byte)' % (lo, hi) for lo, hi in r[2]))
    if k in ("cat", "alt"): return "(R%s %s %s)" % (k.capitalize(), re_coq(r[1]), re_coq(r[2]))
    if k in ("star", "plus", "opt"): return "(R%s %s)" % (k.capitalize(), re_coq(r[1]))
    raise ValueError(k)


def pat_go(p):
    return ("^" if p["bos"] else "") + "(?:" + re_go(p["body"]) + ")" + ("$" if p["eos"] else "")


def pat_coq(p):
    return "{| p_bos := %s; p_body := %s; p_eos := %s |}" % (coq_bool(p["bos"]), re_coq(p["body"]), coq_bool(p["eos"]))


# an entry of exclude-subpkg-regex: a pattern dict plus optional "pre" (inline flag group written in front:
# "(?i)", "(?s)", "(?U)", "(?-i)", "(?is)", "(?iU)") and "bare" (a top-level alternation written a|b without a group).
# Only `i` changes whether a path matches ((?s), (?U) and (?-i) are neutral on newline-free paths).
def entry_fold(e):
    pre = e.get("pre", "")
    return "i" in pre.strip("(?)").split("-")[0]


def bare_go(r):
    return bare_go(r[1]) + "|" + bare_go(r[2]) if r[0] == "alt" else re_go(r)


def entry_body_go(e):
    if e.get("bare") and not e["bos"] and not e["eos"]:
        return bare_go(e["body"])
    return pat_go(e)


def entry_go(e):
    return e.get("pre", "") + entry_body_go(e)


def entry_coq(e):
    return "{| x_fold := %s; x_pat := %s |}" % (coq_bool(entry_fold(e)), pat_coq(e))


def entry_search(e, path):
    """Oracle side: the entry on its own, Python `re`, case-insensitive iff its own flag group says so."""
    return re.search(entry_body_go(e), path, re.I if entry_fold(e) else 0) is not None


def tup(x):
    """JSON round trip turns tuples into lists; normalise."""
    if isinstance(x, list):
        return tuple(tup(y) for y in x)
    return x


def gen_body(rng, words, depth=0):
    w = rng.choice(words) if words else "X"
    c = rng.random()
    if depth >= 2 or c < 0.35:
        a = rng.randint(0, max(0, len(w) - 1)); b = rng.randint(a, len(w))
        return ("lit", w[a:b] if rng.random() < 0.7 and b > a else w)
    if c < 0.5: return ("alt", gen_body(rng, words, depth + 1), gen_body(rng, words, depth + 1))
    if c < 0.65: return ("cat", gen_body(rng, words, depth + 1), gen_body(rng, words, depth + 1))
    if c < 0.72: return ("cat", ("lit", w[:1]), ("star", ("any",)))
    if c < 0.8: return ("class", rng.random() < 0.3, rng.choice([[("A", "Z")], [("a", "z")], [("A", "M"), ("x", "z")], [("0", "9")], [(w[:1], w[:1])]]))
    if c < 0.86: return ("plus", ("class", False, [("a", "z"), ("A", "Z")]))
    if c < 0.92: return ("opt", gen_body(rng, words, depth + 1))
    if c < 0.96: return ("star", gen_body(rng, words, depth + 1))
    return ("eps",)


def gen_pat(rng, words):
    return {"bos": rng.random() < 0.4, "body": gen_body(rng, words), "eos": rng.random() < 0.4}


BAD = ["(", "[a", "*x", "a{2,1}", "(?P<n"]


def gen_resrc(rng, words, bad=0.04, unset=0.1):
    c = rng.random()
    if c < bad: return {"t": "bad", "s": rng.choice(BAD)}
    if c < bad + unset: return {"t": "unset"}
    return {"t": "ok", "p": gen_pat(rng, words)}


def resrc_go(x):
    return "" if x["t"] == "unset" else x["s"] if x["t"] == "bad" else pat_go(x["p"])


def resrc_coq(x):
    return "ReUnset" if x["t"] == "unset" else "ReBad" if x["t"] == "bad" else "(ReOk %s)" % pat_coq(x["p"])


# ------------------------------------------------------------------ declarations
# form -> (rhs, alias, iface)
FORMS = {
    "iface": ("RhsIfaceLit", False, True), "generic_iface": ("RhsIfaceLit", False, True),
    "constraint": ("RhsIfaceLit", False, True), "embed": ("RhsIfaceLit", False, True),
    "blank": ("RhsIfaceLit", False, True),
    "inst": ("RhsIndex", False, True), "inst_alias": ("RhsIndex", True, True), "inst_struct": ("RhsIndex", False, False),
    "from_ident": ("RhsIdent", False, True), "from_std": ("RhsIdent", False, True), "from_any": ("RhsIdent", False, True),
    "from_int": ("RhsIdent", False, False), "from_struct": ("RhsIdent", False, False),
    "alias": ("RhsIdent", True, True), "alias_std": ("RhsIdent", True, True), "alias_struct": ("RhsIdent", True, False),
    "struct": ("RhsStruct", False, False), "generic_struct": ("RhsStruct", False, False),
    "func": ("RhsFunc", False, False), "other": ("RhsOther", False, False),
    "local": ("RhsIfaceLit", False, True), "local_lit": ("RhsIfaceLit", False, True), "local_method": ("RhsIfaceLit", False, True),
    "local_struct": ("RhsStruct", False, False),
    # the mock struct of a file written by an earlier mockery run (matryer style: stdlib only; testify style
    # only in _test.go files, which are not loaded)
    "mock_matryer": ("RhsStruct", False, False), "mock_testify": ("RhsStruct", False, False),
}
LOCAL = {"local", "local_lit", "local_method", "local_struct"}
NAMES = ["A", "B", "Reader", "Writer", "Store", "store", "Client", "client", "Svc", "svcImpl", "Foo", "FooBar", "BarFoo",
         "foo", "Get", "X1", "Handler", "Repo", "repoX", "Q", "R", "Zed", "Iface", "T0"]
FILES = {"a.go": None, "b.go": None, "tagged.go": TAG, "never.go": "verifnever", "c_test.go": None,
         # pre-existing generated files: before / between / after the source files a.go, b.go in go list's order
         "0mocks.go": None, "a_mocks.go": None, "mocks.go": None, "zz_mocks.go": None, "mocks_test.go": None,
         "0svc_grpc.pb.go": None, "svc.pb.go": None, "a_svc_grpc.pb.go": None}
HDR_MATRYER = "// Code generated by mockery; DO NOT EDIT.\n// github.com/vektra/mockery\n// template: matryer\n\n"
HDR_TESTIFY = "// Code generated by mockery; DO NOT EDIT.\n// github.com/vektra/mockery\n// template: testify\n\n"
HEADERS = {"0mocks.go": HDR_MATRYER, "a_mocks.go": HDR_MATRYER, "mocks.go": HDR_MATRYER, "zz_mocks.go": HDR_MATRYER,
           "mocks_test.go": HDR_TESTIFY,
           "0svc_grpc.pb.go": "// Code generated by protoc-gen-go-grpc. DO NOT EDIT.\n// versions:\n// - protoc-gen-go-grpc v1.5.1\n// source: svc.proto\n\n",
           "svc.pb.go": "// Code generated by protoc-gen-go. DO NOT EDIT.\n// source: svc.proto\n\n"}
HEADERS["a_svc_grpc.pb.go"] = HEADERS["0svc_grpc.pb.go"]
MOCK_FILES = ["0mocks.go", "a_mocks.go", "mocks.go", "zz_mocks.go"]
UNCOND = ("a.go", "b.go")


def decl_active(d, tags):
    """Is the file one of pkg.GoFiles?  (HEAD does not look at `Code generated` headers: config.IsAutoGenerated
    exists but is not called anywhere, so generated files are ordinary files of the package.)"""
    f = d["file"]
    if f.endswith("_test.go") or f == "never.go": return False
    if f == "tagged.go": return TAG in tags
    return True


MATRYER_BODY = """// Ensure that %(m)s does implement %(t)s.
// If this is not the case, regenerate this file with mockery.
var _ %(t)s = &%(m)s{}

// %(m)s is a mock implementation of %(t)s.
//
//	func TestSomethingThatUses%(t)s(t *testing.T) {
//
//		// make and configure a mocked %(t)s
//		mocked%(t)s := &%(m)s{
//			%(f)sFunc: func(x int) error {
//				panic("mock out the %(f)s method")
//			},
//		}
//
//	}
type %(m)s struct {
	// %(f)sFunc mocks the %(f)s method.
	%(f)sFunc func(x int) error

	// calls tracks calls to the methods.
	calls struct {
		// %(f)s holds details about calls to the %(f)s method.
		%(f)s []struct {
			// X is the x argument value.
			X int
		}
	}
	lock%(f)s sync.RWMutex
}

// %(f)s calls %(f)sFunc.
func (mock *%(m)s) %(f)s(x int) error {
	if mock.%(f)sFunc == nil {
		panic("%(m)s.%(f)sFunc: method is nil but %(t)s.%(f)s was just called")
	}
	callInfo := struct {
		X int
	}{
		X: x,
	}
	mock.lock%(f)s.Lock()
	mock.calls.%(f)s = append(mock.calls.%(f)s, callInfo)
	mock.lock%(f)s.Unlock()
	return mock.%(f)sFunc(x)
}"""
TESTIFY_BODY = """// New%(m)s creates a new instance of %(m)s.
func New%(m)s(t interface {
	mock.TestingT
	Cleanup(func())
}) *%(m)s {
	m := &%(m)s{}
	m.Mock.Test(t)
	t.Cleanup(func() { m.AssertExpectations(t) })
	return m
}

// %(m)s is an autogenerated mock type for the %(t)s type
type %(m)s struct {
	mock.Mock
}

// %(f)s provides a mock function for the type %(m)s
func (_mock *%(m)s) %(f)s(x int) error {
	ret := _mock.Called(x)
	return ret.Error(0)
}"""


def decl_src(d, i, decls=None):
    n, f = d["name"], d["form"]
    t = d.get("target", "")
    if f in ("mock_matryer", "mock_testify"):
        ti = [j for j, x in enumerate(decls) if x["name"] == t and x["form"] == "iface" and x["file"] in UNCOND][0]
        return (MATRYER_BODY if f == "mock_matryer" else TESTIFY_BODY) % {"m": n, "t": t, "f": "M%d" % ti}
    if f == "iface": return "type %s interface{ M%d(x int) error }" % (n, i)
    if f == "generic_iface": return "type %s[T any] interface{ Get() T }" % n
    if f == "constraint": return "type %s interface{ ~int | ~string }" % n
    if f == "embed": return "type %s interface {\n\tio.Reader\n\tExtra%d()\n}" % (n, i)
    if f == "blank": return "type _ interface{ M%d() }" % i
    if f in ("inst", "inst_struct"): return "type %s %s[int]" % (n, t)
    if f == "inst_alias": return "type %s = %s[int]" % (n, t)
    if f in ("from_ident", "from_struct"): return "type %s %s" % (n, t)
    if f == "from_std": return "type %s io.Reader" % n
    if f == "from_any": return "type %s any" % n
    if f == "from_int": return "type %s int" % n
    if f in ("alias", "alias_struct"): return "type %s = %s" % (n, t)
    if f == "alias_std": return "type %s = io.Writer" % n
    if f == "struct": return "type %s struct{ f%d int }" % (n, i)
    if f == "generic_struct": return "type %s[T any] struct{ v T }" % n
    if f == "func": return "type %s func(x int) error" % n
    if f == "other": return "type %s %s" % (n, ["map[string]int", "[]int", "*int", "chan int", "[3]int"][i % 5])
    body = "type %s %s; var _ %s" % (n, "struct{}" if f == "local_struct" else "interface{ L%d() }" % i, n)
    if f in ("local", "local_struct"): return "func fn%d() { %s }" % (i, body)
    if f == "local_lit": return "var lit%d = func() { %s }" % (i, body)
    if f == "local_method": return "type recv%d struct{}\n\nfunc (recv%d) m() { %s }" % (i, i, body)
    raise ValueError(f)


def pkg_files(node):
    """file name -> Go source of one directory."""
    pkgname = node.get("pkgname") or re.sub(r"[^a-z0-9]", "", node["rel"].split("/")[-1].lower()) or "pk"
    out = {}
    by_file = {}
    for i, d in enumerate(node["decls"]):
        by_file.setdefault(d["file"], []).append((i, d))
    for f, ds in by_file.items():
        body = "\n\n".join(decl_src(d, i, node["decls"]) for i, d in ds)
        head = HEADERS.get(f, "") + (("//go:build %s\n\n" % FILES[f]) if FILES[f] else "")
        imps = [x for x, used in (('"io"', "io." in body), ('"sync"', "sync." in body),
                                  ('mock "github.com/stretchr/testify/mock"', "mock.Mock" in body)) if used]
        imp = ("import (\n%s)\n\n" % "".join("\t%s\n" % x for x in imps)) if imps else ""
        out[f] = "%spackage %s\n\n%s%s\n" % (head, pkgname, imp, body)
    for f, txt in node.get("extra", {}).items():
        out[f] = txt
    return out


def abstract_decls(node, tags):
    """What the model and the oracle see: (name, rhs, alias, iface, local, active) per declaration."""
    out = []
    for i, d in enumerate(node["decls"]):
        rhs, alias, iface = FORMS[d["form"]]
        out.append({"name": d["name"], "rhs": rhs, "alias": alias, "iface": iface, "local": d["form"] in LOCAL,
                    "active": decl_active(d, tags)})
        if d["form"] == "local_method":
            out.append({"name": "recv%d" % i, "rhs": "RhsStruct", "alias": False, "iface": False, "local": False,
                        "active": decl_active(d, tags)})
    return out


def add_generated(rng, decls, p=0.45):
    """Files left behind by earlier generator runs, in-package."""
    names = {d["name"] for d in decls}
    targets = [d["name"] for d in decls if d["form"] == "iface" and d["file"] in UNCOND and d["name"] != "_"]
    targets = [t for t in dict.fromkeys(targets) if "Moq" + t not in names and "Mock" + t not in names]
    if targets and rng.random() < p:
        f = rng.choice(MOCK_FILES[:2] * 2 + MOCK_FILES)          # mostly sorting before b.go
        for t in rng.sample(targets, min(len(targets), rng.randint(1, 2))):
            decls.append({"name": "Moq" + t, "form": "mock_matryer", "target": t, "file": f})
    if targets and rng.random() < p * 0.5:
        decls.append({"name": "Mock" + targets[0], "form": "mock_testify", "target": targets[0], "file": "mocks_test.go"})
    if rng.random() < p * 0.5:
        f = rng.choice(["0svc_grpc.pb.go", "svc.pb.go"])
        for n, form in (("GrpcClient", "iface"), ("GrpcServer", "iface"), ("UnimplementedGrpcServer", "struct"), ("grpcStream", "iface")):
            if n not in names and rng.random() < 0.8:
                decls.append({"name": n, "form": form, "file": f})
    return decls


def gen_decls(rng, rich):
    n = rng.randint(4, 12) if rich else rng.randint(0, 4)
    pool = NAMES[:]
    rng.shuffle(pool)
    decls, uncond_ifaces, generics, gstructs, structs = [], [], [], [], []

    def fresh():
        return pool.pop() if pool else "N%d" % rng.randint(100, 999)
    for _ in range(n):
        f = rng.choice(["iface"] * 6 + ["generic_iface", "constraint", "embed", "blank", "inst", "inst", "inst_alias", "inst_struct",
                                        "from_ident", "from_ident", "from_std", "from_any", "from_int", "from_struct",
                                        "alias", "alias", "alias_std", "alias_struct", "struct", "generic_struct", "func", "other",
                                        "local", "local", "local_lit", "local_method", "local_struct"])
        d = {"form": f, "file": "a.go" if rng.random() < 0.7 else "b.go"}
        if f in ("inst", "inst_alias"):
            if not generics:
                g = fresh(); decls.append({"name": g, "form": "generic_iface", "file": "a.go"}); generics.append(g)
            d["target"] = rng.choice(generics)
        elif f == "inst_struct":
            if not gstructs:
                g = fresh(); decls.append({"name": g, "form": "generic_struct", "file": "a.go"}); gstructs.append(g)
            d["target"] = rng.choice(gstructs)
        elif f in ("from_ident", "alias"):
            if not uncond_ifaces:
                g = fresh(); decls.append({"name": g, "form": "iface", "file": "a.go"}); uncond_ifaces.append(g)
            d["target"] = rng.choice(uncond_ifaces)
        elif f in ("from_struct", "alias_struct"):
            if not structs:
                g = fresh(); decls.append({"name": g, "form": "struct", "file": "a.go"}); structs.append(g)
            d["target"] = rng.choice(structs)
        if f == "blank":
            d["name"] = "_"
        elif f in LOCAL:
            # shadow a package-level name half of the time
            top = [x["name"] for x in decls if x["form"] not in LOCAL and x["name"] != "_"]
            d["name"] = rng.choice(top) if top and rng.random() < 0.5 else fresh()
            if d["name"] not in top and d["name"] in pool: pool.remove(d["name"])
        else:
            d["name"] = fresh()
            if f in ("iface", "constraint", "embed", "struct", "func", "local") and rng.random() < 0.25:
                d["file"] = rng.choice(["tagged.go", "never.go", "c_test.go"])
                if d["file"] != "a.go" and f == "embed": d["file"] = "a.go"
        if d["file"] in UNCOND:
            if f in ("iface", "embed", "from_ident", "from_std", "from_any"): uncond_ifaces.append(d["name"])
            if f == "generic_iface": generics.append(d["name"])
            if f == "generic_struct": gstructs.append(d["name"])
            if f == "struct": structs.append(d["name"])
        decls.append(d)
    if not any(x["file"] in ("a.go", "b.go") for x in decls):
        decls.append({"name": fresh(), "form": rng.choice(["iface", "struct"]), "file": "a.go"})
    return add_generated(rng, decls)


PREFIX_FAMILY = ["px", "px/b", "px/b/c", "px/bc", "px/bc/d", "px/bcd", "px/k", "px/k/f", "px/k/fo", "px/k/fo/s", "px/k/b", "px/k/b/c"]
# (outer recursive, inner recursive packages, explicitly configured non-recursive packages)
PREFIX_VARIANTS = [
    ("px", ["px/b"], []),                    # depth 1: px/bc, px/bc/d, px/bcd, px/k/b must inherit from px
    ("px", ["px/b"], ["px/bc"]),             # the prefix sibling itself configured, not recursive: px/bc/d still from px
    ("px", ["px/bc"], []),                   # px/bcd is not below px/bc; px/b is not either
    ("px", ["px/k/f"], []),                  # depth 2: px/k/fo, px/k/fo/s from px
    ("px/k", ["px/k/f"], ["px/k/fo"]),       # depth 2 with an inner outer package
    ("px", ["px/b", "px/b/c"], []),          # chain a, a/b, a/b/c recursive; a/bc, a/bc/d not below a/b
    ("px", ["px/b", "px/bc"], []),           # both siblings recursive with different settings; px/bcd from px
    ("px", ["px/k/b"], []),                  # same base name: px/b, px/b/c must inherit from px, not from px/k/b
    ("px", ["px/b", "px/k"], ["px/k/fo"]),   # px/k/b from px/k (nearest), not from px/b (same base name)
]


def gen_prefix_config(rng, root, words):
    outer, inners, plain = rng.choice(PREFIX_VARIANTS)
    pkgs = {}
    c = empty_cfg(); c["rec"] = True; c["mark"] = "_Outer"
    if rng.random() < 0.8: c["all"] = True
    else: c["inc"] = {"t": "ok", "p": {"bos": False, "body": ("lit", "p"), "eos": False}}      # Keep.. and Drop..
    if rng.random() < 0.25: c["exsub"] = [{"bos": False, "body": ("lit", rng.choice(["/bcd", "/fo/s", "/c", "/k/b"])), "eos": True}]
    pkgs[path_of(outer)] = {"null": False, "cfg": c, "ifaces": {}}
    for j, rel in enumerate(inners):
        c = empty_cfg(); c["rec"] = True; c["mark"] = "_Inner%d" % j
        c["all"] = False
        c["inc"] = {"t": "ok", "p": {"bos": True, "body": ("lit", "Keep"), "eos": False}}
        if rng.random() < 0.2: c["exc"] = {"t": "ok", "p": {"bos": False, "body": ("lit", "C"), "eos": True}}
        pkgs[path_of(rel)] = {"null": False, "cfg": c, "ifaces": {}}
    for j, rel in enumerate(plain):
        c = empty_cfg(); c["rec"] = rng.choice([False, None]); c["mark"] = "_Plain%d" % j
        c["inc"] = {"t": "ok", "p": {"bos": True, "body": ("lit", "Drop"), "eos": False}}
        pkgs[path_of(rel)] = {"null": False, "cfg": c, "ifaces": {}}
    root["rec"] = None if rng.random() < 0.8 else False
    return pkgs


# (no two paths may be equal up to case: the go tool refuses such a build with "case-insensitive import collision")
SVC_FAMILY = ["svc", "svc/gen", "svc/other", "svc/api", "svc/api/gen", "svc/api/gen/deep", "svc/api/v1", "svc/api/v1/x", "svc/api/w"]


def svc_variants():
    L = lambda t, eos=True: {"bos": False, "body": ("lit", t), "eos": eos}
    # (root list, [(package, list or None, recursive)])
    return [
        (None, [("svc", [L("/gen")], True), ("svc/api", [L("/v1")], True)]),                 # svc/api/gen through svc/api
        (None, [("svc", [L("/api")], True), ("svc/api", [L("/v1")], True)]),                 # the inner package matches the outer list
        (None, [("svc", [L("/gen"), L("/v1")], True), ("svc/api", [L("/zzz")], True)]),       # inner list excludes nothing
        (None, [("svc", [L("/zzz")], True), ("svc/api", [L("/gen"), L("/w")], True)]),       # svc/api/gen through svc only
        (None, [("svc", [L("/gen")], True), ("svc/api", [L("/v1")], True), ("svc/api/gen", [L("/nothing")], True)]),   # three levels
        (None, [("svc", [L("/gen"), L("/deep")], True), ("svc/api", [L("/gen")], True), ("svc/api/gen", [L("/v1")], True)]),
        ([L("/gen")], [("svc", None, True), ("svc/api", [L("/v1")], True)]),                 # outer list inherited from the top level
        ([L("/v1")], [("svc", [L("/gen")], True), ("svc/api", None, True)]),                 # inner list inherited from the top level
        (None, [("svc", [L("/gen")], True), ("svc/api", [L("/v1")], False), ("svc/api/v1", [L("/zzz")], True)]),       # middle one not recursive
        (None, [("svc", [L("gen", False)], True), ("svc/api", [L("/v1/", False)], True)]),   # unanchored: gen/deep too; v1/x only
    ]


def gen_svc_config(rng, root, variant=None):
    rootlist, pk = svc_variants()[variant] if variant is not None else rng.choice(svc_variants())
    keep = {"t": "ok", "p": {"bos": True, "body": ("lit", "Keep"), "eos": False}}
    pkgs = {}
    for j, (rel, l, rec) in enumerate(pk):
        c = empty_cfg(); c["rec"] = rec; c["mark"] = "_" + re.sub(r"[^a-z0-9]", "", rel[3:]).capitalize() if rel != "svc" else "_Svc"
        if j == 0 or rng.random() < 0.5: c["all"] = True
        else: c["all"] = False; c["inc"] = keep
        c["exsub"] = l
        pkgs[path_of(rel)] = {"null": False, "cfg": c, "ifaces": {}}
    root["exsub"] = rootlist
    root["rec"] = None
    return pkgs


SIBLING_FAMILY = ["sv", "sv/api", "sv/api/internal", "sv/api/internal/deep", "sv/api/internal/deep/er", "sv/api/x",
                  "sv/api-v2", "sv/api-v2/sub", "sv/api.v1", "sv/api+x", "sv/api_v2", "sv/api_v2/sub", "sv/api0"]
SIBLINGS = ["sv/api-v2", "sv/api.v1", "sv/api+x", "sv/api_v2", "sv/api0"]


def gen_sibling_config(rng, root, words):
    """sv/api (outer) and sv/api/internal (inner) recursive with different settings, plus recursive siblings
    api-v2, api.v1, api+x (sort between api and api/...), api_v2, api0 (sort after); sometimes sv itself."""
    keep = {"t": "ok", "p": {"bos": True, "body": ("lit", "Keep"), "eos": False}}
    drop = {"t": "ok", "p": {"bos": True, "body": ("lit", "Drop"), "eos": False}}
    pkgs = {}

    def add(rel, mark, kind):
        c = empty_cfg(); c["rec"] = True; c["mark"] = mark
        if kind == "all": c["all"] = True
        elif kind == "keep": c["all"] = False; c["inc"] = keep
        elif kind == "drop": c["all"] = False; c["inc"] = drop
        else: c["all"] = False; c["inc"] = {"t": "ok", "p": {"bos": False, "body": ("lit", "p"), "eos": False}}; c["exc"] = drop
        pkgs[path_of(rel)] = {"null": False, "cfg": c, "ifaces": {}}
    kinds = ["all", "keep", "drop", "keep_exc"]
    ko = rng.choice(kinds)
    add("sv/api", "_Outer", ko)
    add("sv/api/internal", "_Inner", rng.choice([k for k in kinds if k != ko]))
    sibs = rng.sample(SIBLINGS, rng.randint(1, 3))
    if rng.random() < 0.8 and not any(x in sibs for x in SIBLINGS[:3]): sibs.append(rng.choice(SIBLINGS[:3]))
    for j, rel in enumerate(sibs):
        add(rel, "_S%d" % j, rng.choice(kinds))
    if rng.random() < 0.3: add("sv", "_Sv", rng.choice(kinds))
    if rng.random() < 0.2: add("sv/api/internal/deep", "_Deep", rng.choice(kinds))
    root["rec"] = None
    return pkgs


CASE_FAMILY = ["cx", "cx/API", "cx/v2/api", "cx/Legacy", "cx/v2/legacy", "cx/legacyx", "cx/internal", "cx/Internal/db",
               "cx/store/DB", "cx/pkg/db"]


def xe(body, bos=False, eos=False, pre="", bare=False):
    e = {"bos": bos, "body": body, "eos": eos}
    if pre: e["pre"] = pre
    if bare: e["bare"] = True
    return e


def exsub_flag_lists(rng):
    """Lists of two or more entries where a non-last entry carries an inline flag group and a later entry
    answers differently with and without that flag on some directory of CASE_FAMILY."""
    L = lambda t: ("lit", t)
    alt = lambda a, b: ("alt", L(a), L(b))
    i1 = rng.choice(["(?i)", "(?i)", "(?is)", "(?iU)", "(?i-s)"])
    neutral = rng.choice(["(?s)", "(?U)", "(?-i)", "(?sU)"])
    return [
        [xe(L("/api"), eos=True, pre=i1), xe(L("/legacy"), eos=True)],                       # cx/Legacy must stay
        [xe(L(path_of("cx/internal")), bos=True, eos=True, pre=i1), xe(L("/db"), eos=True)],   # cx/store/DB must stay
        [xe(L("api"), pre=i1), xe(L("internal/"))],                                            # cx/Internal/db must stay
        [xe(L("/legacy"), eos=True), xe(L("/api"), eos=True, pre=i1)],                         # flag in the last entry
        [xe(L("/api"), eos=True, pre=i1), xe(L("/legacy"), eos=True, pre="(?-i)")],            # switched off again
        [xe(alt("/api", "/nope"), pre=i1, bare=True), xe(alt("/legacy", "/DB"), bare=True)],   # bare a|b entries
        [xe(alt("/API", "/v2/legacy"), bare=True), xe(alt("internal/db", "/Legacy"), bare=True)],
        [xe(L("/zzz"), pre=neutral), xe(L("/API"), eos=True, pre=i1), xe(L("/legacyx"), eos=True), xe(L("/db"), eos=True)],
        [xe(("cat", L("/"), ("plus", ("class", False, [("a", "z")]))), eos=True, pre=rng.choice(["(?U)", "(?i)"])),
         xe(("cat", L("/v2/"), ("star", ("any",))), eos=True)],                               # greedy quantifier and $
        [xe(L("LEGACY"), pre=i1), xe(L("INTERNAL"))],                                          # second entry matches nothing
    ]


def gen_exsub_flag_config(rng, root):
    lists = exsub_flag_lists(rng)
    l = rng.choice(lists)
    if rng.random() < 0.3:      # a random list over the same vocabulary
        voc = ["/api", "/API", "/legacy", "/Legacy", "internal", "Internal/", "/db", "/DB", "legacyx", "/pkg"]
        l = []
        for j in range(rng.randint(2, 4)):
            l.append(xe(("lit", rng.choice(voc)), eos=rng.random() < 0.5,
                        pre=rng.choice(["", "", "(?i)", "(?i)", "(?s)", "(?U)", "(?-i)"])))
    c = empty_cfg(); c["rec"] = True; c["all"] = True; c["mark"] = "_Cx"
    if rng.random() < 0.6: c["exsub"] = l
    else: root["exsub"] = l
    if rng.random() < 0.2 and c["exsub"] is None: c["exsub"] = rng.choice(lists)       # the package list replaces the root list
    return {path_of("cx"): {"null": False, "cfg": c, "ifaces": {}}}


def gen_twin_decls(rng):
    names = rng.sample(["Client", "Server", "Store", "Codec", "handler"], rng.randint(2, 4))
    ds = [{"name": n, "form": "iface", "file": "a.go"} for n in names]
    if rng.random() < 0.5: ds.append({"name": "Def", "form": "from_ident", "target": names[0], "file": "a.go"})
    if rng.random() < 0.5: ds.append({"name": "Opts", "form": "struct", "file": "b.go"})
    if rng.random() < 0.4: ds.append({"name": names[0], "form": "local", "file": "b.go"})
    return ds


# ------------------------------------------------------------------ trees
def gen_tree(rng):
    """Directories below the module root.  class: go | nogo | onlytest | never | ignored (testdata, _x)."""
    nodes = []

    def go(rel, rich=False):
        nodes.append({"rel": rel, "class": "go", "decls": gen_decls(rng, rich)})
    tops = ["p0", "p1"] if rng.random() < 0.6 else ["p0"]
    for tp in tops:
        go(tp, rich=True)
        subs = rng.sample(["a", "a/b", "a/b/c", "x", "x/y", "internal", "internal/z", "q"], rng.randint(1, 6))
        for s in sorted(set(subs)):
            parent = "/".join(s.split("/")[:-1])
            if parent and parent not in [n["rel"][len(tp) + 1:] for n in nodes if n["rel"].startswith(tp + "/")]:
                # a directory without Go files on the way down
                if rng.random() < 0.5:
                    nodes.append({"rel": tp + "/" + parent, "class": "nogo", "decls": [], "extra": {"README": "no go files here\n"}})
                else:
                    go(tp + "/" + parent)
            go(tp + "/" + s, rich=rng.random() < 0.3)
        if rng.random() < 0.5:
            nodes.append({"rel": tp + "/onlytest", "class": "onlytest", "decls": [],
                          "extra": {"x_test.go": "package onlytest\n\ntype OT interface{ M() }\n"}})
        if rng.random() < 0.5:
            nodes.append({"rel": tp + "/never", "class": "never", "decls": [],
                          "extra": {"n.go": "//go:build verifnever\n\npackage never\n\ntype NV interface{ M() }\n"}})
        if rng.random() < 0.5:
            nodes.append({"rel": tp + "/testdata/td", "class": "ignored", "decls": [],
                          "extra": {"td.go": "package td\n\ntype TD interface{ M() }\n"}})
        if rng.random() < 0.4:
            nodes.append({"rel": tp + "/_hid", "class": "ignored", "decls": [],
                          "extra": {"h.go": "package hid\n\ntype H interface{ M() }\n"}})
    # string-vs-path confusions: directories whose import path is a proper STRING prefix of a sibling
    # (px/b, px/bc, px/bcd; px/k/f, px/k/fo), the same base name at two depths (px/b, px/k/b), three-level chains
    for rel in PREFIX_FAMILY:
        tag = re.sub(r"[^a-z]", "", rel[2:]).upper() or "TOP"
        nodes.append({"rel": rel, "class": "go", "decls": [
            {"name": "Keep" + tag, "form": "iface", "file": "a.go"}, {"name": "Drop" + tag, "form": "iface", "file": "a.go"}]
            + ([{"name": "Opt" + tag, "form": "struct", "file": "b.go"}] if rng.random() < 0.3 else [])})
        add_generated(rng, nodes[-1]["decls"], p=0.3)
    # nested recursive packages with different exclusion lists
    for rel in SVC_FAMILY:
        tag = re.sub(r"[^A-Za-z0-9]", "", rel[3:]).capitalize() or "Top"
        nodes.append({"rel": rel, "class": "go", "decls": [
            {"name": "Keep" + tag, "form": "iface", "file": "a.go"}, {"name": "Drop" + tag, "form": "iface", "file": "a.go"}]})
    # siblings whose name is the package's name followed by a byte smaller ('+' '-' '.') or larger ('0' '_') than '/':
    # in sorted order they stand between the package and its sub-packages, or after them
    for rel in SIBLING_FAMILY:
        tag = re.sub(r"[^A-Za-z0-9]", "", rel[3:]).capitalize() or "Top"
        nodes.append({"rel": rel, "class": "go", "decls": [
            {"name": "Keep" + tag, "form": "iface", "file": "a.go"}, {"name": "Drop" + tag, "form": "iface", "file": "a.go"}]})
    # directories that differ from each other (and from the exclusion patterns) only in letter case
    for rel in CASE_FAMILY:
        tag = re.sub(r"[^A-Za-z]", "", rel[2:]) or "Top"
        nodes.append({"rel": rel, "class": "go", "decls": [{"name": "I" + tag, "form": "iface", "file": "a.go"}]})
    # cross-package state: several packages with the SAME package name (different import paths; one in a
    # directory with another name) that declare interfaces, structs and files with the SAME names, plus
    # the same interface names in a package with a different name
    shared = gen_twin_decls(rng)
    go("tw")
    for rel, pkgname in (("tw/v1/api", None), ("tw/v2/api", None), ("tw/v3/other", "api"), ("tw/v1/misc", None)):
        ds = copy.deepcopy(shared)
        if rng.random() < 0.5:      # drop one interface (never the first: it may be a target)
            cand = [j for j, d in enumerate(ds) if d["form"] == "iface" and j > 0]
            if cand: del ds[rng.choice(cand)]
        if rng.random() < 0.5: ds.append({"name": "Only" + rel.split("/")[1].upper(), "form": "iface", "file": "b.go"})
        n = {"rel": rel, "class": "go", "decls": add_generated(rng, ds, p=0.3)}
        if pkgname: n["pkgname"] = pkgname
        nodes.append(n)
    if rng.random() < 0.6:
        go("p0x", rich=False)          # shares a string prefix with p0 but is not below it
        if rng.random() < 0.5: go("p0x/a")
    go("u")                            # never configured
    seen, out = set(), []
    for n in nodes:
        if n["rel"] not in seen:
            seen.add(n["rel"]); out.append(n)
    return out


def path_of(rel):
    return MOD + "/" + rel


# ------------------------------------------------------------------ configs
def empty_cfg():
    return {"all": None, "inc": None, "exc": None, "rec": None, "exsub": None, "mark": None}


def iface_names(node, tags):
    return [d["name"] for d in abstract_decls(node, tags) if d["iface"] and not d["local"] and not d["alias"] and d["active"] and d["name"] != "_"]


def gen_exsub(rng, rels):
    pats = []
    for _ in range(rng.randint(1, 2)):
        rel = rng.choice(rels)
        seg = rel.split("/")
        c = rng.random()
        if c < 0.35: body, bos, eos = ("lit", "/" + seg[-1]), False, True
        elif c < 0.55: body, bos, eos = ("lit", path_of(rel)), True, True
        elif c < 0.7: body, bos, eos = ("lit", "/" + seg[-1] + "/"), False, False
        elif c < 0.8: body, bos, eos = ("lit", "internal"), False, False
        elif c < 0.9: body, bos, eos = ("cat", ("lit", path_of(seg[0])), ("cat", ("lit", "/"), ("plus", ("class", True, [("/", "/")])))), True, True
        else: body, bos, eos = ("lit", seg[0]), False, rng.random() < 0.5
        pats.append({"bos": bos, "body": body, "eos": eos})
    return pats


def gen_ifaces(rng, node, tags, p_listed):
    out = {}
    if rng.random() >= p_listed:
        return out
    real = iface_names(node, tags)
    allnames = [d["name"] for d in abstract_decls(node, tags) if not d["local"] and d["name"] != "_"]
    for _ in range(rng.randint(1, 3)):
        c = rng.random()
        if c < 0.8 and real: n = rng.choice(real)
        elif c < 0.93 and allnames: n = rng.choice(allnames)    # a struct, an alias, something in an inactive file ...
        else: n = "Nope"
        k = rng.random()
        if k < 0.25: out[n] = None
        else:
            out[n] = gen_icfg(rng, n, many=rng.random() < 0.35)
    return out


def gen_icfg(rng, n, many=False):
    """`configs` list of an interface.  entries[j] = structname mark or None; forms[j] says how an entry without a
    mark is written: "null" (`~`), "empty" (`{}`), "file" (`{filename: mocks_j.txt}`).  Marks may repeat
    (identical entries).  One mock per entry, whatever the entries look like."""
    ne = rng.choice([2, 3, 3, 4]) if many else rng.choice([0, 0, 1, 2, 3])
    entries, forms = [], []
    style = rng.random()
    for j in range(ne):
        if style < 0.3: m, f = None, "null"                                   # [~, ~, ~]
        elif style < 0.5: m, f = (None, "null") if j != 1 else ("_e1", "file")   # [null, {structname: X}, null]
        else:
            m = rng.choice([None, None, "_e%d" % j, "_same"])
            f = rng.choice(["null", "null", "empty", "file"])
        entries.append(m); forms.append(f)
    return {"mark": rng.choice([None, "_i" + n]), "entries": entries, "forms": forms}


def gen_config(rng, nodes, shape=None):
    tags = [TAG] if rng.random() < 0.3 else []
    gos = [n for n in nodes if n["class"] == "go" and n["rel"] != "u"]
    rels = [n["rel"] for n in nodes]
    by_rel = {n["rel"]: n for n in nodes}
    words = sorted({d["name"] for n in gos for d in n["decls"] if d["name"] != "_"}) or ["A"]
    root = empty_cfg()
    root["mark"] = "_R"
    if rng.random() < 0.35: root["all"] = rng.random() < 0.6
    if rng.random() < 0.3: root["inc"] = gen_resrc(rng, words)
    if rng.random() < 0.2: root["exc"] = gen_resrc(rng, words)
    if rng.random() < 0.25: root["rec"] = rng.random() < 0.7
    if rng.random() < 0.3: root["exsub"] = gen_exsub(rng, rels)
    shape = shape or rng.choice(["flat", "single", "nested", "triple", "explicit_child", "rootrec", "random"])
    chain = [r for r in ["p0", "p0/a", "p0/a/b", "p0/a/b/c"] if r in by_rel and by_rel[r]["class"] == "go"]
    if shape == "flat": chosen = rng.sample([n["rel"] for n in gos], min(len(gos), rng.randint(1, 3)))
    elif shape == "single": chosen = [rng.choice(chain[:2] or ["p0"])]
    elif shape in ("nested", "explicit_child"): chosen = chain[:1] + rng.sample(chain[1:], min(1, len(chain) - 1))
    elif shape == "triple": chosen = chain[:1] + rng.sample(chain[1:], min(2, len(chain) - 1))
    elif shape == "rootrec": chosen = rng.sample([n["rel"] for n in gos], min(len(gos), 2)); root["rec"] = True
    elif shape == "nested_exsub":
        pkgs = gen_svc_config(rng, root)
        order = list(pkgs); rng.shuffle(order)
        return {"root": root, "tags": tags, "pkgs": pkgs, "order": order, "shape": shape}
    elif shape == "sorted_siblings":
        pkgs = gen_sibling_config(rng, root, words)
        order = list(pkgs); rng.shuffle(order)
        return {"root": root, "tags": tags, "pkgs": pkgs, "order": order, "shape": shape}
    elif shape == "exsub_flags":
        root["rec"] = None
        pkgs = gen_exsub_flag_config(rng, root)
        return {"root": root, "tags": tags, "pkgs": pkgs, "order": list(pkgs), "shape": shape}
    elif shape == "prefix_nested":
        pkgs = gen_prefix_config(rng, root, words)
        order = list(pkgs); rng.shuffle(order)
        return {"root": root, "tags": tags, "pkgs": pkgs, "order": order, "shape": shape}
    elif shape == "twins_explicit":
        tw = [n["rel"] for n in gos if n["rel"].startswith("tw/")]
        chosen = rng.sample(tw, rng.randint(2, len(tw))) + ([rng.choice(chain)] if chain and rng.random() < 0.4 else [])
    elif shape == "twins_recursive":
        chosen = [rng.choice(["tw", "tw", "tw/v1"]) if "tw/v1" in by_rel else "tw"]
        if chosen == ["tw/v1"] or rng.random() < 0.4: chosen.append(rng.choice(["tw/v2/api", "tw/v3/other"]))
    else: chosen = rng.sample([n["rel"] for n in gos], min(len(gos), rng.randint(1, 4)))
    if "p0x" in by_rel and shape in ("single", "nested") and rng.random() < 0.3: chosen.append("p0x")
    pkgs = {}
    for i, rel in enumerate(sorted(set(chosen))):
        c = empty_cfg()
        if rng.random() < 0.12:
            pkgs[path_of(rel)] = {"null": True, "cfg": c, "ifaces": {}}
            continue
        if rng.random() < 0.85: c["mark"] = "_P%d" % i
        if rng.random() < 0.5: c["all"] = rng.random() < 0.5
        if rng.random() < 0.5: c["inc"] = gen_resrc(rng, words)
        if rng.random() < 0.35: c["exc"] = gen_resrc(rng, words)
        if shape in ("twins_explicit", "twins_recursive"):
            # mostly the same selection and the same struct-name mark in all twins, so that every
            # (package name, interface, struct name, file name) coincides and only the path differs
            c = empty_cfg()
            k = rng.random()
            if k < 0.5: c["all"] = True
            elif k < 0.8: c["inc"] = {"t": "ok", "p": {"bos": False, "body": ("class", False, [("A", "Z")]), "eos": False}}
            else: c["inc"] = gen_resrc(rng, words, bad=0)
            if rng.random() < 0.3: c["mark"] = "_P%d" % i
            if shape == "twins_recursive" and rel in ("tw", "tw/v1"): c["rec"] = True
            pkgs[path_of(rel)] = {"null": False, "cfg": c, "ifaces": gen_ifaces(rng, by_rel[rel], tags, 0.3)}
            continue
        if shape in ("single", "nested", "triple"): c["rec"] = True if rng.random() < 0.9 else None
        elif shape == "explicit_child": c["rec"] = True if rel == "p0" else rng.choice([False, None])
        elif rng.random() < 0.4: c["rec"] = rng.random() < 0.6
        if rng.random() < 0.3: c["exsub"] = gen_exsub(rng, rels)
        pkgs[path_of(rel)] = {"null": False, "cfg": c, "ifaces": gen_ifaces(rng, by_rel[rel], tags, 0.5)}
    order = list(pkgs)
    rng.shuffle(order)
    return {"root": root, "tags": tags, "pkgs": pkgs, "order": order, "shape": shape}


def table_cases(rng):
    """The decision table all x listed x include x exclude x (match / no match / invalid) at root and
    at package level, on one small package."""
    node = {"rel": "p0", "class": "go", "decls": [
        {"name": "Foo", "form": "iface", "file": "a.go"}, {"name": "FooBar", "form": "iface", "file": "a.go"},
        {"name": "bar", "form": "iface", "file": "b.go"}, {"name": "Gen", "form": "generic_iface", "file": "a.go"},
        {"name": "Inst", "form": "inst", "target": "Gen", "file": "a.go"}, {"name": "S", "form": "struct", "file": "a.go"},
        {"name": "Fn", "form": "func", "file": "a.go"}, {"name": "AL", "form": "alias", "target": "Foo", "file": "a.go"},
        {"name": "Def", "form": "from_ident", "target": "Foo", "file": "a.go"},
        {"name": "Foo", "form": "local", "file": "b.go"}, {"name": "Loc", "form": "local", "file": "b.go"},
        {"name": "MoqFoo", "form": "mock_matryer", "target": "Foo", "file": "0mocks.go"},
        {"name": "MockFooBar", "form": "mock_testify", "target": "FooBar", "file": "mocks_test.go"},
        {"name": "FooGrpc", "form": "iface", "file": "a_svc_grpc.pb.go"}]}
    lit = lambda s, bos=False, eos=False: {"t": "ok", "p": {"bos": bos, "body": ("lit", s), "eos": eos}}
    incs = {"unset": None, "empty": {"t": "unset"}, "match_some": lit("Foo", True), "match_none": lit("Zzz"), "bad": {"t": "bad", "s": "("},
            "match_all": {"t": "ok", "p": {"bos": False, "body": ("star", ("any",)), "eos": False}}}
    excs = {"unset": None, "empty": {"t": "unset"}, "match_some": lit("Bar", False, True), "match_none": lit("Zzz"), "bad": {"t": "bad", "s": "[a"},
            "match_all": {"t": "ok", "p": {"bos": False, "body": ("eps",), "eos": False}}}
    out = []
    for level in ("root", "package"):
        for allv in (None, True, False):
            for listed in (False, True):
                for ik, iv in incs.items():
                    for ek, ev in excs.items():
                        root, c = empty_cfg(), empty_cfg()
                        root["mark"] = "_R"
                        tgt = root if level == "root" else c
                        tgt["all"], tgt["inc"], tgt["exc"] = allv, iv, ev
                        if level == "package" and rng.random() < 0.5:
                            # the opposite at root: the package level must win
                            root["all"] = (not allv) if allv is not None else None
                            root["inc"] = lit("bar") if iv is not None else None
                        # bar: matched by no include/exclude value; FooBar: matched by include ^Foo AND by exclude Bar$ -
                        # a listed interface is generated whatever the regexes say
                        ifs = {"bar": {"mark": None, "entries": [None, "_e1", None], "forms": ["null", "file", "null"]},
                               "FooBar": None} if listed else {}
                        cfg = {"root": root, "tags": [], "pkgs": {path_of("p0"): {"null": False, "cfg": c, "ifaces": ifs}},
                               "order": [path_of("p0")], "shape": "table"}
                        out.append({"nodes": [node], "config": cfg,
                                    "label": "table:%s:all=%s:listed=%s:inc=%s:exc=%s" % (level, allv, listed, ik, ek)})
    return out


# ------------------------------------------------------------------ printing for mockery
def cfg_yaml(c):
    d = {}
    if c["all"] is not None: d["all"] = c["all"]
    if c["inc"] is not None: d["include-interface-regex"] = resrc_go(c["inc"])
    if c["exc"] is not None: d["exclude-interface-regex"] = resrc_go(c["exc"])
    if c["rec"] is not None: d["recursive"] = c["rec"]
    if c["exsub"] is not None: d["exclude-subpkg-regex"] = [entry_go(p) for p in c["exsub"]]
    if c["mark"] is not None: d["structname"] = "{{.InterfaceName}}" + c["mark"]
    return d


def write_module(case, root):
    root.mkdir(parents=True, exist_ok=True)
    (root / "go.mod").write_text("module %s\n\ngo 1.23\n" % MOD)
    (root / "probe.templ").write_text(PROBE)
    for n in case["nodes"]:
        d = root / n["rel"]
        d.mkdir(parents=True, exist_ok=True)
        for f, txt in pkg_files(n).items():
            (d / f).write_text(txt)


def write_config(case, root, outdir):
    cfg = case["config"]
    y = cfg_yaml(cfg["root"])
    y.update({"template": "file://%s/probe.templ" % root, "require-template-schema-exists": False, "formatter": "noop",
              "force-file-write": True, "dir": "%s/{{.SrcPackagePath}}" % outdir, "filename": "mocks.txt"})
    if cfg["tags"]: y["build-tags"] = " ".join(cfg["tags"])
    pk = {}
    for path, p in cfg["pkgs"].items():
        if p["null"]:
            pk[path] = None
            continue
        e = {}
        cy = cfg_yaml(p["cfg"])
        if cy or not p["ifaces"]: e["config"] = cy
        if p["ifaces"]:
            e["interfaces"] = {}
            for n, ic in p["ifaces"].items():
                if ic is None:
                    e["interfaces"][n] = None
                    continue
                v = {}
                if ic["mark"] is not None: v["config"] = {"structname": "{{.InterfaceName}}" + ic["mark"]}
                if ic["entries"]:
                    forms = ic.get("forms") or ["file"] * len(ic["entries"])
                    v["configs"] = [({"structname": "{{.InterfaceName}}" + m} if m is not None else
                                     None if forms[j] == "null" else {} if forms[j] == "empty" else {"filename": "mocks_%d.txt" % j})
                                    for j, m in enumerate(ic["entries"])]
                e["interfaces"][n] = v or None
        pk[path] = e
    y["packages"] = pk
    f = root / ("cfg_%s.yml" % outdir.name)
    f.write_text(json.dumps(y, indent=1))      # JSON is YAML
    return f


def run_impl(ctx, case, root, tagname):
    """One real mockery run; returns (exit class, sorted list of (pkg, iface, struct), stderr tail)."""
    outdir = root / ("out_" + tagname)
    shutil.rmtree(outdir, ignore_errors=True)
    cf = write_config(case, root, outdir)
    p = run([ctx.bins["mockery"], "--config", str(cf)], cwd=root, env=go_env({"GOFLAGS": "-mod=mod"}), timeout=300)
    err = p.stderr.decode(errors="replace") + p.stdout.decode(errors="replace")
    if p.returncode == 0: ex = "ok"
    elif "panic:" in err or "goroutine " in err: ex = "panic"
    else: ex = "err"
    obs = []
    if outdir.exists():
        for f in sorted(outdir.rglob("*")):
            if f.is_file():
                for line in f.read_text().splitlines():
                    if line.startswith("MOCK "):
                        parts = line.split(" ")
                        obs.append((parts[1], parts[2], parts[3] if len(parts) > 3 else ""))
    tail = [l for l in err.splitlines() if "ERR" in l or "panic" in l or "FTL" in l or ".go:" in l][:6]
    return ex, sorted(obs), tail


# ------------------------------------------------------------------ oracle (documented rules, no model)
IGNORED_DIR = re.compile(r"(^|/)(testdata|_[^/]*|\.[^/]*)(/|$)")


def eff(own, parent):
    return {k: (own[k] if own[k] is not None else parent[k]) for k in own}


def oracle_expected(case):
    """(expected multiset, reasons for a non-zero exit) from the property text."""
    cfg = case["config"]
    tags = cfg["tags"]
    defaults = {"all": False, "inc": {"t": "unset"}, "exc": {"t": "unset"}, "rec": False, "exsub": [], "mark": ""}
    root = eff(cfg["root"], defaults)
    nodes = {path_of(n["rel"]): n for n in case["nodes"]}
    has_go = {p: (n["class"] == "go" and not IGNORED_DIR.search(n["rel"])) for p, n in nodes.items()}
    explicit = {p: eff(v["cfg"], root) for p, v in cfg["pkgs"].items()}
    listed = {p: v["ifaces"] for p, v in cfg["pkgs"].items()}
    effective = dict(explicit)
    for p in nodes:
        if p in explicit or not has_go[p]:
            continue
        adopters = [r for r, c in explicit.items() if c["rec"] and (p == r or p.startswith(r + "/"))
                    and not any(entry_search(x, p) for x in c["exsub"])]
        if adopters:
            effective[p] = explicit[max(adopters, key=len)]        # nearest = longest path
            listed[p] = {}
    want, reasons = [], []
    # an expression that does not compile, at top level or on a package, is rejected when the configuration is
    # initialised (C09: "an invalid regular expression ... non-zero exit"): nothing is generated
    for where, c in [("the top-level config", cfg["root"])] + [(p, v["cfg"]) for p, v in cfg["pkgs"].items()]:
        for key in ("inc", "exc"):
            if c[key] is not None and c[key]["t"] == "bad":
                reasons.append("invalid %s regex in %s" % (key, where))
    if reasons:
        return [], reasons
    for p, c in effective.items():
        if p not in nodes:
            continue
        ifs = set(iface_names(nodes[p], tags))
        for n in listed[p]:
            if n not in ifs: reasons.append("listed %s.%s is not an interface of the package" % (p, n))
        for n in sorted(ifs):
            if c["all"] is True: sel = True
            elif n in listed[p]: sel = True
            elif c["inc"]["t"] == "ok" and re.search(pat_go(c["inc"]["p"]), n):
                sel = c["exc"]["t"] != "ok" or not re.search(pat_go(c["exc"]["p"]), n)
            else: sel = False
            if not sel:
                continue
            ic = listed[p].get(n) or {"mark": None, "entries": []}
            entries = ic["entries"] or [None]
            for m in entries:
                mark = m if m is not None else ic["mark"] if ic["mark"] is not None else c["mark"]
                want.append((p, n, n + mark))
    return sorted(want), reasons


def multiset_leq(a, b):
    b = list(b)
    for x in a:
        if x in b: b.remove(x)
        else: return False
    return True


def oracle(case, ex, obs):
    want, reasons = oracle_expected(case)
    obs = [tuple(x) for x in obs]
    if ex == "panic":
        return ["panic: mockery crashed"]
    if ex == "ok":
        if any(r.startswith("invalid") for r in reasons):
            return ["exit: zero exit although %s" % reasons[0]]
        if obs != want:
            miss = [x for x in want if want.count(x) > obs.count(x)]
            extra = [x for x in obs if obs.count(x) > want.count(x)]
            return ["multiset: missing %s, unexpected %s" % (sorted(set(miss))[:6], sorted(set(extra))[:6])]
        return []
    if not reasons:
        return ["exit: non-zero exit although every regex is valid and every listed interface exists"]
    if not multiset_leq(obs, want):
        return ["multiset: missing [], unexpected %s" % sorted({x for x in obs if obs.count(x) > want.count(x)})[:6]]
    if all(r.startswith("listed") for r in reasons) and obs != want:
        return ["multiset: missing %s, unexpected []" % sorted({x for x in want if want.count(x) > obs.count(x)})[:6]]
    return []


# ------------------------------------------------------------------ printing for Coq
def cfg_coq(c, root=False):
    def opt(v, f): return "None" if v is None else "(Some %s)" % f(v)
    if root:
        c = dict(c)
        c["all"] = False if c["all"] is None else c["all"]
        c["inc"] = c["inc"] or {"t": "unset"}
        c["exc"] = c["exc"] or {"t": "unset"}
        c["rec"] = False if c["rec"] is None else c["rec"]
    return "{| c_all := %s; c_inc := %s; c_exc := %s; c_rec := %s; c_exsub := %s; c_mark := %s |}" % (
        opt(c["all"], coq_bool), opt(c["inc"], resrc_coq), opt(c["exc"], resrc_coq), opt(c["rec"], coq_bool),
        opt(c["exsub"], lambda l: coq_list(entry_coq(p) for p in l)), opt(c["mark"], coq_bytes))


def case_term(case, ex, obs):
    cfg = case["config"]
    tree = [(path_of(n["rel"]), n["class"] == "go") for n in case["nodes"] if n["class"] != "ignored"]
    srcs = []
    for n in case["nodes"]:
        if n["class"] != "go": continue
        ds = ["{| d_name := %s; d_rhs := %s; d_alias := %s; d_iface := %s; d_scope := %s; d_active := %s |}" % (
            coq_bytes(d["name"]), d["rhs"], coq_bool(d["alias"]), coq_bool(d["iface"]),
            "FuncLocal" if d["local"] else "PkgLevel", coq_bool(d["active"])) for d in abstract_decls(n, cfg["tags"])]
        srcs.append("(%s, %s)" % (coq_bytes(path_of(n["rel"])), coq_list(ds)))
    pm = []
    for path in sorted(cfg["pkgs"]):
        p = cfg["pkgs"][path]
        ifs = []
        for n, ic in p["ifaces"].items():
            ic = ic or {"mark": None, "entries": []}
            ifs.append("(%s, {| i_mark := %s; i_entries := %s |})" % (
                coq_bytes(n), coq_opt(ic["mark"], coq_bytes), coq_list(coq_opt(m, coq_bytes) for m in ic["entries"])))
        pm.append("(%s, {| p_cfg := %s; p_ifaces := %s |})" % (coq_bytes(path), cfg_coq(p["cfg"]), coq_list(ifs)))
    return ("{| c_tree := %s; c_srcs := %s; c_root := %s; c_order := %s; c_map := %s; c_exit := %s; c_obs := %s |}" % (
        coq_list("(%s, %s)" % (coq_bytes(p), coq_bool(g)) for p, g in tree), coq_list(srcs), cfg_coq(cfg["root"], root=True),
        coq_list(coq_bytes(p) for p in cfg["order"]), coq_list(pm),
        {"ok": "ExOk", "err": "ExErr", "panic": "ExPanic"}[ex],
        coq_list("(%s, %s, %s)" % tuple(coq_bytes(x) for x in o) for o in obs)))


HARNESS = "Lib.Regex Cfg.Select Harness.C07"


# ------------------------------------------------------------------ shrinking
def normalise(case):
    case = copy.deepcopy(case)

    def fix(c):
        for k in ("inc", "exc"):
            if c[k] and c[k]["t"] == "ok": c[k]["p"]["body"] = tup(c[k]["p"]["body"])
        if c["exsub"]:
            for p in c["exsub"]: p["body"] = tup(p["body"])
    fix(case["config"]["root"])
    for p in case["config"]["pkgs"].values(): fix(p["cfg"])
    return case


def reductions(case):
    """Smaller variants of a case."""
    cfg = case["config"]
    conf_rels = {p[len(MOD) + 1:] for p in cfg["pkgs"]}
    for i, n in enumerate(case["nodes"]):
        if not any(r == n["rel"] or r.startswith(n["rel"] + "/") for r in conf_rels):
            c = copy.deepcopy(case)
            c["nodes"] = [m for m in c["nodes"] if not (m["rel"] == n["rel"] or m["rel"].startswith(n["rel"] + "/"))]
            yield c
    for i, n in enumerate(case["nodes"]):
        targets = {d.get("target") for d in n["decls"]}
        for j, d in enumerate(n["decls"]):
            if d["name"] in targets and d["form"] not in LOCAL: continue
            if sum(1 for x in n["decls"] if x["file"] in ("a.go", "b.go")) <= 1 and d["file"] in ("a.go", "b.go"): continue
            c = copy.deepcopy(case)
            del c["nodes"][i]["decls"][j]
            yield c
    if len(cfg["pkgs"]) > 1:
        for p in list(cfg["pkgs"]):
            c = copy.deepcopy(case)
            del c["config"]["pkgs"][p]
            c["config"]["order"] = [x for x in c["config"]["order"] if x != p]
            yield c
    for p, v in cfg["pkgs"].items():
        for n in list(v["ifaces"]):
            c = copy.deepcopy(case)
            del c["config"]["pkgs"][p]["ifaces"][n]
            yield c
            ic = v["ifaces"][n]
            if ic and len(ic["entries"]) > 2:
                for j in range(len(ic["entries"])):
                    c = copy.deepcopy(case)
                    x = c["config"]["pkgs"][p]["ifaces"][n]
                    del x["entries"][j]
                    if x.get("forms"): del x["forms"][j]
                    yield c
        for k in ("all", "inc", "exc", "rec", "exsub", "mark"):
            if v["cfg"][k] is not None:
                c = copy.deepcopy(case)
                c["config"]["pkgs"][p]["cfg"][k] = None
                yield c
    for holder, get in [("root", lambda c: c["config"]["root"])] + [(p, (lambda c, p=p: c["config"]["pkgs"][p]["cfg"])) for p in cfg["pkgs"]]:
        l = get(case)["exsub"]
        if l and len(l) > 1:
            for j in range(len(l)):
                c = copy.deepcopy(case)
                del get(c)["exsub"][j]
                yield c
    for k in ("all", "inc", "exc", "rec", "exsub"):
        if cfg["root"][k] is not None:
            c = copy.deepcopy(case)
            c["config"]["root"][k] = None
            yield c
    if cfg["tags"]:
        c = copy.deepcopy(case)
        c["config"]["tags"] = []
        yield c


def shrink(ctx, case, fails, budget=45):
    k = 0
    progress = True
    while progress and budget > 0:
        progress = False
        for cand in reductions(case):
            if budget <= 0: break
            budget -= 1; k += 1
            if fails(cand, "shr%d" % k):
                case, progress = cand, True
                break
    return case


def readable(case, ex=None, obs=None):
    cfg = case["config"]
    d = {"label": case.get("label", cfg.get("shape")),
         "tree": {n["rel"]: (n["class"] if n["class"] != "go" else [("%s:%s%s" % (x["name"], x["form"], "" if x["file"] in ("a.go", "b.go") else "@" + x["file"])) for x in n["decls"]])
                  for n in case["nodes"]},
         "config_yaml": {"root": cfg_yaml(cfg["root"]), "build-tags": cfg["tags"],
                         "packages": {p: (None if v["null"] else {"config": cfg_yaml(v["cfg"]), "interfaces": v["ifaces"]}) for p, v in cfg["pkgs"].items()}}}
    if ex is not None:
        want, reasons = oracle_expected(case)
        d["observed"] = {"exit": ex, "mocks": [" ".join(o) for o in obs]}
        d["expected_by_rules"] = {"mocks": [" ".join(o) for o in want], "reasons_for_nonzero_exit": reasons}
    return d


# ------------------------------------------------------------------ check
def corpus():
    f = VERIF / "corpus" / "C07" / "cases.json"
    return [normalise(c) for c in json.loads(f.read_text())] if f.exists() else []


def gen_cases(ctx):
    rng = ctx.rng
    cases = []
    tab = table_cases(rng)
    if not ctx.thorough():
        tab = rng.sample(tab, 72)
    cases += tab
    ntrees = 130 if ctx.thorough() else 10
    shapes = ["flat", "single", "nested", "nested_exsub", "prefix_nested", "exsub_flags", "sorted_siblings", "twins_explicit", "twins_recursive", "triple",
              "explicit_child", "rootrec", "prefix_nested", "exsub_flags", "sorted_siblings", "nested", "random"]
    for t in range(ntrees):
        nodes = gen_tree(rng)
        for k in range(17 if ctx.thorough() else 12):
            cfg = gen_config(rng, nodes, shape=shapes[k % len(shapes)])
            cases.append({"nodes": nodes, "config": cfg, "label": "tree%d:%s" % (t, cfg["shape"])})
    return cases


def check(ctx, only=None):
    gate = proof_gate(ctx)
    if not ctx.build_tree():
        ctx.write_evidence(gate, 0, 0, "build failed", [])
        return
    cases = only if only is not None else corpus() + gen_cases(ctx)
    # one scratch module per distinct tree
    roots, keyidx = [], {}
    for c in cases:
        key = json.dumps(c["nodes"], sort_keys=True)
        if key not in keyidx:
            keyidx[key] = ctx.scratch / ("mod%d" % len(keyidx))
            write_module(c, keyidx[key])
        roots.append(keyidx[key])

    def reps(c):     # order-dependent behaviour shows only sometimes: run recursion shapes more than once
        nrec = sum(1 for p in c["config"]["pkgs"].values() if p["cfg"]["rec"]) + (2 if c["config"]["root"]["rec"] else 0)
        if only is None and c["config"]["shape"] in ("sorted_siblings", "nested_exsub") and not c.get("label", "").startswith("corpus:"):
            return 1          # many recursive packages = many `go list` calls per run; the corpus variants are repeated
        return (5 if only is not None else 3) if nrec >= 2 else 1
    jobs = [(i, r) for i, c in enumerate(cases) for r in range(reps(c))]
    results = pmap(lambda j: run_impl(ctx, cases[j[0]], roots[j[0]], "c%d_%d" % j), jobs)
    per_case = {}
    for (i, r), res in zip(jobs, results):
        per_case.setdefault(i, []).append(res)
    # oracle on every run; correspondence on every run
    oracle_fail, terms, term_of = {}, [], []
    for i, c in enumerate(cases):
        for r, (ex, obs, tail) in enumerate(per_case[i]):
            e = oracle(c, ex, obs)
            if e and i not in oracle_fail:
                oracle_fail[i] = (e, ex, obs, tail)
            terms.append(case_term(c, ex, obs)); term_of.append((i, r))
    bad, errs = coq_mismatches(ctx, HARNESS, terms, shard=40)
    bad_cases = sorted({term_of[b][0] for b in bad})

    # one representative per failure signature (so that one frequent defect does not hide the others)
    def signature(e):
        m = re.match(r"multiset: missing (\[.*?\]), unexpected (\[.*\])$", e[0])
        if m:
            return "multiset:%s%s" % ("missing" if m.group(1) != "[]" else "", "+unexpected" if m.group(2) != "[]" else "")
        return e[0].split(":")[0] + ":" + e[0].split(":")[1][:24]
    reps_by_sig = {}
    for i in sorted(oracle_fail):
        lab = cases[i].get("label", "")
        reps_by_sig.setdefault(lab if lab.startswith("corpus:") else signature(oracle_fail[i][0]), i)
    for i in sorted(reps_by_sig.values())[:8]:
        e0, ex0, obs0, tail0 = oracle_fail[i]
        kind = e0[0].split(":")[0]

        def fails(cand, tagname, kind=kind, e0=e0):
            root = ctx.scratch / ("shrink_%d_%s" % (i, tagname))
            write_module(cand, root)
            for rr in range(3 if kind == "multiset" else 1):
                ex, obs, _ = run_impl(ctx, cand, root, "r%d" % rr)
                ee = oracle(cand, ex, obs)
                if ee and signature(ee) == signature(e0):
                    shutil.rmtree(root, ignore_errors=True)
                    return True
            shutil.rmtree(root, ignore_errors=True)
            return False
        small = shrink(ctx, cases[i], fails) if only is None else cases[i]
        root = ctx.scratch / ("final_%d" % i)
        write_module(small, root)
        ex, obs, tail, ee = ex0, obs0, tail0, e0
        for rr in range(5):
            ex1, obs1, tail1 = run_impl(ctx, small, root, "f%d" % rr)
            e1 = oracle(small, ex1, obs1)
            if e1:
                ex, obs, tail, ee = ex1, obs1, tail1, e1
                break
        rp = ctx.write_replay("oracle-%d" % i, {
            "what": ee, "stderr": tail, "case": small, "readable": readable(small, ex, obs),
            "note": "expected = the documented selection rules of C07 evaluated directly on the abstract input (no model)"})
        ctx.violation(rp)
    if not gate["ok"] and not oracle_fail:
        ctx.violation(gate["replay"], nofail=True)
    if (bad_cases or errs) and not oracle_fail:
        ex_det = []
        for i in bad_cases[:3]:
            ex, obs, tail = per_case[i][0]
            exp = coq_show(ctx, HARNESS, "model_obs (%s)" % case_term(cases[i], ex, obs), name="show%d" % i)
            ex_det.append({"case": cases[i], "readable": readable(cases[i], ex, obs), "model_expected": exp[:3000]})
        rp = ctx.write_replay("correspondence", {
            "what": "model Cfg/Select.v and the implementation disagree on %d case(s); the rule oracle accepts every run" % len(bad_cases),
            "obligation": "correspondence Harness/C07.v check_case (exit class and multiset of (package, interface, struct name))",
            "coq_errors": errs, "examples": ex_det})
        ctx.violation(rp, nofail=True)

    # evidence
    hist = {"decl_forms": {}, "shapes": {}, "exit": {}, "decision": {}, "dir_classes": {}, "configs_len": {}}
    nontrivial = set()
    for i, c in enumerate(cases):
        cfg = c["config"]
        hist["shapes"][cfg["shape"]] = hist["shapes"].get(cfg["shape"], 0) + 1
        ex, obs, _ = per_case[i][0]
        hist["exit"][ex] = hist["exit"].get(ex, 0) + 1
        for p in cfg["pkgs"].values():
            e = eff(p["cfg"], eff(cfg["root"], {"all": False, "inc": {"t": "unset"}, "exc": {"t": "unset"}, "rec": False, "exsub": [], "mark": ""}))
            key = "all=%s listed=%s inc=%s exc=%s rec=%s" % (e["all"], bool(p["ifaces"]), e["inc"]["t"], e["exc"]["t"], e["rec"])
            hist["decision"][key] = hist["decision"].get(key, 0) + 1
            for ic in p["ifaces"].values():
                k = str(len(ic["entries"])) if ic else "none"
                hist["configs_len"][k] = hist["configs_len"].get(k, 0) + 1
        if obs:
            nontrivial.add(json.dumps([c["nodes"], cfg], sort_keys=True, default=str))
    for key, root in keyidx.items():
        for n in json.loads(key):
            hist["dir_classes"][n["class"]] = hist["dir_classes"].get(n["class"], 0) + 1
            for d in n["decls"]:
                f = d["form"] + ("" if d["file"] in ("a.go", "b.go") else "@" + d["file"])
                hist["decl_forms"][f] = hist["decl_forms"].get(f, 0) + 1
    samples = [readable(cases[i], per_case[i][0][0], per_case[i][0][1]) for i in range(len(cases)) if cases[i]["config"]["shape"] == "nested"][:2]
    ctx.write_evidence(gate, len(jobs), len(nontrivial),
                       "one evaluation = one run of the real mockery on a generated module + config, compared with the model (vm_compute) and with the rule oracle; "
                       "non-trivial = at least one mock was written; distinct by (tree, config); cases with two or more recursive packages are run 3 times",
                       samples,
                       extra={"histogram": hist, "model_mismatches": len(bad_cases), "oracle_failures": len(oracle_fail),
                              "cases": len(cases), "distinct_trees": len(keyidx), "coq_errors": errs[:3]},
                       assumptions=["package paths, interface names and regular expressions are ASCII (the regex model is byte-level)",
                                    "configured packages exist and have Go files; exclusion regexes are valid (invalid ones are C09's subject)",
                                    "the go tool's notion of a package directory (testdata, _x and .x are ignored; _test.go and build-excluded files do not count) is applied by the generator when it prints the tree for the model"])


def replay(ctx, path):
    d = json.loads(open(path).read())
    cs = [d["case"]] if "case" in d else [e["case"] for e in d.get("examples", [])]
    check(ctx, only=[normalise(c) for c in cs])
