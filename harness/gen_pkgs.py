"""Seeded generator of type-correct Go modules with interfaces of many type shapes.
Shared by C01 / C02 / C14 / C13 / C03.  Produces an abstract description (JSON-able AST)
and the Go sources; checks print the same AST as Gallina terms.

Type AST (dicts):
  {"k":"basic","n":"int"}                      predeclared non-generic types incl. error, any, unsafe.Pointer ("unsafe.Pointer")
  {"k":"named","pkg":<path>|"","n":"T","targs":[ty...]}   "" = the source package itself
  {"k":"alias", ... same fields}               a declared alias  (type A = …)
  {"k":"ptr","e":ty} {"k":"slice","e":ty} {"k":"array","len":N,"e":ty} {"k":"map","key":ty,"e":ty}
  {"k":"chan","dir":"both|send|recv","e":ty}
  {"k":"func","sig":sig}     sig = {"params":[{"n":name,"t":ty}],"variadic":bool,"results":[{"n":name,"t":ty}]}
  {"k":"struct","fields":[{"n":name,"t":ty,"tag":str,"emb":bool}]}
  {"k":"iface","methods":[{"n":name,"sig":sig}],"embeds":[ty]}
  {"k":"tparam","n":"T"}
Interface description:
  {"name":…, "tparams":[{"n":"T","c":constraint-ty}], "methods":[{"n":…, "sig":sig}], "embeds":[ty], "exported":bool}
"""
import random

MOD = "example.com/m"

# external packages of the generated module: (import path, package name, source alias used in src files)
EXT = [
    {"path": MOD + "/ext/http", "name": "http", "alias": "h1"},
    {"path": MOD + "/ext2/http", "name": "http", "alias": "h2"},
    {"path": MOD + "/ext3/http0", "name": "http0", "alias": ""},
    {"path": MOD + "/ext4/v2", "name": "ctx", "alias": ""},       # last path element differs from the name
    {"path": MOD + "/ext5/mock", "name": "mock", "alias": "extmock"},  # collides with testify's qualifier
    {"path": MOD + "/ext6/sync", "name": "sync", "alias": "xsync"},    # collides with matryer's qualifier
]
STD = [
    {"path": "context", "name": "context", "types": [("Context", "iface")]},
    {"path": "io", "name": "io", "types": [("Reader", "iface"), ("Writer", "iface")]},
    {"path": "net/http", "name": "http", "types": [("Request", "struct"), ("Handler", "iface")], "alias": "nethttp"},
    {"path": "time", "name": "time", "types": [("Duration", "basic"), ("Time", "struct")]},
]
# every ext package declares the same set of types
EXT_TYPES = [("Client", "struct"), ("Key", "cmp"), ("Handler", "iface"), ("Opt", "func"), ("Box", "generic"), ("Num", "constraint")]

BASIC = ["bool", "string", "int", "int8", "int64", "uint", "uint32", "byte", "rune", "float64", "complex128", "uintptr", "error", "any"]
COMPARABLE_BASIC = ["bool", "string", "int", "int64", "uint32", "byte", "float64"]

# identifier pools
ORDINARY = ["a", "b", "x", "y", "n", "s", "v", "id", "key", "val", "name", "data", "opts", "args0", "in", "out", "p1", "p2", "req", "resp", "cb", "ch", "m", "fn"]
QUALIFIER_LIKE = ["http", "http0", "ctx", "context", "io", "time", "src", "sync", "fmt", "unsafe", "h1", "h2", "nethttp"]
PREDECLARED = ["string", "int", "error", "bool", "nil", "true", "len", "append", "make", "new", "any", "byte", "panic", "cap", "iota"]
TYPE_LIKE = ["Local", "LocalIface", "Client", "Key", "Pair", "Gen", "T", "K", "V", "AliasC"]
CASE_PAIRS = ["a", "A", "id", "ID", "Id", "url", "URL"]
TEMPLATE_LOCALS = ["r0", "r1", "ok", "ret", "ret1", "returnFunc", "_va", "_ca", "_i", "tmpRet", "mock", "callInfo", "run", "args",
                   "t", "_mock", "_m", "_e", "_c", "variadicArgs", "i", "calls", "stub"]
NONASCII = ["é", "ñame", "δ", "Ωmega"]


def basic(n):
    return {"k": "basic", "n": n}


def named(pkg, n, targs=()):
    return {"k": "named", "pkg": pkg, "n": n, "targs": list(targs)}


class Gen:
    def __init__(self, rng, *, pools=("ordinary", "qualifier", "predeclared", "typelike", "case"), max_depth=3,
                 allow_unnamed=True, allow_generic=True, allow_embeds=True, allow_nonascii_types=False,
                 allow_unsafe=True, n_ifaces=(3, 7), n_methods=(0, 5), ext=None, std=None):
        self.rng = rng
        self.max_depth = max_depth
        self.allow_unnamed = allow_unnamed
        self.allow_generic = allow_generic
        self.allow_embeds = allow_embeds
        self.allow_unsafe = allow_unsafe
        self.allow_nonascii_types = allow_nonascii_types
        self.n_ifaces, self.n_methods = n_ifaces, n_methods
        self.ext = EXT if ext is None else ext
        self.std = STD if std is None else std
        pool = []
        w = {"ordinary": (ORDINARY, 6), "qualifier": (QUALIFIER_LIKE, 2), "predeclared": (PREDECLARED, 2), "typelike": (TYPE_LIKE, 2),
             "case": (CASE_PAIRS, 2), "template_locals": (TEMPLATE_LOCALS, 3), "nonascii": (NONASCII, 1)}
        for p in pools:
            names, weight = w[p]
            pool += [(n, weight / len(names)) for n in names]
        self.pool = pool
        self.local_types = [("Local", "struct"), ("Key", "cmp"), ("LocalIface", "iface"), ("Pair", "generic2"), ("Gen", "giface"),
                            ("AliasC", "alias"), ("hidden", "struct"), ("Fn", "func"), ("Num", "constraint")]
        if allow_nonascii_types:
            self.local_types.append(("Élan", "struct"))

    # ---------- identifiers ----------
    def ident(self):
        tot = sum(w for _, w in self.pool)
        r = self.rng.random() * tot
        for n, w in self.pool:
            r -= w
            if r <= 0:
                return n
        return self.pool[-1][0]

    def names(self, k, allow_blank=True):
        """k parameter names: all unnamed, or all named (distinct, `_` may repeat)."""
        if k == 0:
            return []
        if self.allow_unnamed and self.rng.random() < 0.25:
            return [""] * k
        out, used = [], set()
        for _ in range(k):
            if allow_blank and self.rng.random() < 0.08:
                out.append("_")
                continue
            for _try in range(50):
                n = self.ident()
                if n not in used:
                    break
            else:
                n = "z%d" % len(used)
            used.add(n)
            out.append(n)
        return out

    # ---------- types ----------
    def comparable(self, tparams):
        r = self.rng.random()
        if r < 0.5:
            return basic(self.rng.choice(COMPARABLE_BASIC))
        if r < 0.7:
            return named("", "Key")
        if r < 0.9 and self.ext:
            return named(self.rng.choice(self.ext)["path"], "Key")
        cmp_tps = [t for t in tparams if t.get("cmp")]
        if cmp_tps:
            return {"k": "tparam", "n": self.rng.choice(cmp_tps)["n"]}
        return basic("string")

    def named_type(self, tparams, depth):
        r = self.rng.random()
        if r < 0.35:
            n, kind = self.rng.choice(self.local_types)
            pkg = ""
        elif r < 0.75 and self.ext:
            e = self.rng.choice(self.ext)
            n, kind = self.rng.choice(EXT_TYPES)
            pkg = e["path"]
        else:
            s = self.rng.choice(self.std)
            n, kind = self.rng.choice(s["types"])
            return named(s["path"], n)
        if kind == "constraint":
            n, kind = "Key", "cmp"
        if kind == "generic":      # Box[T any]
            if not self.allow_generic:
                return named(pkg, "Client")
            return named(pkg, "Box", [self.ty(tparams, depth + 1)])
        if kind == "generic2":     # Pair[K comparable, V any]
            if not self.allow_generic:
                return named(pkg, "Local")
            return named(pkg, "Pair", [self.comparable(tparams), self.ty(tparams, depth + 1)])
        if kind == "giface":       # Gen[T any] interface
            if not self.allow_generic:
                return named(pkg, "LocalIface")
            return named(pkg, "Gen", [self.ty(tparams, depth + 1)])
        if kind == "alias":
            return {"k": "alias", "pkg": pkg, "n": n, "targs": []}
        return named(pkg, n)

    def sig(self, tparams, depth, max_params=4, max_results=3, allow_variadic=True):
        np_ = self.rng.choice([0, 1, 1, 2, 2, 3, max_params])
        nr = self.rng.choice([0, 1, 1, 2, max_results])
        pn = self.names(np_)
        rn = self.names(nr) if self.rng.random() < 0.4 else [""] * nr
        # named results must not clash with parameter names
        if any(rn):
            used = set(pn)
            fixed = []
            for n in rn:
                while n != "_" and n in used:
                    n = n + "R"
                used.add(n)
                fixed.append(n)
            rn = fixed
        params = [{"n": n, "t": self.ty(tparams, depth + 1)} for n in pn]
        variadic = False
        if params and allow_variadic and self.rng.random() < 0.3:
            variadic = True
            params[-1]["t"] = {"k": "slice", "e": params[-1]["t"]}
        results = [{"n": n, "t": (basic("error") if (i == nr - 1 and self.rng.random() < 0.4) else self.ty(tparams, depth + 1))} for i, n in enumerate(rn)]
        return {"params": params, "variadic": variadic, "results": results}

    def ty(self, tparams, depth=0):
        r = self.rng.random()
        leaf = depth >= self.max_depth
        if leaf or r < 0.30:
            r2 = self.rng.random()
            if r2 < 0.5:
                return basic(self.rng.choice(BASIC))
            if r2 < 0.55 and self.allow_unsafe:
                return basic("unsafe.Pointer")
            if r2 < 0.7 and tparams:
                return {"k": "tparam", "n": self.rng.choice(tparams)["n"]}
            return self.named_type(tparams, self.max_depth)
        if r < 0.48:
            return self.named_type(tparams, depth)
        if r < 0.56:
            return {"k": "ptr", "e": self.ty(tparams, depth + 1)}
        if r < 0.64:
            return {"k": "slice", "e": self.ty(tparams, depth + 1)}
        if r < 0.68:
            return {"k": "array", "len": self.rng.choice([0, 1, 4, 16]), "e": self.ty(tparams, depth + 1)}
        if r < 0.76:
            return {"k": "map", "key": self.comparable(tparams), "e": self.ty(tparams, depth + 1)}
        if r < 0.84:
            return {"k": "chan", "dir": self.rng.choice(["both", "send", "recv"]), "e": self.ty(tparams, depth + 1)}
        if r < 0.91:
            return {"k": "func", "sig": self.sig(tparams, depth + 1, max_params=2, max_results=2)}
        if r < 0.96:
            nf = self.rng.randint(0, 3)
            fields = []
            used = set()
            for i in range(nf):
                if self.rng.random() < 0.2:
                    e = self.rng.choice([named("", "Local"), named(self.ext[0]["path"], "Client")] if self.ext else [named("", "Local")])
                    if e["n"] in used:
                        continue
                    used.add(e["n"])
                    fields.append({"n": e["n"], "t": e, "tag": "", "emb": True})
                else:
                    n = self.rng.choice(["A", "b", "Name", "X", "y", "ID"])
                    if n in used:
                        continue
                    used.add(n)
                    fields.append({"n": n, "t": self.ty(tparams, depth + 1), "tag": self.rng.choice(["", "", 'json:"%s,omitempty"' % n.lower()]), "emb": False})
            return {"k": "struct", "fields": fields}
        nm = self.rng.randint(0, 2)
        ms, used = [], set()
        for _ in range(nm):
            n = self.rng.choice(["Do", "Get", "Close", "run"])
            if n in used:
                continue
            used.add(n)
            ms.append({"n": n, "sig": self.sig(tparams, depth + 1, max_params=2, max_results=1)})
        embeds = []
        if self.rng.random() < 0.3:
            embeds.append(named("io", "Reader") if self.rng.random() < 0.5 or not self.ext else named(self.ext[2]["path"], "Handler"))
            ms = [m for m in ms if m["n"] not in ("Read", "Handle")]
        return {"k": "iface", "methods": ms, "embeds": embeds}

    # ---------- interfaces ----------
    def constraint(self, prev):
        r = self.rng.random()
        if r < 0.35:
            return basic("any"), False
        if r < 0.55:
            return {"k": "named", "pkg": None, "n": "comparable", "targs": []}, True
        if r < 0.7:
            return named("", "Num"), True
        if r < 0.8 and self.ext:
            return named(self.rng.choice(self.ext)["path"], "Num"), True
        if r < 0.9:
            # union of basic types
            terms = self.rng.sample(["int", "int64", "string", "float64", "uint8"], self.rng.randint(1, 3))
            return {"k": "union", "terms": [{"tilde": self.rng.random() < 0.5, "t": basic(t)} for t in terms]}, True
        if prev:
            # constraint mentioning another type parameter
            return {"k": "iface", "methods": [{"n": "Conv", "sig": {"params": [], "variadic": False, "results": [{"n": "", "t": {"k": "tparam", "n": prev[-1]["n"]}}]}}], "embeds": []}, False
        return named("io", "Reader"), False

    def iface(self, name, method_names, lower_tparams=False):
        tparams = []
        if self.allow_generic and self.rng.random() < 0.3:
            pool = ["T", "K", "V", "E"] if not lower_tparams else ["t", "k", "elem"]
            for n in self.rng.sample(pool, self.rng.randint(1, 2)):
                c, cmp_ = self.constraint(tparams)
                tparams.append({"n": n, "c": c, "cmp": cmp_})
        nm = self.rng.randint(*self.n_methods)
        methods, used = [], set()
        embeds = []
        if self.allow_embeds and self.rng.random() < 0.35:
            choices = [(named("io", "Reader"), ["Read"]), (named("io", "Writer"), ["Write"]), (named("", "LocalIface"), ["LocalMethod"]),
                       (named("context", "Context"), ["Deadline", "Done", "Err", "Value"])]
            if self.ext:
                choices.append((named(self.ext[0]["path"], "Handler"), ["Handle"]))
            if self.allow_generic:
                choices.append((named("", "Gen", [basic("int")]), ["Produce", "Consume"]))
            for e, ms in self.rng.sample(choices, self.rng.randint(1, 2)):
                if used & set(ms):
                    continue
                used |= set(ms)
                embeds.append(e)
        for _ in range(nm):
            n = self.rng.choice(method_names)
            if n in used:
                continue
            used.add(n)
            methods.append({"n": n, "sig": self.sig(tparams, 0)})
        return {"name": name, "tparams": tparams, "methods": methods, "embeds": embeds, "exported": name[0].isupper()}

    def module(self, src_name="src", iface_names=None, method_names=None, lower_tparams=False):
        k = self.rng.randint(*self.n_ifaces)
        iface_names = iface_names or ["Svc", "Store", "Doer", "Repo", "Cache", "Bus", "worker", "Handler2", "API", "Conn"]
        method_names = method_names or ["Do", "Get", "Put", "Close", "List", "Watch", "Apply", "Len", "String", "Each", "unexp"]
        names = self.rng.sample(iface_names, min(k, len(iface_names)))
        return {"mod": MOD, "src": {"path": MOD + "/" + src_name, "name": src_name},
                "ifaces": [self.iface(n, method_names, lower_tparams) for n in names],
                "ext": self.ext, "std": self.std, "nonascii": self.allow_nonascii_types}


# ---------------------------------------------------------------------------------------
# Go source rendering
# ---------------------------------------------------------------------------------------
def collect_pkgs(t, acc):
    k = t["k"]
    if k in ("named", "alias"):
        if t["pkg"]:
            acc.add(t["pkg"])
        for a in t["targs"]:
            collect_pkgs(a, acc)
    elif k == "basic":
        if t["n"] == "unsafe.Pointer":
            acc.add("unsafe")
    elif k in ("ptr", "slice", "array", "chan"):
        collect_pkgs(t["e"], acc)
    elif k == "map":
        collect_pkgs(t["key"], acc); collect_pkgs(t["e"], acc)
    elif k == "func":
        collect_sig(t["sig"], acc)
    elif k == "struct":
        for f in t["fields"]:
            collect_pkgs(f["t"], acc)
    elif k == "iface":
        for m in t["methods"]:
            collect_sig(m["sig"], acc)
        for e in t["embeds"]:
            collect_pkgs(e, acc)
    elif k == "union":
        for x in t["terms"]:
            collect_pkgs(x["t"], acc)
    return acc


def collect_sig(s, acc):
    for p in s["params"] + s["results"]:
        collect_pkgs(p["t"], acc)
    return acc


class Render:
    """Renders types as Go source for a file whose imports use the given path->qualifier map."""
    def __init__(self, qual):
        self.qual = qual

    def ty(self, t):
        k = t["k"]
        if k == "basic":
            return t["n"]
        if k in ("named", "alias"):
            q = self.qual.get(t["pkg"], "") if t["pkg"] else ""
            s = (q + "." if q else "") + t["n"]
            if t["targs"]:
                s += "[" + ", ".join(self.ty(a) for a in t["targs"]) + "]"
            return s
        if k == "tparam":
            return t["n"]
        if k == "ptr":
            return "*" + self.ty(t["e"])
        if k == "slice":
            return "[]" + self.ty(t["e"])
        if k == "array":
            return "[%d]%s" % (t["len"], self.ty(t["e"]))
        if k == "map":
            return "map[%s]%s" % (self.ty(t["key"]), self.ty(t["e"]))
        if k == "chan":
            e = self.ty(t["e"])
            if t["e"]["k"] == "chan" and t["e"]["dir"] == "recv" and t["dir"] != "recv":
                e = "(" + e + ")"
            return {"both": "chan ", "send": "chan<- ", "recv": "<-chan "}[t["dir"]] + e
        if k == "func":
            return "func" + self.sig(t["sig"])
        if k == "struct":
            fs = []
            for f in t["fields"]:
                s = self.ty(f["t"]) if f["emb"] else "%s %s" % (f["n"], self.ty(f["t"]))
                if f["tag"]:
                    s += " `%s`" % f["tag"]
                fs.append(s)
            return "struct{ " + "; ".join(fs) + " }" if fs else "struct{}"
        if k == "iface":
            parts = ["%s%s" % (m["n"], self.sig(m["sig"])) for m in t["methods"]] + [self.ty(e) for e in t["embeds"]]
            return "interface{ " + "; ".join(parts) + " }" if parts else "interface{}"
        if k == "union":
            return " | ".join(("~" if x["tilde"] else "") + self.ty(x["t"]) for x in t["terms"])
        raise ValueError(k)

    def params(self, ps, variadic=False):
        out = []
        for i, p in enumerate(ps):
            if variadic and i == len(ps) - 1:
                ts = "..." + self.ty(p["t"]["e"])
            else:
                ts = self.ty(p["t"])
            out.append((p["n"] + " " if p["n"] else "") + ts)
        return ", ".join(out)

    def sig(self, s):
        r = ""
        if s["results"]:
            if len(s["results"]) == 1 and not s["results"][0]["n"]:
                r = " " + self.ty(s["results"][0]["t"])
            else:
                r = " (" + self.params(s["results"]) + ")"
        return "(" + self.params(s["params"], s["variadic"]) + ")" + r


def ext_source(e):
    return """package %s

type Client struct{ N int }
type Key struct{ A, B string }
type Handler interface{ Handle(c *Client) error }
type Opt func(*Client) error
type Box[T any] struct{ V T }
type Num interface{ ~int | ~int64 | ~float64 }
type Pair[K comparable, V any] struct { K K; V V }
""" % e["name"]


def src_files(m):
    """Returns {relative path: content} for the whole module (without go.mod / go.sum)."""
    files = {}
    for e in m["ext"]:
        rel = e["path"][len(m["mod"]) + 1:]
        files[rel + "/types.go"] = ext_source(e)
    src = m["src"]
    rel = src["path"][len(m["mod"]) + 1:]
    used = set()
    for i in m["ifaces"]:
        for tp in i["tparams"]:
            collect_pkgs(tp["c"], used)
        for mm in i["methods"]:
            collect_sig(mm["sig"], used)
        for e in i["embeds"]:
            collect_pkgs(e, used)
    qual, imports = {}, []
    first_ext = m["ext"][0]["path"] if m["ext"] else None
    if first_ext:
        used.add(first_ext)        # AliasC refers to it
    for e in m["ext"]:
        if e["path"] in used:
            qual[e["path"]] = e["alias"] or e["name"]
            imports.append((e["alias"], e["path"]))
    for s in m["std"]:
        if s["path"] in used:
            qual[s["path"]] = s.get("alias") or s["name"]
            imports.append((s.get("alias", ""), s["path"]))
    if "unsafe" in used:
        qual["unsafe"] = "unsafe"
        imports.append(("", "unsafe"))
    R = Render(qual)
    out = ["package %s\n" % src["name"]]
    if imports:
        out.append("import (")
        for a, p in imports:
            out.append('\t%s"%s"' % (a + " " if a else "", p))
        out.append(")\n")
    aliasc = (qual[first_ext] + ".Client") if first_ext else "Local"
    out.append("""type Local struct{ X int }
type Key struct{ K string }
type LocalIface interface{ LocalMethod(l Local) (Key, error) }
type Pair[K comparable, V any] struct { Key K; Val V }
type Gen[T any] interface { Produce() T; Consume(v T) error }
type AliasC = %s
type hidden struct{ h int }
type Fn func(Local) error
type Num interface{ ~int | ~uint8 | ~string }
""" % aliasc)
    if m.get("nonascii"):
        out.append("type Élan struct{ e int }\n")
    for i in m["ifaces"]:
        tp = ""
        if i["tparams"]:
            tp = "[" + ", ".join("%s %s" % (t["n"], R.ty(t["c"])) for t in i["tparams"]) + "]"
        out.append("type %s%s interface {" % (i["name"], tp))
        for e in i["embeds"]:
            out.append("\t" + R.ty(e))
        for mm in i["methods"]:
            out.append("\t%s%s" % (mm["n"], R.sig(mm["sig"])))
        out.append("}\n")
    files[rel + "/%s.go" % src["name"]] = "\n".join(out)
    return files


def write_module(m, root, gomod_line=None, testify=True):
    """Writes the module under root (a pathlib.Path).  go.sum must be copied by the caller."""
    root.mkdir(parents=True, exist_ok=True)
    gm = (gomod_line or ("module " + m["mod"])) + "\n\ngo 1.23\n"
    if testify:
        gm += "\nrequire github.com/stretchr/testify v1.10.0\n"
    (root / "go.mod").write_text(gm)
    for rel, content in src_files(m).items():
        p = root / rel
        p.parent.mkdir(parents=True, exist_ok=True)
        p.write_text(content)


# =======================================================================================
# OPTIONAL section (C02): embedding shapes.  Nothing above uses it; modules without the key
# "extra_decls" are rendered exactly as before.
#
#   m["extra_decls"] = [decl, ...]   further type declarations, written to one extra file per
#                                     package (<pkg dir>/zz_extra.go) by extra_decl_files(m)
#   decl = {"pkg": "" (source package) | <ext package path>, "kind": "iface" | "alias" | "defined",
#           "name": N, "tparams": [{"n","c","cmp"}], "methods": [{"n","sig"}], "embeds": [ty],   (iface)
#           "target": ty}                                                                       (alias: type N = target; defined: type N target)
#   STD_DECLS / foreign_extra_decls(ext): the declarations of the stdlib / foreign interfaces that
#   may be embedded; decl_table(m) collects everything embeddable, spec_method_set() is the
#   Python twin of coq/Gen/MethodSet.v (used by the generator to stay inside valid Go).
# =======================================================================================
def _P(n, t):
    return {"n": n, "t": t}


def _S(params, results, variadic=False):
    return {"params": params, "variadic": variadic, "results": results}


def _I(pkg, name, methods=(), embeds=(), tparams=()):
    return {"pkg": pkg, "kind": "iface", "name": name, "tparams": list(tparams), "methods": list(methods), "embeds": list(embeds)}


_BYTES = {"k": "slice", "e": basic("byte")}
_NERR = [_P("n", basic("int")), _P("err", basic("error"))]

# further stdlib packages that C02 modules may mention (pass std=STD + C02_STD to Gen)
C02_STD = [
    {"path": "fmt", "name": "fmt", "types": [("Stringer", "iface")]},
    {"path": "hash", "name": "hash", "types": [("Hash", "iface"), ("Hash32", "iface")]},
    {"path": "sort", "name": "sort", "types": [("Interface", "iface")]},
]

STD_DECLS = [
    _I("io", "Reader", [{"n": "Read", "sig": _S([_P("p", _BYTES)], _NERR)}]),
    _I("io", "Writer", [{"n": "Write", "sig": _S([_P("p", _BYTES)], _NERR)}]),
    _I("io", "Closer", [{"n": "Close", "sig": _S([], [_P("", basic("error"))])}]),
    _I("io", "Seeker", [{"n": "Seek", "sig": _S([_P("offset", basic("int64")), _P("whence", basic("int"))], [_P("", basic("int64")), _P("", basic("error"))])}]),
    _I("io", "ReadWriter", embeds=[named("io", "Reader"), named("io", "Writer")]),
    _I("io", "ReadCloser", embeds=[named("io", "Reader"), named("io", "Closer")]),
    _I("io", "WriteCloser", embeds=[named("io", "Writer"), named("io", "Closer")]),
    _I("io", "ReadWriteCloser", embeds=[named("io", "Reader"), named("io", "Writer"), named("io", "Closer")]),
    _I("io", "ReadSeeker", embeds=[named("io", "Reader"), named("io", "Seeker")]),
    _I("io", "ReadWriteSeeker", embeds=[named("io", "Reader"), named("io", "Writer"), named("io", "Seeker")]),
    _I("io", "StringWriter", [{"n": "WriteString", "sig": _S([_P("s", basic("string"))], _NERR)}]),
    _I("fmt", "Stringer", [{"n": "String", "sig": _S([], [_P("", basic("string"))])}]),
    _I("context", "Context", [
        {"n": "Deadline", "sig": _S([], [_P("deadline", named("time", "Time")), _P("ok", basic("bool"))])},
        {"n": "Done", "sig": _S([], [_P("", {"k": "chan", "dir": "recv", "e": {"k": "struct", "fields": []}})])},
        {"n": "Err", "sig": _S([], [_P("", basic("error"))])},
        {"n": "Value", "sig": _S([_P("key", basic("any"))], [_P("", basic("any"))])}]),
    _I("hash", "Hash", [
        {"n": "Sum", "sig": _S([_P("b", _BYTES)], [_P("", _BYTES)])},
        {"n": "Reset", "sig": _S([], [])},
        {"n": "Size", "sig": _S([], [_P("", basic("int"))])},
        {"n": "BlockSize", "sig": _S([], [_P("", basic("int"))])}], embeds=[named("io", "Writer")]),
    _I("hash", "Hash32", [{"n": "Sum32", "sig": _S([], [_P("", basic("uint32"))])}], embeds=[named("hash", "Hash")]),
    _I("sort", "Interface", [
        {"n": "Len", "sig": _S([], [_P("", basic("int"))])},
        {"n": "Less", "sig": _S([_P("i", basic("int")), _P("j", basic("int"))], [_P("", basic("bool"))])},
        {"n": "Swap", "sig": _S([_P("i", basic("int")), _P("j", basic("int"))], [])}]),
    _I("net/http", "Handler", [{"n": "ServeHTTP", "sig": _S([_P("", named("net/http", "ResponseWriter")), _P("", {"k": "ptr", "e": named("net/http", "Request")})], [])}]),
]


def foreign_extra_decls(ext):
    """Static chain of foreign interfaces over the first three ext packages:
    ext3.Top -> ext2.Deep -> ext.Chain -> ext.Handler (depth 4), two generic ones."""
    if len(ext) < 3:
        return []
    a, b, c = ext[0]["path"], ext[1]["path"], ext[2]["path"]
    T, K, V = {"k": "tparam", "n": "T"}, {"k": "tparam", "n": "K"}, {"k": "tparam", "n": "V"}
    anyc = basic("any")
    cmpc = {"k": "named", "pkg": None, "n": "comparable", "targs": []}
    return [
        _I(a, "Chain", [{"n": "Shutdown", "sig": _S([_P("c", {"k": "ptr", "e": named(a, "Client")}), _P("force", basic("bool"))], [_P("", basic("error"))])}],
           embeds=[named(a, "Handler")]),
        _I(a, "Source", [{"n": "Next", "sig": _S([], [_P("", T), _P("", basic("bool"))])}], tparams=[{"n": "T", "c": anyc, "cmp": False}]),
        _I(b, "Deep", [{"n": "Flush", "sig": _S([_P("n", basic("int"))], [_P("", basic("error"))])}],
           embeds=[named(a, "Chain"), named("io", "Closer")]),
        _I(b, "Stream", [{"n": "StreamKey", "sig": _S([], [_P("", K)])}], embeds=[named(a, "Source", [V])],
           tparams=[{"n": "K", "c": cmpc, "cmp": True}, {"n": "V", "c": anyc, "cmp": False}]),
        _I(c, "Top", [{"n": "TopName", "sig": _S([_P("opts", {"k": "slice", "e": named(b, "Opt")})], [_P("", basic("string"))], True)}],
           embeds=[named(b, "Deep")]),
    ]


def base_local_decls(m):
    """The interfaces that src_files() always declares in the source package."""
    Tp = {"k": "tparam", "n": "T"}
    out = [
        _I("", "LocalIface", [{"n": "LocalMethod", "sig": _S([_P("l", named("", "Local"))], [_P("", named("", "Key")), _P("", basic("error"))])}]),
        _I("", "Gen", [{"n": "Produce", "sig": _S([], [_P("", Tp)])}, {"n": "Consume", "sig": _S([_P("v", Tp)], [_P("", basic("error"))])}],
           tparams=[{"n": "T", "c": basic("any"), "cmp": False}]),
    ]
    for e in m["ext"]:
        out.append(_I(e["path"], "Handler", [{"n": "Handle", "sig": _S([_P("c", {"k": "ptr", "e": named(e["path"], "Client")})], [_P("", basic("error"))])}]))
    return out


def decl_table(m):
    """(package path, name) -> declaration, for everything an interface of m may embed or be:
    stdlib, foreign, the fixed local interfaces, m["extra_decls"] and m["ifaces"].  "" = source package."""
    t = {}
    for d in STD_DECLS + base_local_decls(m) + list(m.get("extra_decls", [])):
        t[(d["pkg"], d["name"])] = d
    for i in m["ifaces"]:
        t[("", i["name"])] = _I("", i["name"], i["methods"], i["embeds"], i["tparams"])
    return t


def _map_ty(f, t):
    k = t["k"]
    if k in ("named", "alias"):
        return dict(t, targs=[f(a) for a in t["targs"]])
    if k in ("ptr", "slice", "array", "chan"):
        return dict(t, e=f(t["e"]))
    if k == "map":
        return dict(t, key=f(t["key"]), e=f(t["e"]))
    if k == "func":
        return dict(t, sig=_map_sig(f, t["sig"]))
    if k == "struct":
        return dict(t, fields=[dict(x, t=f(x["t"])) for x in t["fields"]])
    if k == "iface":
        return dict(t, methods=[dict(x, sig=_map_sig(f, x["sig"])) for x in t["methods"]], embeds=[f(e) for e in t["embeds"]])
    if k == "union":
        return dict(t, terms=[dict(x, t=f(x["t"])) for x in t["terms"]])
    return t


def _map_sig(f, s):
    return {"params": [dict(p, t=f(p["t"])) for p in s["params"]], "variadic": s["variadic"], "results": [dict(p, t=f(p["t"])) for p in s["results"]]}


def subst_ty(t, env):
    if t["k"] == "tparam":
        return env.get(t["n"], t)
    return _map_ty(lambda x: subst_ty(x, env), t)


def _erase(t):
    """type identity of signatures: parameter / result names do not matter"""
    if t["k"] == "func":
        s = t["sig"]
        return {"k": "func", "sig": {"params": [{"n": "", "t": _erase(p["t"])} for p in s["params"]], "variadic": s["variadic"],
                                     "results": [{"n": "", "t": _erase(p["t"])} for p in s["results"]]}}
    return _map_ty(_erase, t)


class SpecError(Exception):
    pass


def spec_method_set(table, t, pkg="", fuel=12):
    """Python twin of method_set_of (coq/Gen/MethodSet.v): the completed method set of the interface
    type t written in package pkg, as [{"pkg","n","sig"}] in go/types order.  Raises SpecError."""
    import json as _json

    def embed(e, pkg, sub, fuel):
        if fuel == 0:
            raise SpecError("out of fuel")
        k = e["k"]
        if k == "basic" and e["n"] == "error":
            return [{"pkg": "", "n": "Error", "sig": _S([], [_P("", basic("string"))])}]
        if k == "basic" and e["n"] == "any":
            return []
        if k == "iface":
            return collect(pkg, sub, e["methods"], e["embeds"], fuel - 1)
        if k not in ("named", "alias") or e["pkg"] is None:
            raise SpecError("not an interface: %r" % (e,))
        p = e["pkg"] if e["pkg"] != "" else pkg_of_src[0]
        key = (e["pkg"], e["n"]) if (e["pkg"], e["n"]) in table else (p, e["n"])
        d = table.get(key)
        if d is None:
            raise SpecError("unresolved %s.%s" % (e["pkg"], e["n"]))
        if d["kind"] == "alias":
            return embed(d["target"], d["pkg"], {}, fuel - 1)
        if d["kind"] == "defined":
            return embed(d["target"], d["pkg"], {}, fuel - 1)
        if len(d["tparams"]) != len(e["targs"]):
            raise SpecError("arity %s" % e["n"])
        sub2 = dict(zip([tp["n"] for tp in d["tparams"]], [subst_ty(a, sub) for a in e["targs"]]))
        return collect(d["pkg"], sub2, d["methods"], d["embeds"], fuel - 1)

    def collect(pkg, sub, ms, es, fuel):
        names = [x["n"] for x in ms]
        if len(set(names)) != len(names):
            raise SpecError("duplicate explicit method")
        out = [{"pkg": pkg, "n": x["n"], "sig": _map_sig(lambda y: subst_ty(y, sub), x["sig"])} for x in ms]
        for e in es:
            out += embed(e, pkg, sub, fuel)
        return out
    pkg_of_src = [pkg]
    raw = embed(t, pkg, {}, fuel)
    seen = {}
    for x in raw:
        key = ("" if x["n"][:1].isupper() else x["pkg"], x["n"])
        if key in seen:
            a = _json.dumps(_erase({"k": "func", "sig": seen[key]["sig"]}), sort_keys=True)
            b = _json.dumps(_erase({"k": "func", "sig": x["sig"]}), sort_keys=True)
            if a != b:
                raise SpecError("conflict %s" % x["n"])
        else:
            seen[key] = x
    return sorted(seen.values(), key=lambda x: (0 if x["n"][:1].isupper() else 1, x["n"].encode(), x["pkg"].encode()))


def self_type(d):
    """the declared (generic) interface instantiated with its own type parameters"""
    if d["kind"] == "alias":
        return {"k": "alias", "pkg": d["pkg"], "n": d["name"], "targs": []}
    return named(d["pkg"], d["name"], [{"k": "tparam", "n": tp["n"]} for tp in d.get("tparams", [])])


BRACKET_ELEMS = [
    lambda: {"k": "slice", "e": basic("byte")},                                        # ...[]byte
    lambda: {"k": "array", "len": 4, "e": basic("int")},                               # ...[4]int
    lambda: {"k": "map", "key": basic("string"), "e": basic("int")},                   # ...map[string]int
    lambda: {"k": "func", "sig": _S([_P("", {"k": "slice", "e": basic("int")})], [], True)},   # ...func(...int)
    lambda: {"k": "slice", "e": {"k": "slice", "e": basic("string")}},                 # ...[][]string
    lambda: {"k": "ptr", "e": {"k": "slice", "e": basic("int")}},                      # ...*[]int
    lambda: {"k": "chan", "dir": "recv", "e": {"k": "slice", "e": basic("int")}},      # ...<-chan []int
    lambda: {"k": "slice", "e": named("", "Local")},                                   # ...[]Local
    lambda: {"k": "array", "len": 0, "e": {"k": "slice", "e": basic("error")}},        # ...[0][]error
    lambda: {"k": "alias", "pkg": "", "n": "AliasC", "targs": []},                     # ...AliasC
]


def bracket_variadic_method(g, name, tparams=()):
    """a variadic method whose element type starts with a bracket (or another prefix operator)"""
    elem = g.rng.choice(BRACKET_ELEMS)()
    if tparams and g.rng.random() < 0.3:
        elem = {"k": "slice", "e": {"k": "tparam", "n": g.rng.choice(list(tparams))["n"]}}      # ...[]T
    ns = g.names(g.rng.choice([1, 1, 2, 3]), allow_blank=False)      # all named (distinct) or all unnamed
    pre = [_P(n, g.ty(list(tparams), 2)) for n in ns[:-1]]
    last = ns[-1]
    res = [_P("", basic("error"))] if g.rng.random() < 0.5 else []
    return {"n": name, "sig": _S(pre + [_P(last, {"k": "slice", "e": elem})], res, True)}


def embedding_shapes(g, m, depth=4, n_random=4):
    """Adds to m (a module made by g.module()): m["extra_decls"] - chains of local interfaces of the
    given depth (plain, generic, with an unexported method), aliases of interfaces, types defined from
    interfaces, diamonds, an embedded interface literal, error, explicit+embedded overlap, the static
    foreign chain - and n_random interfaces in m["ifaces"] that embed a random selection of all this.
    Every produced interface has a well-defined method set (checked with spec_method_set)."""
    rng = g.rng
    T = lambda n: {"k": "tparam", "n": n}
    anyc, cmpc = basic("any"), {"k": "named", "pkg": None, "n": "comparable", "targs": []}
    has_ext = len(m["ext"]) >= 3
    ex = list(foreign_extra_decls(m["ext"])) if has_ext else []
    L = []

    def meths(prefix, k, tps=(), bracket=0.35):
        out = []
        for j in range(k):
            n = "%s%d" % (prefix, j)
            out.append(bracket_variadic_method(g, n, tps) if rng.random() < bracket else {"n": n, "sig": g.sig(list(tps), 0)})
        return out
    # chain Ch1 <- Ch2 <- ... (Ch_k embeds Ch_{k-1})
    D = rng.randint(2, depth)
    for k in range(1, D + 1):
        emb = [named("", "Ch%d" % (k - 1))] if k > 1 else []
        if k > 1 and rng.random() < 0.4:
            emb.append(rng.choice([named("io", "Closer"), named("fmt", "Stringer"), named("", "LocalIface")]))
        rng.shuffle(emb)
        L.append(_I("", "Ch%d" % k, meths("Ch%dM" % k, rng.randint(0 if k > 1 else 1, 2)), emb))
    # a chain with an unexported method at the bottom (in-package mocks only)
    L.append(_I("", "lowBase", [{"n": "low", "sig": _S([_P("h", named("", "hidden"))], [_P("", basic("error"))])}]))
    L.append(_I("", "LowTop", meths("LowTopM", 1), [named("", "lowBase")]))
    # generic chain with a diamond through identical instantiations
    tT = [{"n": "T", "c": anyc, "cmp": False}]
    L.append(_I("", "GCh1", [{"n": "G1Get", "sig": _S([], [_P("", T("T"))])},
                             {"n": "G1Put", "sig": _S([_P("vs", {"k": "slice", "e": T("T")})], [], True)}], tparams=tT))
    tKV = [{"n": "K", "c": cmpc, "cmp": True}, {"n": "V", "c": anyc, "cmp": False}]
    L.append(_I("", "GCh2", [{"n": "G2Key", "sig": _S([_P("k", T("K"))], [_P("", {"k": "slice", "e": T("V")}), _P("", basic("error"))])}],
                [named("", "GCh1", [T("V")])], tparams=tKV))
    tE = [{"n": "E", "c": rng.choice([anyc, named("", "Num"), cmpc]), "cmp": False}]
    tE[0]["cmp"] = tE[0]["c"] is not anyc
    L.append(_I("", "GCh3", meths("G3M", 1, tE), [named("", "GCh2", [basic("string"), T("E")]), named("", "GCh1", [T("E")])], tparams=tE))
    # aliases of interfaces
    A = lambda n, tgt: {"pkg": "", "kind": "alias", "name": n, "target": tgt}
    L += [A("RC", named("io", "ReadCloser")), A("ChA", named("", "Ch%d" % min(2, D))), A("GenInt", named("", "Gen", [basic("int")])),
          A("G1Str", named("", "GCh1", [basic("string")]))]
    if has_ext:
        L.append(A("HA", named(m["ext"][0]["path"], "Handler")))
        L.append(A("TopA", named(m["ext"][2]["path"], "Top")))
    # types defined from interfaces
    Dd = lambda n, tgt: {"pkg": "", "kind": "defined", "name": n, "target": tgt}
    L += [Dd("RWC", named("io", "ReadWriteCloser")), Dd("DefCh", named("", "Ch%d" % D)), Dd("DefGen", named("", "Gen", [basic("string")])),
          Dd("DefRC", {"k": "alias", "pkg": "", "n": "RC", "targs": []})]
    # diamonds
    L += [_I("", "DmL", meths("DmLM", 1), [named("", "Ch1")]), _I("", "DmR", meths("DmRM", 1), [named("", "Ch1")]),
          _I("", "Dm", [], [named("", "DmL"), named("", "DmR")]),
          _I("", "DmStd", [], [named("io", "ReadCloser"), named("io", "WriteCloser"), named("io", "ReadWriter")])]
    # embedded literal, error, explicit + embedded overlap
    L.append(_I("", "Lit", [bracket_variadic_method(g, "LitB")],
                [{"k": "iface", "methods": [{"n": "LitA", "sig": _S([], [_P("", basic("int"))])}], "embeds": [named("io", "Closer")]}]))
    L.append(_I("", "Coded", [{"n": "Code", "sig": _S([], [_P("", basic("int"))])}], [basic("error")]))
    L.append(_I("", "Ovl", [{"n": "Close", "sig": _S([], [_P("", basic("error"))])}],
                [named("io", "Closer"), {"k": "alias", "pkg": "", "n": "RC", "targs": []}]))
    m["extra_decls"] = ex + L
    # random interfaces embedding a selection
    table = decl_table(m)

    def candidates(tps):
        anyt = lambda: rng.choice([basic("int"), basic("string"), named("", "Local"), {"k": "slice", "e": basic("byte")}] + [T(tp["n"]) for tp in tps])
        cmpt = lambda: rng.choice([basic("int"), basic("string"), named("", "Key")] + [T(tp["n"]) for tp in tps if tp.get("cmp")])
        c = [named("", "Ch%d" % rng.randint(1, D)), named("", "Dm"), named("", "DmStd"), named("", "Lit"), named("", "Coded"), named("", "Ovl"),
             named("", "DefCh"), named("", "RWC"),
             {"k": "alias", "pkg": "", "n": "RC", "targs": []}, {"k": "alias", "pkg": "", "n": "ChA", "targs": []},
             {"k": "alias", "pkg": "", "n": "GenInt", "targs": []}, {"k": "alias", "pkg": "", "n": "G1Str", "targs": []},
             named("", "Gen", [anyt()]), named("", "GCh1", [anyt()]), named("", "GCh2", [cmpt(), anyt()]), named("", "GCh3", [rng.choice([basic("int"), basic("string")])]),
             named("io", rng.choice(["ReadWriteCloser", "ReadSeeker", "ReadWriteSeeker", "StringWriter", "ReadCloser"])),
             named("hash", "Hash32"), named("hash", "Hash"), named("sort", "Interface"), named("fmt", "Stringer"), named("context", "Context"),
             basic("error"),
             {"k": "iface", "methods": [{"n": "Inline", "sig": _S([_P("xs", {"k": "slice", "e": {"k": "array", "len": 4, "e": basic("int")}})], [], True)}], "embeds": [named("fmt", "Stringer")]}]
        if has_ext:
            a, b, c3 = m["ext"][0]["path"], m["ext"][1]["path"], m["ext"][2]["path"]
            c += [named(c3, "Top"), named(b, "Deep"), named(a, "Chain"), named(a, "Source", [anyt()]), named(b, "Stream", [cmpt(), anyt()]),
                  {"k": "alias", "pkg": "", "n": "HA", "targs": []}, {"k": "alias", "pkg": "", "n": "TopA", "targs": []}]
        return c
    added = []
    for j in range(n_random):
        tps = []
        if rng.random() < 0.4:
            for n in rng.sample(["T", "K", "V", "E"], rng.randint(1, 2)):
                c, cmp_ = g.constraint(tps)
                tps.append({"n": n, "c": c, "cmp": cmp_})
        embeds = rng.sample(candidates(tps), rng.randint(1, 3))
        name = "Emb%d" % j
        i = {"name": name, "tparams": tps, "methods": meths(name + "M", rng.randint(0, 2), tps, bracket=0.5), "embeds": embeds, "exported": True}
        while True:
            try:
                table[("", name)] = _I("", name, i["methods"], i["embeds"], tps)
                spec_method_set(table, self_type(table[("", name)]), "")
                break
            except SpecError:
                i["embeds"] = i["embeds"][:-1]
        added.append(i)
    m["ifaces"] = m["ifaces"] + added
    return m


def _decl_pkgs(d, acc):
    for tp in d.get("tparams", []):
        collect_pkgs(tp["c"], acc)
    for mm in d.get("methods", []):
        collect_sig(mm["sig"], acc)
    for e in d.get("embeds", []):
        collect_pkgs(e, acc)
    if "target" in d:
        collect_pkgs(d["target"], acc)
    return acc


def extra_decl_files(m):
    """{relative path: content}: one file zz_extra.go per package that has entries in m["extra_decls"]."""
    by_pkg = {}
    for d in m.get("extra_decls", []):
        by_pkg.setdefault(d["pkg"], []).append(d)
    files = {}
    stds = {s["path"]: s for s in m["std"] + C02_STD}
    for pkg, decls in by_pkg.items():
        if pkg == "":
            rel, pname = m["src"]["path"][len(m["mod"]) + 1:], m["src"]["name"]
        else:
            e = [x for x in m["ext"] if x["path"] == pkg][0]
            rel, pname = pkg[len(m["mod"]) + 1:], e["name"]
        used = set()
        for d in decls:
            _decl_pkgs(d, used)
        used.discard(pkg)
        qual, imports = {}, []
        for e in m["ext"]:
            if e["path"] in used:
                qual[e["path"]] = e["alias"] or e["name"]
                imports.append((e["alias"], e["path"]))
        for p in sorted(used):
            if p in stds:
                s = stds[p]
                qual[p] = s.get("alias") or s["name"]
                imports.append((s.get("alias", ""), p))
            elif p == "unsafe":
                qual[p] = "unsafe"
                imports.append(("", p))
        R = Render(qual)
        out = ["package %s\n" % pname]
        if imports:
            out.append("import (")
            for a, p in imports:
                out.append('\t%s"%s"' % (a + " " if a else "", p))
            out.append(")\n")
        for d in decls:
            if d["kind"] == "alias":
                out.append("type %s = %s\n" % (d["name"], R.ty(d["target"])))
            elif d["kind"] == "defined":
                out.append("type %s %s\n" % (d["name"], R.ty(d["target"])))
            else:
                tp = ""
                if d["tparams"]:
                    tp = "[" + ", ".join("%s %s" % (t["n"], R.ty(t["c"])) for t in d["tparams"]) + "]"
                out.append("type %s%s interface {" % (d["name"], tp))
                for e in d["embeds"]:
                    out.append("\t" + R.ty(e))
                for mm in d["methods"]:
                    out.append("\t%s%s" % (mm["n"], R.sig(mm["sig"])))
                out.append("}\n")
        files[rel + "/zz_extra.go"] = "\n".join(out)
    return files


def write_extra_decls(m, root):
    for rel, content in extra_decl_files(m).items():
        p = root / rel
        p.parent.mkdir(parents=True, exist_ok=True)
        p.write_text(content)


# ---------------------------------------------------------------------------------------
# DenseGen: optional extension of Gen (C14 follow-up).  Same keyword arguments as Gen plus
#   dense        probability that a type position is filled with a "dense" type: ONE type that
#                mentions the same package several times, with generic instantiations (1- and
#                2-argument: Box[T], Pair[K, V]; in-package Pair / Gen) in map key/value, nested
#                type arguments, func parameters/results, struct fields, channel/slice/array/
#                pointer elements, anonymous interfaces, and (through constraint()) constraints;
#                the innermost argument comes from ANOTHER package (foreign, stdlib time, the
#                source package) or is a type parameter.
#   name_tuples  probability that the parameters of a method are renamed to a tuple X, X1 /
#                X1, X / X, X1, X2 where X is an import qualifier (package name), a bare type
#                name or a type parameter used by the same signature.
# Gen itself is unchanged (its random stream too); use DenseGen(rng, ...) instead of Gen(rng, ...).
# ---------------------------------------------------------------------------------------
class DenseGen(Gen):
    def __init__(self, rng, *, dense=0.2, name_tuples=0.25, wide=0.0, **kw):
        super().__init__(rng, **kw)
        self.dense = dense
        self.name_tuples = name_tuples
        # wide: probability that a method gets 3-10 parameters with LONG names (20-40 bytes), variadic
        # of several element types (incl. ...any) or not, and long named results, so that ArgList /
        # ArgCallList / ArgTypeList / ReturnArgList / Declaration cross every plausible width
        # threshold (60/80/100/120/200 bytes).  Default 0 (stream of existing users unchanged).
        self.wide = wide
        self.stats = {"dense": 0, "tuples": 0, "wide": 0}

    WORDS = ["request", "Timeout", "Duration", "Milliseconds", "Upstream", "Connection", "Identifier", "Buffer", "Capacity",
             "Retry", "Policy", "Deadline", "Observer", "Callback", "Payload", "Encoding", "Maximum", "Pending", "Handler", "Options"]

    def long_name(self, used):
        while True:
            k = self.rng.randint(2, 4)
            ws = self.rng.sample(self.WORDS, k)
            n = ws[0].lower() + "".join(w.capitalize() for w in ws[1:])
            while len(n) < 20:
                n += self.rng.choice(self.WORDS).capitalize()
            n = n[:40]
            if n not in used:
                used.add(n)
                return n

    def wide_sig(self, tparams, depth):
        rng = self.rng
        used = set()
        np_ = rng.choice([3, 3, 4, 5, 6, 8, 10])
        simple = [basic("string"), basic("int"), basic("bool"), basic("error"), basic("any")]
        params = [{"n": self.long_name(used), "t": (rng.choice(simple) if rng.random() < 0.5 else self.ty(tparams, depth + 1))} for _ in range(np_)]
        variadic = rng.random() < 0.6
        if variadic:
            el = rng.choice([basic("any"), basic("any"), {"k": "iface", "methods": [], "embeds": []}, basic("string"), basic("int"),
                             params[-1]["t"], named("", "Local")])
            params[-1]["t"] = {"k": "slice", "e": el}
        nr = rng.choice([0, 1, 2, 3])
        named_res = rng.random() < 0.5
        results = [{"n": (self.long_name(used) if named_res else ""), "t": (basic("error") if i == nr - 1 else rng.choice(simple[:3] + [self.ty(tparams, depth + 1)]))}
                   for i in range(nr)]
        self.stats["wide"] += 1
        return {"params": params, "variadic": variadic, "results": results}

    def _has_time(self):
        return any(s["path"] == "time" for s in self.std)

    def _other(self, tparams, P):
        """an argument type from another package than P"""
        c = [basic("string"), basic("int64")]
        if self._has_time():
            c += [named("time", "Duration"), named("time", "Time"), named("time", "Duration")]
        for e in self.ext:
            if e["path"] != P:
                c += [named(e["path"], "Client"), named(e["path"], "Key")]
                if self._has_time():
                    c.append(named(e["path"], "Box", [named("time", "Duration")]))
        if P != "":
            c += [named("", "Local"), named("", "Pair", [named("", "Key"), basic("int")])]
        if tparams:
            c += [{"k": "tparam", "n": self.rng.choice(tparams)["n"]}] * 2
        return self.rng.choice(c)

    def dense_type(self, tparams, depth=0):
        rng = self.rng
        P = rng.choice([""] + [e["path"] for e in self.ext] * 2) if self.ext else ""
        key = named(P, "Key")
        g2 = lambda k, v: named(P, "Pair", [k, v])
        g1 = (lambda x: named(P, "Box", [x])) if P else (lambda x: named("", "Pair", [rng.choice([key, basic("string")]), x]))
        Q = lambda: self._other(tparams, P)
        self.stats["dense"] += 1
        k = rng.randrange(12)
        if k == 0:
            return {"k": "map", "key": key, "e": g1(Q())}
        if k == 1:
            return g1(g1(Q()))
        if k == 2:
            return g2(key, g1(Q()))
        if k == 3:
            return {"k": "func", "sig": {"params": [{"n": "a", "t": key}, {"n": "b", "t": g1(Q())}], "variadic": False,
                                         "results": [{"n": "", "t": g2(key, Q())}]}}
        if k == 4:
            return {"k": "struct", "fields": [{"n": "A", "t": key, "tag": "", "emb": False}, {"n": "B", "t": g1(Q()), "tag": "", "emb": False},
                                              {"n": "C", "t": g2(basic("string"), g1(Q())), "tag": 'json:"c"', "emb": False}]}
        if k == 5:
            return {"k": "chan", "dir": rng.choice(["both", "send", "recv"]), "e": g2(key, g1(Q()))}
        if k == 6:
            return {"k": "slice", "e": g1(g1(Q()))}
        if k == 7:
            return {"k": "ptr", "e": g2(basic("string"), g1(Q()))}
        if k == 8:
            return {"k": "array", "len": 4, "e": g2(key, g2(key, Q()))}
        if k == 9:
            return {"k": "iface", "methods": [{"n": "Do", "sig": {"params": [{"n": "x", "t": key}], "variadic": False,
                                                                  "results": [{"n": "", "t": g1(Q())}]}}], "embeds": []}
        if k == 10 and not P:
            return named("", "Gen", [g1(Q())])
        return {"k": "map", "key": g2(key, basic("int")), "e": {"k": "slice", "e": g2(key, g1(g1(Q())))}}

    def ty(self, tparams, depth=0):
        if self.dense and self.allow_generic and depth < self.max_depth and self.rng.random() < self.dense:
            return self.dense_type(tparams, depth)
        return super().ty(tparams, depth)

    def constraint(self, prev):
        if self.dense and self.rng.random() < self.dense:
            return {"k": "iface", "methods": [{"n": "Conv", "sig": {"params": [], "variadic": False,
                                                                    "results": [{"n": "", "t": self.dense_type(prev)}]}}], "embeds": []}, False
        return super().constraint(prev)

    def _pkg_name(self, path):
        for e in self.ext + self.std:
            if e["path"] == path:
                return e["name"]
        return path.split("/")[-1]

    def sig(self, tparams, depth, max_params=4, max_results=3, allow_variadic=True):
        if depth == 0 and self.wide and self.rng.random() < self.wide:
            return self.wide_sig(tparams, depth)
        s = super().sig(tparams, depth, max_params, max_results, allow_variadic)
        ps = s["params"]
        if depth != 0 or not self.name_tuples or len(ps) < 2 or any(p["n"] in ("", "_") for p in ps) or self.rng.random() >= self.name_tuples:
            return s
        cands = [self._pkg_name(p) for p in sorted(collect_sig(s, set()))]
        for p in ps + s["results"]:
            t = p["t"]
            if t["k"] == "basic" and t["n"] != "unsafe.Pointer":
                cands.append(t["n"])
            elif t["k"] in ("named", "alias") and not t["targs"] and t["pkg"] in ("", None):
                cands.append(t["n"])
            elif t["k"] == "tparam":
                cands.append(t["n"])
        cands += [tp["n"] for tp in tparams]
        if not cands:
            return s
        X = self.rng.choice(cands)
        pats = [[X, X + "1"], [X + "1", X]] + ([[X, X + "1", X + "2"]] if len(ps) >= 3 else [])
        pat = self.rng.choice(pats)
        pos = sorted(self.rng.sample(range(len(ps)), len(pat)))
        taken = set(pat)
        for i, p in enumerate(ps):
            if i not in pos:
                while p["n"] in taken:
                    p["n"] += "Z"
                taken.add(p["n"])
        for i, n in zip(pos, pat):
            ps[i]["n"] = n
        for r in s["results"]:
            while r["n"] not in ("", "_") and r["n"] in taken:
                r["n"] += "Z"
            taken.add(r["n"])
        self.stats["tuples"] += 1
        return s
