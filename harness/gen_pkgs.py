"""Seeded generator of type-correct Go modules with interfaces of many type shapes.
Shared by C01 / C02 / C14 / C13 / C03.  Produces an abstract description (JSON-able AST)
and the Go sources; checks print the same AST as Gallina terms.

Type AST (dicts):
  {"k":"basic","n":"int"}                      predeclared non-generic types incl. error, any, unsafe.Pointer ("unsafe.Pointer")
  {"k":"named","pkg":<path>|"","n":"T","targs":[ty...]}   "" = the source package itself
  {"k":"alias", ... same fields}               a declared alias  (type A = …)
  {"k":"ptr","e":ty} {"k":"slice","e":ty} {"k":"array","len":N,"e":ty} {"k":"map","key":ty,"e":ty}
  {"k":"chan","dir":"both|send|recv","e":ty}
  {"k":"func","sig":sig}     sig = {"params":[{"n":name,"t":ty}],"variadic":bool,"results":[{"n":name,"t":ty}]}
  {"k":"struct","fields":[{"n":name,"t":ty,"tag":str,"emb":bool}]}
  {"k":"iface","methods":[{"n":name,"sig":sig}],"embeds":[ty]}
  {"k":"tparam","n":"T"}
Interface description:
  {"name":…, "tparams":[{"n":"T","c":constraint-ty}], "methods":[{"n":…, "sig":sig}], "embeds":[ty], "exported":bool}
"""
import random

MOD = "example.com/m"

# external packages of the generated module: (import path, package name, source alias used in src files)
EXT = [
    {"path": MOD + "/ext/http", "name": "http", "alias": "h1"},
    {"path": MOD + "/ext2/http", "name": "http", "alias": "h2"},
    {"path": MOD + "/ext3/http0", "name": "http0", "alias": ""},
    {"path": MOD + "/ext4/v2", "name": "ctx", "alias": ""},       # last path element differs from the name
    {"path": MOD + "/ext5/mock", "name": "mock", "alias": "extmock"},  # collides with testify's qualifier
    {"path": MOD + "/ext6/sync", "name": "sync", "alias": "xsync"},    # collides with matryer's qualifier
]
STD = [
    {"path": "context", "name": "context", "types": [("Context", "iface")]},
    {"path": "io", "name": "io", "types": [("Reader", "iface"), ("Writer", "iface")]},
    {"path": "net/http", "name": "http", "types": [("Request", "struct"), ("Handler", "iface")], "alias": "nethttp"},
    {"path": "time", "name": "time", "types": [("Duration", "basic"), ("Time", "struct")]},
]
# every ext package declares the same set of types
EXT_TYPES = [("Client", "struct"), ("Key", "cmp"), ("Handler", "iface"), ("Opt", "func"), ("Box", "generic"), ("Num", "constraint")]

BASIC = ["bool", "string", "int", "int8", "int64", "uint", "uint32", "byte", "rune", "float64", "complex128", "uintptr", "error", "any"]
COMPARABLE_BASIC = ["bool", "string", "int", "int64", "uint32", "byte", "float64"]

# identifier pools
ORDINARY = ["a", "b", "x", "y", "n", "s", "v", "id", "key", "val", "name", "data", "opts", "args0", "in", "out", "p1", "p2", "req", "resp", "cb", "ch", "m", "fn"]
QUALIFIER_LIKE = ["http", "http0", "ctx", "context", "io", "time", "src", "sync", "fmt", "unsafe", "h1", "h2", "nethttp"]
PREDECLARED = ["string", "int", "error", "bool", "nil", "true", "len", "append", "make", "new", "any", "byte", "panic", "cap", "iota"]
TYPE_LIKE = ["Local", "LocalIface", "Client", "Key", "Pair", "Gen", "T", "K", "V", "AliasC"]
CASE_PAIRS = ["a", "A", "id", "ID", "Id", "url", "URL"]
TEMPLATE_LOCALS = ["r0", "r1", "ok", "ret", "ret1", "returnFunc", "_va", "_ca", "_i", "tmpRet", "mock", "callInfo", "run", "args",
                   "t", "_mock", "_m", "_e", "_c", "variadicArgs", "i", "calls", "stub"]
NONASCII = ["é", "ñame", "δ", "Ωmega"]


def basic(n):
    return {"k": "basic", "n": n}


def named(pkg, n, targs=()):
    return {"k": "named", "pkg": pkg, "n": n, "targs": list(targs)}


class Gen:
    def __init__(self, rng, *, pools=("ordinary", "qualifier", "predeclared", "typelike", "case"), max_depth=3,
                 allow_unnamed=True, allow_generic=True, allow_embeds=True, allow_nonascii_types=False,
                 allow_unsafe=True, n_ifaces=(3, 7), n_methods=(0, 5), ext=None, std=None):
        self.rng = rng
        self.max_depth = max_depth
        self.allow_unnamed = allow_unnamed
        self.allow_generic = allow_generic
        self.allow_embeds = allow_embeds
        self.allow_unsafe = allow_unsafe
        self.allow_nonascii_types = allow_nonascii_types
        self.n_ifaces, self.n_methods = n_ifaces, n_methods
        self.ext = EXT if ext is None else ext
        self.std = STD if std is None else std
        pool = []
        w = {"ordinary": (ORDINARY, 6), "qualifier": (QUALIFIER_LIKE, 2), "predeclared": (PREDECLARED, 2), "typelike": (TYPE_LIKE, 2),
             "case": (CASE_PAIRS, 2), "template_locals": (TEMPLATE_LOCALS, 3), "nonascii": (NONASCII, 1)}
        for p in pools:
            names, weight = w[p]
            pool += [(n, weight / len(names)) for n in names]
        self.pool = pool
        self.local_types = [("Local", "struct"), ("Key", "cmp"), ("LocalIface", "iface"), ("Pair", "generic2"), ("Gen", "giface"),
                            ("AliasC", "alias"), ("hidden", "struct"), ("Fn", "func"), ("Num", "constraint")]
        if allow_nonascii_types:
            self.local_types.append(("Élan", "struct"))

    # ---------- identifiers ----------
    def ident(self):
        tot = sum(w for _, w in self.pool)
        r = self.rng.random() * tot
        for n, w in self.pool:
            r -= w
            if r <= 0:
                return n
        return self.pool[-1][0]

    def names(self, k, allow_blank=True):
        """k parameter names: all unnamed, or all named (distinct, `_` may repeat)."""
        if k == 0:
            return []
        if self.allow_unnamed and self.rng.random() < 0.25:
            return [""] * k
        out, used = [], set()
        for _ in range(k):
            if allow_blank and self.rng.random() < 0.08:
                out.append("_")
                continue
            for _try in range(50):
                n = self.ident()
                if n not in used:
                    break
            else:
                n = "z%d" % len(used)
            used.add(n)
            out.append(n)
        return out

    # ---------- types ----------
    def comparable(self, tparams):
        r = self.rng.random()
        if r < 0.5:
            return basic(self.rng.choice(COMPARABLE_BASIC))
        if r < 0.7:
            return named("", "Key")
        if r < 0.9 and self.ext:
            return named(self.rng.choice(self.ext)["path"], "Key")
        cmp_tps = [t for t in tparams if t.get("cmp")]
        if cmp_tps:
            return {"k": "tparam", "n": self.rng.choice(cmp_tps)["n"]}
        return basic("string")

    def named_type(self, tparams, depth):
        r = self.rng.random()
        if r < 0.35:
            n, kind = self.rng.choice(self.local_types)
            pkg = ""
        elif r < 0.75 and self.ext:
            e = self.rng.choice(self.ext)
            n, kind = self.rng.choice(EXT_TYPES)
            pkg = e["path"]
        else:
            s = self.rng.choice(self.std)
            n, kind = self.rng.choice(s["types"])
            return named(s["path"], n)
        if kind == "constraint":
            n, kind = "Key", "cmp"
        if kind == "generic":      # Box[T any]
            if not self.allow_generic:
                return named(pkg, "Client")
            return named(pkg, "Box", [self.ty(tparams, depth + 1)])
        if kind == "generic2":     # Pair[K comparable, V any]
            if not self.allow_generic:
                return named(pkg, "Local")
            return named(pkg, "Pair", [self.comparable(tparams), self.ty(tparams, depth + 1)])
        if kind == "giface":       # Gen[T any] interface
            if not self.allow_generic:
                return named(pkg, "LocalIface")
            return named(pkg, "Gen", [self.ty(tparams, depth + 1)])
        if kind == "alias":
            return {"k": "alias", "pkg": pkg, "n": n, "targs": []}
        return named(pkg, n)

    def sig(self, tparams, depth, max_params=4, max_results=3, allow_variadic=True):
        np_ = self.rng.choice([0, 1, 1, 2, 2, 3, max_params])
        nr = self.rng.choice([0, 1, 1, 2, max_results])
        pn = self.names(np_)
        rn = self.names(nr) if self.rng.random() < 0.4 else [""] * nr
        # named results must not clash with parameter names
        if any(rn):
            used = set(pn)
            fixed = []
            for n in rn:
                while n != "_" and n in used:
                    n = n + "R"
                used.add(n)
                fixed.append(n)
            rn = fixed
        params = [{"n": n, "t": self.ty(tparams, depth + 1)} for n in pn]
        variadic = False
        if params and allow_variadic and self.rng.random() < 0.3:
            variadic = True
            params[-1]["t"] = {"k": "slice", "e": params[-1]["t"]}
        results = [{"n": n, "t": (basic("error") if (i == nr - 1 and self.rng.random() < 0.4) else self.ty(tparams, depth + 1))} for i, n in enumerate(rn)]
        return {"params": params, "variadic": variadic, "results": results}

    def ty(self, tparams, depth=0):
        r = self.rng.random()
        leaf = depth >= self.max_depth
        if leaf or r < 0.30:
            r2 = self.rng.random()
            if r2 < 0.5:
                return basic(self.rng.choice(BASIC))
            if r2 < 0.55 and self.allow_unsafe:
                return basic("unsafe.Pointer")
            if r2 < 0.7 and tparams:
                return {"k": "tparam", "n": self.rng.choice(tparams)["n"]}
            return self.named_type(tparams, self.max_depth)
        if r < 0.48:
            return self.named_type(tparams, depth)
        if r < 0.56:
            return {"k": "ptr", "e": self.ty(tparams, depth + 1)}
        if r < 0.64:
            return {"k": "slice", "e": self.ty(tparams, depth + 1)}
        if r < 0.68:
            return {"k": "array", "len": self.rng.choice([0, 1, 4, 16]), "e": self.ty(tparams, depth + 1)}
        if r < 0.76:
            return {"k": "map", "key": self.comparable(tparams), "e": self.ty(tparams, depth + 1)}
        if r < 0.84:
            return {"k": "chan", "dir": self.rng.choice(["both", "send", "recv"]), "e": self.ty(tparams, depth + 1)}
        if r < 0.91:
            return {"k": "func", "sig": self.sig(tparams, depth + 1, max_params=2, max_results=2)}
        if r < 0.96:
            nf = self.rng.randint(0, 3)
            fields = []
            used = set()
            for i in range(nf):
                if self.rng.random() < 0.2:
                    e = self.rng.choice([named("", "Local"), named(self.ext[0]["path"], "Client")] if self.ext else [named("", "Local")])
                    if e["n"] in used:
                        continue
                    used.add(e["n"])
                    fields.append({"n": e["n"], "t": e, "tag": "", "emb": True})
                else:
                    n = self.rng.choice(["A", "b", "Name", "X", "y", "ID"])
                    if n in used:
                        continue
                    used.add(n)
                    fields.append({"n": n, "t": self.ty(tparams, depth + 1), "tag": self.rng.choice(["", "", 'json:"%s,omitempty"' % n.lower()]), "emb": False})
            return {"k": "struct", "fields": fields}
        nm = self.rng.randint(0, 2)
        ms, used = [], set()
        for _ in range(nm):
            n = self.rng.choice(["Do", "Get", "Close", "run"])
            if n in used:
                continue
            used.add(n)
            ms.append({"n": n, "sig": self.sig(tparams, depth + 1, max_params=2, max_results=1)})
        embeds = []
        if self.rng.random() < 0.3:
            embeds.append(named("io", "Reader") if self.rng.random() < 0.5 or not self.ext else named(self.ext[2]["path"], "Handler"))
            ms = [m for m in ms if m["n"] not in ("Read", "Handle")]
        return {"k": "iface", "methods": ms, "embeds": embeds}

    # ---------- interfaces ----------
    def constraint(self, prev):
        r = self.rng.random()
        if r < 0.35:
            return basic("any"), False
        if r < 0.55:
            return {"k": "named", "pkg": None, "n": "comparable", "targs": []}, True
        if r < 0.7:
            return named("", "Num"), True
        if r < 0.8 and self.ext:
            return named(self.rng.choice(self.ext)["path"], "Num"), True
        if r < 0.9:
            # union of basic types
            terms = self.rng.sample(["int", "int64", "string", "float64", "uint8"], self.rng.randint(1, 3))
            return {"k": "union", "terms": [{"tilde": self.rng.random() < 0.5, "t": basic(t)} for t in terms]}, True
        if prev:
            # constraint mentioning another type parameter
            return {"k": "iface", "methods": [{"n": "Conv", "sig": {"params": [], "variadic": False, "results": [{"n": "", "t": {"k": "tparam", "n": prev[-1]["n"]}}]}}], "embeds": []}, False
        return named("io", "Reader"), False

    def iface(self, name, method_names, lower_tparams=False):
        tparams = []
        if self.allow_generic and self.rng.random() < 0.3:
            pool = ["T", "K", "V", "E"] if not lower_tparams else ["t", "k", "elem"]
            for n in self.rng.sample(pool, self.rng.randint(1, 2)):
                c, cmp_ = self.constraint(tparams)
                tparams.append({"n": n, "c": c, "cmp": cmp_})
        nm = self.rng.randint(*self.n_methods)
        methods, used = [], set()
        embeds = []
        if self.allow_embeds and self.rng.random() < 0.35:
            choices = [(named("io", "Reader"), ["Read"]), (named("io", "Writer"), ["Write"]), (named("", "LocalIface"), ["LocalMethod"]),
                       (named("context", "Context"), ["Deadline", "Done", "Err", "Value"])]
            if self.ext:
                choices.append((named(self.ext[0]["path"], "Handler"), ["Handle"]))
            if self.allow_generic:
                choices.append((named("", "Gen", [basic("int")]), ["Produce", "Consume"]))
            for e, ms in self.rng.sample(choices, self.rng.randint(1, 2)):
                if used & set(ms):
                    continue
                used |= set(ms)
                embeds.append(e)
        for _ in range(nm):
            n = self.rng.choice(method_names)
            if n in used:
                continue
            used.add(n)
            methods.append({"n": n, "sig": self.sig(tparams, 0)})
        return {"name": name, "tparams": tparams, "methods": methods, "embeds": embeds, "exported": name[0].isupper()}

    def module(self, src_name="src", iface_names=None, method_names=None, lower_tparams=False):
        k = self.rng.randint(*self.n_ifaces)
        iface_names = iface_names or ["Svc", "Store", "Doer", "Repo", "Cache", "Bus", "worker", "Handler2", "API", "Conn"]
        method_names = method_names or ["Do", "Get", "Put", "Close", "List", "Watch", "Apply", "Len", "String", "Each", "unexp"]
        names = self.rng.sample(iface_names, min(k, len(iface_names)))
        return {"mod": MOD, "src": {"path": MOD + "/" + src_name, "name": src_name},
                "ifaces": [self.iface(n, method_names, lower_tparams) for n in names],
                "ext": self.ext, "std": self.std, "nonascii": self.allow_nonascii_types}


# ---------------------------------------------------------------------------------------
# Go source rendering
# ---------------------------------------------------------------------------------------
def collect_pkgs(t, acc):
    k = t["k"]
    if k in ("named", "alias"):
        if t["pkg"]:
            acc.add(t["pkg"])
        for a in t["targs"]:
            collect_pkgs(a, acc)
    elif k == "basic":
        if t["n"] == "unsafe.Pointer":
            acc.add("unsafe")
    elif k in ("ptr", "slice", "array", "chan"):
        collect_pkgs(t["e"], acc)
    elif k == "map":
        collect_pkgs(t["key"], acc); collect_pkgs(t["e"], acc)
    elif k == "func":
        collect_sig(t["sig"], acc)
    elif k == "struct":
        for f in t["fields"]:
            collect_pkgs(f["t"], acc)
    elif k == "iface":
        for m in t["methods"]:
            collect_sig(m["sig"], acc)
        for e in t["embeds"]:
            collect_pkgs(e, acc)
    elif k == "union":
        for x in t["terms"]:
            collect_pkgs(x["t"], acc)
    return acc


def collect_sig(s, acc):
    for p in s["params"] + s["results"]:
        collect_pkgs(p["t"], acc)
    return acc


class Render:
    """Renders types as Go source for a file whose imports use the given path->qualifier map."""
    def __init__(self, qual):
        self.qual = qual

    def ty(self, t):
        k = t["k"]
        if k == "basic":
            return t["n"]
        if k in ("named", "alias"):
            q = self.qual.get(t["pkg"], "") if t["pkg"] else ""
            s = (q + "." if q else "") + t["n"]
            if t["targs"]:
                s += "[" + ", ".join(self.ty(a) for a in t["targs"]) + "]"
            return s
        if k == "tparam":
            return t["n"]
        if k == "ptr":
            return "*" + self.ty(t["e"])
        if k == "slice":
            return "[]" + self.ty(t["e"])
        if k == "array":
            return "[%d]%s" % (t["len"], self.ty(t["e"]))
        if k == "map":
            return "map[%s]%s" % (self.ty(t["key"]), self.ty(t["e"]))
        if k == "chan":
            e = self.ty(t["e"])
            if t["e"]["k"] == "chan" and t["e"]["dir"] == "recv" and t["dir"] != "recv":
                e = "(" + e + ")"
            return {"both": "chan ", "send": "chan<- ", "recv": "<-chan "}[t["dir"]] + e
        if k == "func":
            return "func" + self.sig(t["sig"])
        if k == "struct":
            fs = []
            for f in t["fields"]:
                s = self.ty(f["t"]) if f["emb"] else "%s %s" % (f["n"], self.ty(f["t"]))
                if f["tag"]:
                    s += " `%s`" % f["tag"]
                fs.append(s)
            return "struct{ " + "; ".join(fs) + " }" if fs else "struct{}"
        if k == "iface":
            parts = ["%s%s" % (m["n"], self.sig(m["sig"])) for m in t["methods"]] + [self.ty(e) for e in t["embeds"]]
            return "interface{ " + "; ".join(parts) + " }" if parts else "interface{}"
        if k == "union":
            return " | ".join(("~" if x["tilde"] else "") + self.ty(x["t"]) for x in t["terms"])
        raise ValueError(k)

    def params(self, ps, variadic=False):
        out = []
        for i, p in enumerate(ps):
            if variadic and i == len(ps) - 1:
                ts = "..." + self.ty(p["t"]["e"])
            else:
                ts = self.ty(p["t"])
            out.append((p["n"] + " " if p["n"] else "") + ts)
        return ", ".join(out)

    def sig(self, s):
        r = ""
        if s["results"]:
            if len(s["results"]) == 1 and not s["results"][0]["n"]:
                r = " " + self.ty(s["results"][0]["t"])
            else:
                r = " (" + self.params(s["results"]) + ")"
        return "(" + self.params(s["params"], s["variadic"]) + ")" + r


def ext_source(e):
    return """package %s

type Client struct{ N int }
type Key struct{ A, B string }
type Handler interface{ Handle(c *Client) error }
type Opt func(*Client) error
type Box[T any] struct{ V T }
type Num interface{ ~int | ~int64 | ~float64 }
""" % e["name"]


def src_files(m):
    """Returns {relative path: content} for the whole module (without go.mod / go.sum)."""
    files = {}
    for e in m["ext"]:
        rel = e["path"][len(m["mod"]) + 1:]
        files[rel + "/types.go"] = ext_source(e)
    src = m["src"]
    rel = src["path"][len(m["mod"]) + 1:]
    used = set()
    for i in m["ifaces"]:
        for tp in i["tparams"]:
            collect_pkgs(tp["c"], used)
        for mm in i["methods"]:
            collect_sig(mm["sig"], used)
        for e in i["embeds"]:
            collect_pkgs(e, used)
    qual, imports = {}, []
    first_ext = m["ext"][0]["path"] if m["ext"] else None
    if first_ext:
        used.add(first_ext)        # AliasC refers to it
    for e in m["ext"]:
        if e["path"] in used:
            qual[e["path"]] = e["alias"] or e["name"]
            imports.append((e["alias"], e["path"]))
    for s in m["std"]:
        if s["path"] in used:
            qual[s["path"]] = s.get("alias") or s["name"]
            imports.append((s.get("alias", ""), s["path"]))
    if "unsafe" in used:
        qual["unsafe"] = "unsafe"
        imports.append(("", "unsafe"))
    R = Render(qual)
    out = ["package %s\n" % src["name"]]
    if imports:
        out.append("import (")
        for a, p in imports:
            out.append('\t%s"%s"' % (a + " " if a else "", p))
        out.append(")\n")
    aliasc = (qual[first_ext] + ".Client") if first_ext else "Local"
    out.append("""type Local struct{ X int }
type Key struct{ K string }
type LocalIface interface{ LocalMethod(l Local) (Key, error) }
type Pair[K comparable, V any] struct { Key K; Val V }
type Gen[T any] interface { Produce() T; Consume(v T) error }
type AliasC = %s
type hidden struct{ h int }
type Fn func(Local) error
type Num interface{ ~int | ~uint8 | ~string }
""" % aliasc)
    if m.get("nonascii"):
        out.append("type Élan struct{ e int }\n")
    for i in m["ifaces"]:
        tp = ""
        if i["tparams"]:
            tp = "[" + ", ".join("%s %s" % (t["n"], R.ty(t["c"])) for t in i["tparams"]) + "]"
        out.append("type %s%s interface {" % (i["name"], tp))
        for e in i["embeds"]:
            out.append("\t" + R.ty(e))
        for mm in i["methods"]:
            out.append("\t%s%s" % (mm["n"], R.sig(mm["sig"])))
        out.append("}\n")
    files[rel + "/%s.go" % src["name"]] = "\n".join(out)
    return files


def write_module(m, root, gomod_line=None, testify=True):
    """Writes the module under root (a pathlib.Path).  go.sum must be copied by the caller."""
    root.mkdir(parents=True, exist_ok=True)
    gm = (gomod_line or ("module " + m["mod"])) + "\n\ngo 1.23\n"
    if testify:
        gm += "\nrequire github.com/stretchr/testify v1.10.0\n"
    (root / "go.mod").write_text(gm)
    for rel, content in src_files(m).items():
        p = root / rel
        p.parent.mkdir(parents=True, exist_ok=True)
        p.write_text(content)
