#!/usr/bin/env python3
"""Regenerates the generated tables of DESIGN.md section 11 (between the BEGIN/END GENERATED markers):
fix commits, known findings, seeded changes."""
import json, re, subprocess
from pathlib import Path
V = Path(__file__).resolve().parents[1]

def fixes():
    rows = ["| commit | fix (fixes/<name>.diff) | subject |", "|---|---|---|"]
    for l in (V / "fixes" / "APPLIED.tsv").read_text().split("\n"):
        if not l.strip():
            continue
        name, h = l.split("\t")
        subj = subprocess.run(["git", "-C", "/repo", "log", "--format=%s", "-1", h], capture_output=True, text=True).stdout.strip()
        rows.append("| %s | %s | %s |" % (h, name, subj))
    return "\n".join(rows)

def known():
    rows = ["| property | id | input class (guard) | symptom |", "|---|---|---|---|"]
    for f in sorted((V / "known").glob("C*.json")):
        for k in json.loads(f.read_text()).get("findings", []):
            rows.append("| %s | %s | %s | %s |" % (k["property"], k["id"], str(k.get("input_class", "")).replace("|", "\\|").replace("\n", " ")[:260],
                                                 str(k.get("symptom", "")).replace("|", "\\|")[:120]))
    return "\n".join(rows)

def seeds():
    rows = ["| seeded change | property | needs, in order to manifest | caught | detected by |", "|---|---|---|---|---|"]
    for d in sorted((V / "seeded").glob("C*-*")):
        m = json.loads((d / "meta.json").read_text())
        rows.append("| %s | %s | %s | %s | %s |" % (d.name, m["property"], m["needs_to_manifest"].replace("|", "\\|")[:300], m["caught_by_check"], m["detected_by"].replace("|", "\\|")[:300]))
    return "\n".join(rows)

def theorems():
    """Current statement names per Properties/Cxx.v (the table in 11.2 names the core ones; this list is regenerated)."""
    rows = ["| id | statements (Theorem/Corollary/Example names in Properties/Cxx.v, each followed by Print Assumptions) | lines of model+proof in its closure |", "|---|---|---|"]
    import sys
    sys.path.insert(0, str(V / "harness"))
    try:
        import common
    except Exception:
        common = None
    for f in sorted((V / "coq" / "Properties").glob("C*.v")):
        txt = f.read_text()
        names = re.findall(r"^(?:Theorem|Corollary|Example|Lemma)\s+([A-Za-z0-9_']+)", txt, flags=re.M)
        n = ""
        if common is not None:
            try:
                clo = common.dep_closure(["Properties/%s" % f.name])
                n = str(sum(len((V / "coq" / c).read_text().splitlines()) for c in clo))
            except Exception:
                n = ""
        rows.append("| %s | %d: %s | %s |" % (f.stem, len(names), ", ".join("`%s`" % x for x in names), n))
    return "\n".join(rows)

s = (V / "DESIGN.md").read_text()
for tag, fn in (("FIXES", fixes), ("KNOWN", known), ("SEEDS", seeds), ("THEOREMS", theorems)):
    s = re.sub(r"(<!-- BEGIN GENERATED %s -->\n).*?(<!-- END GENERATED %s -->)" % (tag, tag), lambda m: m.group(1) + fn() + "\n" + m.group(2), s, flags=re.S)
(V / "DESIGN.md").write_text(s)
print("DESIGN.md tables regenerated")
