"""One entry per claimed property; MANIFEST.json is generated from this."""
ENTRIES = {
 "C15": {
  "text": "Theorems over ALL histories of AllocateName/SuggestName/AddName/NameExists/AddImport/Imports/PkgQualifier calls (induction over the history, pigeonhole termination of the suffix search) on a Gallina model of Registry/MethodScope; the model is tied to the code on every run by executing seeded histories on the real template.Registry/MethodScope (driver built in a scratch copy of /repo) and on the model inside Coq (vm_compute) and comparing every answer verbatim; a set-based oracle evaluates the property directly on the observed traces.",
  "note": "Trusted: Coq kernel + vm_compute; the hand-written model Gen/Alloc.v (correspondence-checked, not translated); generator and Go driver drv_alloc. No axioms (Print Assumptions closed for all 9 theorems). The starting scope 'produced for any method' is modelled as the qualifier set of any reachable registry plus arbitrary AddName calls.",
  "technique": "Coq proof (induction over histories) + checked model/implementation correspondence",
 },
}
import json as _json
from pathlib import Path as _Path
PENDING = set()    # built but not yet integrated (waiting for their fix commits)
for _f in sorted((_Path(__file__).resolve().parent / "entries").glob("C*.json")):
    if _f.stem not in PENDING:
        ENTRIES[_f.stem] = _json.loads(_f.read_text())
ALL = ["C%02d" % i for i in range(1, 21)]
NOT_APPLICABLE = [{"property_id": p, "reason": "check not built yet in this session (planned, see DESIGN.md section 10); not a limit of the technique"} for p in ALL if p not in ENTRIES]
