"""Shared machinery for all checks: scratch build of /repo, Coq gate, case evaluation
inside Coq, evidence, replay files, known findings."""
import atexit, fcntl, hashlib, json, os, random, re, shutil, subprocess, sys, tempfile, time
from concurrent.futures import ThreadPoolExecutor
from pathlib import Path

VERIF = Path(__file__).resolve().parents[1]
REPO = Path(os.environ.get("VERIF_REPO", "/repo"))
COQ = VERIF / "coq"
BUILD = VERIF / "build"
JOBS = int(os.environ.get("VERIF_JOBS", "16"))

TRUSTED_BASE_COMMON = [
    "Coq 8.16.1 kernel and vm_compute (no native_compute); coqchk in the thorough tier",
    "no axioms: Print Assumptions of every theorem in Properties/<id>.v must print 'Closed under the global context' (checked on every run)",
    "hand-written Gallina model (modelled, not verified against the Go source text); tied to /repo by the correspondence check of this run: the real code built from /repo's working tree and the model are evaluated on the same generated inputs and compared",
    "the Python generators/printers that print each abstract input twice (for Go and as a Gallina term) and the Go driver programs under harness/go",
]


def go_env(extra=None):
    env = dict(os.environ)
    env["GOPROXY"] = "off"
    env.pop("GOFLAGS", None)       # -mod=mod is rejected in workspace mode
    env.pop("GOSUMDB", None)
    env.pop("GOTOOLCHAIN", None)
    if _GOCACHE_OVERRIDE:
        env["GOCACHE"] = _GOCACHE_OVERRIDE
    if extra:
        env.update(extra)
    return env


_GOCACHE_OVERRIDE = None
# what the go command prints when the shared build cache was pruned or wiped under it (not a property of the tree)
_CACHE_DAMAGE = re.compile(r"go-build[^\n]*(no such file|cannot open)|cannot open file [^\n]*go-build|could not import [^\n]*\(open [^\n]*no such file")


def go_build(args, cwd, timeout=900):
    """go build with one retry under a private build cache when the shared cache is damaged (concurrent `go clean -cache`)."""
    global _GOCACHE_OVERRIDE
    p = run(["go", "build"] + args, cwd=cwd, env=go_env(), timeout=timeout)
    if p.returncode != 0 and _GOCACHE_OVERRIDE is None and _CACHE_DAMAGE.search(p.stderr.decode(errors="replace")):
        _GOCACHE_OVERRIDE = tempfile.mkdtemp(prefix="vf-gocache-")
        atexit.register(shutil.rmtree, _GOCACHE_OVERRIDE, ignore_errors=True)
        p = run(["go", "build"] + args, cwd=cwd, env=go_env(), timeout=timeout * 2)
    return p


def run(cmd, cwd=None, env=None, timeout=600, inp=None, check=False):
    try:
        p = subprocess.run(cmd, cwd=cwd, env=env, timeout=timeout, input=inp,
                           stdout=subprocess.PIPE, stderr=subprocess.PIPE)
    except subprocess.TimeoutExpired:
        # a loaded machine must not turn scheduling delay into a verdict: one retry with a 3x budget
        p = subprocess.run(cmd, cwd=cwd, env=env, timeout=timeout * 3, input=inp,
                           stdout=subprocess.PIPE, stderr=subprocess.PIPE)
    if check and p.returncode != 0:
        raise RuntimeError("command failed: %s\n%s\n%s" % (cmd, p.stdout.decode(errors="replace")[-4000:], p.stderr.decode(errors="replace")[-4000:]))
    return p


class Ctx:
    def __init__(self, prop, tier, seed):
        self.prop, self.tier, self.seed = prop, tier, seed
        self.t0 = time.time()
        self.rng = random.Random(seed)
        self.scratch = Path(tempfile.mkdtemp(prefix="vf-%s-" % prop, dir=os.environ.get("VERIF_SCRATCH", "/tmp")))
        self.violations = []          # (replay_path, nofail)
        self.known_seen = []
        self.cov = {}
        self.rundir = BUILD / "run" / ("%s-%d" % (prop, os.getpid()))     # per process: concurrent runs do not collide
        shutil.rmtree(self.rundir, ignore_errors=True)
        self.rundir.mkdir(parents=True, exist_ok=True)
        self.tree = None
        self.bins = {}

    def thorough(self):
        return self.tier == "thorough"

    def cleanup(self):
        subprocess.run(["chmod", "-R", "u+rwx", str(self.scratch)], stderr=subprocess.DEVNULL)
        shutil.rmtree(self.scratch, ignore_errors=True)
        if not self.violations and os.environ.get("VERIF_KEEP_RUNDIR") != "1":
            shutil.rmtree(self.rundir, ignore_errors=True)

    # ---------------- implementation side ----------------
    def build_tree(self, tools=False, drivers=()):
        """Copy /repo's working tree to scratch and build mockery (and tools) there."""
        tree = self.scratch / "tree"
        run(["rsync", "-a", "--exclude", ".git", str(REPO) + "/", str(tree) + "/"], check=True)
        self.tree = tree
        p = go_build(["-o", str(self.scratch / "mockery"), "."], cwd=tree)
        if p.returncode != 0:
            self.build_failure("mockery", p)
            return False
        self.bins["mockery"] = str(self.scratch / "mockery")
        if tools:
            p = go_build(["-o", str(self.scratch / "tools"), "."], cwd=tree / "tools")
            if p.returncode != 0:
                self.build_failure("tools", p)
                return False
            self.bins["tools"] = str(self.scratch / "tools")
        for d in drivers:
            dst = tree / "zz_verif" / d
            shutil.copytree(VERIF / "harness" / "go" / d, dst)
            p = go_build(["-o", str(self.scratch / d), "."], cwd=dst)
            if p.returncode != 0:
                self.build_failure(d, p)
                return False
            self.bins[d] = str(self.scratch / d)
        return True

    def build_failure(self, what, p):
        rp = self.write_replay("build-failure", {
            "what": "building %s from /repo's working tree failed; nothing can be shown" % what,
            "stderr": p.stderr.decode(errors="replace")[-6000:],
            "obligation": "correspondence for %s (no implementation to run)" % self.prop})
        self.violation(rp, nofail=True)

    # ---------------- replay / verdict ----------------
    def write_replay(self, name, obj):
        d = VERIF / "replays" / self.prop
        d.mkdir(parents=True, exist_ok=True)
        path = d / ("%s-%s-%d.json" % (name, self.tier, self.seed))
        obj = dict(obj)
        obj.setdefault("property", self.prop)
        obj.setdefault("seed", self.seed)
        obj.setdefault("how_to_rerun", "cd /verif && bin/check %s --replay %s" % (self.prop, path))
        path.write_text(json.dumps(obj, indent=1, default=str))
        return str(path)

    def violation(self, replay, nofail=False):
        self.violations.append((replay, nofail))
        print("VIOLATION property=%s replay=%s%s" % (self.prop, replay, " no-failing-input-found" if nofail else ""), flush=True)

    def known(self, what):
        self.known_seen.append(what)
        print("KNOWN-FINDING: property=%s %s" % (self.prop, what), flush=True)

    # ---------------- evidence ----------------
    def write_evidence(self, gate, evaluations, distinct_nontrivial, rule, samples, extra=None, assumptions=None):
        cov = {
            "obligations": gate["obligations"], "discharged": gate["discharged"],
            "checker_cmd": gate["checker_cmd"],
            "trusted_base": TRUSTED_BASE_COMMON + gate.get("trusted_extra", []),
            "theorems": gate["theorems"], "print_assumptions": gate["assumptions"], "coqchk": gate.get("coqchk", "not run (thorough tier only)"),
            "evaluations": evaluations, "distinct_nontrivial": distinct_nontrivial,
            "rule": rule, "samples": samples[:8],
            "known_findings_seen": self.known_seen,
        }
        if extra:
            cov.update(extra)
        ev = {"property_id": self.prop, "tier": self.tier, "seed": self.seed, "level": "proof",
              "coverage": cov, "assumptions": assumptions or [], "wall_s": round(time.time() - self.t0, 2),
              "violations": len(self.violations)}
        # (bin/seedtest redirects the evidence of runs against patched trees so that the committed
        #  evidence always comes from runs against /repo itself)
        d = Path(os.environ.get("VERIF_EVIDENCE_DIR", str(VERIF / "evidence")))
        d.mkdir(parents=True, exist_ok=True)
        (d / ("%s.json" % self.prop)).write_text(json.dumps(ev, indent=1, default=str))


# ---------------- Coq side ----------------
FORBIDDEN = re.compile(r"\b(Admitted|admit|Axiom|Axioms|Parameter|Parameters|Conjecture|Conjectures|Admit Obligations|bypass_check|Unset Guard Checking|Unset Positivity Checking|Unset Universe Checking|native_compute|type-in-type|impredicative-set)\b")
SECTION_ONLY = re.compile(r"^\s*(Variable|Variables|Hypothesis|Hypotheses|Context)\b")


def strip_comments(src):
    out, depth, i, n = [], 0, 0, len(src)
    in_str = False
    while i < n:
        c = src[i]
        if depth == 0 and c == '"':
            in_str = not in_str
            out.append(c); i += 1; continue
        if not in_str and src.startswith("(*", i):
            depth += 1; i += 2; continue
        if not in_str and depth > 0 and src.startswith("*)", i):
            depth -= 1; i += 2; continue
        if depth == 0:
            out.append(c)
        elif c == "\n":
            out.append(c)
        i += 1
    return "".join(out)


def dep_closure(roots):
    """The .v files (relative to coq/) that the given files depend on, via their Mk requires."""
    seen, todo = set(), list(roots)
    while todo:
        f = todo.pop()
        if f in seen or not (COQ / f).exists():
            continue
        seen.add(f)
        src = strip_comments((COQ / f).read_text())
        for m in re.finditer(r"From\s+Mk\s+Require\s+(.*?)\.(?:\s|$)", src, re.S):
            for mod in m.group(1).split():
                if mod not in ("Import", "Export"):
                    todo.append(mod.replace(".", "/") + ".v")
    return sorted(seen)


def audit_sources(files=None):
    """No Admitted/Axiom/... anywhere; Variable/Hypothesis only inside a Section."""
    problems = []
    for f in (sorted(COQ.rglob("*.v")) if files is None else [COQ / x for x in files]):
        src = strip_comments(f.read_text())
        depth = 0
        for ln, line in enumerate(src.split("\n"), 1):
            code = re.sub(r'"[^"]*"', '""', line)
            if FORBIDDEN.search(code):
                problems.append("%s:%d: %s" % (f.relative_to(VERIF), ln, line.strip()))
            if re.match(r"^\s*Section\b", code):
                depth += 1
            elif re.match(r"^\s*End\b", code) and depth > 0:
                depth -= 1
            elif SECTION_ONLY.match(code) and depth == 0:
                problems.append("%s:%d: outside a section: %s" % (f.relative_to(VERIF), ln, line.strip()))
    return problems


def coq_make(targets=None):
    """Full .vo build of the development (incremental), serialised by a lock.
    targets: list of .vo paths relative to coq/ (default: everything)."""
    BUILD.mkdir(exist_ok=True)
    with open(BUILD / ".coq.lock", "w") as lk:
        fcntl.flock(lk, fcntl.LOCK_EX)
        files = sorted(str(p.relative_to(COQ)) for p in COQ.rglob("*.v"))
        proj = "-Q . Mk\n" + "".join(" %s\n" % f for f in files)
        pf = COQ / "_CoqProject"
        if not pf.exists() or pf.read_text() != proj or not (COQ / "Makefile").exists():
            pf.write_text(proj)
            run(["coq_makefile", "-f", "_CoqProject", "-o", "Makefile"], cwd=COQ, check=True)
        p = run(["make", "-j%d" % JOBS] + list(targets or []), cwd=COQ, timeout=3000)
        return p.returncode == 0, (p.stdout + p.stderr).decode(errors="replace")


def proof_gate(ctx, extra_files=()):
    """Build everything, audit sources, re-check Properties/<id>.v and read Print Assumptions."""
    roots = ["Properties/%s.v" % ctx.prop, "Harness/%s.v" % ctx.prop] + list(extra_files)
    roots = [r for r in roots if (COQ / r).exists()]
    # every check builds and audits the dependency closure of its own Properties/Harness files
    # (bin/setup builds the closures of all claimed properties with one parallel make)
    only = True
    ok, log = coq_make([r + "o" for r in roots])
    gate = {"obligations": 0, "discharged": 0, "theorems": [], "assumptions": {}, "ok": True,
            "checker_cmd": "make -C coq Properties/%s.vo Harness/%s.vo (coq_makefile, full .vo build of the dependency closure) && coqc -Q coq Mk coq/Properties/%s.v  [Print Assumptions under every theorem]" % (ctx.prop, ctx.prop, ctx.prop)}
    propfile = COQ / "Properties" / ("%s.v" % ctx.prop)
    src = strip_comments(propfile.read_text())
    thms = re.findall(r"^\s*(?:Theorem|Lemma|Example|Corollary)\s+([A-Za-z0-9_']+)", src, re.M)
    gate["theorems"] = thms
    gate["obligations"] = len(thms)
    problems = audit_sources(dep_closure(roots) if only else None)
    if not ok:
        problems.append("make failed: " + log[-3000:])
    out = ""
    if ok:
        p = run(["coqc", "-Q", ".", "Mk", str(propfile.relative_to(COQ))], cwd=COQ, timeout=1200)
        out = (p.stdout + p.stderr).decode(errors="replace")
        if p.returncode != 0:
            problems.append("coqc Properties/%s.v failed: %s" % (ctx.prop, out[-3000:]))
        else:
            closed = out.count("Closed under the global context")
            axioms = re.findall(r"^Axioms:\n((?:.+\n)+)", out, re.M)
            gate["assumptions"] = {"closed": closed, "axiom_blocks": axioms}
            printed = len(re.findall(r"^\s*Print Assumptions\s", src, re.M))
            if axioms:
                problems.append("axioms reported by Print Assumptions: %s" % axioms)
            gate["discharged"] = len(thms)
            gate["print_assumptions_count"] = printed
            if closed != printed:
                problems.append("Print Assumptions: %d closed of %d printed" % (closed, printed))
    if ok and not problems and ctx.thorough() and os.environ.get("VERIF_NO_COQCHK") != "1":
        # independent re-check of the compiled theory and everything it depends on
        p = run(["coqchk", "-silent", "-o", "-Q", ".", "Mk", "Mk.Properties.%s" % ctx.prop], cwd=COQ, timeout=3600)
        chk = (p.stdout + p.stderr).decode(errors="replace")
        summary = chk[chk.find("CONTEXT SUMMARY"):] if "CONTEXT SUMMARY" in chk else chk[-2000:]
        gate["coqchk"] = " ".join(summary.split())
        gate["checker_cmd"] += " && coqchk -silent -o -Q coq Mk Mk.Properties.%s" % ctx.prop
        if p.returncode != 0 or "Axioms: <none>" not in gate["coqchk"]:
            problems.append("coqchk: %s" % gate["coqchk"][:1500])
    if problems:
        gate["ok"] = False
        gate["discharged"] = 0
        rp = ctx.write_replay("proof-gate", {"what": "proof obligations of %s no longer check" % ctx.prop,
                                             "obligation": "Properties/%s.v: %s" % (ctx.prop, ", ".join(thms)),
                                             "problems": problems})
        gate["replay"] = rp
    return gate


def coq_bytes(b):
    """Python bytes -> Gallina term of type str (list byte)."""
    if isinstance(b, str):
        b = b.encode()
    if all(32 <= c < 127 and c != 34 for c in b):
        return '(B "%s")' % b.decode()
    return "[" + "; ".join("x%02x" % c for c in b) + "]"


def coq_bool(x):
    return "true" if x else "false"


def coq_list(items):
    return "[" + "; ".join(items) + "]"


def coq_opt(x, f=lambda v: v):
    return "None" if x is None else "(Some %s)" % f(x)


def coq_eval(ctx, name, imports, defs, queries, timeout=1200):
    """Write build/run/<prop>/<name>.v, run coqc, return its stdout with whitespace normalised
    per Print/Eval answer."""
    path = ctx.rundir / ("%s.v" % name)
    path.write_text(imports + "\n" + defs + "\n" + queries + "\n")
    p = run(["coqc", "-Q", str(COQ), "Mk", "-Q", str(ctx.rundir), "Run", str(path)], cwd=ctx.rundir, timeout=timeout)
    return p.returncode, p.stdout.decode(errors="replace"), p.stderr.decode(errors="replace")


def coq_mismatches(ctx, harness_mod, case_terms, shard=250, extra_import="", check="mismatches"):
    """Evaluate [mismatches cases] inside Coq, sharded and in parallel.
    Returns (list of global mismatching indices, list of error strings)."""
    shards = [case_terms[i:i + shard] for i in range(0, len(case_terms), shard)]

    def one(k):
        body = "Definition cases := [\n%s\n]." % ";\n".join(shards[k])
        q = "Definition M := Eval vm_compute in (%s cases).\nPrint M." % check
        rc, out, err = coq_eval(ctx, "cases_%d" % k, "From Mk Require Import Lib.Bytes %s.\n%s" % (harness_mod, extra_import), body, q)
        if rc != 0:
            return k, None, err[-3000:]
        flat = " ".join(out.split())
        m = re.search(r"M = \[(.*?)\]\s*:", flat)
        if not m:
            return k, None, "unparsable coqc output: " + flat[:500]
        idx = [int(x.replace("%nat", "")) for x in m.group(1).split(";") if x.strip()]
        return k, idx, None

    bad, errs = [], []
    with ThreadPoolExecutor(max_workers=JOBS) as ex:
        for k, idx, err in ex.map(one, range(len(shards))):
            if err:
                errs.append("shard %d: %s" % (k, err))
            else:
                bad.extend(k * shard + i for i in idx)
    return sorted(bad), errs


def coq_show(ctx, harness_mod, term, name="show"):
    rc, out, err = coq_eval(ctx, name, "From Mk Require Import Lib.Bytes %s." % harness_mod, "",
                            "Definition R := Eval vm_compute in (%s).\nPrint R." % term)
    return " ".join(out.split()) if rc == 0 else "coqc failed: " + err[-1500:]


# ---------------- known findings ----------------
def load_known(prop):
    """Committed known findings of one property: known/<prop>.json = {"findings":[…], "fixed":[…]}
    (known_findings.json is the merged index generated by harness/gen_manifest.py)."""
    f = VERIF / "known" / ("%s.json" % prop)
    if not f.exists():
        return []
    data = json.loads(f.read_text())
    return [k for k in data.get("findings", []) if k["property"] == prop]


def pmap(fn, items, workers=JOBS):
    with ThreadPoolExecutor(max_workers=workers) as ex:
        return list(ex.map(fn, items))


def hx(b):
    return b.hex()


def finish(ctx):
    ctx.cleanup()
    return 1 if ctx.violations else 0
