#!/usr/bin/env python3
"""Regenerates MANIFEST.json from harness/manifest_entries.py (kept valid at all times)."""
import json, sys
from pathlib import Path
sys.path.insert(0, str(Path(__file__).resolve().parent))
from manifest_entries import ENTRIES, NOT_APPLICABLE
V = Path(__file__).resolve().parents[1]
BASE = json.load(open("/root/.vp/BASELINE.json"))["cmd"] if Path("/root/.vp/BASELINE.json").exists() else ""
checks = []
for pid in sorted(ENTRIES):
    e = ENTRIES[pid]
    checks.append({
        "property_id": pid,
        "quick_cmd": "bin/check %s --tier quick" % pid,
        "thorough_cmd": "bin/check %s --tier thorough" % pid,
        "evidence_file": "evidence/%s.json" % pid,
        "replay_cmd_template": "bin/check %s --replay {path}" % pid,
        "engine": "coq-model+correspondence",
        "level_claimed": {"category": "proof", "text": e["text"], "design_ref": e.get("design_ref", "DESIGN.md section 5, " + pid)},
        "level_note": e["note"],
        "technique": e["technique"],
    })
m = {
    "version": 1,
    "setup_cmd": "bin/setup",
    "hooks": {"guard": "verif", "enable": "none needed: Go drivers are copied into a scratch copy of /repo's working tree (zz_verif/<driver>) and built there; /repo carries no hook commits",
              "baseline_off_cmd": BASE, "source_commits": [], "add_only": True},
    "engines": [{"name": "coq-model+correspondence", "path": "coq/ harness/ bin/check",
                 "serves_properties": sorted(ENTRIES),
                 "kind_free_text": "hand-written Gallina models + theorems (Coq 8.16.1, axiom-free), tied to /repo on every run by evaluating model and freshly built implementation on the same generated inputs (vm_compute inside Coq), plus a direct oracle per property"}],
    "checks": checks,
    "not_applicable": NOT_APPLICABLE,
    "notes": "See DESIGN.md. known_findings.json lists genuine defects of the pinned tree that are recorded rather than repaired.",
}
# merged index of the committed known-findings files known/Cxx.json (never written at run time)
kf = {"findings": [], "fixed": []}
for f in sorted((V / "known").glob("C*.json")):
    d = json.loads(f.read_text())
    kf["findings"].extend(d.get("findings", []))
    kf["fixed"].extend(d.get("fixed", []))
(V / "known_findings.json").write_text(json.dumps(kf, indent=1) + "\n")
(V / "MANIFEST.json").write_text(json.dumps(m, indent=1) + "\n")
print("MANIFEST.json: %d checks, %d not_applicable" % (len(checks), len(NOT_APPLICABLE)))
