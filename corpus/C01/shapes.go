package src

import (
	"bytes"
	"context"
	"encoding/json"
	"example.com/m/ext/fwd"
	h1 "example.com/m/ext/http"
	"example.com/m/ext/pairs"
	"example.com/m/ext/wire"
	"fmt"
	"io"
	"math/big"
	"net/mail"
	"net/textproto"
	"net/url"
	"os"
	"regexp"
	"strings"
)

// Hand-picked shapes that exercise every branch of the two built-in templates (corpus, run first).

type Local struct{ X int }
type Key struct{ K string }

type ShapesPlain interface {
	NoArgs()
	OneRes(a int) error
	TwoRes(ctx context.Context, key string) (h1.Client, error)
	Nillable(p *int, m map[string]int, f func(int) error, ch chan int, s []byte, r io.Reader, l Local) ([]byte, error)
	NamedRes(x int) (y int, err error)
	Unnamed(int, string, Key) (Key, bool)
	HarmlessNames(run int, args string, ret bool, t Local, i int, a int, calls int, stub int) (ret1 int)
}

type ShapesVariadic1 interface {
	Variadic1(prefix string, rest ...int) int
	VariadicAny(format string, args0 ...interface{}) string
	VariadicAny2(xs ...any) error
	VariadicOnly(xs ...io.Reader) (n int)
	VariadicNillable(p *Local, q []h1.Key, more ...*Local) error
}

type ShapesVariadic0 interface {
	Log(format string, rest ...string)
	LogAny(rest ...interface{})
}

type ShapesVariadic2 interface {
	Query(q string, params ...int) ([]Key, error)
	QueryAny(params ...any) (int, string, error)
}

type ShapesAllocated interface {
	Lookup(arg0 *int, ok bool, returnFunc string) (bool, error)
}

type ShapesGeneric[T any, V io.Reader] interface {
	Get(k string) (T, bool)
	Put(k string, v T, r V)
	Each(f func(string, T) bool, more ...T) int
}

type ShapesConstraint[K comparable, N ~int | ~int64] interface {
	Sum(m map[K]N) N
	Keys(first K, rest ...K) []K
}

type ShapesEmbedded interface {
	io.Reader
	ShapesVariadic0
	Close() error
}

// more than eight parameters + results: the method scope's variable list grows past its first allocation while earlier
// variables still have to be renamed
type ShapesLongUnnamed interface {
	Sum(int, int, int, int, int, int, int, int, int) int
	Mixed(int, string, int, *Local, string, Key, int, error, Local, []int, Key) (int, string, error)
	ManyResults(string) (int, int, int, int, int, int, int, int, int, error)
	Variadic(int, int, int, int, int, int, int, int, ...int) (int, error)
}

type ShapesLongNamed interface {
	Fetch(http string, a, b, c, d, e, f int, client *h1.Client) error
	Late(x1, x2, x3, x4, x5, x6, x7 int, io string, w io.Writer, context int, ctx context.Context) (err error, n int)
	Early(io int, context string, http bool, p1, p2, p3, p4, p5, p6 int, r io.Reader, c context.Context, k h1.Key) (h1.Client, error)
	Types(Local int, Key string, q1, q2, q3, q4, q5, q6, q7 int, l Local, k Key) (Key, Local)
}

// anonymous interface literals that embed an interface AND declare own methods; the packages of the own methods' types
// (math/big, net/url, regexp, os, bytes, encoding/json, net/mail, strings) are mentioned nowhere else in this file, so they are
// imported only if the import walk visits every EXPLICIT method of the literal (not the first k of the completed method set)
type ShapesAnonIface interface {
	// embedded method sorts BEFORE the own one (String < Use, Handle < Zed, Read < String < Zap)
	Param(v interface {
		fmt.Stringer
		Use(n *big.Int)
	}) error
	Result() interface {
		h1.Handler
		Zed(u *url.URL)
	}
	Field(s struct {
		F interface {
			io.Reader
			fmt.Stringer
			Zap(r *regexp.Regexp)
		}
	}) int
	// own method with types of several packages
	Several(v interface {
		fmt.Stringer
		Two(f *os.File, b *bytes.Buffer) json.RawMessage
	})
	// mirrored: the embedded method sorts AFTER the own one (Apply < String)
	After(v []interface {
		Apply(a mail.Address)
		fmt.Stringer
	}) bool
}

// the same shape as an inline type-parameter constraint
type ShapesAnonConstraint[T interface {
	fmt.Stringer
	Via(b *strings.Builder)
}] interface {
	Get() T
	Put(t T) error
}

// variadic parameters whose ELEMENT type contains / ends with `any` or `interface{}` without being exactly one of them (the testify
// template passes a variadic of exactly interface{} / any on without copying it into _va), next to the exact ones as controls
type Company struct{ N int }
type Many []int

type ShapesVariadicAnyLike interface {
	SliceAny(xs ...[]any) error
	MapAny(prefix string, ms ...map[string]any) (int, error)
	ChanAny(cs ...<-chan any)
	PtrAny(ps ...*any) error
	FuncAny(n int, fs ...func() any) error
	SliceIface(xs ...[]interface{}) error
	MapIface(a, b int, ms ...map[string]interface{}) (bool, error)
	IfaceWithMethods(is ...interface{ Any() any }) error
	LocalCompany(cs ...Company) error
	LocalMany(k string, ms ...Many) (Many, error)
	ForeignCompany(n int, cs ...h1.Company) (h1.Company, error)
	ExactAny(xs ...any) error
	ExactIface(p string, xs ...interface{}) (string, error)
	ExactAnyNoResult(p string, q int, xs ...any)
}

// local aliases of foreign types: the mock spells only the alias (src.Frame out of package), so the package BEHIND the alias
// (ext/wire, net/textproto, ext/pairs; ext/inner behind the ext package's alias fwd.Thing) must not be imported - nothing else in
// this file uses them.  R = io.Reader is the control: io is needed elsewhere.
type Frame = wire.Frame
type FrameAgain = Frame
type MIME = textproto.MIMEHeader
type PS = pairs.Pair[string, int]
type R = io.Reader

type ShapesAlias interface {
	Send(f Frame, again *FrameAgain) error
	Headers(m MIME, more ...MIME) (MIME, error)
	Pairs(ps []PS, one PS) map[string]PS
	Read(r R, w io.Writer) (R, error)
	Fwd(t fwd.Thing, ts ...fwd.Thing) (fwd.Thing, error)
}

// type parameters whose names contain a mixed-case golint initialism (Id, Api, Http, Xml, Url): the mock must declare and use
// them under the same spelling
type ShapesInitialismParams[KeyId any, ApiKey fmt.Stringer, HttpReq any] interface {
	Keys() []KeyId
	Put(KeyId, ApiKey) error
	Do(req HttpReq, more ...KeyId) (ApiKey, error)
}

type ShapesInitialismParams2[TId any, XmlT any, UserUrl any] interface {
	Get(id TId) (XmlT, UserUrl)
	Each(f func(TId, XmlT) bool, urls ...UserUrl) int
}

type ShapesEmpty interface{}
