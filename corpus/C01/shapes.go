package src

import (
	"context"
	h1 "example.com/m/ext/http"
	"io"
)

// Hand-picked shapes that exercise every branch of the two built-in templates (corpus, run first).

type Local struct{ X int }
type Key struct{ K string }

type ShapesPlain interface {
	NoArgs()
	OneRes(a int) error
	TwoRes(ctx context.Context, key string) (h1.Client, error)
	Nillable(p *int, m map[string]int, f func(int) error, ch chan int, s []byte, r io.Reader, l Local) ([]byte, error)
	NamedRes(x int) (y int, err error)
	Unnamed(int, string, Key) (Key, bool)
	HarmlessNames(run int, args string, ret bool, t Local, i int, a int, calls int, stub int) (ret1 int)
}

type ShapesVariadic1 interface {
	Variadic1(prefix string, rest ...int) int
	VariadicAny(format string, args0 ...interface{}) string
	VariadicAny2(xs ...any) error
	VariadicOnly(xs ...io.Reader) (n int)
	VariadicNillable(p *Local, q []h1.Key, more ...*Local) error
}

type ShapesVariadic0 interface {
	Log(format string, rest ...string)
	LogAny(rest ...interface{})
}

type ShapesVariadic2 interface {
	Query(q string, params ...int) ([]Key, error)
	QueryAny(params ...any) (int, string, error)
}

type ShapesAllocated interface {
	Lookup(arg0 *int, ok bool, returnFunc string) (bool, error)
}

type ShapesGeneric[T any, V io.Reader] interface {
	Get(k string) (T, bool)
	Put(k string, v T, r V)
	Each(f func(string, T) bool, more ...T) int
}

type ShapesConstraint[K comparable, N ~int | ~int64] interface {
	Sum(m map[K]N) N
	Keys(first K, rest ...K) []K
}

type ShapesEmbedded interface {
	io.Reader
	ShapesVariadic0
	Close() error
}

type ShapesEmpty interface{}
