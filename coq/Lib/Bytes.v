(* Go strings as byte lists.  All of List's lemmas apply. *)
From Coq Require Import Strings.String.
Export Coq.Strings.String.StringSyntax.
From Coq Require Export List Strings.Byte Bool Arith Lia.
Export ListNotations.

Definition str := list byte.

(* literal: [B "abc"]; evaluated by computation *)
Definition B (s : string) : str := list_byte_of_string s.
Arguments B _%string.

Definition beqb (a b : byte) : bool := Byte.eqb a b.
Lemma beqb_eq a b : beqb a b = true <-> a = b.
Proof. unfold beqb. split; [apply Byte.byte_dec_bl | apply Byte.byte_dec_lb]. Qed.

Fixpoint seqb (a b : str) : bool :=
  match a, b with
  | [], [] => true
  | x :: a', y :: b' => beqb x y && seqb a' b'
  | _, _ => false
  end.

Lemma seqb_eq a b : seqb a b = true <-> a = b.
Proof.
  revert b; induction a as [|x a IH]; destruct b as [|y b]; simpl; try (split; congruence).
  rewrite andb_true_iff, beqb_eq, IH. split; [intros [-> ->]; reflexivity | intros H; injection H; auto].
Qed.
Lemma seqb_refl a : seqb a a = true.
Proof. apply seqb_eq; reflexivity. Qed.
Lemma seqb_neq a b : seqb a b = false <-> a <> b.
Proof.
  split; intros H.
  - intros E. apply seqb_eq in E. congruence.
  - destruct (seqb a b) eqn:E; [apply seqb_eq in E; contradiction | reflexivity].
Qed.
Lemma str_dec (a b : str) : {a = b} + {a <> b}.
Proof. destruct (seqb a b) eqn:E; [left; apply seqb_eq; exact E | right; apply seqb_neq; exact E]. Defined.

Fixpoint smem (x : str) (l : list str) : bool :=
  match l with [] => false | y :: t => if seqb x y then true else smem x t end.
Lemma smem_In x l : smem x l = true <-> In x l.
Proof.
  induction l as [|y t IH]; simpl; [split; [discriminate | tauto]|].
  destruct (seqb x y) eqn:E.
  - apply seqb_eq in E; subst. tauto.
  - apply seqb_neq in E. rewrite IH. split; [tauto | intros [H|H]; [congruence | exact H]].
Qed.
Lemma smem_false x l : smem x l = false <-> ~ In x l.
Proof. rewrite <- smem_In. destruct (smem x l); split; congruence. Qed.

(* lexicographic order on bytes, as Go's string < *)
Definition bnat (b : byte) : nat := Byte.to_nat b.
Fixpoint sltb (a b : str) : bool :=
  match a, b with
  | [], [] => false
  | [], _ :: _ => true
  | _ :: _, [] => false
  | x :: a', y :: b' => if Nat.ltb (bnat x) (bnat y) then true
                        else if Nat.ltb (bnat y) (bnat x) then false else sltb a' b'
  end.
Definition sleb (a b : str) : bool := negb (sltb b a).

Lemma bnat_inj x y : bnat x = bnat y -> x = y.
Proof.
  unfold bnat; intros H. apply (f_equal Byte.of_nat) in H.
  rewrite !Byte.of_to_nat in H. congruence.
Qed.

Lemma sltb_irrefl a : sltb a a = false.
Proof. induction a as [|x a IH]; simpl; [reflexivity|]. rewrite Nat.ltb_irrefl. exact IH. Qed.

Lemma sltb_trans a b c : sltb a b = true -> sltb b c = true -> sltb a c = true.
Proof.
  revert b c; induction a as [|x a IH]; intros [|y b] [|z c]; simpl; try congruence.
  destruct (Nat.ltb_spec (bnat x) (bnat y)), (Nat.ltb_spec (bnat y) (bnat z)),
           (Nat.ltb_spec (bnat x) (bnat z)); try lia; try congruence;
  destruct (Nat.ltb_spec (bnat y) (bnat x)); try lia; try congruence;
  destruct (Nat.ltb_spec (bnat z) (bnat y)); try lia; try congruence;
  destruct (Nat.ltb_spec (bnat z) (bnat x)); try lia; try congruence.
  apply IH.
Qed.

Lemma sltb_total a b : sltb a b = false -> sltb b a = false -> a = b.
Proof.
  revert b; induction a as [|x a IH]; intros [|y b]; simpl; try congruence.
  destruct (Nat.ltb_spec (bnat x) (bnat y)), (Nat.ltb_spec (bnat y) (bnat x)); try lia; try congruence.
  intros H1 H2. f_equal; [apply bnat_inj; lia | apply IH; assumption].
Qed.

Lemma sltb_asym a b : sltb a b = true -> sltb b a = false.
Proof.
  intros H. destruct (sltb b a) eqn:E; [|reflexivity].
  pose proof (sltb_trans _ _ _ H E) as T. rewrite sltb_irrefl in T. discriminate.
Qed.

(* prefix / suffix *)
Fixpoint has_prefix (s p : str) : bool :=
  match p, s with
  | [], _ => true
  | x :: p', y :: s' => beqb x y && has_prefix s' p'
  | _ :: _, [] => false
  end.
Lemma has_prefix_spec s p : has_prefix s p = true <-> exists r, s = p ++ r.
Proof.
  revert s; induction p as [|x p IH]; intros s.
  - split; [intros _; exists s; reflexivity | destruct s; reflexivity].
  - destruct s as [|y s]; simpl; [split; [discriminate | intros [r H]; discriminate]|].
    rewrite andb_true_iff, beqb_eq, IH. split.
    + intros [-> [r ->]]. eauto.
    + intros [r H]. injection H as -> ->. eauto.
Qed.

Lemma app_inj_l {A} (p a b : list A) : p ++ a = p ++ b -> a = b.
Proof. apply app_inv_head. Qed.
Lemma app_nonempty_neq {A} (p a : list A) : a <> [] -> p ++ a <> p.
Proof.
  intros Ha H. apply (f_equal (@length A)) in H. rewrite app_length in H.
  destruct a; [congruence | simpl in H; lia].
Qed.

Lemma B_inj a b : B a = B b -> a = b.
Proof.
  unfold B; intros H. apply (f_equal string_of_list_byte) in H.
  now rewrite !string_of_list_byte_of_string in H.
Qed.

Lemma NoDup_app_snoc {A} (l : list A) x : NoDup l -> ~ In x l -> NoDup (l ++ [x]).
Proof.
  intros ND NI. induction l as [|a l IH]; simpl; [constructor; [tauto | constructor]|].
  inversion ND as [|? ? Ha ND']; subst. constructor.
  - rewrite in_app_iff; simpl. intros [H|[H|[]]]; [tauto | subst; apply NI; now left].
  - apply IH; [exact ND' | intros H; apply NI; now right].
Qed.

Lemma NoDup_map_inj_on {A B} (f : A -> B) l a b :
  NoDup (map f l) -> In a l -> In b l -> f a = f b -> a = b.
Proof.
  induction l as [|x l IH]; simpl; [tauto|]. intros ND Ha Hb E.
  inversion ND as [|? ? Hx ND']; subst.
  destruct Ha as [->|Ha], Hb as [->|Hb]; auto.
  - exfalso. apply Hx. rewrite E. now apply in_map.
  - exfalso. apply Hx. rewrite <- E. now apply in_map.
Qed.
