(* nat -> decimal string (fmt.Sprintf "%d" on a non-negative int), with injectivity *)
From Coq Require Import DecimalString DecimalNat Decimal.
From Mk Require Import Lib.Bytes.

Definition dec (n : nat) : str := B (NilZero.string_of_uint (Nat.to_uint n)).

Lemma to_uint_nonnil n : Nat.to_uint n <> Nil.
Proof.
  intro H. assert (n = 0) as -> by (rewrite <- (Unsigned.of_to n), H; reflexivity).
  vm_compute in H. discriminate.
Qed.

Lemma dec_inj n m : dec n = dec m -> n = m.
Proof.
  unfold dec. intros H. apply B_inj in H.
  apply (f_equal NilZero.uint_of_string) in H.
  rewrite !NilZero.usu in H by apply to_uint_nonnil.
  injection H as H. apply (f_equal Nat.of_uint) in H.
  now rewrite !Unsigned.of_to in H.
Qed.

Lemma dec_nonempty n : dec n <> [].
Proof.
  unfold dec. pose proof (to_uint_nonnil n) as H.
  destruct (Nat.to_uint n); [congruence | ..]; unfold B, String.list_byte_of_string; simpl; discriminate.
Qed.
