(* A small regular-expression AST with a Brzozowski-derivative matcher that has the
   unanchored "find" semantics of Go's regexp.MatchString, plus optional ^ / $ at the two
   outer ends of the pattern.  Byte level: agrees with Go (which works on runes) for ASCII
   patterns and subjects, which is what the harness generates.

   The harness generates patterns from this AST and prints them twice: as Go syntax
   (always non-empty, anchors only as  ^(?:body)$ ) and as Gallina terms.  A string that is
   not a valid regular expression is not an AST; users of this file model it separately
   (e.g. [ReBad] in Cfg/Select.v). *)
From Mk Require Import Lib.Bytes.

Inductive regex :=
| REmpty                                   (* matches nothing (only produced by derivatives) *)
| REps                                     (* (?:)  *)
| RChr (b : byte)
| RAny                                     (* .   : any byte except \n *)
| RClass (neg : bool) (rs : list (byte * byte))   (* [a-cx] / [^a-cx]; a single byte is the range (b,b) *)
| RCat (r1 r2 : regex)
| RAlt (r1 r2 : regex)
| RStar (r : regex).

Definition RPlus (r : regex) : regex := RCat r (RStar r).
Definition ROpt (r : regex) : regex := RAlt r REps.
Fixpoint RLit (s : str) : regex :=
  match s with [] => REps | c :: t => RCat (RChr c) (RLit t) end.

(* p_bos: pattern starts with ^ ; p_eos: ends with $ *)
Record pattern := { p_bos : bool; p_body : regex; p_eos : bool }.

Definition in_range (b : byte) (r : byte * byte) : bool :=
  Nat.leb (bnat (fst r)) (bnat b) && Nat.leb (bnat b) (bnat (snd r)).
Definition in_ranges (b : byte) (rs : list (byte * byte)) : bool := existsb (in_range b) rs.

Definition newline : byte := x0a.

(* ---------- denotation ---------- *)
Inductive lang : regex -> str -> Prop :=
| LEps : lang REps []
| LChr b : lang (RChr b) [b]
| LAny b : b <> newline -> lang RAny [b]
| LClass neg rs b : xorb neg (in_ranges b rs) = true -> lang (RClass neg rs) [b]
| LCat r1 r2 s1 s2 : lang r1 s1 -> lang r2 s2 -> lang (RCat r1 r2) (s1 ++ s2)
| LAltL r1 r2 s : lang r1 s -> lang (RAlt r1 r2) s
| LAltR r1 r2 s : lang r2 s -> lang (RAlt r1 r2) s
| LStar0 r : lang (RStar r) []
| LStarS r s1 s2 : lang r s1 -> lang (RStar r) s2 -> lang (RStar r) (s1 ++ s2).

(* what regexp.MatchString(p, s) decides: some substring is in the language, the
   substring being a prefix under ^ and a suffix under $ *)
Definition pat_matches (p : pattern) (s : str) : Prop :=
  exists a b c, s = a ++ b ++ c /\ lang (p_body p) b /\
                (p_bos p = true -> a = []) /\ (p_eos p = true -> c = []).

(* ---------- matcher ---------- *)
Fixpoint nullable (r : regex) : bool :=
  match r with
  | REmpty => false
  | REps => true
  | RChr _ | RAny | RClass _ _ => false
  | RCat a b => nullable a && nullable b
  | RAlt a b => nullable a || nullable b
  | RStar _ => true
  end.

Fixpoint deriv (c : byte) (r : regex) : regex :=
  match r with
  | REmpty | REps => REmpty
  | RChr b => if beqb b c then REps else REmpty
  | RAny => if beqb c newline then REmpty else REps
  | RClass neg rs => if xorb neg (in_ranges c rs) then REps else REmpty
  | RCat a b => if nullable a then RAlt (RCat (deriv c a) b) (deriv c b) else RCat (deriv c a) b
  | RAlt a b => RAlt (deriv c a) (deriv c b)
  | RStar a => RCat (deriv c a) (RStar a)
  end.

(* the whole of s is in the language *)
Fixpoint match_full (r : regex) (s : str) : bool :=
  match s with
  | [] => nullable r
  | c :: t => match_full (deriv c r) t
  end.

(* some prefix of s is in the language *)
Fixpoint match_prefix (r : regex) (s : str) : bool :=
  nullable r || match s with [] => false | c :: t => match_prefix (deriv c r) t end.

(* f holds of some suffix of s *)
Fixpoint some_suffix (f : str -> bool) (s : str) : bool :=
  f s || match s with [] => false | _ :: t => some_suffix f t end.

Definition pat_match (p : pattern) (s : str) : bool :=
  match p_bos p, p_eos p with
  | true, true => match_full (p_body p) s
  | true, false => match_prefix (p_body p) s
  | false, true => some_suffix (match_full (p_body p)) s
  | false, false => some_suffix (match_prefix (p_body p)) s
  end.

(* ---------- correctness ---------- *)
Lemma nullable_spec r : nullable r = true <-> lang r [].
Proof.
  induction r as [| | b | | neg rs | a IHa b IHb | a IHa b IHb | a IHa]; simpl.
  - split; [discriminate | intros H; inversion H].
  - split; [intros _; constructor | reflexivity].
  - split; [discriminate | intros H; inversion H].
  - split; [discriminate | intros H; inversion H].
  - split; [discriminate | intros H; inversion H].
  - rewrite andb_true_iff, IHa, IHb. split.
    + intros [Ha Hb]. change (@nil byte) with (@nil byte ++ []). now constructor.
    + intros H. inversion H as [| | | | r1 r2 s1 s2 H1 H2 E1 E2 | | | |]; subst.
      apply app_eq_nil in E2 as [-> ->]. auto.
  - rewrite orb_true_iff, IHa, IHb. split.
    + intros [H|H]; [now apply LAltL | now apply LAltR].
    + intros H. inversion H; subst; auto.
  - split; [intros _; constructor | reflexivity].
Qed.

Lemma star_cons r c s :
  lang (RStar r) (c :: s) ->
  exists s1 s2, s = s1 ++ s2 /\ lang r (c :: s1) /\ lang (RStar r) s2.
Proof.
  intros H. remember (RStar r) as rr eqn:Er. remember (c :: s) as cs eqn:Ec.
  revert c s Ec.
  induction H as [| | | | | | | r0 | r0 s1 s2 H1 IH1 H2 IH2]; intros c' s' Ec; try discriminate.
  injection Er as ->. destruct s1 as [|x s1].
  - simpl in Ec. apply IH2; [reflexivity | exact Ec].
  - simpl in Ec. injection Ec as -> <-. exists s1, s2. auto.
Qed.

Lemma deriv_spec c r : forall s, lang (deriv c r) s <-> lang r (c :: s).
Proof.
  induction r as [| | b | | neg rs | a IHa b IHb | a IHa b IHb | a IHa]; intros s; simpl.
  - split; intros H; inversion H.
  - split; intros H; inversion H.
  - destruct (beqb b c) eqn:E.
    + apply beqb_eq in E; subst. split; intros H; inversion H; subst; constructor.
    + split; intros H; inversion H; subst.
      assert (beqb c c = true) as X by now apply beqb_eq. congruence.
  - destruct (beqb c newline) eqn:E.
    + apply beqb_eq in E; subst. split; intros H; inversion H; subst. congruence.
    + split; intros H; inversion H; subst; constructor.
      intros ->. assert (beqb newline newline = true) as X by now apply beqb_eq. congruence.
  - destruct (xorb neg (in_ranges c rs)) eqn:E.
    + split; intros H; inversion H; subst; now constructor.
    + split; intros H; inversion H; subst. congruence.
  - assert (forall s, lang (RCat (deriv c a) b) s -> lang (RCat a b) (c :: s)) as F1.
    { intros s0 H. inversion H as [| | | | r1 r2 s1 s2 H1 H2 | | | |]; subst.
      apply IHa in H1. change (c :: s1 ++ s2) with ((c :: s1) ++ s2). now constructor. }
    assert (forall s, lang (RCat a b) (c :: s) ->
                      lang (RCat (deriv c a) b) s \/ (nullable a = true /\ lang (deriv c b) s)) as F2.
    { intros s0 H. inversion H as [| | | | r1 r2 s1 s2 H1 H2 E1 E2 | | | |]; subst.
      destruct s1 as [|x s1]; simpl in E2.
      - right. subst s2. split; [now apply nullable_spec | now apply IHb].
      - injection E2 as -> <-. left. constructor; [now apply IHa | assumption]. }
    destruct (nullable a) eqn:Na.
    + split.
      * intros H. inversion H; subst; [now apply F1|].
        change (c :: s) with ([] ++ c :: s). constructor; [now apply nullable_spec | now apply IHb].
      * intros H. apply F2 in H as [H|[_ H]]; [now apply LAltL | now apply LAltR].
    + split; [apply F1|]. intros H. apply F2 in H as [H|[X _]]; [exact H | discriminate].
  - split.
    + intros H. inversion H; subst; [apply LAltL; now apply IHa | apply LAltR; now apply IHb].
    + intros H. inversion H; subst; [apply LAltL; now apply IHa | apply LAltR; now apply IHb].
  - split.
    + intros H. inversion H as [| | | | r1 r2 s1 s2 H1 H2 | | | |]; subst.
      apply IHa in H1. change (c :: s1 ++ s2) with ((c :: s1) ++ s2). now constructor.
    + intros H. apply star_cons in H as (s1 & s2 & -> & H1 & H2).
      constructor; [now apply IHa | assumption].
Qed.

Lemma match_full_spec s : forall r, match_full r s = true <-> lang r s.
Proof.
  induction s as [|c s IH]; intros r; simpl; [apply nullable_spec|].
  rewrite IH. apply deriv_spec.
Qed.

Lemma match_prefix_spec s : forall r,
  match_prefix r s = true <-> exists b c, s = b ++ c /\ lang r b.
Proof.
  induction s as [|x s IH]; intros r; simpl.
  - rewrite orb_false_r, nullable_spec. split.
    + intros H. exists [], []. auto.
    + intros (b & c & E & H). symmetry in E. apply app_eq_nil in E as [-> _]. exact H.
  - rewrite orb_true_iff, nullable_spec, IH. split.
    + intros [H|(b & c & -> & H)].
      * exists [], (x :: s). auto.
      * exists (x :: b), c. split; [reflexivity | now apply deriv_spec].
    + intros (b & c & E & H). destruct b as [|y b].
      * now left.
      * simpl in E. injection E as <- ->. right. exists b, c. split; [reflexivity | now apply deriv_spec].
Qed.

Lemma some_suffix_spec f s :
  some_suffix f s = true <-> exists a t, s = a ++ t /\ f t = true.
Proof.
  induction s as [|x s IH]; simpl.
  - rewrite orb_false_r. split.
    + intros H. exists [], []. auto.
    + intros (a & t & E & H). symmetry in E. apply app_eq_nil in E as [_ ->]. exact H.
  - rewrite orb_true_iff, IH. split.
    + intros [H|(a & t & -> & H)].
      * exists [], (x :: s). auto.
      * exists (x :: a), t. auto.
    + intros (a & t & E & H). destruct a as [|y a].
      * simpl in E. subst t. now left.
      * simpl in E. injection E as <- ->. right. eauto.
Qed.

Theorem pat_match_spec p s : pat_match p s = true <-> pat_matches p s.
Proof.
  unfold pat_match, pat_matches. destruct (p_bos p), (p_eos p).
  - rewrite match_full_spec. split.
    + intros H. exists [], s, []. simpl. rewrite app_nil_r. auto.
    + intros (a & b & c & -> & H & Ha & Hc). rewrite (Ha eq_refl), (Hc eq_refl), app_nil_r. exact H.
  - rewrite match_prefix_spec. split.
    + intros (b & c & -> & H). exists [], b, c. repeat split; auto; discriminate.
    + intros (a & b & c & -> & H & Ha & _). rewrite (Ha eq_refl). exists b, c. auto.
  - rewrite some_suffix_spec. split.
    + intros (a & t & -> & H). apply match_full_spec in H. exists a, t, [].
      rewrite app_nil_r. repeat split; auto; discriminate.
    + intros (a & b & c & -> & H & _ & Hc). rewrite (Hc eq_refl), app_nil_r.
      exists a, b. split; [reflexivity | now apply match_full_spec].
  - rewrite some_suffix_spec. split.
    + intros (a & t & -> & H). apply match_prefix_spec in H as (b & c & -> & H).
      exists a, b, c. repeat split; auto; discriminate.
    + intros (a & b & c & -> & H & _ & _). exists a, (b ++ c). split; [reflexivity|].
      apply match_prefix_spec. eauto.
Qed.

Lemma pat_match_false p s : pat_match p s = false <-> ~ pat_matches p s.
Proof.
  rewrite <- pat_match_spec. destruct (pat_match p s); split; congruence.
Qed.
