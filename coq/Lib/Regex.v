(* A small regular-expression AST with a Brzozowski-derivative matcher that has the
   unanchored "find" semantics of Go's regexp.MatchString, plus optional ^ / $ at the two
   outer ends of the pattern.  Byte level: agrees with Go (which works on runes) for ASCII
   patterns and subjects, which is what the harness generates.

   The harness generates patterns from this AST and prints them twice: as Go syntax
   (always non-empty, anchors only as  ^(?:body)$ ) and as Gallina terms.  A string that is
   not a valid regular expression is not an AST; users of this file model it separately
   (e.g. [ReBad] in Cfg/Select.v). *)
From Mk Require Import Lib.Bytes.

Inductive regex :=
| REmpty                                   (* matches nothing (only produced by derivatives) *)
| REps                                     (* (?:)  *)
| RChr (b : byte)
| RAny                                     (* .   : any byte except \n *)
| RClass (neg : bool) (rs : list (byte * byte))   (* [a-cx] / [^a-cx]; a single byte is the range (b,b) *)
| RCat (r1 r2 : regex)
| RAlt (r1 r2 : regex)
| RStar (r : regex).

Definition RPlus (r : regex) : regex := RCat r (RStar r).
Definition ROpt (r : regex) : regex := RAlt r REps.
Fixpoint RLit (s : str) : regex :=
  match s with [] => REps | c :: t => RCat (RChr c) (RLit t) end.

(* p_bos: pattern starts with ^ ; p_eos: ends with $ *)
Record pattern := { p_bos : bool; p_body : regex; p_eos : bool }.

Definition in_range (b : byte) (r : byte * byte) : bool :=
  Nat.leb (bnat (fst r)) (bnat b) && Nat.leb (bnat b) (bnat (snd r)).
Definition in_ranges (b : byte) (rs : list (byte * byte)) : bool := existsb (in_range b) rs.

Definition newline : byte := x0a.

(* ---------- denotation ---------- *)
Inductive lang : regex -> str -> Prop :=
| LEps : lang REps []
| LChr b : lang (RChr b) [b]
| LAny b : b <> newline -> lang RAny [b]
| LClass neg rs b : xorb neg (in_ranges b rs) = true -> lang (RClass neg rs) [b]
| LCat r1 r2 s1 s2 : lang r1 s1 -> lang r2 s2 -> lang (RCat r1 r2) (s1 ++ s2)
| LAltL r1 r2 s : lang r1 s -> lang (RAlt r1 r2) s
| LAltR r1 r2 s : lang r2 s -> lang (RAlt r1 r2) s
| LStar0 r : lang (RStar r) []
| LStarS r s1 s2 : lang r s1 -> lang (RStar r) s2 -> lang (RStar r) (s1 ++ s2).

(* what regexp.MatchString(p, s) decides: some substring is in the language, the
   substring being a prefix under ^ and a suffix under $ *)
Definition pat_matches (p : pattern) (s : str) : Prop :=
  exists a b c, s = a ++ b ++ c /\ lang (p_body p) b /\
                (p_bos p = true -> a = []) /\ (p_eos p = true -> c = []).

(* ---------- matcher ---------- *)
Fixpoint nullable (r : regex) : bool :=
  match r with
  | REmpty => false
  | REps => true
  | RChr _ | RAny | RClass _ _ => false
  | RCat a b => nullable a && nullable b
  | RAlt a b => nullable a || nullable b
  | RStar _ => true
  end.

Fixpoint deriv (c : byte) (r : regex) : regex :=
  match r with
  | REmpty | REps => REmpty
  | RChr b => if beqb b c then REps else REmpty
  | RAny => if beqb c newline then REmpty else REps
  | RClass neg rs => if xorb neg (in_ranges c rs) then REps else REmpty
  | RCat a b => if nullable a then RAlt (RCat (deriv c a) b) (deriv c b) else RCat (deriv c a) b
  | RAlt a b => RAlt (deriv c a) (deriv c b)
  | RStar a => RCat (deriv c a) (RStar a)
  end.

(* the whole of s is in the language *)
Fixpoint match_full (r : regex) (s : str) : bool :=
  match s with
  | [] => nullable r
  | c :: t => match_full (deriv c r) t
  end.

(* some prefix of s is in the language *)
Fixpoint match_prefix (r : regex) (s : str) : bool :=
  nullable r || match s with [] => false | c :: t => match_prefix (deriv c r) t end.

(* f holds of some suffix of s *)
Fixpoint some_suffix (f : str -> bool) (s : str) : bool :=
  f s || match s with [] => false | _ :: t => some_suffix f t end.

Definition pat_match (p : pattern) (s : str) : bool :=
  match p_bos p, p_eos p with
  | true, true => match_full (p_body p) s
  | true, false => match_prefix (p_body p) s
  | false, true => some_suffix (match_full (p_body p)) s
  | false, false => some_suffix (match_prefix (p_body p)) s
  end.

(* ---------- correctness ---------- *)
Lemma nullable_spec r : nullable r = true <-> lang r [].
Proof.
  induction r as [| | b | | neg rs | a IHa b IHb | a IHa b IHb | a IHa]; simpl.
  - split; [discriminate | intros H; inversion H].
  - split; [intros _; constructor | reflexivity].
  - split; [discriminate | intros H; inversion H].
  - split; [discriminate | intros H; inversion H].
  - split; [discriminate | intros H; inversion H].
  - rewrite andb_true_iff, IHa, IHb. split.
    + intros [Ha Hb]. change (@nil byte) with (@nil byte ++ []). now constructor.
    + intros H. inversion H as [| | | | r1 r2 s1 s2 H1 H2 E1 E2 | | | |]; subst.
      apply app_eq_nil in E2 as [-> ->]. auto.
  - rewrite orb_true_iff, IHa, IHb. split.
    + intros [H|H]; [now apply LAltL | now apply LAltR].
    + intros H. inversion H; subst; auto.
  - split; [intros _; constructor | reflexivity].
Qed.

Lemma star_cons r c s :
  lang (RStar r) (c :: s) ->
  exists s1 s2, s = s1 ++ s2 /\ lang r (c :: s1) /\ lang (RStar r) s2.
Proof.
  intros H. remember (RStar r) as rr eqn:Er. remember (c :: s) as cs eqn:Ec.
  revert c s Ec.
  induction H as [| | | | | | | r0 | r0 s1 s2 H1 IH1 H2 IH2]; intros c' s' Ec; try discriminate.
  injection Er as ->. destruct s1 as [|x s1].
  - simpl in Ec. apply IH2; [reflexivity | exact Ec].
  - simpl in Ec. injection Ec as -> <-. exists s1, s2. auto.
Qed.

Lemma deriv_spec c r : forall s, lang (deriv c r) s <-> lang r (c :: s).
Proof.
  induction r as [| | b | | neg rs | a IHa b IHb | a IHa b IHb | a IHa]; intros s; simpl.
  - split; intros H; inversion H.
  - split; intros H; inversion H.
  - destruct (beqb b c) eqn:E.
    + apply beqb_eq in E; subst. split; intros H; inversion H; subst; constructor.
    + split; intros H; inversion H; subst.
      assert (beqb c c = true) as X by now apply beqb_eq. congruence.
  - destruct (beqb c newline) eqn:E.
    + apply beqb_eq in E; subst. split; intros H; inversion H; subst. congruence.
    + split; intros H; inversion H; subst; constructor.
      intros ->. assert (beqb newline newline = true) as X by now apply beqb_eq. congruence.
  - destruct (xorb neg (in_ranges c rs)) eqn:E.
    + split; intros H; inversion H; subst; now constructor.
    + split; intros H; inversion H; subst. congruence.
  - assert (forall s, lang (RCat (deriv c a) b) s -> lang (RCat a b) (c :: s)) as F1.
    { intros s0 H. inversion H as [| | | | r1 r2 s1 s2 H1 H2 | | | |]; subst.
      apply IHa in H1. change (c :: s1 ++ s2) with ((c :: s1) ++ s2). now constructor. }
    assert (forall s, lang (RCat a b) (c :: s) ->
                      lang (RCat (deriv c a) b) s \/ (nullable a = true /\ lang (deriv c b) s)) as F2.
    { intros s0 H. inversion H as [| | | | r1 r2 s1 s2 H1 H2 E1 E2 | | | |]; subst.
      destruct s1 as [|x s1]; simpl in E2.
      - right. subst s2. split; [now apply nullable_spec | now apply IHb].
      - injection E2 as -> <-. left. constructor; [now apply IHa | assumption]. }
    destruct (nullable a) eqn:Na.
    + split.
      * intros H. inversion H; subst; [now apply F1|].
        change (c :: s) with ([] ++ c :: s). constructor; [now apply nullable_spec | now apply IHb].
      * intros H. apply F2 in H as [H|[_ H]]; [now apply LAltL | now apply LAltR].
    + split; [apply F1|]. intros H. apply F2 in H as [H|[X _]]; [exact H | discriminate].
  - split.
    + intros H. inversion H; subst; [apply LAltL; now apply IHa | apply LAltR; now apply IHb].
    + intros H. inversion H; subst; [apply LAltL; now apply IHa | apply LAltR; now apply IHb].
  - split.
    + intros H. inversion H as [| | | | r1 r2 s1 s2 H1 H2 | | | |]; subst.
      apply IHa in H1. change (c :: s1 ++ s2) with ((c :: s1) ++ s2). now constructor.
    + intros H. apply star_cons in H as (s1 & s2 & -> & H1 & H2).
      constructor; [now apply IHa | assumption].
Qed.

Lemma match_full_spec s : forall r, match_full r s = true <-> lang r s.
Proof.
  induction s as [|c s IH]; intros r; simpl; [apply nullable_spec|].
  rewrite IH. apply deriv_spec.
Qed.

Lemma match_prefix_spec s : forall r,
  match_prefix r s = true <-> exists b c, s = b ++ c /\ lang r b.
Proof.
  induction s as [|x s IH]; intros r; simpl.
  - rewrite orb_false_r, nullable_spec. split.
    + intros H. exists [], []. auto.
    + intros (b & c & E & H). symmetry in E. apply app_eq_nil in E as [-> _]. exact H.
  - rewrite orb_true_iff, nullable_spec, IH. split.
    + intros [H|(b & c & -> & H)].
      * exists [], (x :: s). auto.
      * exists (x :: b), c. split; [reflexivity | now apply deriv_spec].
    + intros (b & c & E & H). destruct b as [|y b].
      * now left.
      * simpl in E. injection E as <- ->. right. exists b, c. split; [reflexivity | now apply deriv_spec].
Qed.

Lemma some_suffix_spec f s :
  some_suffix f s = true <-> exists a t, s = a ++ t /\ f t = true.
Proof.
  induction s as [|x s IH]; simpl.
  - rewrite orb_false_r. split.
    + intros H. exists [], []. auto.
    + intros (a & t & E & H). symmetry in E. apply app_eq_nil in E as [_ ->]. exact H.
  - rewrite orb_true_iff, IH. split.
    + intros [H|(a & t & -> & H)].
      * exists [], (x :: s). auto.
      * exists (x :: a), t. auto.
    + intros (a & t & E & H). destruct a as [|y a].
      * simpl in E. subst t. now left.
      * simpl in E. injection E as <- ->. right. eauto.
Qed.

Theorem pat_match_spec p s : pat_match p s = true <-> pat_matches p s.
Proof.
  unfold pat_match, pat_matches. destruct (p_bos p), (p_eos p).
  - rewrite match_full_spec. split.
    + intros H. exists [], s, []. simpl. rewrite app_nil_r. auto.
    + intros (a & b & c & -> & H & Ha & Hc). rewrite (Ha eq_refl), (Hc eq_refl), app_nil_r. exact H.
  - rewrite match_prefix_spec. split.
    + intros (b & c & -> & H). exists [], b, c. repeat split; auto; discriminate.
    + intros (a & b & c & -> & H & Ha & _). rewrite (Ha eq_refl). exists b, c. auto.
  - rewrite some_suffix_spec. split.
    + intros (a & t & -> & H). apply match_full_spec in H. exists a, t, [].
      rewrite app_nil_r. repeat split; auto; discriminate.
    + intros (a & b & c & -> & H & _ & Hc). rewrite (Hc eq_refl), app_nil_r.
      exists a, b. split; [reflexivity | now apply match_full_spec].
  - rewrite some_suffix_spec. split.
    + intros (a & t & -> & H). apply match_prefix_spec in H as (b & c & -> & H).
      exists a, b, c. repeat split; auto; discriminate.
    + intros (a & b & c & -> & H & _ & _). exists a, (b ++ c). split; [reflexivity|].
      apply match_prefix_spec. eauto.
Qed.

Lemma pat_match_false p s : pat_match p s = false <-> ~ pat_matches p s.
Proof.
  rewrite <- pat_match_spec. destruct (pat_match p s); split; congruence.
Qed.

(* ---------- case-insensitive matching: the inline flag (?i) at the start of an expression ----------
   ASCII: the case variants of a byte are its lower-case and its upper-case form.  (?i) makes a
   literal and a character class match a byte iff one of the byte's case variants is the literal /
   is in the class (negation is applied after that, as Go does); `.` is unaffected. *)
Definition lowerb (b : byte) : byte :=
  if Nat.leb 65 (bnat b) && Nat.leb (bnat b) 90
  then match Byte.of_nat (bnat b + 32) with Some x => x | None => b end else b.
Definition upperb (b : byte) : byte :=
  if Nat.leb 97 (bnat b) && Nat.leb (bnat b) 122
  then match Byte.of_nat (bnat b - 32) with Some x => x | None => b end else b.

Definition all_bytes : list byte :=
  flat_map (fun n => match Byte.of_nat n with Some b => [b] | None => [] end) (seq 0 256).

Definition fold_in (b : byte) (rs : list (byte * byte)) : bool :=
  in_ranges (lowerb b) rs || in_ranges (upperb b) rs.
Definition fold_ranges (rs : list (byte * byte)) : list (byte * byte) :=
  map (fun b => (b, b)) (filter (fun b => fold_in b rs) all_bytes).

Fixpoint fold_regex (r : regex) : regex :=
  match r with
  | REmpty => REmpty
  | REps => REps
  | RChr b => RClass false (fold_ranges [(b, b)])
  | RAny => RAny
  | RClass neg rs => RClass neg (fold_ranges rs)
  | RCat a b => RCat (fold_regex a) (fold_regex b)
  | RAlt a b => RAlt (fold_regex a) (fold_regex b)
  | RStar a => RStar (fold_regex a)
  end.
Definition fold_pattern (p : pattern) : pattern :=
  {| p_bos := p_bos p; p_body := fold_regex (p_body p); p_eos := p_eos p |}.

(* x' is a case variant of x *)
Definition variant (x' x : byte) : Prop := x' = lowerb x \/ x' = upperb x.
Definition variants (s' s : str) : Prop := Forall2 variant s' s.

Lemma all_bytes_complete c : existsb (beqb c) all_bytes = true.
Proof. destruct c; vm_compute; reflexivity. Qed.

Lemma in_range_single c b : in_range c (b, b) = beqb c b.
Proof.
  unfold in_range. simpl. destruct (beqb c b) eqn:E.
  - apply beqb_eq in E; subst. now rewrite Nat.leb_refl.
  - destruct (Nat.leb (bnat b) (bnat c)) eqn:E1, (Nat.leb (bnat c) (bnat b)) eqn:E2; try reflexivity.
    apply Nat.leb_le in E1, E2. assert (c = b) by (apply bnat_inj; lia). subst.
    assert (beqb b b = true) by now apply beqb_eq. congruence.
Qed.

Lemma in_fold_ranges c rs : in_ranges c (fold_ranges rs) = fold_in c rs.
Proof.
  unfold fold_ranges, in_ranges. pose proof (all_bytes_complete c) as H.
  induction all_bytes as [|x l IH]; simpl in *; [discriminate|].
  destruct (beqb c x) eqn:E.
  - apply beqb_eq in E; subst x. destruct (fold_in c rs) eqn:F; simpl.
    + now rewrite in_range_single, (proj2 (beqb_eq c c) eq_refl).
    + clear IH H. induction l as [|y l IH]; simpl; [reflexivity|].
      destruct (fold_in y rs) eqn:Fy; simpl; [|exact IH].
      rewrite in_range_single. destruct (beqb c y) eqn:Ey; [|exact IH].
      apply beqb_eq in Ey; subst. congruence.
  - simpl in H. destruct (fold_in x rs); simpl; [|now apply IH].
    rewrite in_range_single, E. simpl. now apply IH.
Qed.

Lemma variant_newline x : variant newline x -> x = newline.
Proof. unfold variant. destruct x; vm_compute; intros [H|H]; congruence. Qed.
Lemma variant_refl_some x : exists x', variant x' x /\ (x <> newline -> x' <> newline).
Proof.
  exists (lowerb x). split; [now left|]. intros H E. apply H. apply variant_newline. left. now symmetry.
Qed.

(* a negated class is negated AFTER folding ((?i)[^a] excludes both a and A), so it is not the
   set of bytes with a case variant in [^a]; the string-level statement below is for expressions
   without negated classes, the byte-level statement [fold_class_spec] covers every class *)
Fixpoint no_neg_class (r : regex) : bool :=
  match r with
  | RClass neg _ => negb neg
  | RCat a b | RAlt a b => no_neg_class a && no_neg_class b
  | RStar a => no_neg_class a
  | _ => true
  end.

Lemma fold_class_spec neg rs c :
  lang (fold_regex (RClass neg rs)) [c] <-> xorb neg (in_ranges (lowerb c) rs || in_ranges (upperb c) rs) = true.
Proof.
  simpl. split.
  - intros H. inversion H; subst. now rewrite in_fold_ranges in *.
  - intros H. constructor. now rewrite in_fold_ranges.
Qed.

Lemma variants_app s1' s2' s : variants (s1' ++ s2') s ->
  exists s1 s2, s = s1 ++ s2 /\ variants s1' s1 /\ variants s2' s2.
Proof.
  revert s. induction s1' as [|x t IH]; intros s V; simpl in V.
  - exists [], s. repeat split; [constructor | exact V].
  - inversion V as [|? y ? s0 Hv V']; subst. destruct (IH _ V') as (s1 & s2 & -> & V1 & V2).
    exists (y :: s1), s2. repeat split; [constructor; assumption | exact V2].
Qed.
Lemma variants_app_intro s1' s1 s2' s2 : variants s1' s1 -> variants s2' s2 -> variants (s1' ++ s2') (s1 ++ s2).
Proof. intros V1 V2. induction V1; simpl; [exact V2 | constructor; assumption]. Qed.

(* the language of the folded expression: the strings that have a case variant in the language *)
Theorem fold_regex_spec r : no_neg_class r = true ->
  forall s, lang (fold_regex r) s <-> exists s', lang r s' /\ variants s' s.
Proof.
  induction r as [| | b | | neg rs | a IHa b IHb | a IHa b IHb | a IHa]; intros NN s; simpl in *.
  - split; [intros H; inversion H | intros (s' & H & _); inversion H].
  - split.
    + intros H; inversion H; subst. exists []. split; constructor.
    + intros (s' & H & V). inversion H; subst. inversion V; subst. constructor.
  - split.
    + intros H. inversion H as [| | | ? ? c Hc | | | | |]; subst. rewrite xorb_false_l in Hc.
      rewrite in_fold_ranges in Hc. unfold fold_in, in_ranges in Hc. simpl in Hc.
      rewrite !in_range_single in Hc.
      exists [b]. split; [constructor|]. constructor; [|constructor].
      repeat (apply orb_prop in Hc; destruct Hc as [Hc|Hc]); try discriminate;
        apply beqb_eq in Hc; [left | right]; congruence.
    + intros (s' & H & V). inversion H; subst. inversion V as [|? c ? ? Hv V']; subst. inversion V'; subst.
      constructor. rewrite xorb_false_l, in_fold_ranges. unfold fold_in, in_ranges. simpl.
      rewrite !in_range_single.
      destruct Hv as [-> | ->]; rewrite (proj2 (beqb_eq _ _) eq_refl); simpl; rewrite ?orb_true_r; reflexivity.
  - split.
    + intros H. inversion H; subst. destruct (variant_refl_some b) as (x' & Hv & Hn).
      exists [x']. split; [constructor; auto | constructor; [exact Hv | constructor]].
    + intros (s' & H & V). inversion H as [| | ? Hb | | | | | |]; subst.
      inversion V as [|? c ? ? Hv V']; subst. inversion V'; subst.
      constructor. intros ->. apply Hb. destruct Hv as [-> | ->]; vm_compute; reflexivity.
  - destruct neg; [discriminate|]. split.
    + intros H. inversion H as [| | | ? ? c Hc | | | | |]; subst. rewrite xorb_false_l, in_fold_ranges in Hc.
      unfold fold_in in Hc. apply orb_prop in Hc. destruct Hc as [Hc|Hc].
      * exists [lowerb c]. split; [apply LClass; now rewrite xorb_false_l | constructor; [now left | constructor]].
      * exists [upperb c]. split; [apply LClass; now rewrite xorb_false_l | constructor; [now right | constructor]].
    + intros (s' & H & V). inversion H as [| | | ? ? c' Hc | | | | |]; subst. rewrite xorb_false_l in Hc.
      inversion V as [|? c ? ? Hv V']; subst. inversion V'; subst. constructor.
      rewrite xorb_false_l, in_fold_ranges. unfold fold_in.
      destruct Hv as [-> | ->]; rewrite Hc; simpl; rewrite ?orb_true_r; reflexivity.
  - apply andb_true_iff in NN as [Na Nb]. split.
    + intros H. inversion H as [| | | | r1 r2 s1 s2 H1 H2 | | | |]; subst.
      apply (IHa Na) in H1 as (s1' & L1 & V1). apply (IHb Nb) in H2 as (s2' & L2 & V2).
      exists (s1' ++ s2'). split; [now constructor | now apply variants_app_intro].
    + intros (s' & H & V). inversion H as [| | | | r1 r2 s1' s2' H1 H2 | | | |]; subst.
      apply variants_app in V as (s1 & s2 & -> & V1 & V2).
      constructor; [apply (IHa Na) | apply (IHb Nb)]; eauto.
  - apply andb_true_iff in NN as [Na Nb]. split.
    + intros H. inversion H as [| | | | | r1 r2 s0 H1 | r1 r2 s0 H1 | |]; subst.
      * apply (IHa Na) in H1 as (s' & L & V). exists s'. split; [now apply LAltL | exact V].
      * apply (IHb Nb) in H1 as (s' & L & V). exists s'. split; [now apply LAltR | exact V].
    + intros (s' & H & V). inversion H; subst.
      * apply LAltL. apply (IHa Na). eauto.
      * apply LAltR. apply (IHb Nb). eauto.
  - split.
    + intros H. remember (RStar (fold_regex a)) as rr eqn:Er.
      induction H as [| | | | | | | r0 | r0 s1 s2 H1 _ H2 IH2]; try discriminate.
      * exists []. split; constructor.
      * injection Er as ->. destruct (IH2 eq_refl) as (s2' & L2 & V2).
        apply (IHa NN) in H1 as (s1' & L1 & V1).
        exists (s1' ++ s2'). split; [now constructor | now apply variants_app_intro].
    + intros (s' & H & V). remember (RStar a) as rr eqn:Er. revert s V.
      induction H as [| | | | | | | r0 | r0 s1' s2' H1 _ H2 IH2]; intros sx V; try discriminate.
      * inversion V; subst. constructor.
      * injection Er as ->. apply variants_app in V as (s1 & s2 & -> & V1 & V2).
        constructor; [apply (IHa NN); eauto | now apply IH2].
Qed.

(* regexp.MatchString("(?i)" ++ p, s) *)
Definition pat_match_fold (fold : bool) (p : pattern) (s : str) : bool :=
  pat_match (if fold then fold_pattern p else p) s.
