(* First-free-candidate search  p, p<off>, p<off+1>, ...  with fuel |taken|+1 and the
   pigeonhole argument that the fuel always suffices.
   off = 1 : MethodScope.SuggestName   (p, p1, p2, ...)
   off = 0 : Registry.addImport        (n, n0, n1, ...)                              *)
From Coq Require Import FinFun.
From Mk Require Import Lib.Bytes Lib.Dec.

Definition cand (off : nat) (p : str) (i : nat) : str :=
  match i with 0 => p | S k => p ++ dec (k + off) end.

Lemma cand_inj off p i j : cand off p i = cand off p j -> i = j.
Proof.
  destruct i as [|i], j as [|j]; simpl; intros H; auto.
  - symmetry in H. apply app_nonempty_neq in H; [tauto | apply dec_nonempty].
  - apply app_nonempty_neq in H; [tauto | apply dec_nonempty].
  - apply app_inj_l in H. apply dec_inj in H. lia.
Qed.

Fixpoint search (off fuel i : nat) (p : str) (s : list str) : option str :=
  match fuel with
  | 0 => None
  | S f => if smem (cand off p i) s then search off f (S i) p s else Some (cand off p i)
  end.

Definition first_free (off : nat) (p : str) (s : list str) : option str :=
  search off (S (length s)) 0 p s.

Lemma search_fresh off f i p s r : search off f i p s = Some r -> ~ In r s.
Proof.
  revert i; induction f as [|f IH]; simpl; intros i H; [discriminate|].
  destruct (smem (cand off p i) s) eqn:E; [eauto|]. injection H as <-.
  now apply smem_false.
Qed.

Lemma search_is_cand off f i p s r : search off f i p s = Some r ->
  exists k, i <= k /\ r = cand off p k /\ forall j, i <= j < k -> In (cand off p j) s.
Proof.
  revert i; induction f as [|f IH]; simpl; intros i H; [discriminate|].
  destruct (smem (cand off p i) s) eqn:E.
  - apply IH in H as (k & Hk & -> & Hj). exists k. repeat split; [lia|].
    intros j Hj'. destruct (Nat.eq_dec j i) as [->|N]; [now apply smem_In|]. apply Hj; lia.
  - injection H as <-. exists i. repeat split; [lia|]. intros j Hj; lia.
Qed.

Lemma search_none off f i p s : search off f i p s = None ->
  forall k, k < f -> In (cand off p (i + k)) s.
Proof.
  revert i; induction f as [|f IH]; simpl; intros i H k Hk; [lia|].
  destruct (smem (cand off p i) s) eqn:E; [|discriminate].
  destruct k as [|k]. { rewrite Nat.add_0_r. now apply smem_In. }
  replace (i + S k) with (S i + k) by lia. apply IH; [exact H | lia].
Qed.

Lemma first_free_total off p s : exists r, first_free off p s = Some r.
Proof.
  unfold first_free. destruct (search _ _ _ _ _) as [r|] eqn:E; [eauto | exfalso].
  pose proof (search_none _ _ _ _ _ E) as H.
  set (l := map (cand off p) (seq 0 (S (length s)))).
  assert (NoDup l) as ND.
  { apply FinFun.Injective_map_NoDup; [intros a b; apply cand_inj | apply seq_NoDup]. }
  assert (incl l s) as IN.
  { intros x Hx. apply in_map_iff in Hx as (k & <- & Hk). apply in_seq in Hk. apply (H k). lia. }
  pose proof (NoDup_incl_length ND IN) as L. unfold l in L.
  rewrite map_length, seq_length in L. lia.
Qed.

Lemma first_free_fresh off p s r : first_free off p s = Some r -> ~ In r s.
Proof. apply search_fresh. Qed.

(* the result is the FIRST free candidate *)
Lemma first_free_first off p s r : first_free off p s = Some r ->
  exists k, r = cand off p k /\ forall j, j < k -> In (cand off p j) s.
Proof.
  intros H. apply search_is_cand in H as (k & _ & -> & Hj). exists k. split; [reflexivity|].
  intros j Hj'. apply Hj; lia.
Qed.

(* total version used by the models; the default is unreachable by first_free_total *)
Definition fresh (off : nat) (p : str) (s : list str) : str :=
  match first_free off p s with Some r => r | None => p end.

Lemma fresh_not_in off p s : ~ In (fresh off p s) s.
Proof.
  unfold fresh. destruct (first_free_total off p s) as [r E]. rewrite E.
  eapply first_free_fresh; eauto.
Qed.
