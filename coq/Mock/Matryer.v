(* Model of one matryer-style mock as emitted by internal/mock_matryer.templ   (C04)

   Mirrors the template text as it is:
     lines 65-90   struct: one <M>Func field, one calls.<M> slice, one lock<M> per method
     lines 93-131  method body:   [nil check -> panic, unless stub-impl]  ;  callInfo := {fields}
                                  ;  lock, append, unlock  ;  [stub-impl: nil -> zero values]
                                  ;  forward to <M>Func(args, variadic...)
     lines 137-151 <M>Calls()
     lines 152-170 Reset<M>Calls(), ResetCalls()  (only with with-resets)
   Values are opaque tokens.  A variadic parameter is one value inside the body: the slice
   Go packs at the call site (nil when no element is passed), or the slice spread with
   [xs...].  User functions are Gallina functions from the received argument tuple to a
   result tuple or a panic; invocations are explicit events.  Things Go's type checker
   rejects (unknown method, wrong arity) are explicit [ONoMethod]/[OIllTyped] outcomes.
   skip-ensure only adds/removes a [var _ I = &Mock{}] line; it is a field of [opts] so that
   the harness exercises all eight combinations, and [step] does not look at it.
   No proofs in this file. *)
From Mk Require Import Lib.Bytes.

Inductive value := VTok (n : nat) | VNilSlice | VSlice (l : list nat).
Definition vzero : value := VTok 0.          (* the zero value of every result type *)

Inductive ures := URet (rs : list value) | UPanic.
Definition ufunc := list value -> ures.

(* resolved parameter names (template.Param.Name, after collision resolution) *)
Record msig := { mname : str; mparams : list str; mvariadic : bool; mnres : nat }.
Record opts := { skip_ensure : bool; stub_impl : bool; with_resets : bool }.
Record mock := { struct_name : str; iface_name : str; methods : list msig; mopts : opts }.

Fixpoint find_method (l : list msig) (m : str) : option msig :=
  match l with
  | [] => None
  | s :: t => if seqb m (mname s) then Some s else find_method t m
  end.

(* ---- template_funcs.Exported on ASCII names ---- *)
Definition upper_b (b : byte) : byte :=
  if Nat.leb 97 (bnat b) && Nat.leb (bnat b) 122
  then match Byte.of_nat (bnat b - 32) with Some c => c | None => b end
  else b.
Definition upper (s : str) : str := map upper_b s.
Definition initialisms : list str :=
  [B "ACL"; B "API"; B "ASCII"; B "CPU"; B "CSS"; B "DNS"; B "EOF"; B "GUID"; B "HTML"; B "HTTP"; B "HTTPS"; B "ID"; B "IP"; B "JSON"; B "LHS"; B "QPS"; B "RAM"; B "RHS"; B "RPC"; B "SLA"; B "SMTP"; B "SQL"; B "SSH"; B "TCP"; B "TLS"; B "TTL"; B "UDP"; B "UI"; B "UID"; B "UUID"; B "URI"; B "URL"; B "UTF8"; B "VM"; B "XML"; B "XMPP"; B "XSRF"; B "XSS"].
Definition exported (s : str) : str :=
  match s with
  | [] => []
  | c :: r => if smem (upper s) initialisms then upper s else upper_b c :: r
  end.

(* ---- call-site arguments ---- *)
Inductive vararg := NoVar | Elems (l : list nat) | Spread (v : value).
Record cargs := { fixed : list value; var : vararg }.

Definition packv (v : vararg) : option value :=
  match v with
  | NoVar => None
  | Elems [] => Some VNilSlice          (* Go passes a nil slice when no variadic argument is given *)
  | Elems l => Some (VSlice l)
  | Spread (VTok _) => None             (* only slices can be spread *)
  | Spread v => Some v
  end.

(* the values of the parameters inside the method body; None = rejected by the type checker *)
Definition pack (s : msig) (a : cargs) : option (list value) :=
  if mvariadic s then
    match mparams s, packv (var a) with
    | _ :: _, Some v => if Nat.eqb (S (length (fixed a))) (length (mparams s)) then Some (fixed a ++ [v]) else None
    | _, _ => None
    end
  else match var a with
       | NoVar => if Nat.eqb (length (fixed a)) (length (mparams s)) then Some (fixed a) else None
       | _ => None
       end.

(* ---- records ---- *)
Definition record := list (str * value).      (* fields in declaration order *)
(* callInfo := struct{ <Exported p> T ... }{ <Exported p>: p, ... }, fields ranged over .Params *)
Definition mkrec (s : msig) (vals : list value) : record := combine (map exported (mparams s)) vals.

(* ---- state ---- *)
Definition mstate := (option ufunc * list record)%type.
Definition state := str -> mstate.
Definition init : state := fun _ => (None, []).
Definition upd (st : state) (m : str) (x : mstate) : state := fun m' => if seqb m' m then x else st m'.
Definition func_of (st : state) (m : str) := fst (st m).
Definition log_of (st : state) (m : str) := snd (st m).

Inductive op :=
| Call (m : str) (a : cargs) | Calls (m : str) | ResetM (m : str) | ResetAll | SetFunc (m : str) (f : option ufunc).
Inductive out :=
| OUnit | ONoMethod | OIllTyped | ORet (rs : list value) | OPanicNil (msg : str) | OPanicUser | ORecords (l : list record).
Inductive event := EInvoke (m : str) (args : list value).

(* panic("<StructName>.<M>Func: method is nil but <InterfaceName>.<M> was just called") *)
Definition nil_msg (d : mock) (m : str) : str :=
  struct_name d ++ B "." ++ (m ++ B "Func") ++ B ": method is nil but " ++ iface_name d ++ B "." ++ m ++ B " was just called".

Definition clear (st : state) (m : str) : state := upd st m (func_of st m, []).

Definition step (d : mock) (st : state) (o : op) : state * out * list event :=
  match o with
  | Call m a =>
    match find_method (methods d) m with
    | None => (st, ONoMethod, [])
    | Some s =>
      match pack s a with
      | None => (st, OIllTyped, [])
      | Some vals =>
        match func_of st m, stub_impl (mopts d) with
        | None, false => (st, OPanicNil (nil_msg d m), [])              (* before anything is recorded *)
        | f, _ =>
          let st' := upd st m (f, log_of st m ++ [mkrec s vals]) in     (* recorded before forwarding *)
          match f with
          | None => (st', ORet (repeat vzero (mnres s)), [])
          | Some g => match g vals with
                      | URet rs => (st', ORet rs, [EInvoke m vals])
                      | UPanic => (st', OPanicUser, [EInvoke m vals])
                      end
          end
        end
      end
    end
  | Calls m =>
    match find_method (methods d) m with
    | None => (st, ONoMethod, [])
    | Some _ => (st, ORecords (log_of st m), [])
    end
  | ResetM m =>
    if with_resets (mopts d) then
      match find_method (methods d) m with
      | None => (st, ONoMethod, [])
      | Some _ => (clear st m, OUnit, [])
      end
    else (st, ONoMethod, [])
  | ResetAll =>
    if with_resets (mopts d)
    then (fold_left (fun s sg => clear s (mname sg)) (methods d) st, OUnit, [])     (* range .Methods *)
    else (st, ONoMethod, [])
  | SetFunc m f =>
    match find_method (methods d) m with
    | None => (st, ONoMethod, [])
    | Some _ => (upd st m (f, log_of st m), OUnit, [])
    end
  end.

Fixpoint trace (d : mock) (st : state) (ops : list op) : list (op * out * list event) :=
  match ops with
  | [] => []
  | o :: t => let '(st', x, ev) := step d st o in (o, x, ev) :: trace d st' t
  end.
Fixpoint final (d : mock) (st : state) (ops : list op) : state :=
  match ops with
  | [] => st
  | o :: t => final d (fst (fst (step d st o))) t
  end.

(* ---- the specification side: a list of argument tuples per method ---- *)
(* a trace entry that put a tuple into m's list *)
Definition recorded (d : mock) (m : str) (e : op * out * list event) : option (list value) :=
  match e with
  | (Call m' a, (ORet _ | OPanicUser), _) =>
    if seqb m' m then match find_method (methods d) m with Some s => pack s a | None => None end else None
  | _ => None
  end.
Fixpoint filter_map {A B} (f : A -> option B) (l : list A) : list B :=
  match l with
  | [] => []
  | x :: t => match f x with Some y => y :: filter_map f t | None => filter_map f t end
  end.
Definition tuples (d : mock) (m : str) (tr : list (op * out * list event)) : list (list value) :=
  filter_map (recorded d m) tr.

(* does this operation reset m's list? *)
Definition resets (d : mock) (m : str) (o : op) : bool :=
  with_resets (mopts d) &&
  match o with
  | ResetM m' => seqb m' m && match find_method (methods d) m with Some _ => true | None => false end
  | ResetAll => smem m (map mname (methods d))
  | _ => false
  end.

(* the function most recently stored in <M>Func *)
Fixpoint last_func (d : mock) (m : str) (cur : option ufunc) (ops : list op) : option ufunc :=
  match ops with
  | [] => cur
  | SetFunc m' f :: t =>
    if seqb m' m && match find_method (methods d) m with Some _ => true | None => false end
    then last_func d m f t else last_func d m cur t
  | _ :: t => last_func d m cur t
  end.
