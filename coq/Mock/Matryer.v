(* Model of one matryer-style mock as emitted by internal/mock_matryer.templ   (C04)

   Mirrors the template text as it is:
     lines 65-90   struct: one <M>Func field, one calls.<M> slice, one lock<M> per method
     lines 93-131  method body:   [nil check -> panic, unless stub-impl]  ;  callInfo := {fields}
                                  ;  lock, append, unlock  ;  [stub-impl: nil -> zero values]
                                  ;  forward to <M>Func(args, variadic...)
     lines 137-151 <M>Calls()
     lines 152-170 Reset<M>Calls(), ResetCalls()  (only with with-resets)
   Values are opaque tokens.  A variadic parameter is one value inside the body: the slice
   Go packs at the call site (nil when no element is passed), or the slice spread with
   [xs...].  User functions are Gallina functions from the received argument tuple to a
   SCRIPT: while running, a user function may operate on the mock itself (read <M'>Calls(),
   call a method - the same one included -, call a reset method), continue depending on the
   outcome, and finally return a result tuple or panic.  The mock has no notion of "a call in
   progress": nested operations act on the state the outer call left behind, which already
   contains the outer call's record (appended before forwarding) - the real mock must not
   hold lock<M> while <M>Func runs for this to be true.  Nested calls may recurse; [callf]
   has explicit fuel and [OOutOfFuel] (unbounded recursion overflows the stack in Go).
   Invocations, record appends, clears and nested outcomes are explicit events.  Things Go's type checker
   rejects (unknown method, wrong arity) are explicit [ONoMethod]/[OIllTyped] outcomes.
   skip-ensure only adds/removes a [var _ I = &Mock{}] line; it is a field of [opts] so that
   the harness exercises all eight combinations, and [step] does not look at it.
   No proofs in this file. *)
From Mk Require Import Lib.Bytes.

Inductive value := VTok (n : nat) | VNilSlice | VSlice (l : list nat).
Definition vzero : value := VTok 0.          (* the zero value of every result type *)

Inductive ures := URet (rs : list value) | UPanic.

(* resolved parameter names (template.Param.Name, after collision resolution) *)
Record msig := { mname : str; mparams : list str; mvariadic : bool; mnres : nat }.
Record opts := { skip_ensure : bool; stub_impl : bool; with_resets : bool }.
Record mock := { struct_name : str; iface_name : str; methods : list msig; mopts : opts }.

Fixpoint find_method (l : list msig) (m : str) : option msig :=
  match l with
  | [] => None
  | s :: t => if seqb m (mname s) then Some s else find_method t m
  end.

(* ---- template_funcs.Exported on ASCII names ---- *)
Definition upper_b (b : byte) : byte :=
  if Nat.leb 97 (bnat b) && Nat.leb (bnat b) 122
  then match Byte.of_nat (bnat b - 32) with Some c => c | None => b end
  else b.
Definition upper (s : str) : str := map upper_b s.
Definition initialisms : list str :=
  [B "ACL"; B "API"; B "ASCII"; B "CPU"; B "CSS"; B "DNS"; B "EOF"; B "GUID"; B "HTML"; B "HTTP"; B "HTTPS"; B "ID"; B "IP"; B "JSON"; B "LHS"; B "QPS"; B "RAM"; B "RHS"; B "RPC"; B "SLA"; B "SMTP"; B "SQL"; B "SSH"; B "TCP"; B "TLS"; B "TTL"; B "UDP"; B "UI"; B "UID"; B "UUID"; B "URI"; B "URL"; B "UTF8"; B "VM"; B "XML"; B "XMPP"; B "XSRF"; B "XSS"].
Definition exported (s : str) : str :=
  match s with
  | [] => []
  | c :: r => if smem (upper s) initialisms then upper s else upper_b c :: r
  end.

(* ---- call-site arguments ---- *)
Inductive vararg := NoVar | Elems (l : list nat) | Spread (v : value).
Record cargs := { fixed : list value; var : vararg }.

Definition packv (v : vararg) : option value :=
  match v with
  | NoVar => None
  | Elems [] => Some VNilSlice          (* Go passes a nil slice when no variadic argument is given *)
  | Elems l => Some (VSlice l)
  | Spread (VTok _) => None             (* only slices can be spread *)
  | Spread v => Some v
  end.

(* the values of the parameters inside the method body; None = rejected by the type checker *)
Definition pack (s : msig) (a : cargs) : option (list value) :=
  if mvariadic s then
    match mparams s, packv (var a) with
    | _ :: _, Some v => if Nat.eqb (S (length (fixed a))) (length (mparams s)) then Some (fixed a ++ [v]) else None
    | _, _ => None
    end
  else match var a with
       | NoVar => if Nat.eqb (length (fixed a)) (length (mparams s)) then Some (fixed a) else None
       | _ => None
       end.

(* ---- outcomes, nested operations, user functions ---- *)
Definition record := list (str * value).      (* fields in declaration order *)
Inductive out :=
| OUnit | ONoMethod | OIllTyped | ORet (rs : list value) | OPanicNil (msg : str) | OPanicUser | ORecords (l : list record)
| OOutOfFuel.
Inductive nop := NCalls (m : str) | NCall (m : str) (a : cargs) | NResetM (m : str) | NResetAll.
Inductive script := SRet (r : ures) | SDo (o : nop) (k : out -> script).
Definition ufunc := list value -> script.
(* a function that does not touch the mock *)
Definition plain (r : ures) : ufunc := fun _ => SRet r.

(* ---- records ---- *)
(* callInfo := struct{ <Exported p> T ... }{ <Exported p>: p, ... }, fields ranged over .Params *)
Definition mkrec (s : msig) (vals : list value) : record := combine (map exported (mparams s)) vals.

(* ---- state ---- *)
Definition mstate := (option ufunc * list record)%type.
Definition state := str -> mstate.
Definition init : state := fun _ => (None, []).
Definition upd (st : state) (m : str) (x : mstate) : state := fun m' => if seqb m' m then x else st m'.
Definition func_of (st : state) (m : str) := fst (st m).
Definition log_of (st : state) (m : str) := snd (st m).

Inductive op :=
| Call (m : str) (a : cargs) | Calls (m : str) | ResetM (m : str) | ResetAll | SetFunc (m : str) (f : option ufunc).
(* ERecord/EClear: what happened to the logs; EInvoke: a user function started with these values;
   ENested: a nested operation of a running user function completed with this outcome *)
Inductive event :=
| ERecord (m : str) (vals : list value) | EClear (m : str) | EInvoke (m : str) (args : list value) | ENested (o : nop) (x : out).

(* panic("<StructName>.<M>Func: method is nil but <InterfaceName>.<M> was just called") *)
Definition nil_msg (d : mock) (m : str) : str :=
  struct_name d ++ B "." ++ (m ++ B "Func") ++ B ": method is nil but " ++ iface_name d ++ B "." ++ m ++ B " was just called".

Definition clear (st : state) (m : str) : state := upd st m (func_of st m, []).

Definition result := (state * out * list event)%type.

Definition do_calls (d : mock) (st : state) (m : str) : result :=
  match find_method (methods d) m with
  | None => (st, ONoMethod, [])
  | Some _ => (st, ORecords (log_of st m), [])
  end.
Definition do_reset (d : mock) (st : state) (m : str) : result :=
  if with_resets (mopts d) then
    match find_method (methods d) m with
    | None => (st, ONoMethod, [])
    | Some _ => (clear st m, OUnit, [EClear m])
    end
  else (st, ONoMethod, []).
Definition do_reset_all (d : mock) (st : state) : result :=
  if with_resets (mopts d)
  then (fold_left (fun s sg => clear s (mname sg)) (methods d) st, OUnit, map (fun sg => EClear (mname sg)) (methods d))   (* range .Methods *)
  else (st, ONoMethod, []).

(* a nested operation, given how to perform a (nested) call *)
Definition nstep (call : state -> str -> cargs -> result) (d : mock) (st : state) (o : nop) : result :=
  match o with
  | NCalls m => do_calls d st m
  | NCall m a => call st m a
  | NResetM m => do_reset d st m
  | NResetAll => do_reset_all d st
  end.

(* the body of a running user function: its nested operations act on the mock one after the
   other; [evs] accumulates the events.  Fuel exhaustion of a nested call is not silent. *)
Fixpoint run_script (ns : state -> nop -> result) (sc : script) (st : state) (evs : list event) : result :=
  match sc with
  | SRet (URet rs) => (st, ORet rs, evs)
  | SRet UPanic => (st, OPanicUser, evs)
  | SDo o k =>
    let '(st1, x, ev1) := ns st o in
    match x with
    | OOutOfFuel => (st1, OOutOfFuel, evs ++ ev1)
    | _ => run_script ns (k x) st1 (evs ++ ev1 ++ [ENested o x])
    end
  end.

(* the generated method <M> *)
Fixpoint callf (fuel : nat) (d : mock) (st : state) (m : str) (a : cargs) {struct fuel} : result :=
  match fuel with
  | 0 => (st, OOutOfFuel, [])
  | S f =>
    match find_method (methods d) m with
    | None => (st, ONoMethod, [])
    | Some s =>
      match pack s a with
      | None => (st, OIllTyped, [])
      | Some vals =>
        match func_of st m, stub_impl (mopts d) with
        | None, false => (st, OPanicNil (nil_msg d m), [])              (* before anything is recorded *)
        | fo, _ =>
          let st' := upd st m (fo, log_of st m ++ [mkrec s vals]) in    (* recorded before forwarding *)
          match fo with
          | None => (st', ORet (repeat vzero (mnres s)), [ERecord m vals])
          | Some g => run_script (nstep (callf f d) d) (g vals) st' [ERecord m vals; EInvoke m vals]
          end
        end
      end
    end
  end.

Definition step (fuel : nat) (d : mock) (st : state) (o : op) : result :=
  match o with
  | Call m a => callf fuel d st m a
  | Calls m => do_calls d st m
  | ResetM m => do_reset d st m
  | ResetAll => do_reset_all d st
  | SetFunc m f =>
    match find_method (methods d) m with
    | None => (st, ONoMethod, [])
    | Some _ => (upd st m (f, log_of st m), OUnit, [])
    end
  end.

Fixpoint trace (fuel : nat) (d : mock) (st : state) (ops : list op) : list (op * out * list event) :=
  match ops with
  | [] => []
  | o :: t => let '(st', x, ev) := step fuel d st o in (o, x, ev) :: trace fuel d st' t
  end.
Fixpoint final (fuel : nat) (d : mock) (st : state) (ops : list op) : state :=
  match ops with
  | [] => st
  | o :: t => final fuel d (fst (fst (step fuel d st o))) t
  end.
Definition all_events (tr : list (op * out * list event)) : list event := flat_map snd tr.

(* ---- the specification side: a list of argument tuples per method ---- *)
Definition rec_of (d : mock) (m : str) (vals : list value) : record :=
  match find_method (methods d) m with Some s => mkrec s vals | None => [] end.
(* what one event does to the records of method m *)
Definition eff (d : mock) (m : str) (acc : list record) (e : event) : list record :=
  match e with
  | ERecord m' vals => if seqb m' m then acc ++ [rec_of d m vals] else acc
  | EClear m' => if seqb m' m then [] else acc
  | _ => acc
  end.
(* the argument tuples recorded for m by a list of events *)
Fixpoint filter_map {A B} (f : A -> option B) (l : list A) : list B :=
  match l with
  | [] => []
  | x :: t => match f x with Some y => y :: filter_map f t | None => filter_map f t end
  end.
Definition tuples (m : str) (evs : list event) : list (list value) :=
  filter_map (fun e => match e with ERecord m' vals => if seqb m' m then Some vals else None | _ => None end) evs.
Definition clears (m : str) (e : event) : bool := match e with EClear m' => seqb m' m | _ => false end.
Definition is_invoke (e : event) : bool := match e with EInvoke _ _ => true | _ => false end.

(* scripts that never call a method of the mock (they may read Calls() and reset) *)
Inductive no_ncall : script -> Prop :=
| nn_ret r : no_ncall (SRet r)
| nn_do o k : (forall m a, o <> NCall m a) -> (forall x, no_ncall (k x)) -> no_ncall (SDo o k).

(* the function most recently stored in <M>Func *)
Fixpoint last_func (d : mock) (m : str) (cur : option ufunc) (ops : list op) : option ufunc :=
  match ops with
  | [] => cur
  | SetFunc m' f :: t =>
    if seqb m' m && match find_method (methods d) m with Some _ => true | None => false end
    then last_func d m f t else last_func d m cur t
  | _ :: t => last_func d m cur t
  end.

(* ---- the test's side: results of <M>Calls() that the test keeps ---- *)
(* A test may keep the slice returned by <M>Calls() and look at it again later.  In the model the result of
   <M>Calls() is a VALUE: it is stored under an identifier in a store that no operation of the mock can reach
   ([step] neither takes nor returns it), so looking at it again gives exactly what was returned then.  The real
   mock returns its internal slice without copying; that is only faithful to this model as long as no later
   operation writes into the part of the backing array a returned slice still points to. *)
Definition kept := nat -> option (list record).
Inductive top := TOp (o : op) | TKeep (id : nat) (m : str) | TRecheck (id : nat).
Definition tstep (fuel : nat) (d : mock) (ts : state * kept) (t : top) : (state * kept) * out * list event :=
  match t with
  | TOp o => let '(st', x, ev) := step fuel d (fst ts) o in ((st', snd ts), x, ev)
  | TKeep id m =>
    let '(st', x, ev) := step fuel d (fst ts) (Calls m) in
    ((st', match x with ORecords l => fun i => if Nat.eqb i id then Some l else snd ts i | _ => snd ts end), x, ev)
  | TRecheck id => (ts, match snd ts id with Some l => ORecords l | None => ONoMethod end, [])
  end.
Fixpoint ttrace (fuel : nat) (d : mock) (ts : state * kept) (l : list top) : list (top * out * list event) :=
  match l with
  | [] => []
  | t :: r => let '(ts', x, ev) := tstep fuel d ts t in (t, x, ev) :: ttrace fuel d ts' r
  end.
Fixpoint tfinal (fuel : nat) (d : mock) (ts : state * kept) (l : list top) : state * kept :=
  match l with
  | [] => ts
  | t :: r => tfinal fuel d (fst (fst (tstep fuel d ts t))) r
  end.
Definition keeps_id (id : nat) (t : top) : bool := match t with TKeep id' _ => Nat.eqb id' id | _ => false end.
