(* Proofs about Mock/Matryer.v   (C04) *)
From Mk Require Import Lib.Bytes Mock.Matryer.

(* ---------- small facts ---------- *)
Lemma upd_same st m x : upd st m x m = x.
Proof. unfold upd. now rewrite seqb_refl. Qed.
Lemma upd_other st m x m' : m' <> m -> upd st m x m' = st m'.
Proof. unfold upd. intros H. apply seqb_neq in H. now rewrite H. Qed.

Lemma find_method_name l m s : find_method l m = Some s -> mname s = m /\ In s l.
Proof.
  induction l as [|x l IH]; simpl; [discriminate|].
  destruct (seqb m (mname x)) eqn:E.
  - intros H; injection H as <-. apply seqb_eq in E. split; [now symmetry | now left].
  - intros H. destruct (IH H) as [A Bn]. split; [exact A | now right].
Qed.
Lemma find_method_none l m : find_method l m = None <-> ~ In m (map mname l).
Proof.
  induction l as [|x l IH]; simpl; [split; [tauto | reflexivity]|].
  destruct (seqb m (mname x)) eqn:E.
  - apply seqb_eq in E. split; [discriminate | intros H; exfalso; apply H; now left].
  - apply seqb_neq in E. rewrite IH. split; [intros H [F|F]; [congruence | tauto] | tauto].
Qed.
Lemma find_method_some l m : In m (map mname l) -> exists s, find_method l m = Some s.
Proof.
  intros H. destruct (find_method l m) eqn:E; [eauto|]. apply find_method_none in E. contradiction.
Qed.

Lemma pack_length s a vals : pack s a = Some vals -> length vals = length (mparams s).
Proof.
  unfold pack. destruct (mvariadic s).
  - destruct (mparams s) as [|p ps] eqn:Ep; [discriminate|].
    destruct (packv (var a)) as [v|]; [|discriminate].
    destruct (Nat.eqb _ _) eqn:E; [|discriminate]. intros H; injection H as <-.
    apply Nat.eqb_eq in E. rewrite app_length. simpl in *. lia.
  - destruct (var a); try discriminate.
    destruct (Nat.eqb _ _) eqn:E; [|discriminate]. intros H; injection H as <-. now apply Nat.eqb_eq in E.
Qed.

(* the variadic parameter is one value: the packed (or spread) slice, in last position *)
Lemma pack_variadic s a vals :
  mvariadic s = true -> pack s a = Some vals ->
  exists v, packv (var a) = Some v /\ vals = fixed a ++ [v] /\ S (length (fixed a)) = length (mparams s).
Proof.
  unfold pack. intros ->. destruct (mparams s) as [|p ps]; [discriminate|].
  destruct (packv (var a)) as [v|]; [|discriminate].
  destruct (Nat.eqb _ _) eqn:E; [|discriminate]. intros H; injection H as <-.
  apply Nat.eqb_eq in E. exists v. auto.
Qed.
Lemma pack_plain s a vals : mvariadic s = false -> pack s a = Some vals -> vals = fixed a /\ var a = NoVar.
Proof.
  unfold pack. intros ->. destruct (var a); try discriminate.
  destruct (Nat.eqb _ _); [|discriminate]. intros H; injection H as <-. auto.
Qed.

Lemma combine_fst {A B} (l : list A) (r : list B) : length l = length r -> map fst (combine l r) = l.
Proof. revert r; induction l as [|x l IH]; destruct r; simpl; intros H; try discriminate; [reflexivity|]. f_equal. apply IH. lia. Qed.
Lemma combine_snd {A B} (l : list A) (r : list B) : length l = length r -> map snd (combine l r) = r.
Proof. revert r; induction l as [|x l IH]; destruct r; simpl; intros H; try discriminate; [reflexivity|]. f_equal. apply IH. lia. Qed.

(* fields: names are the exported parameter names in parameter order, values the arguments in the same order *)
Lemma fields_in_param_order s a vals :
  pack s a = Some vals ->
  map fst (mkrec s vals) = map exported (mparams s) /\ map snd (mkrec s vals) = vals /\
  length (mkrec s vals) = length (mparams s).
Proof.
  intros H. apply pack_length in H. unfold mkrec.
  assert (L : length (map exported (mparams s)) = length vals) by (rewrite map_length; lia).
  split; [now apply combine_fst | split; [now apply combine_snd|]].
  rewrite combine_length, map_length. lia.
Qed.

Lemma seqb_sym a b : seqb a b = seqb b a.
Proof.
  destruct (seqb a b) eqn:E; symmetry.
  - apply seqb_eq in E; subst. apply seqb_refl.
  - apply seqb_neq in E. apply seqb_neq. congruence.
Qed.

Lemma nil_msg_names_func d m :
  exists pre post, nil_msg d m = pre ++ (m ++ B "Func") ++ post /\
                   pre = struct_name d ++ B "." /\
                   post = B ": method is nil but " ++ iface_name d ++ B "." ++ m ++ B " was just called".
Proof. unfold nil_msg. eexists _, _. split; [|split; reflexivity]. now rewrite <- !app_assoc. Qed.

Lemma clear_all_spec l st m :
  fold_left (fun s sg => clear s (mname sg)) l st m =
  if smem m (map mname l) then (func_of st m, []) else st m.
Proof.
  revert st; induction l as [|x l IH]; intros st; simpl; [reflexivity|].
  rewrite IH. destruct (seqb m (mname x)) eqn:E.
  - apply seqb_eq in E; subst. unfold clear, func_of. rewrite upd_same. simpl. now destruct (smem _ _).
  - apply seqb_neq in E. unfold clear, func_of. rewrite upd_other by exact E. reflexivity.
Qed.

Lemma filter_map_app {A B} (f : A -> option B) a b : filter_map f (a ++ b) = filter_map f a ++ filter_map f b.
Proof. induction a as [|x a IH]; simpl; [reflexivity|]. destruct (f x); simpl; now rewrite IH. Qed.

(* ---------- soundness of every operation w.r.t. the event semantics ---------- *)
Definition of_ures (r : ures) : out := match r with URet rs => ORet rs | UPanic => OPanicUser end.

(* the logs move as the events say, the functions do not move at all *)
Definition Sound (d : mock) (st : state) (r : result) : Prop :=
  forall m0, log_of (fst (fst r)) m0 = fold_left (eff d m0) (snd r) (log_of st m0) /\
             func_of (fst (fst r)) m0 = func_of st m0.

Lemma do_calls_sound d st m : Sound d st (do_calls d st m).
Proof. unfold do_calls. destruct (find_method (methods d) m) as [s|]; intros m0; simpl; auto. Qed.

Lemma clear_log st m m0 : log_of (clear st m) m0 = if seqb m m0 then [] else log_of st m0.
Proof.
  unfold clear, log_of. destruct (seqb m m0) eqn:E.
  - apply seqb_eq in E; subst. now rewrite upd_same.
  - apply seqb_neq in E. rewrite upd_other by congruence. reflexivity.
Qed.
Lemma clear_func st m m0 : func_of (clear st m) m0 = func_of st m0.
Proof.
  unfold clear, func_of. destruct (str_dec m0 m) as [->|N]; [now rewrite upd_same | now rewrite upd_other].
Qed.

Lemma do_reset_sound d st m : Sound d st (do_reset d st m).
Proof.
  unfold do_reset. destruct (with_resets (mopts d)); [|intros m0; simpl; auto].
  destruct (find_method (methods d) m) as [s|]; intros m0; simpl; auto.
  split; [apply clear_log | apply clear_func].
Qed.

Lemma fold_clears d m0 l acc :
  fold_left (eff d m0) (map (fun sg => EClear (mname sg)) l) acc = if smem m0 (map mname l) then [] else acc.
Proof.
  revert acc; induction l as [|x l IH]; intros acc; simpl; [reflexivity|].
  rewrite IH, (seqb_sym m0 (mname x)). destruct (seqb (mname x) m0); [now destruct (smem _ _) | reflexivity].
Qed.

Lemma do_reset_all_sound d st : Sound d st (do_reset_all d st).
Proof.
  unfold do_reset_all. destruct (with_resets (mopts d)); [|intros m0; simpl; auto].
  intros m0; simpl. rewrite fold_clears. unfold log_of, func_of. rewrite clear_all_spec.
  destruct (smem m0 (map mname (methods d))); auto.
Qed.

Lemma nstep_sound call d :
  (forall st m a, Sound d st (call st m a)) -> forall st o, Sound d st (nstep call d st o).
Proof.
  intros H st [m|m a|m|]; simpl; [apply do_calls_sound | apply H | apply do_reset_sound | apply do_reset_all_sound].
Qed.

Lemma fold_eff_nested d m0 evs o x acc :
  fold_left (eff d m0) (evs ++ [ENested o x]) acc = fold_left (eff d m0) evs acc.
Proof. now rewrite fold_left_app. Qed.

Lemma run_script_sound d ns :
  (forall st o, Sound d st (ns st o)) ->
  forall sc st0 st evs,
    (forall m0, log_of st m0 = fold_left (eff d m0) evs (log_of st0 m0) /\ func_of st m0 = func_of st0 m0) ->
    Sound d st0 (run_script ns sc st evs).
Proof.
  intros Hns sc. induction sc as [r|o k IH]; intros st0 st evs H.
  - destruct r; exact H.
  - simpl. pose proof (Hns st o) as S1. destruct (ns st o) as [[st1 x] ev1]. simpl in S1.
    assert (A : forall m0, log_of st1 m0 = fold_left (eff d m0) (evs ++ ev1) (log_of st0 m0) /\ func_of st1 m0 = func_of st0 m0).
    { intros m0. destruct (S1 m0) as [L F], (H m0) as [L0 F0]. simpl in L, F. rewrite fold_left_app, <- L0. split; congruence. }
    assert (A' : forall m0, log_of st1 m0 = fold_left (eff d m0) (evs ++ ev1 ++ [ENested o x]) (log_of st0 m0) /\ func_of st1 m0 = func_of st0 m0).
    { intros m0. rewrite app_assoc, fold_eff_nested. apply A. }
    destruct x; try (apply IH; exact A'). exact A.
Qed.

Lemma rec_of_found d m s vals : find_method (methods d) m = Some s -> rec_of d m vals = mkrec s vals.
Proof. unfold rec_of. now intros ->. Qed.

Lemma callf_sound fuel d : forall st m a, Sound d st (callf fuel d st m a).
Proof.
  induction fuel as [|f IH]; intros st m a; [intros m0; simpl; auto|].
  simpl. destruct (find_method (methods d) m) as [s|] eqn:Hm; [|intros m0; simpl; auto].
  destruct (pack s a) as [vals|]; [|intros m0; simpl; auto].
  assert (Entry : forall (fo : option ufunc) m0, fo = func_of st m ->
            log_of (upd st m (fo, log_of st m ++ [mkrec s vals])) m0 = eff d m0 (log_of st m0) (ERecord m vals) /\
            func_of (upd st m (fo, log_of st m ++ [mkrec s vals])) m0 = func_of st m0).
  { intros fo m0 ->. unfold log_of, func_of, eff. destruct (seqb m m0) eqn:E.
    - apply seqb_eq in E; subst m0. rewrite upd_same. simpl. now rewrite (rec_of_found d m s vals Hm).
    - apply seqb_neq in E. rewrite upd_other by congruence. auto. }
  destruct (func_of st m) as [g|] eqn:Hg.
  - assert (R : Sound d st (run_script (nstep (callf f d) d) (g vals) (upd st m (Some g, log_of st m ++ [mkrec s vals])) [ERecord m vals; EInvoke m vals])).
    { apply run_script_sound; [apply nstep_sound, IH|]. intros m0. simpl. now apply Entry. }
    destruct (stub_impl (mopts d)); exact R.
  - destruct (stub_impl (mopts d)); intros m0; simpl; [now apply Entry | auto].
Qed.

Lemma step_log fuel d st o m0 :
  log_of (fst (fst (step fuel d st o))) m0 = fold_left (eff d m0) (snd (step fuel d st o)) (log_of st m0).
Proof.
  destruct o as [m a|m|m| |m f]; simpl.
  - apply callf_sound.
  - apply do_calls_sound.
  - apply do_reset_sound.
  - apply do_reset_all_sound.
  - destruct (find_method (methods d) m); simpl; [|reflexivity].
    unfold log_of. destruct (str_dec m0 m) as [->|N]; [now rewrite upd_same | now rewrite upd_other].
Qed.

Lemma last_func_cons d m cur o ops : last_func d m cur (o :: ops) = last_func d m (last_func d m cur [o]) ops.
Proof. destruct o; simpl; try reflexivity. now destruct (_ && _). Qed.

Lemma step_func fuel d st o m :
  func_of (fst (fst (step fuel d st o))) m = last_func d m (func_of st m) [o].
Proof.
  destruct o as [m' a|m'|m'| |m' f]; simpl.
  - apply callf_sound.
  - apply do_calls_sound.
  - apply do_reset_sound.
  - apply do_reset_all_sound.
  - destruct (find_method (methods d) m') as [s|] eqn:Hf; simpl.
    + destruct (seqb m' m) eqn:E.
      * apply seqb_eq in E; subst. rewrite Hf. simpl. unfold func_of. now rewrite upd_same.
      * simpl. apply seqb_neq in E. unfold func_of. rewrite upd_other by congruence. reflexivity.
    + destruct (seqb m' m) eqn:E; [|reflexivity]. apply seqb_eq in E; subst. now rewrite Hf.
Qed.

Lemma func_final fuel d st ops m : func_of (final fuel d st ops) m = last_func d m (func_of st m) ops.
Proof.
  revert st; induction ops as [|o ops IH]; intros st; simpl; [reflexivity|].
  rewrite IH, step_func. symmetry. apply last_func_cons.
Qed.

Lemma final_app fuel d st a b : final fuel d st (a ++ b) = final fuel d (final fuel d st a) b.
Proof. revert st; induction a as [|o a IH]; intros st; simpl; [reflexivity | apply IH]. Qed.
Lemma trace_app fuel d st a b : trace fuel d st (a ++ b) = trace fuel d st a ++ trace fuel d (final fuel d st a) b.
Proof.
  revert st; induction a as [|o a IH]; intros st; simpl; [reflexivity|].
  destruct (step fuel d st o) as [[st' x] ev] eqn:E. simpl. now rewrite IH.
Qed.

(* refinement: after any history the records of m are what the events say *)
Lemma final_log fuel d st ops m0 :
  log_of (final fuel d st ops) m0 = fold_left (eff d m0) (all_events (trace fuel d st ops)) (log_of st m0).
Proof.
  revert st; induction ops as [|o ops IH]; intros st; simpl; [reflexivity|].
  pose proof (step_log fuel d st o m0) as L. destruct (step fuel d st o) as [[st' x] ev]. simpl in *.
  unfold all_events in *. simpl. rewrite fold_left_app, <- L. apply IH.
Qed.

Lemma fold_eff_no_clear d m evs acc :
  forallb (fun e => negb (clears m e)) evs = true ->
  fold_left (eff d m) evs acc = acc ++ map (rec_of d m) (tuples m evs).
Proof.
  revert acc; induction evs as [|e evs IH]; intros acc H; simpl; [now rewrite app_nil_r|].
  simpl in H. apply andb_true_iff in H as [He H]. rewrite IH by exact H. unfold tuples. simpl.
  destruct e as [m' vals|m'|m' vals|o x]; simpl in *; try reflexivity.
  - destruct (seqb m' m); simpl; [now rewrite <- app_assoc | reflexivity].
  - destruct (seqb m' m); [discriminate | reflexivity].
Qed.

Lemma fold_eff_after_clear d m e1 e2 acc :
  fold_left (eff d m) (e1 ++ EClear m :: e2) acc = fold_left (eff d m) e2 [].
Proof. rewrite fold_left_app. simpl. now rewrite seqb_refl. Qed.

(* the records are exactly the calls (top-level or nested) recorded since the last clear of m, in order *)
Lemma log_order fuel d st ops m e1 e2 :
  all_events (trace fuel d st ops) = e1 ++ EClear m :: e2 ->
  forallb (fun e => negb (clears m e)) e2 = true ->
  log_of (final fuel d st ops) m = map (rec_of d m) (tuples m e2).
Proof. intros E H. rewrite final_log, E, fold_eff_after_clear, fold_eff_no_clear by exact H. reflexivity. Qed.

Lemma log_order_init fuel d ops m :
  forallb (fun e => negb (clears m e)) (all_events (trace fuel d init ops)) = true ->
  log_of (final fuel d init ops) m = map (rec_of d m) (tuples m (all_events (trace fuel d init ops))).
Proof. intros H. rewrite final_log, fold_eff_no_clear by exact H. reflexivity. Qed.

Lemma calls_pure fuel d st m s :
  find_method (methods d) m = Some s -> step fuel d st (Calls m) = (st, ORecords (log_of st m), []).
Proof. intros H. simpl. unfold do_calls. now rewrite H. Qed.

(* ---------- one call ---------- *)
Lemma call_entry f d st m a s vals g :
  find_method (methods d) m = Some s -> pack s a = Some vals -> func_of st m = Some g ->
  step (S f) d st (Call m a) =
  run_script (nstep (callf f d) d) (g vals) (upd st m (Some g, log_of st m ++ [mkrec s vals])) [ERecord m vals; EInvoke m vals].
Proof. intros Hf Hp Hg. simpl. rewrite Hf, Hp, Hg. now destruct (stub_impl (mopts d)). Qed.

Lemma call_plain f d st m a s vals g r :
  find_method (methods d) m = Some s -> pack s a = Some vals -> func_of st m = Some g -> g vals = SRet r ->
  step (S f) d st (Call m a) = (upd st m (Some g, log_of st m ++ [mkrec s vals]), of_ures r, [ERecord m vals; EInvoke m vals]).
Proof. intros Hf Hp Hg Hr. rewrite (call_entry f d st m a s vals g Hf Hp Hg), Hr. now destruct r. Qed.

(* a user function that reads <M>Calls() of the method it is serving sees the record of the
   running call as the last element, and goes on *)
Lemma nested_calls_sees_running f d st m a s vals g k :
  find_method (methods d) m = Some s -> pack s a = Some vals -> func_of st m = Some g ->
  g vals = SDo (NCalls m) k ->
  let st' := upd st m (Some g, log_of st m ++ [mkrec s vals]) in
  let seen := ORecords (log_of st m ++ [mkrec s vals]) in
  step (S f) d st (Call m a) =
  run_script (nstep (callf f d) d) (k seen) st' [ERecord m vals; EInvoke m vals; ENested (NCalls m) seen].
Proof.
  intros Hf Hp Hg Hk st' seen. rewrite (call_entry f d st m a s vals g Hf Hp Hg), Hk. simpl.
  unfold do_calls. rewrite Hf. unfold st', seen, log_of. rewrite !upd_same. simpl. reflexivity.
Qed.

Lemma call_nil_panics f d st m a s vals :
  find_method (methods d) m = Some s -> pack s a = Some vals -> func_of st m = None ->
  stub_impl (mopts d) = false ->
  step (S f) d st (Call m a) = (st, OPanicNil (nil_msg d m), []).
Proof. intros Hf Hp Hg Hs. simpl. now rewrite Hf, Hp, Hg, Hs. Qed.

Lemma call_stub f d st m a s vals :
  find_method (methods d) m = Some s -> pack s a = Some vals -> func_of st m = None ->
  stub_impl (mopts d) = true ->
  step (S f) d st (Call m a) = (upd st m (None, log_of st m ++ [mkrec s vals]), ORet (repeat vzero (mnres s)), [ERecord m vals]).
Proof. intros Hf Hp Hg Hs. simpl. now rewrite Hf, Hp, Hg, Hs. Qed.

(* the outcome of a running user function is its own return or panic (or fuel exhaustion of a nested call) *)
Lemma run_script_out ns sc st evs :
  let x := snd (fst (run_script ns sc st evs)) in (exists rs, x = ORet rs) \/ x = OPanicUser \/ x = OOutOfFuel.
Proof.
  revert st evs; induction sc as [r|o k IH]; intros st evs; simpl.
  - destruct r; simpl; eauto.
  - destruct (ns st o) as [[st1 x] ev1]. destruct x; try apply IH. simpl. auto.
Qed.

(* functions that never call into the mock: no fuel problem, and the only invocation is the one of the call *)
Definition count_invokes (evs : list event) : nat := length (filter is_invoke evs).

Lemma nstep_no_ncall call d st o :
  (forall m a, o <> NCall m a) ->
  let r := nstep call d st o in
  snd (fst r) <> OOutOfFuel /\ count_invokes (snd r) = 0 /\ forall call', nstep call' d st o = r.
Proof.
  intros H. destruct o as [m|m a|m|]; simpl.
  - unfold do_calls. destruct (find_method _ _); simpl; repeat split; discriminate.
  - exfalso. eapply H; eauto.
  - unfold do_reset. destruct (with_resets _); [destruct (find_method _ _)|]; simpl; repeat split; discriminate.
  - unfold do_reset_all. destruct (with_resets _); simpl; repeat split; try discriminate.
    unfold count_invokes. induction (methods d); simpl; auto.
Qed.

Lemma count_invokes_app a b : count_invokes (a ++ b) = count_invokes a + count_invokes b.
Proof. unfold count_invokes. now rewrite filter_app, app_length. Qed.

Lemma run_script_no_ncall call d sc :
  no_ncall sc -> forall st evs,
  let r := run_script (nstep call d) sc st evs in
  ((exists rs, snd (fst r) = ORet rs) \/ snd (fst r) = OPanicUser) /\ count_invokes (snd r) = count_invokes evs.
Proof.
  induction 1 as [r|o k Ho Hk IH]; intros st evs; simpl.
  - destruct r; simpl; eauto.
  - destruct (nstep_no_ncall call d st o Ho) as (Hx & Hc & _).
    destruct (nstep call d st o) as [[st1 x] ev1]. simpl in Hx, Hc.
    assert (C : count_invokes (evs ++ ev1 ++ [ENested o x]) = count_invokes evs).
    { rewrite !count_invokes_app, Hc. simpl. unfold count_invokes at 2. simpl. lia. }
    destruct x; try congruence; (split; [apply IH | rewrite <- C; apply IH]).
Qed.

Lemma call_no_ncall f d st m a s vals g :
  find_method (methods d) m = Some s -> pack s a = Some vals -> func_of st m = Some g ->
  no_ncall (g vals) ->
  let r := step (S f) d st (Call m a) in
  ((exists rs, snd (fst r) = ORet rs) \/ snd (fst r) = OPanicUser) /\ count_invokes (snd r) = 1.
Proof.
  intros Hf Hp Hg Hn r. unfold r. rewrite (call_entry f d st m a s vals g Hf Hp Hg).
  destruct (run_script_no_ncall (callf f d) d (g vals) Hn (upd st m (Some g, log_of st m ++ [mkrec s vals])) [ERecord m vals; EInvoke m vals]) as [A C].
  split; [exact A | rewrite C; reflexivity].
Qed.

(* ---------- resets ---------- *)
Lemma reset_one_isolated fuel d st m s :
  with_resets (mopts d) = true -> find_method (methods d) m = Some s ->
  let '(st', x, ev) := step fuel d st (ResetM m) in
  x = OUnit /\ ev = [EClear m] /\ log_of st' m = [] /\
  (forall m', func_of st' m' = func_of st m') /\
  (forall m', m' <> m -> log_of st' m' = log_of st m').
Proof.
  intros Hw Hf. simpl. unfold do_reset. rewrite Hw, Hf. repeat split.
  - rewrite clear_log. now rewrite seqb_refl.
  - intros m'. apply clear_func.
  - intros m' N. rewrite clear_log. assert (E : seqb m m' = false) by (apply seqb_neq; congruence). now rewrite E.
Qed.

Lemma reset_all_isolated fuel d st :
  with_resets (mopts d) = true ->
  let '(st', x, ev) := step fuel d st ResetAll in
  x = OUnit /\ ev = map (fun sg => EClear (mname sg)) (methods d) /\
  (forall m, In m (map mname (methods d)) -> log_of st' m = []) /\
  (forall m, func_of st' m = func_of st m) /\
  (forall m, ~ In m (map mname (methods d)) -> log_of st' m = log_of st m).
Proof.
  intros Hw. simpl. unfold do_reset_all. rewrite Hw. unfold log_of, func_of. repeat split.
  - intros m Hm. rewrite clear_all_spec. apply smem_In in Hm. now rewrite Hm.
  - intros m. rewrite clear_all_spec. now destruct (smem _ _).
  - intros m Hm. rewrite clear_all_spec. apply smem_false in Hm. now rewrite Hm.
Qed.

Lemma no_resets_without_option fuel d st o :
  with_resets (mopts d) = false -> (o = ResetAll \/ exists m, o = ResetM m) ->
  step fuel d st o = (st, ONoMethod, []).
Proof. intros Hw [->|[m ->]]; simpl; unfold do_reset, do_reset_all; now rewrite Hw. Qed.

(* a nested reset is the same operation as a top-level one *)
Lemma nested_reset_same call fuel d st :
  (forall m, nstep call d st (NResetM m) = step fuel d st (ResetM m)) /\
  nstep call d st NResetAll = step fuel d st ResetAll /\
  (forall m, nstep call d st (NCalls m) = step fuel d st (Calls m)).
Proof. repeat split. Qed.

(* unknown methods / resets without the option / ill-typed calls / nil panics change nothing *)
Lemma rejected_no_change fuel d st o :
  let '(st', x, _) := step fuel d st o in
  (x = ONoMethod \/ x = OIllTyped \/ (exists msg, x = OPanicNil msg)) -> st' = st.
Proof.
  destruct o as [m a|m|m| |m f]; simpl.
  - destruct fuel as [|f]; simpl; [auto|].
    destruct (find_method (methods d) m) as [s|]; [|auto]. destruct (pack s a) as [vals|]; [|auto].
    destruct (func_of st m) as [g|].
    + assert (R : forall r : result, ((exists rs, snd (fst r) = ORet rs) \/ snd (fst r) = OPanicUser \/ snd (fst r) = OOutOfFuel) ->
                  let '(st', x, _) := r in (x = ONoMethod \/ x = OIllTyped \/ (exists msg, x = OPanicNil msg)) -> st' = st).
      { intros [[st' x] ev]; simpl. intros [[rs ->]|[->| ->]] [H|[H|[? H]]]; discriminate. }
      destruct (stub_impl (mopts d)); apply R, run_script_out.
    + destruct (stub_impl (mopts d)); auto. intros [H|[H|[? H]]]; discriminate.
  - unfold do_calls. destruct (find_method (methods d) m); auto.
  - unfold do_reset. destruct (with_resets (mopts d)); [|auto]. destruct (find_method (methods d) m); [|auto].
    intros [H|[H|[? H]]]; discriminate.
  - unfold do_reset_all. destruct (with_resets (mopts d)); [|auto]. intros [H|[H|[? H]]]; discriminate.
  - destruct (find_method (methods d) m); [|auto]. intros [H|[H|[? H]]]; discriminate.
Qed.

(* ---------- statements over whole histories ---------- *)
Lemma forward_once fuel f d st0 pre m a s vals g :
  find_method (methods d) m = Some s -> pack s a = Some vals ->
  last_func d m (func_of st0 m) pre = Some g ->
  let st := final fuel d st0 pre in
  step (S f) d st (Call m a) =
  run_script (nstep (callf f d) d) (g vals) (upd st m (Some g, log_of st m ++ [mkrec s vals])) [ERecord m vals; EInvoke m vals].
Proof. intros Hm Hp Hl st. apply call_entry; auto. unfold st. now rewrite func_final. Qed.

Lemma forward_once_plain fuel f d st0 pre m a s vals g r :
  find_method (methods d) m = Some s -> pack s a = Some vals ->
  last_func d m (func_of st0 m) pre = Some g -> g vals = SRet r ->
  let st := final fuel d st0 pre in
  step (S f) d st (Call m a) = (upd st m (Some g, log_of st m ++ [mkrec s vals]), of_ures r, [ERecord m vals; EInvoke m vals]).
Proof. intros Hm Hp Hl Hr st. apply call_plain; auto. unfold st. now rewrite func_final. Qed.

Lemma nil_panics_history fuel f d st0 pre m a s vals :
  find_method (methods d) m = Some s -> pack s a = Some vals ->
  last_func d m (func_of st0 m) pre = None -> stub_impl (mopts d) = false ->
  let st := final fuel d st0 pre in
  step (S f) d st (Call m a) = (st, OPanicNil (nil_msg d m), []).
Proof. intros Hm Hp Hl Hs st. apply (call_nil_panics f d st m a s vals); auto. unfold st. now rewrite func_final. Qed.

Lemma stub_history fuel f d st0 pre m a s vals :
  find_method (methods d) m = Some s -> pack s a = Some vals ->
  last_func d m (func_of st0 m) pre = None -> stub_impl (mopts d) = true ->
  let st := final fuel d st0 pre in
  step (S f) d st (Call m a) = (upd st m (None, log_of st m ++ [mkrec s vals]), ORet (repeat vzero (mnres s)), [ERecord m vals]).
Proof. intros Hm Hp Hl Hs st. apply call_stub; auto. unfold st. now rewrite func_final. Qed.

Lemma calls_after_clear fuel d st ops m s e1 e2 :
  find_method (methods d) m = Some s ->
  all_events (trace fuel d st ops) = e1 ++ EClear m :: e2 ->
  forallb (fun e => negb (clears m e)) e2 = true ->
  snd (fst (step fuel d (final fuel d st ops) (Calls m))) = ORecords (map (mkrec s) (tuples m e2)).
Proof.
  intros Hm E H. rewrite (calls_pure fuel d _ m s Hm). simpl. rewrite (log_order fuel d st ops m e1 e2 E H).
  f_equal. apply map_ext. intros v. now apply rec_of_found.
Qed.

Lemma calls_no_clear fuel d ops m s :
  find_method (methods d) m = Some s ->
  forallb (fun e => negb (clears m e)) (all_events (trace fuel d init ops)) = true ->
  snd (fst (step fuel d (final fuel d init ops) (Calls m))) = ORecords (map (mkrec s) (tuples m (all_events (trace fuel d init ops)))) /\
  length (log_of (final fuel d init ops) m) = length (tuples m (all_events (trace fuel d init ops))).
Proof.
  intros Hm H. rewrite (calls_pure fuel d _ m s Hm). simpl. rewrite (log_order_init fuel d ops m H). split.
  - f_equal. apply map_ext. intros v. now apply rec_of_found.
  - apply map_length.
Qed.

(* where ERecord events come from: exactly the calls (top-level or nested) that got past the nil check.
   For a top-level call: *)
Lemma recorded_iff f d st m a s vals :
  find_method (methods d) m = Some s -> pack s a = Some vals ->
  let evs := snd (step (S f) d st (Call m a)) in
  match func_of st m, stub_impl (mopts d) with
  | None, false => evs = []
  | _, _ => exists rest, evs = ERecord m vals :: rest
  end.
Proof.
  intros Hm Hp. simpl. rewrite Hm, Hp.
  assert (R : forall ns sc st' evs0, exists rest, snd (run_script ns sc st' (ERecord m vals :: evs0)) = ERecord m vals :: rest).
  { intros ns sc. induction sc as [r|o k IH]; intros st' evs0; simpl.
    - destruct r; simpl; eauto.
    - destruct (ns st' o) as [[st1 x] ev1]. destruct x; try apply (IH _ st1 (evs0 ++ ev1 ++ [ENested o _])). simpl. eauto. }
  destruct (func_of st m) as [g|]; destruct (stub_impl (mopts d)); simpl; eauto.
Qed.

(* nothing but a call whose <M>Func is set runs user code *)
Lemma no_other_invocation fuel d st o :
  let evs := snd (step fuel d st o) in
  match o with
  | Call m a => func_of st m = None -> count_invokes evs = 0
  | _ => count_invokes evs = 0
  end.
Proof.
  destruct o as [m a|m|m| |m f]; simpl.
  - intros Hg. destruct fuel as [|f]; simpl; [reflexivity|].
    destruct (find_method (methods d) m) as [s|]; [|reflexivity]. destruct (pack s a) as [vals|]; [|reflexivity].
    rewrite Hg. destruct (stub_impl (mopts d)); reflexivity.
  - unfold do_calls. destruct (find_method _ _); reflexivity.
  - unfold do_reset. destruct (with_resets _); [destruct (find_method _ _)|]; reflexivity.
  - unfold do_reset_all. destruct (with_resets _); [|reflexivity]. simpl.
    unfold count_invokes. induction (methods d); simpl; auto.
  - destruct (find_method _ _); reflexivity.
Qed.

(* ---------- kept <M>Calls() results are values ---------- *)
Lemma tstep_kept_other fuel d ts t id :
  keeps_id id t = false -> snd (fst (fst (tstep fuel d ts t))) id = snd ts id.
Proof.
  destruct t as [o|id' m|id']; simpl; intros H.
  - destruct (step fuel d (fst ts) o) as [[st' x] ev]. reflexivity.
  - destruct (do_calls d (fst ts) m) as [[st' x] ev]. simpl.
    destruct x; try reflexivity. rewrite (Nat.eqb_sym id id'), H. reflexivity.
  - reflexivity.
Qed.

Lemma tfinal_kept fuel d ts l id :
  forallb (fun t => negb (keeps_id id t)) l = true -> snd (tfinal fuel d ts l) id = snd ts id.
Proof.
  revert ts; induction l as [|t r IH]; intros ts H; simpl; [reflexivity|].
  simpl in H. apply andb_true_iff in H as [Ht Hr]. apply negb_true_iff in Ht.
  rewrite IH by exact Hr. now apply tstep_kept_other.
Qed.

(* whatever happens afterwards - calls, nested calls, resets, function changes, other kept results - looking
   at a kept result again gives exactly the records <M>Calls() returned when it was kept *)
Lemma snapshots_are_values fuel d ts id m l rest :
  snd (fst (tstep fuel d ts (TKeep id m))) = ORecords l ->
  forallb (fun t => negb (keeps_id id t)) rest = true ->
  let ts1 := fst (fst (tstep fuel d ts (TKeep id m))) in
  tstep fuel d (tfinal fuel d ts1 rest) (TRecheck id) = (tfinal fuel d ts1 rest, ORecords l, []).
Proof.
  intros Hk Hr ts1. simpl. rewrite (tfinal_kept fuel d ts1 rest id Hr). unfold ts1. clear ts1.
  simpl in *. destruct (do_calls d (fst ts) m) as [[st' x] ev]. simpl in *. subst x. simpl.
  now rewrite Nat.eqb_refl.
Qed.

(* and what was kept is the log of that moment *)
Lemma keep_returns_log fuel d ts id m s :
  find_method (methods d) m = Some s ->
  tstep fuel d ts (TKeep id m) =
  ((fst ts, fun i => if Nat.eqb i id then Some (log_of (fst ts) m) else snd ts i), ORecords (log_of (fst ts) m), []).
Proof. intros H. simpl. unfold do_calls. rewrite H. reflexivity. Qed.
