(* Proofs about Mock/Matryer.v   (C04) *)
From Mk Require Import Lib.Bytes Mock.Matryer.

(* ---------- small facts ---------- *)
Lemma upd_same st m x : upd st m x m = x.
Proof. unfold upd. now rewrite seqb_refl. Qed.
Lemma upd_other st m x m' : m' <> m -> upd st m x m' = st m'.
Proof. unfold upd. intros H. apply seqb_neq in H. now rewrite H. Qed.

Lemma find_method_name l m s : find_method l m = Some s -> mname s = m /\ In s l.
Proof.
  induction l as [|x l IH]; simpl; [discriminate|].
  destruct (seqb m (mname x)) eqn:E.
  - intros H; injection H as <-. apply seqb_eq in E. split; [now symmetry | now left].
  - intros H. destruct (IH H) as [A Bn]. split; [exact A | now right].
Qed.
Lemma find_method_none l m : find_method l m = None <-> ~ In m (map mname l).
Proof.
  induction l as [|x l IH]; simpl; [split; [tauto | reflexivity]|].
  destruct (seqb m (mname x)) eqn:E.
  - apply seqb_eq in E. split; [discriminate | intros H; exfalso; apply H; now left].
  - apply seqb_neq in E. rewrite IH. split; [intros H [F|F]; [congruence | tauto] | tauto].
Qed.
Lemma find_method_some l m : In m (map mname l) -> exists s, find_method l m = Some s.
Proof.
  intros H. destruct (find_method l m) eqn:E; [eauto|]. apply find_method_none in E. contradiction.
Qed.

Lemma pack_length s a vals : pack s a = Some vals -> length vals = length (mparams s).
Proof.
  unfold pack. destruct (mvariadic s).
  - destruct (mparams s) as [|p ps] eqn:Ep; [discriminate|].
    destruct (packv (var a)) as [v|]; [|discriminate].
    destruct (Nat.eqb _ _) eqn:E; [|discriminate]. intros H; injection H as <-.
    apply Nat.eqb_eq in E. rewrite app_length. simpl in *. lia.
  - destruct (var a); try discriminate.
    destruct (Nat.eqb _ _) eqn:E; [|discriminate]. intros H; injection H as <-. now apply Nat.eqb_eq in E.
Qed.

(* the variadic parameter is one value: the packed (or spread) slice, in last position *)
Lemma pack_variadic s a vals :
  mvariadic s = true -> pack s a = Some vals ->
  exists v, packv (var a) = Some v /\ vals = fixed a ++ [v] /\ S (length (fixed a)) = length (mparams s).
Proof.
  unfold pack. intros ->. destruct (mparams s) as [|p ps]; [discriminate|].
  destruct (packv (var a)) as [v|]; [|discriminate].
  destruct (Nat.eqb _ _) eqn:E; [|discriminate]. intros H; injection H as <-.
  apply Nat.eqb_eq in E. exists v. auto.
Qed.
Lemma pack_plain s a vals : mvariadic s = false -> pack s a = Some vals -> vals = fixed a /\ var a = NoVar.
Proof.
  unfold pack. intros ->. destruct (var a); try discriminate.
  destruct (Nat.eqb _ _); [|discriminate]. intros H; injection H as <-. auto.
Qed.

Lemma combine_fst {A B} (l : list A) (r : list B) : length l = length r -> map fst (combine l r) = l.
Proof. revert r; induction l as [|x l IH]; destruct r; simpl; intros H; try discriminate; [reflexivity|]. f_equal. apply IH. lia. Qed.
Lemma combine_snd {A B} (l : list A) (r : list B) : length l = length r -> map snd (combine l r) = r.
Proof. revert r; induction l as [|x l IH]; destruct r; simpl; intros H; try discriminate; [reflexivity|]. f_equal. apply IH. lia. Qed.

(* fields: names are the exported parameter names in parameter order, values the arguments in the same order *)
Lemma fields_in_param_order s a vals :
  pack s a = Some vals ->
  map fst (mkrec s vals) = map exported (mparams s) /\ map snd (mkrec s vals) = vals /\
  length (mkrec s vals) = length (mparams s).
Proof.
  intros H. apply pack_length in H. unfold mkrec.
  assert (L : length (map exported (mparams s)) = length vals) by (rewrite map_length; lia).
  split; [now apply combine_fst | split; [now apply combine_snd|]].
  rewrite combine_length, map_length. lia.
Qed.

(* ---------- one call ---------- *)
Definition of_ures (r : ures) : out := match r with URet rs => ORet rs | UPanic => OPanicUser end.

Lemma call_forward d st m a s vals g :
  find_method (methods d) m = Some s -> pack s a = Some vals -> func_of st m = Some g ->
  step d st (Call m a) = (upd st m (Some g, log_of st m ++ [mkrec s vals]), of_ures (g vals), [EInvoke m vals]).
Proof.
  intros Hf Hp Hg. unfold step. rewrite Hf, Hp, Hg.
  destruct (stub_impl (mopts d)); destruct (g vals); reflexivity.
Qed.

Lemma call_nil_panics d st m a s vals :
  find_method (methods d) m = Some s -> pack s a = Some vals -> func_of st m = None ->
  stub_impl (mopts d) = false ->
  step d st (Call m a) = (st, OPanicNil (nil_msg d m), []).
Proof. intros Hf Hp Hg Hs. unfold step. now rewrite Hf, Hp, Hg, Hs. Qed.

Lemma call_stub d st m a s vals :
  find_method (methods d) m = Some s -> pack s a = Some vals -> func_of st m = None ->
  stub_impl (mopts d) = true ->
  step d st (Call m a) = (upd st m (None, log_of st m ++ [mkrec s vals]), ORet (repeat vzero (mnres s)), []).
Proof. intros Hf Hp Hg Hs. unfold step. now rewrite Hf, Hp, Hg, Hs. Qed.

Lemma nil_msg_names_func d m :
  exists pre post, nil_msg d m = pre ++ (m ++ B "Func") ++ post /\
                   pre = struct_name d ++ B "." /\
                   post = B ": method is nil but " ++ iface_name d ++ B "." ++ m ++ B " was just called".
Proof. unfold nil_msg. eexists _, _. split; [|split; reflexivity]. now rewrite <- !app_assoc. Qed.

(* nothing but a call with a non-nil function invokes anything, and then exactly once *)
Lemma events_shape d st o :
  let '(_, x, ev) := step d st o in
  match o with
  | Call m a =>
    match func_of st m, find_method (methods d) m with
    | Some g, Some s => match pack s a with
                        | Some vals => ev = [EInvoke m vals] /\ x = of_ures (g vals)
                        | None => ev = [] /\ x = OIllTyped
                        end
    | _, _ => ev = []
    end
  | _ => ev = []
  end.
Proof.
  destruct o as [m a|m|m| |m f]; simpl.
  - destruct (find_method (methods d) m) as [s|] eqn:Hf; [|destruct (func_of st m); reflexivity].
    destruct (pack s a) as [vals|] eqn:Hp; [|destruct (func_of st m); auto].
    destruct (func_of st m) as [g|] eqn:Hg.
    + destruct (stub_impl (mopts d)); destruct (g vals); auto.
    + destruct (stub_impl (mopts d)); reflexivity.
  - destruct (find_method (methods d) m); reflexivity.
  - destruct (with_resets (mopts d)); [destruct (find_method (methods d) m)|]; reflexivity.
  - destruct (with_resets (mopts d)); reflexivity.
  - destruct (find_method (methods d) m); reflexivity.
Qed.

(* reading the calls changes nothing *)
Lemma calls_pure d st m s :
  find_method (methods d) m = Some s -> step d st (Calls m) = (st, ORecords (log_of st m), []).
Proof. intros H. unfold step. now rewrite H. Qed.

(* ---------- resets ---------- *)
Lemma clear_all_spec l st m :
  fold_left (fun s sg => clear s (mname sg)) l st m =
  if smem m (map mname l) then (func_of st m, []) else st m.
Proof.
  revert st; induction l as [|x l IH]; intros st; simpl; [reflexivity|].
  rewrite IH. destruct (seqb m (mname x)) eqn:E.
  - apply seqb_eq in E; subst. unfold clear, func_of. rewrite upd_same. simpl. now destruct (smem _ _).
  - apply seqb_neq in E. unfold clear, func_of. rewrite upd_other by exact E. reflexivity.
Qed.

Lemma reset_one_isolated d st m s :
  with_resets (mopts d) = true -> find_method (methods d) m = Some s ->
  let '(st', x, ev) := step d st (ResetM m) in
  x = OUnit /\ ev = [] /\ log_of st' m = [] /\
  (forall m', func_of st' m' = func_of st m') /\
  (forall m', m' <> m -> log_of st' m' = log_of st m').
Proof.
  intros Hw Hf. unfold step. rewrite Hw, Hf. unfold clear, log_of, func_of.
  repeat split.
  - now rewrite upd_same.
  - intros m'. destruct (str_dec m' m) as [->|N]; [now rewrite upd_same | now rewrite upd_other].
  - intros m' N. now rewrite upd_other.
Qed.

Lemma reset_all_isolated d st :
  with_resets (mopts d) = true ->
  let '(st', x, ev) := step d st ResetAll in
  x = OUnit /\ ev = [] /\
  (forall m, In m (map mname (methods d)) -> log_of st' m = []) /\
  (forall m, func_of st' m = func_of st m) /\
  (forall m, ~ In m (map mname (methods d)) -> log_of st' m = log_of st m).
Proof.
  intros Hw. unfold step. rewrite Hw. unfold log_of, func_of. repeat split.
  - intros m Hm. rewrite clear_all_spec. apply smem_In in Hm. now rewrite Hm.
  - intros m. rewrite clear_all_spec. now destruct (smem _ _).
  - intros m Hm. rewrite clear_all_spec. apply smem_false in Hm. now rewrite Hm.
Qed.

Lemma no_resets_without_option d st o :
  with_resets (mopts d) = false -> (o = ResetAll \/ exists m, o = ResetM m) ->
  step d st o = (st, ONoMethod, []).
Proof. intros Hw [->|[m ->]]; unfold step; now rewrite Hw. Qed.

(* ---------- what one step does to one method's entry ---------- *)
Lemma step_func d st o m :
  func_of (fst (fst (step d st o))) m = last_func d m (func_of st m) [o].
Proof.
  destruct o as [m' a|m'|m'| |m' f]; simpl.
  - destruct (find_method (methods d) m') as [s|]; [|reflexivity].
    destruct (pack s a) as [vals|]; [|reflexivity].
    assert (K : forall (f : option ufunc) (l : list record), func_of st m' = f -> func_of (upd st m' (f, l)) m = func_of st m).
    { intros f l E. unfold func_of in *. destruct (str_dec m m') as [->|N]; [now rewrite upd_same | now rewrite upd_other]. }
    destruct (func_of st m') as [g|] eqn:Hg.
    + destruct (stub_impl (mopts d)); destruct (g vals); simpl; now apply K.
    + destruct (stub_impl (mopts d)); simpl; [now apply K | reflexivity].
  - destruct (find_method (methods d) m'); reflexivity.
  - destruct (with_resets (mopts d)); [|reflexivity]. destruct (find_method (methods d) m'); [|reflexivity].
    simpl. unfold clear, func_of. destruct (str_dec m m') as [->|N]; [now rewrite upd_same | now rewrite upd_other].
  - destruct (with_resets (mopts d)); [|reflexivity]. simpl. unfold func_of. rewrite clear_all_spec.
    now destruct (smem _ _).
  - destruct (find_method (methods d) m') as [s|] eqn:Hf; simpl.
    + destruct (seqb m' m) eqn:E.
      * apply seqb_eq in E; subst. rewrite Hf. simpl. unfold func_of. now rewrite upd_same.
      * simpl. apply seqb_neq in E. unfold func_of. rewrite upd_other by congruence. reflexivity.
    + destruct (seqb m' m) eqn:E; [|reflexivity]. apply seqb_eq in E; subst. now rewrite Hf.
Qed.

Lemma last_func_cons d m cur o ops : last_func d m cur (o :: ops) = last_func d m (last_func d m cur [o]) ops.
Proof. destruct o; simpl; try reflexivity. now destruct (_ && _). Qed.

Lemma func_final d st ops m : func_of (final d st ops) m = last_func d m (func_of st m) ops.
Proof.
  revert st; induction ops as [|o ops IH]; intros st; simpl; [reflexivity|].
  rewrite IH, step_func. symmetry. apply last_func_cons.
Qed.

Lemma step_log d st o m s :
  find_method (methods d) m = Some s ->
  let '(st', x, ev) := step d st o in
  log_of st' m = if resets d m o then []
                 else log_of st m ++ map (mkrec s) (tuples d m [(o, x, ev)]).
Proof.
  intros Hm. unfold tuples, resets.
  destruct o as [m' a|m'|m'| |m' f]; simpl; rewrite ?andb_false_r.
  - destruct (find_method (methods d) m') as [s'|] eqn:Hf; [|simpl; now rewrite app_nil_r].
    destruct (pack s' a) as [vals|] eqn:Hp; [|simpl; now rewrite app_nil_r].
    assert (K : forall (f : option ufunc),
               log_of (upd st m' (f, log_of st m' ++ [mkrec s' vals])) m =
               log_of st m ++ map (mkrec s) (if seqb m' m then match pack s a with Some y => [y] | None => [] end else [])).
    { intros f. unfold log_of. destruct (seqb m' m) eqn:E.
      - apply seqb_eq in E; subst. rewrite upd_same. simpl. rewrite Hm in Hf. injection Hf as <-. now rewrite Hp.
      - apply seqb_neq in E. rewrite upd_other by congruence. simpl. now rewrite app_nil_r. }
    destruct (func_of st m') as [g|] eqn:Hg.
    + destruct (stub_impl (mopts d)); destruct (g vals); simpl; rewrite K; rewrite Hm;
        destruct (seqb m' m); try reflexivity; destruct (pack s a); reflexivity.
    + destruct (stub_impl (mopts d)); simpl; [|now rewrite app_nil_r].
      rewrite K, Hm. destruct (seqb m' m); try reflexivity; destruct (pack s a); reflexivity.
  - destruct (find_method (methods d) m'); simpl; now rewrite app_nil_r.
  - destruct (with_resets (mopts d)) eqn:Hw; simpl; [|now rewrite app_nil_r].
    rewrite Hm, andb_true_r.
    destruct (find_method (methods d) m') as [s'|] eqn:Hf.
    + unfold clear, log_of. destruct (seqb m' m) eqn:E.
      * apply seqb_eq in E; subst. now rewrite upd_same.
      * apply seqb_neq in E. rewrite upd_other by congruence. simpl. now rewrite app_nil_r.
    + destruct (seqb m' m) eqn:E; [|simpl; now rewrite app_nil_r].
      apply seqb_eq in E; subst. congruence.
  - destruct (with_resets (mopts d)) eqn:Hw; simpl; [|now rewrite app_nil_r].
    unfold log_of. rewrite clear_all_spec.
    apply find_method_name in Hm as [Hn Hin]. assert (I : In m (map mname (methods d))) by (subst; now apply in_map).
    apply smem_In in I. now rewrite I.
  - destruct (find_method (methods d) m') as [s'|]; simpl; [|now rewrite app_nil_r].
    unfold log_of. destruct (str_dec m m') as [->|N]; [rewrite upd_same | rewrite upd_other by exact N]; simpl; now rewrite app_nil_r.
Qed.

Lemma final_app d st a b : final d st (a ++ b) = final d (final d st a) b.
Proof. revert st; induction a as [|o a IH]; intros st; simpl; [reflexivity | apply IH]. Qed.
Lemma trace_app d st a b : trace d st (a ++ b) = trace d st a ++ trace d (final d st a) b.
Proof.
  revert st; induction a as [|o a IH]; intros st; simpl; [reflexivity|].
  destruct (step d st o) as [[st' x] ev] eqn:E. simpl. now rewrite IH.
Qed.
Lemma filter_map_app {A B} (f : A -> option B) a b : filter_map f (a ++ b) = filter_map f a ++ filter_map f b.
Proof. induction a as [|x a IH]; simpl; [reflexivity|]. destruct (f x); simpl; now rewrite IH. Qed.

(* no reset of m in the history: the list only grows, by the tuples of the calls, in call order *)
Lemma log_grows d st ops m s :
  find_method (methods d) m = Some s ->
  forallb (fun o => negb (resets d m o)) ops = true ->
  log_of (final d st ops) m = log_of st m ++ map (mkrec s) (tuples d m (trace d st ops)).
Proof.
  intros Hm. revert st; induction ops as [|o ops IH]; intros st; simpl; [now rewrite app_nil_r|].
  intros H. apply andb_true_iff in H as [Ho H].
  pose proof (step_log d st o m s Hm) as L.
  destruct (step d st o) as [[st' x] ev] eqn:E. simpl.
  rewrite IH by exact H. apply negb_true_iff in Ho. rewrite Ho in L. rewrite L.
  rewrite <- app_assoc, <- map_app. f_equal. f_equal. unfold tuples.
  change ((o, x, ev) :: trace d st' ops) with ([(o, x, ev)] ++ trace d st' ops).
  now rewrite filter_map_app.
Qed.

Lemma reset_empties d st o m s :
  find_method (methods d) m = Some s -> resets d m o = true -> log_of (fst (fst (step d st o))) m = [].
Proof.
  intros Hm Hr. pose proof (step_log d st o m s Hm) as L.
  destruct (step d st o) as [[st' x] ev]. simpl. now rewrite Hr in L.
Qed.

(* the records are exactly the calls since the last reset, one per call, in call order *)
Lemma log_order d st pre r post m s :
  find_method (methods d) m = Some s ->
  resets d m r = true ->
  forallb (fun o => negb (resets d m o)) post = true ->
  log_of (final d st (pre ++ r :: post)) m
  = map (mkrec s) (tuples d m (trace d (final d st (pre ++ [r])) post)).
Proof.
  intros Hm Hr Hp. replace (pre ++ r :: post) with ((pre ++ [r]) ++ post) by now rewrite <- app_assoc.
  rewrite final_app, (log_grows d _ post m s Hm Hp).
  rewrite (final_app d st pre [r]). simpl. now rewrite (reset_empties d _ r m s Hm Hr).
Qed.

Lemma log_order_init d ops m s :
  find_method (methods d) m = Some s ->
  forallb (fun o => negb (resets d m o)) ops = true ->
  log_of (final d init ops) m = map (mkrec s) (tuples d m (trace d init ops)).
Proof. intros Hm Hp. now rewrite (log_grows d init ops m s Hm Hp). Qed.

(* a call is recorded iff it did not panic on the nil check: characterisation of [recorded] by the function in place *)
Lemma recorded_iff d st m a s vals :
  find_method (methods d) m = Some s -> pack s a = Some vals ->
  let '(st', x, ev) := step d st (Call m a) in
  recorded d m (Call m a, x, ev) =
  match func_of st m, stub_impl (mopts d) with None, false => None | _, _ => Some vals end.
Proof.
  intros Hm Hp. unfold step. rewrite Hm, Hp.
  destruct (func_of st m) as [g|]; destruct (stub_impl (mopts d)); simpl; try destruct (g vals); simpl;
    rewrite ?seqb_refl, ?Hm, ?Hp; reflexivity.
Qed.

(* unknown methods / resets without the option / ill-typed calls change nothing *)
Lemma rejected_no_change d st o :
  let '(st', x, _) := step d st o in
  (x = ONoMethod \/ x = OIllTyped \/ (exists msg, x = OPanicNil msg)) -> st' = st.
Proof.
  destruct o as [m a|m|m| |m f]; simpl.
  - destruct (find_method (methods d) m) as [s|]; [|auto]. destruct (pack s a) as [vals|]; [|auto].
    destruct (func_of st m) as [g|]; destruct (stub_impl (mopts d)); try destruct (g vals); auto;
      intros [H|[H|[? H]]]; discriminate.
  - destruct (find_method (methods d) m); auto.
  - destruct (with_resets (mopts d)); [|auto]. destruct (find_method (methods d) m); [|auto].
    intros [H|[H|[? H]]]; discriminate.
  - destruct (with_resets (mopts d)); [|auto]. intros [H|[H|[? H]]]; discriminate.
  - destruct (find_method (methods d) m); [|auto]. intros [H|[H|[? H]]]; discriminate.
Qed.

(* ---------- statements over whole histories ---------- *)
Lemma forward_once d st0 pre m a s vals g :
  find_method (methods d) m = Some s -> pack s a = Some vals ->
  last_func d m (func_of st0 m) pre = Some g ->
  let st := final d st0 pre in
  step d st (Call m a) = (upd st m (Some g, log_of st m ++ [mkrec s vals]), of_ures (g vals), [EInvoke m vals]).
Proof. intros Hm Hp Hl st. apply call_forward; auto. unfold st. now rewrite func_final. Qed.

Lemma nil_panics_history d st0 pre m a s vals :
  find_method (methods d) m = Some s -> pack s a = Some vals ->
  last_func d m (func_of st0 m) pre = None -> stub_impl (mopts d) = false ->
  let st := final d st0 pre in
  step d st (Call m a) = (st, OPanicNil (nil_msg d m), []).
Proof. intros Hm Hp Hl Hs st. apply (call_nil_panics d st m a s vals); auto. unfold st. now rewrite func_final. Qed.

Lemma stub_history d st0 pre m a s vals :
  find_method (methods d) m = Some s -> pack s a = Some vals ->
  last_func d m (func_of st0 m) pre = None -> stub_impl (mopts d) = true ->
  let st := final d st0 pre in
  step d st (Call m a) = (upd st m (None, log_of st m ++ [mkrec s vals]), ORet (repeat vzero (mnres s)), []).
Proof. intros Hm Hp Hl Hs st. apply call_stub; auto. unfold st. now rewrite func_final. Qed.

Lemma calls_after_reset d st pre r post m s :
  find_method (methods d) m = Some s -> resets d m r = true ->
  forallb (fun o => negb (resets d m o)) post = true ->
  snd (fst (step d (final d st (pre ++ r :: post)) (Calls m)))
  = ORecords (map (mkrec s) (tuples d m (trace d (final d st (pre ++ [r])) post))).
Proof. intros Hm Hr Hp. rewrite (calls_pure d _ m s Hm). simpl. now rewrite (log_order d st pre r post m s). Qed.

Lemma calls_no_reset d ops m s :
  find_method (methods d) m = Some s ->
  forallb (fun o => negb (resets d m o)) ops = true ->
  snd (fst (step d (final d init ops) (Calls m))) = ORecords (map (mkrec s) (tuples d m (trace d init ops))).
Proof. intros Hm Hp. rewrite (calls_pure d _ m s Hm). simpl. now rewrite (log_order_init d ops m s). Qed.

(* one record per recorded call *)
Lemma record_count d ops m s :
  find_method (methods d) m = Some s ->
  forallb (fun o => negb (resets d m o)) ops = true ->
  length (log_of (final d init ops) m) = length (tuples d m (trace d init ops)).
Proof. intros Hm Hp. rewrite (log_order_init d ops m s Hm Hp). apply map_length. Qed.
