(* Proofs about Mock/Conc.v   (C05) *)
From Coq Require Import Permutation.
From Mk Require Import Lib.Bytes Mock.Conc.

(* ---------- lists ---------- *)
Lemma nth_upd_eq {A} (l : list A) n x t : nth_error l n = Some t -> nth_error (upd l n x) n = Some x.
Proof. revert n; induction l as [|a l IH]; destruct n; simpl; intros H; try discriminate; auto. Qed.
Lemma nth_upd_neq {A} (l : list A) n m x : n <> m -> nth_error (upd l n x) m = nth_error l m.
Proof. revert n m; induction l as [|a l IH]; destruct n, m; simpl; intros H; auto; try congruence. Qed.
Lemma upd_length {A} (l : list A) n x : length (upd l n x) = length l.
Proof. revert n; induction l as [|a l IH]; destruct n; simpl; auto. Qed.
Lemma forallb_nth {A} (f : A -> bool) l i x : forallb f l = true -> nth_error l i = Some x -> f x = true.
Proof. intros H E. apply nth_error_In in E. rewrite forallb_forall in H. auto. Qed.
Lemma nth_upd_cases {A} (l : list A) n x t j tj :
  nth_error l n = Some t -> nth_error (upd l n x) j = Some tj ->
  (j = n /\ tj = x) \/ (j <> n /\ nth_error l j = Some tj).
Proof.
  intros Et E. destruct (Nat.eq_dec j n) as [->|Hn].
  - rewrite (nth_upd_eq _ _ _ _ Et) in E. injection E as <-. auto.
  - rewrite nth_upd_neq in E by congruence. auto.
Qed.

(* ---------- the specification side ---------- *)
Lemma since_reset_snoc m evs e : since_reset m (evs ++ [e]) = eff m (since_reset m evs) e.
Proof. unfold since_reset. now rewrite fold_left_app. Qed.

(* ---------- invariant ---------- *)
Definition excl (l : list thread) : Prop :=
  forall i j ti tj m, nth_error l i = Some ti -> nth_error l j = Some tj -> i <> j ->
    holds (h ti) m = Some true -> holds (h tj) m = None.

Record Inv (s : state) (evs : list event) : Prop := {
  inv_excl : excl (ths s);
  inv_wl : forall i t, nth_error (ths s) i = Some t -> wl (h t) (prog t) = true;
  inv_tmp : forall i t m, nth_error (ths s) i = Some t -> h t = HW m true -> tmp t = log s m;
  inv_log : forall m, log s m = since_reset m evs }.

Lemma inv_update s evs n t t' lg' e :
  Inv s evs -> nth_error (ths s) n = Some t ->
  wl (h t') (prog t') = true ->
  (forall m, holds (h t') m = Some true -> forall j tj, j <> n -> nth_error (ths s) j = Some tj -> holds (h tj) m = None) ->
  (forall m j tj, j <> n -> nth_error (ths s) j = Some tj -> holds (h tj) m = Some true -> holds (h t') m = None) ->
  (forall m, h t' = HW m true -> tmp t' = lg' m) ->
  (forall j tj m, j <> n -> nth_error (ths s) j = Some tj -> h tj = HW m true -> lg' m = log s m) ->
  (forall m, lg' m = eff m (log s m) e) ->
  Inv {| ths := upd (ths s) n t'; log := lg' |} (evs ++ [e]).
Proof.
  intros [Hex Hwl Htmp Hlog] Et W O1 O2 O3 O4 O5. constructor; simpl.
  - intros i j ti tj m Ei Ej Hij Hh.
    destruct (nth_upd_cases _ _ _ _ _ _ Et Ei) as [[-> ->]|[Ni Ei']];
    destruct (nth_upd_cases _ _ _ _ _ _ Et Ej) as [[-> ->]|[Nj Ej']]; try congruence.
    + exact (O1 m Hh j tj Nj Ej').
    + exact (O2 m i ti Ni Ei' Hh).
    + exact (Hex i j ti tj m Ei' Ej' Hij Hh).
  - intros i ti Ei. destruct (nth_upd_cases _ _ _ _ _ _ Et Ei) as [[-> ->]|[Ni Ei']]; eauto.
  - intros i ti m Ei Hh. destruct (nth_upd_cases _ _ _ _ _ _ Et Ei) as [[-> ->]|[Ni Ei']]; [auto|].
    rewrite (O4 _ _ _ Ni Ei' Hh). eauto.
  - intros m. rewrite since_reset_snoc, O5, Hlog. reflexivity.
Qed.

Lemma holds_HW m f m' : holds (HW m f) m' = Some true -> m' = m.
Proof. simpl. destruct (Nat.eqb m m') eqn:E; [apply Nat.eqb_eq in E; auto | discriminate]. Qed.
Lemma holds_HW_self m f : holds (HW m f) m = Some true.
Proof. simpl. now rewrite Nat.eqb_refl. Qed.

(* obligations 2 and 3 of [inv_update] when the stepping thread holds what it held before *)
Lemma same_holds_ok s n t hh :
  excl (ths s) -> nth_error (ths s) n = Some t -> (forall m, holds hh m = holds (h t) m) ->
  (forall m, holds hh m = Some true -> forall j tj, j <> n -> nth_error (ths s) j = Some tj -> holds (h tj) m = None) /\
  (forall m j tj, j <> n -> nth_error (ths s) j = Some tj -> holds (h tj) m = Some true -> holds hh m = None).
Proof.
  intros Hex Et Hs. split.
  - intros m Hh j tj Nj Ej. rewrite Hs in Hh. eapply (Hex n j t tj m); eauto.
  - intros m j tj Nj Ej Hh. rewrite Hs. eapply (Hex j n tj t m); eauto.
Qed.

Lemma step_inv s evs n s' i : Inv s evs -> step s n = Some (s', i) -> Inv s' (evs ++ [(n, i)]).
Proof.
  intros HI Hs. pose proof HI as [Hex Hwl Htmp Hlog]. unfold step in Hs.
  destruct (nth_error (ths s) n) as [t|] eqn:Et; [|discriminate].
  destruct (prog t) as [|i0 p] eqn:Ep; [discriminate|].
  pose proof (Hwl _ _ Et) as Wt. rewrite Ep in Wt.
  assert (Same : forall hh, (forall m, holds hh m = holds (h t) m) -> _) by (intros hh; exact (same_holds_ok s n t hh Hex Et)).
  assert (Mine : forall m j tj, holds (h t) m = Some true -> j <> n -> nth_error (ths s) j = Some tj -> forall f, h tj = HW m f -> False).
  { intros m j tj X Nj Ej f Hh. pose proof (Hex n j t tj m Et Ej ltac:(congruence) X) as Y.
    rewrite Hh, holds_HW_self in Y. discriminate. }
  destruct i0 as [m|m|m|m|m|m v|m|m|m|m| |k]; destruct (h t) as [|m' fr|m'] eqn:Eh; simpl in Wt; try discriminate Wt;
    try (destruct fr; try discriminate Wt);
    try (apply andb_true_iff in Wt as [Em Wt]; apply Nat.eqb_eq in Em; subst m');
    simpl in Hs; rewrite ?Nat.eqb_refl in Hs.
  (* Lock *)
  1: { destruct (forallb (free_of m) (ths s)) eqn:Efa; [|discriminate]. injection Hs as <- <-.
    eapply (inv_update s evs n t); [exact HI | exact Et | exact Wt | simpl | simpl | simpl | simpl | simpl].
    + intros m0 Hh j tj Nj Ej. destruct (Nat.eqb m m0) eqn:E; [|discriminate]. apply Nat.eqb_eq in E; subst m0.
      pose proof (forallb_nth _ _ _ _ Efa Ej) as F. unfold free_of in F. destruct (holds (h tj) m); [discriminate | reflexivity].
    + intros m0 j tj Nj Ej Hh. destruct (Nat.eqb m m0) eqn:E; [|reflexivity]. apply Nat.eqb_eq in E; subst m0.
      pose proof (forallb_nth _ _ _ _ Efa Ej) as F. unfold free_of in F. rewrite Hh in F. discriminate.
    + intros m0 Hh; discriminate.
    + reflexivity.
    + reflexivity.
  }
  (* Unlock, both fresh values *)
  1: { injection Hs as <- <-.
    eapply (inv_update s evs n t); [exact HI | exact Et | exact Wt | simpl | simpl | simpl | simpl | simpl];
      try discriminate; try reflexivity; try (intros; discriminate).
  }
  1: { injection Hs as <- <-.
    eapply (inv_update s evs n t); [exact HI | exact Et | exact Wt | simpl | simpl | simpl | simpl | simpl];
      try discriminate; try reflexivity; try (intros; discriminate).
  }
  (* RLock *)
  1: { destruct (forallb (not_w m) (ths s)) eqn:Efa; [|discriminate]. injection Hs as <- <-.
    eapply (inv_update s evs n t); [exact HI | exact Et | exact Wt | simpl | simpl | simpl | simpl | simpl].
    + intros m0 Hh. destruct (Nat.eqb m m0); discriminate.
    + intros m0 j tj Nj Ej Hh. destruct (Nat.eqb m m0) eqn:E; [|reflexivity]. apply Nat.eqb_eq in E; subst m0.
      pose proof (forallb_nth _ _ _ _ Efa Ej) as F. unfold not_w in F. rewrite Hh in F. discriminate.
    + intros m0 Hh; discriminate.
    + reflexivity.
    + reflexivity.
  }
  (* RUnlock *)
  1: { injection Hs as <- <-.
    eapply (inv_update s evs n t); [exact HI | exact Et | exact Wt | simpl | simpl | simpl | simpl | simpl];
      try discriminate; try reflexivity; try (intros; discriminate).
  }
  (* ReadLog under HW (fresh true / false) and HR *)
  1: { injection Hs as <- <-. destruct (Same (HW m true)) as [S1 S2]; [reflexivity|].
    eapply (inv_update s evs n t); [exact HI | exact Et | exact Wt | exact S1 | exact S2 | simpl | simpl | simpl]; try reflexivity.
    intros m0 Hh; injection Hh as <-; reflexivity.
  }
  1: { injection Hs as <- <-. destruct (Same (HW m true)) as [S1 S2]; [reflexivity|].
    eapply (inv_update s evs n t); [exact HI | exact Et | exact Wt | exact S1 | exact S2 | simpl | simpl | simpl]; try reflexivity.
    intros m0 Hh; injection Hh as <-; reflexivity.
  }
  1: { injection Hs as <- <-. destruct (Same (HR m)) as [S1 S2]; [reflexivity|].
    eapply (inv_update s evs n t); [exact HI | exact Et | exact Wt | exact S1 | exact S2 | simpl | simpl | simpl]; try reflexivity.
    intros; discriminate.
  }
  (* WriteApp under HW m true *)
  1: { injection Hs as <- <-. destruct (Same (HW m false)) as [S1 S2]; [reflexivity|].
    assert (X : forall f, holds (HW m f) m = Some true) by (intros f; apply holds_HW_self).
    eapply (inv_update s evs n t); [exact HI | exact Et | exact Wt | exact S1 | exact S2 | simpl | simpl | simpl].
    + intros; discriminate.
    + intros j tj m0 Nj Ej Hh. unfold setlog. destruct (Nat.eqb m0 m) eqn:E; [|reflexivity].
      apply Nat.eqb_eq in E; subst m0. exfalso. exact (Mine m j tj (X _) Nj Ej _ Hh).
    + intros m0. unfold setlog, eff; simpl. rewrite (Nat.eqb_sym m0 m). destruct (Nat.eqb m m0) eqn:E; [|reflexivity].
      apply Nat.eqb_eq in E; subst m0. now rewrite (Htmp _ _ _ Et Eh).
  }
  (* WriteNil under HW (fresh true / false) *)
  1: { injection Hs as <- <-. destruct (Same (HW m false)) as [S1 S2]; [reflexivity|].
    assert (X : forall f, holds (HW m f) m = Some true) by (intros f; apply holds_HW_self).
    eapply (inv_update s evs n t); [exact HI | exact Et | exact Wt | exact S1 | exact S2 | simpl | simpl | simpl].
    + intros; discriminate.
    + intros j tj m0 Nj Ej Hh. unfold setlog. destruct (Nat.eqb m0 m) eqn:E; [|reflexivity].
      apply Nat.eqb_eq in E; subst m0. exfalso. exact (Mine m j tj (X _) Nj Ej _ Hh).
    + intros m0. unfold setlog, eff; simpl. rewrite (Nat.eqb_sym m0 m). now destruct (Nat.eqb m m0).
  }
  1: { injection Hs as <- <-. destruct (Same (HW m false)) as [S1 S2]; [reflexivity|].
    assert (X : forall f, holds (HW m f) m = Some true) by (intros f; apply holds_HW_self).
    eapply (inv_update s evs n t); [exact HI | exact Et | exact Wt | exact S1 | exact S2 | simpl | simpl | simpl].
    + intros; discriminate.
    + intros j tj m0 Nj Ej Hh. unfold setlog. destruct (Nat.eqb m0 m) eqn:E; [|reflexivity].
      apply Nat.eqb_eq in E; subst m0. exfalso. exact (Mine m j tj (X _) Nj Ej _ Hh).
    + intros m0. unfold setlog, eff; simpl. rewrite (Nat.eqb_sym m0 m). now destruct (Nat.eqb m m0).
  }
  (* the rest: held state, log and local copy unchanged *)
  all: injection Hs as <- <-;
    match type of Eh with _ = ?x => destruct (Same x) as [S1 S2]; [reflexivity|] end;
    (eapply (inv_update s evs n t); [exact HI | exact Et | exact Wt | exact S1 | exact S2 | simpl | simpl | simpl]);
    try reflexivity; try (intros; discriminate);
    try (intros m0 Hh; apply (Htmp _ _ _ Et); rewrite Eh; exact Hh).
Qed.

(* ---------- the shape of a step ---------- *)
Lemma step_shape s n s' i :
  step s n = Some (s', i) ->
  exists t p hh tm ou lg,
    nth_error (ths s) n = Some t /\ prog t = i :: p /\
    s' = {| ths := upd (ths s) n {| prog := p; h := hh; tmp := tm; outs := ou |}; log := lg |} /\
    (ou = outs t \/ exists m, i = Snap m /\ ou = outs t ++ [(m, log s m)]).
Proof.
  unfold step. destruct (nth_error (ths s) n) as [t|] eqn:Et; [|discriminate].
  destruct (prog t) as [|i0 p] eqn:Ep; [discriminate|].
  intros H. exists t, p.
  destruct i0; destruct (h t); simpl in H;
    repeat match type of H with context [if ?c then _ else _] => destruct c end;
    try discriminate H; injection H as <- <-; do 4 eexists;
    (split; [reflexivity | split; [exact Ep | split; [reflexivity|]]]);
    first [left; reflexivity | right; eexists; split; reflexivity].
Qed.

(* ---------- runs ---------- *)
Lemma run_inv s evs sched : Inv s evs -> Inv (fst (run s evs sched)) (snd (run s evs sched)).
Proof.
  revert s evs; induction sched as [|n r IH]; intros s evs HI; simpl; [exact HI|].
  destruct (step s n) as [[s' i]|] eqn:E; [|now apply IH].
  apply IH. eapply step_inv; eauto.
Qed.

Lemma nth_error_map_inv {A B} (f : A -> B) l i y :
  nth_error (map f l) i = Some y -> exists x, nth_error l i = Some x /\ y = f x.
Proof.
  revert i; induction l as [|a l IH]; destruct i; simpl; intros H; try discriminate.
  - injection H as <-. eauto.
  - eauto.
Qed.

Lemma init_inv ps : Forall (fun p => wl HNone p = true) ps -> Inv (init ps) [].
Proof.
  intros F. constructor; simpl.
  - intros i j ti tj m Ei Ej _ Hh. apply nth_error_map_inv in Ei as [p [_ ->]]. discriminate.
  - intros i t Ei. apply nth_error_map_inv in Ei as [p [Ep ->]]. simpl.
    rewrite Forall_forall in F. apply F. eapply nth_error_In; eauto.
  - intros i t m Ei Hh. apply nth_error_map_inv in Ei as [p [_ ->]]. discriminate.
  - reflexivity.
Qed.

Lemma exec_inv ps sched :
  Forall (fun p => wl HNone p = true) ps -> Inv (fst (exec ps sched)) (snd (exec ps sched)).
Proof. intros F. apply run_inv, init_inv, F. Qed.

(* ---------- race freedom ---------- *)
Lemma wl_access hh i p m w :
  wl hh (i :: p) = true -> acc_of i = Some (m, w) ->
  exists b, holds hh m = Some b /\ (w = true -> b = true).
Proof.
  intros W A. destruct i; simpl in A; try discriminate; injection A as <- <-;
    destruct hh as [|m' fr|m']; simpl in W; try discriminate;
    try (destruct fr; try discriminate);
    apply andb_true_iff in W as [E _]; apply Nat.eqb_eq in E; subst m'; simpl; rewrite Nat.eqb_refl; eauto.
Qed.

Lemma inv_race_free s evs : Inv s evs -> ~ race s.
Proof.
  intros [Hex Hwl _ _] (t1 & t2 & i1 & i2 & m & w1 & w2 & N & N1 & N2 & A1 & A2 & W).
  unfold next in N1, N2.
  destruct (nth_error (ths s) t1) as [th1|] eqn:E1; [|discriminate].
  destruct (nth_error (ths s) t2) as [th2|] eqn:E2; [|discriminate].
  destruct (prog th1) as [|j1 p1] eqn:P1; [discriminate|]. injection N1 as ->.
  destruct (prog th2) as [|j2 p2] eqn:P2; [discriminate|]. injection N2 as ->.
  pose proof (Hwl _ _ E1) as W1. rewrite P1 in W1.
  pose proof (Hwl _ _ E2) as W2. rewrite P2 in W2.
  destruct (wl_access _ _ _ _ _ W1 A1) as [b1 [H1 B1]].
  destruct (wl_access _ _ _ _ _ W2 A2) as [b2 [H2 B2]].
  apply orb_true_iff in W as [->| ->].
  - rewrite (B1 eq_refl) in H1. pose proof (Hex t1 t2 th1 th2 m E1 E2 N H1). congruence.
  - rewrite (B2 eq_refl) in H2. pose proof (Hex t2 t1 th2 th1 m E2 E1 ltac:(congruence) H2). congruence.
Qed.

(* ---------- executed ++ remaining = the programs ---------- *)
Definition Exec (ps : list (list instr)) (s : state) (evs : list event) : Prop :=
  Permutation (map snd evs ++ concat (map prog (ths s))) (concat ps).

Lemma upd_prog_perm l n t t' i p :
  nth_error l n = Some t -> prog t = i :: p -> prog t' = p ->
  Permutation (i :: concat (map prog (upd l n t'))) (concat (map prog l)).
Proof.
  revert n; induction l as [|a l IH]; destruct n; simpl; intros E P P'; try discriminate.
  - injection E as ->. rewrite P, P'. reflexivity.
  - etransitivity; [apply Permutation_middle|]. apply Permutation_app_head. now apply IH.
Qed.

Lemma step_exec ps s evs n s' i : Exec ps s evs -> step s n = Some (s', i) -> Exec ps s' (evs ++ [(n, i)]).
Proof.
  unfold Exec. intros HE Hs. apply step_shape in Hs as (t & p & hh & tm & ou & lg & Et & Ep & -> & _). simpl.
  rewrite map_app, <- app_assoc. simpl. etransitivity; [|exact HE].
  apply Permutation_app_head. eapply upd_prog_perm; eauto.
Qed.

Lemma run_exec ps s evs sched : Exec ps s evs -> Exec ps (fst (run s evs sched)) (snd (run s evs sched)).
Proof.
  revert s evs; induction sched as [|n r IH]; intros s evs HE; simpl; [exact HE|].
  destruct (step s n) as [[s' i]|] eqn:E; [|now apply IH].
  apply IH. eapply step_exec; eauto.
Qed.

Lemma init_exec ps : Exec ps (init ps) [].
Proof.
  unfold Exec, init. simpl. rewrite map_map. simpl. rewrite map_id. reflexivity.
Qed.

Lemma exec_exec ps sched : Exec ps (fst (exec ps sched)) (snd (exec ps sched)).
Proof. apply run_exec, init_exec. Qed.

Lemma exec_event_in ps s evs e : Exec ps s evs -> In e evs -> exists p, In p ps /\ In (snd e) p.
Proof.
  intros HE Hin. assert (I : In (snd e) (concat ps)).
  { eapply Permutation_in; [exact HE|]. apply in_or_app; left. now apply in_map. }
  apply in_concat in I as [p [A Bp]]. eauto.
Qed.

Lemma all_done_concat s : all_done s -> concat (map prog (ths s)) = [].
Proof.
  unfold all_done. induction (ths s) as [|a l IH]; simpl; intros H; [reflexivity|].
  rewrite (H a) by now left. simpl. apply IH. intros t Ht. apply H. now right.
Qed.

(* ---------- since_reset ---------- *)
Lemma fold_eff_noreset m l acc :
  (forall e, In e l -> is_reset m (snd e) = false) ->
  fold_left (eff m) l acc = acc ++ appends m (map snd l).
Proof.
  revert acc; induction l as [|e l IH]; intros acc H; simpl; [now rewrite app_nil_r|].
  rewrite IH by (intros e' He'; apply H; now right).
  assert (He : is_reset m (snd e) = false) by (apply H; now left).
  unfold eff, appends. simpl. destruct (snd e); simpl in *; try reflexivity.
  - destruct (Nat.eqb m0 m); simpl; [now rewrite <- app_assoc | reflexivity].
  - now rewrite He.
Qed.

Lemma since_reset_split m l1 l2 :
  (forall e, In e l2 -> is_reset m (snd e) = false) ->
  since_reset m (l1 ++ l2) = since_reset m l1 ++ appends m (map snd l2).
Proof. intros H. unfold since_reset. rewrite fold_left_app. now apply fold_eff_noreset. Qed.

Lemma appends_app m a b : appends m (a ++ b) = appends m a ++ appends m b.
Proof. unfold appends. apply flat_map_app. Qed.

(* the entries since the last reset are a suffix of all entries appended so far *)
Lemma since_reset_suffix m evs : exists pre, appends m (map snd evs) = pre ++ since_reset m evs.
Proof.
  induction evs as [|e evs IH] using rev_ind; [exists []; reflexivity|].
  destruct IH as [pre IH]. rewrite since_reset_snoc, map_app, appends_app, IH. simpl.
  unfold eff, appends. simpl. destruct (snd e); simpl; rewrite ?app_nil_r; eauto.
  - destruct (Nat.eqb m0 m); simpl; rewrite ?app_nil_r; [exists pre; now rewrite app_assoc | eauto].
  - destruct (Nat.eqb m0 m); [exists (pre ++ since_reset m evs); now rewrite app_nil_r | eauto].
Qed.

Lemma fold_eff_noop m l acc :
  (forall e, In e l -> acc_of (snd e) = None) -> fold_left (eff m) l acc = acc.
Proof.
  revert acc; induction l as [|e l IH]; intros acc H; simpl; [reflexivity|].
  rewrite IH by (intros e' He'; apply H; now right).
  assert (He : acc_of (snd e) = None) by (apply H; now left).
  unfold eff. destruct (snd e); simpl in He; try discriminate; reflexivity.
Qed.

(* ---------- no lost call ---------- *)
Definition all_appends (m : meth) (ps : list (list instr)) : list entry := appends m (concat ps).

Lemma perm_appends m a b : Permutation a b -> Permutation (appends m a) (appends m b).
Proof. unfold appends. apply Permutation_flat_map. Qed.

Lemma nodup_app_l {A} (a b : list A) : NoDup (a ++ b) -> NoDup a.
Proof.
  induction a as [|x a IH]; simpl; intros H; [constructor|]. inversion H as [|? ? Hx Hn]; subst.
  constructor; [intros Hin; apply Hx, in_or_app; now left | now apply IH].
Qed.
Lemma nodup_app_r {A} (a b : list A) : NoDup (a ++ b) -> NoDup b.
Proof. induction a as [|x a IH]; simpl; intros H; [exact H|]. inversion H; subst. now apply IH. Qed.

Lemma no_lost_call ps sched m :
  Forall (fun p => wl HNone p = true) ps ->
  let s := fst (exec ps sched) in let evs := snd (exec ps sched) in
  log s m = since_reset m evs /\
  incl (log s m) (all_appends m ps) /\
  (NoDup (all_appends m ps) -> NoDup (log s m)) /\
  (all_done s -> no_reset m ps -> Permutation (log s m) (all_appends m ps)).
Proof.
  intros F s evs. pose proof (exec_inv ps sched F) as [_ _ _ Hlog]. pose proof (exec_exec ps sched) as HE.
  fold s in Hlog, HE. fold evs in Hlog, HE.
  destruct (since_reset_suffix m evs) as [pre Hpre].
  assert (P : Permutation (appends m (map snd evs) ++ appends m (concat (map prog (ths s)))) (all_appends m ps)).
  { rewrite <- appends_app. apply perm_appends, HE. }
  split; [apply Hlog|]. split; [|split].
  - intros x Hx. rewrite Hlog in Hx. eapply Permutation_in; [exact P|].
    apply in_or_app; left. rewrite Hpre. apply in_or_app; now right.
  - intros ND. rewrite Hlog. apply (Permutation_NoDup (Permutation_sym P)) in ND.
    apply nodup_app_l in ND. rewrite Hpre in ND. now apply nodup_app_r in ND.
  - intros AD NR. rewrite Hlog. unfold Exec in HE. rewrite (all_done_concat s AD), app_nil_r in HE.
    assert (NRe : forall e, In e evs -> is_reset m (snd e) = false).
    { intros e He. destruct (exec_event_in ps s evs e) as [p [Hp Hi]];
        [unfold Exec; now rewrite (all_done_concat s AD), app_nil_r | exact He |]. eapply NR; eauto. }
    pose proof (since_reset_split m [] evs NRe) as Q. simpl in Q. rewrite Q.
    apply perm_appends, HE.
Qed.

(* ---------- snapshots ---------- *)
Definition Snaps (s : state) (evs : list event) : Prop :=
  forall t th m snap, nth_error (ths s) t = Some th -> In (m, snap) (outs th) ->
    exists k, k <= length evs /\ snap = since_reset m (firstn k evs).

Lemma firstn_app_le {A} k (a b : list A) : k <= length a -> firstn k (a ++ b) = firstn k a.
Proof. intros H. rewrite firstn_app. replace (k - length a) with 0 by lia. simpl. apply app_nil_r. Qed.

Lemma step_snaps s evs n s' i : Inv s evs -> Snaps s evs -> step s n = Some (s', i) -> Snaps s' (evs ++ [(n, i)]).
Proof.
  intros HI HS Hs. apply step_shape in Hs as (t & p & hh & tm & ou & lg & Et & Ep & -> & Ho).
  intros j th m snap Ej Hin. simpl in Ej. rewrite app_length. simpl.
  destruct (nth_upd_cases _ _ _ _ _ _ Et Ej) as [[-> ->]|[Nj Ej']].
  - simpl in Hin. destruct Ho as [->|[m0 [-> ->]]].
    + destruct (HS _ _ _ _ Et Hin) as [k [Hk ->]]. exists k. split; [lia|]. now rewrite firstn_app_le.
    + apply in_app_or in Hin as [Hin|[Hin|[]]].
      * destruct (HS _ _ _ _ Et Hin) as [k [Hk ->]]. exists k. split; [lia|]. now rewrite firstn_app_le.
      * injection Hin as <- <-. exists (length evs). split; [lia|].
        rewrite firstn_app_le, firstn_all by lia. apply (inv_log _ _ HI).
  - destruct (HS _ _ _ _ Ej' Hin) as [k [Hk ->]]. exists k. split; [lia|]. now rewrite firstn_app_le.
Qed.

Lemma run_snaps s evs sched : Inv s evs -> Snaps s evs -> Snaps (fst (run s evs sched)) (snd (run s evs sched)).
Proof.
  revert s evs; induction sched as [|n r IH]; intros s evs HI HS; simpl; [exact HS|].
  destruct (step s n) as [[s' i]|] eqn:E; [|now apply IH].
  apply IH; [eapply step_inv; eauto | eapply step_snaps; eauto].
Qed.

Lemma init_snaps ps : Snaps (init ps) [].
Proof. intros t th m snap E Hin. apply nth_error_map_inv in E as [p [_ ->]]. destruct Hin. Qed.

(* results already returned to a goroutine stay what they are *)
Lemma step_outs_grow s n s' i t th :
  step s n = Some (s', i) -> nth_error (ths s) t = Some th ->
  exists th', nth_error (ths s') t = Some th' /\ incl (outs th) (outs th').
Proof.
  intros Hs Et. apply step_shape in Hs as (t0 & p & hh & tm & ou & lg & Et0 & Ep & -> & Ho). simpl.
  destruct (Nat.eq_dec t n) as [->|N].
  - rewrite (nth_upd_eq _ _ _ _ Et0). eexists; split; [reflexivity|]. simpl.
    rewrite Et0 in Et. injection Et as <-.
    destruct Ho as [->|[m [_ ->]]]; [apply incl_refl | apply incl_appl, incl_refl].
  - rewrite nth_upd_neq by congruence. exists th. split; [exact Et | apply incl_refl].
Qed.

Lemma run_outs_grow s evs sched t th :
  nth_error (ths s) t = Some th ->
  exists th', nth_error (ths (fst (run s evs sched))) t = Some th' /\ incl (outs th) (outs th').
Proof.
  revert s evs th; induction sched as [|n r IH]; intros s evs th Et; simpl; [exists th; split; [exact Et | apply incl_refl]|].
  destruct (step s n) as [[s' i]|] eqn:E; [|now apply IH].
  destruct (step_outs_grow _ _ _ _ _ _ E Et) as [th1 [E1 I1]].
  destruct (IH s' (evs ++ [(n, i)]) th1 E1) as [th2 [E2 I2]].
  exists th2. split; [exact E2 | eapply incl_tran; eauto].
Qed.

Lemma run_app s evs a b :
  run s evs (a ++ b) = run (fst (run s evs a)) (snd (run s evs a)) b.
Proof.
  revert s evs; induction a as [|n a IH]; intros s evs; simpl; [reflexivity|].
  destruct (step s n) as [[s' i]|]; apply IH.
Qed.

Lemma snapshot_prefix ps sched sched' t th m snap :
  Forall (fun p => wl HNone p = true) ps ->
  nth_error (ths (fst (exec ps sched))) t = Some th -> In (m, snap) (outs th) ->
  (exists k, k <= length (snd (exec ps sched)) /\ snap = since_reset m (firstn k (snd (exec ps sched)))) /\
  (no_reset m ps -> exists rest, log (fst (exec ps (sched ++ sched'))) m = snap ++ rest).
Proof.
  intros F Et Hin. split.
  - eapply (run_snaps (init ps) [] sched (init_inv ps F) (init_snaps ps)); eauto.
  - intros NR. unfold exec in *. rewrite run_app.
    destruct (run_outs_grow _ (snd (run (init ps) [] sched)) sched' _ _ Et) as [th' [Et' Inc]].
    rewrite <- run_app in Et'. rewrite <- run_app.
    pose proof (run_snaps (init ps) [] (sched ++ sched') (init_inv ps F) (init_snaps ps) _ _ _ _ Et' (Inc _ Hin)) as [k [Hk ->]].
    pose proof (exec_inv ps (sched ++ sched') F) as [_ _ _ Hlog]. unfold exec in Hlog. rewrite Hlog.
    set (evs := snd (run (init ps) [] (sched ++ sched'))).
    assert (NRe : forall e, In e (skipn k evs) -> is_reset m (snd e) = false).
    { intros e He. destruct (exec_event_in ps _ evs e (exec_exec ps (sched ++ sched'))) as [p [Hp Hi]].
      - rewrite <- (firstn_skipn k evs). apply in_or_app; now right.
      - eapply NR; eauto. }
    pose proof (since_reset_split m (firstn k evs) (skipn k evs) NRe) as Q.
    rewrite firstn_skipn in Q. rewrite Q. eauto.
Qed.

(* ---------- the unlocked variant ---------- *)
Definition two_calls : list (list instr) := [call_body 0 1; call_body 0 2].
Definition losing_schedule : list nat := [0; 0; 0; 1; 1; 1; 0; 1; 0; 0; 1; 1].

Lemma unlocked_loses :
  let ps := map strip_locks two_calls in
  let s := fst (exec ps losing_schedule) in
  all_done s /\ no_reset 0 ps /\ log s 0 = [2] /\ all_appends 0 ps = [1; 2] /\
  ~ Permutation (log s 0) (all_appends 0 ps) /\
  race (fst (exec ps [0; 0; 0; 1; 1])).
Proof.
  simpl. split; [|split; [|split; [|split; [|split]]]].
  - intros t Ht. vm_compute in Ht. destruct Ht as [<-|[<-|[]]]; reflexivity.
  - intros p i Hp Hi. vm_compute in Hp. destruct Hp as [<-|[<-|[]]];
      repeat (destruct Hi as [<-|Hi]; [reflexivity|]); destruct Hi.
  - vm_compute. reflexivity.
  - vm_compute. reflexivity.
  - intros P. apply Permutation_length in P. vm_compute in P. discriminate.
  - exists 0, 1, (WriteApp 0 1), (ReadLog 0), 0, true, false. vm_compute. repeat split; discriminate.
Qed.

Lemma locked_same_programs_fine sched :
  let s := fst (exec two_calls sched) in
  ~ race s /\ (all_done s -> Permutation (log s 0) [1; 2]).
Proof.
  assert (F : Forall (fun p => wl HNone p = true) two_calls) by (repeat constructor).
  split.
  - eapply inv_race_free, exec_inv, F.
  - intros AD. destruct (no_lost_call two_calls sched 0 F) as (_ & _ & _ & P). apply P; [exact AD|].
    intros p i Hp Hi. destruct Hp as [<-|[<-|[]]]; repeat (destruct Hi as [<-|Hi]; [reflexivity|]); destruct Hi.
Qed.

(* ---------- testify wrappers ---------- *)
Lemma testify_wl_none p : forallb testify_instr p = true -> wl HNone p = true.
Proof.
  induction p as [|i p IH]; simpl; [reflexivity|]. intros H. apply andb_true_iff in H as [Hi Hp].
  destruct i; simpl in Hi; try discriminate; now apply IH.
Qed.

Lemma testify_no_shared ps :
  Forall (fun p => forallb testify_instr p = true) ps ->
  Forall (fun p => wl HNone p = true) ps /\
  forall sched, ~ race (fst (exec ps sched)) /\
                (forall m, log (fst (exec ps sched)) m = []) /\
                (forall e, In e (snd (exec ps sched)) -> acc_of (snd e) = None).
Proof.
  intros F. assert (W : Forall (fun p => wl HNone p = true) ps).
  { rewrite Forall_forall in *. intros p Hp. apply testify_wl_none, F, Hp. }
  split; [exact W|]. intros sched.
  assert (A : forall e, In e (snd (exec ps sched)) -> acc_of (snd e) = None).
  { intros e He. destruct (exec_event_in ps _ _ e (exec_exec ps sched) He) as [p [Hp Hi]].
    rewrite Forall_forall in F. pose proof (F p Hp) as Fp. rewrite forallb_forall in Fp.
    pose proof (Fp _ Hi) as T. destruct (snd e); simpl in T; try discriminate; reflexivity. }
  split; [eapply inv_race_free, exec_inv, W | split; [|exact A]].
  intros m. pose proof (exec_inv ps sched W) as [_ _ _ Hlog]. rewrite Hlog. unfold since_reset.
  now apply fold_eff_noop.
Qed.

(* the matryer bodies of the model are well locked, for every method and entry *)
Lemma template_bodies_wl m v :
  wl HNone (call_body m v) = true /\ wl HNone (calls_body m) = true /\ wl HNone (reset_body m) = true.
Proof. unfold call_body, calls_body, reset_body; simpl. rewrite !Nat.eqb_refl. auto. Qed.

(* a closure that writes a captured variable and is run by two goroutines (testify runs RunFn outside
   its mutex): location k is accessed without any lock - not well locked, not testify-local, and the
   two invocations race *)
Lemma shared_closure_races k :
  wl HNone [WriteNil k] = false /\ wl HNone [Snap k] = false /\
  testify_instr (WriteNil k) = false /\ testify_instr (Snap k) = false /\
  race (init [[WriteNil k]; [WriteNil k]]) /\ race (init [[Snap k]; [WriteNil k]]).
Proof.
  repeat split; try reflexivity.
  - exists 0, 1, (WriteNil k), (WriteNil k), k, true, true. repeat split; try reflexivity. discriminate.
  - exists 0, 1, (Snap k), (WriteNil k), k, false, true. repeat split; try reflexivity. discriminate.
Qed.
