(* Proofs about Mock/Testify.v (C03).  Statements are repeated in Properties/C03.v. *)
From Coq Require Import ZArith.
From Mk Require Import Lib.Bytes Lib.Fresh Mock.Testify.

(* ------------------------------------------------------------------ basic equalities *)
Lemma nlist_eqb_refl l : nlist_eqb l l = true.
Proof. induction l as [|x l IH]; simpl; [reflexivity|]. now rewrite Nat.eqb_refl, IH. Qed.

Lemma nlist_eqb_length a b : nlist_eqb a b = true -> length a = length b.
Proof.
  revert b; induction a as [|x a IH]; intros [|y b]; simpl; try discriminate; [reflexivity|].
  intros H. apply andb_true_iff in H as [_ H]. f_equal. now apply IH.
Qed.

Lemma dty_eqb_refl d : dty_eqb d d = true.
Proof.
  destruct d as [i f|p v r]; simpl.
  - now rewrite Nat.eqb_refl, Bool.eqb_reflx.
  - now rewrite !nlist_eqb_refl, Bool.eqb_reflx.
Qed.

Lemma upd_length {A} (l : list A) n x : length (upd l n x) = length l.
Proof. revert n; induction l as [|a l IH]; intros [|n]; simpl; auto. Qed.

Lemma nth_upd_eq {A} (l : list A) n x y : nth_error l n = Some y -> nth_error (upd l n x) n = Some x.
Proof. revert n; induction l as [|a l IH]; intros [|n]; simpl; intros H; try discriminate; eauto. Qed.

Lemma Forall2_len {A B} (R : A -> B -> Prop) l l' : Forall2 R l l' -> length l = length l'.
Proof. induction 1; simpl; auto. Qed.

Lemma nth_upd_neq {A} (l : list A) n m x : n <> m -> nth_error (upd l n x) m = nth_error l m.
Proof. revert n m; induction l as [|a l IH]; intros [|n] [|m]; simpl; intros H; auto; congruence. Qed.

(* ------------------------------------------------------------------ well-formed signatures, well-typed calls *)
(* mockery: every interface type is nillable; "error" is an interface *)
Definition wf_sty (T : sty) : Prop :=
  (s_iface T = true -> s_nillable T = true) /\ (s_error T = true -> s_iface T = true).

Record wf_sig (s : msig) : Prop := {
  wf_names : NoDup (map p_name (ms_params s));          (* Go: parameter names of the generated method are distinct *)
  wf_ptys : Forall (fun p => wf_sty (p_ty p)) (ms_params s);
  wf_rtys : Forall wf_sty (ms_results s);
  wf_var : ms_variadic s = true -> ms_params s <> [] /\ s_iface (last_ty s) = false   (* the variadic parameter has a slice type *)
}.

Section Proofs.
Variable impl : nat -> dty -> bool.
Variable beh : nat -> list value -> list value.

(* a Go value of static type T, boxed into interface{} *)
Definition wt_val (T : sty) (v : value) : Prop :=
  (v = VNil /\ s_iface T = true) \/ assert_ty impl T v = Some v.

(* the typed argument list of a call M(fixed..., elems...) *)
Definition typed_args (s : msig) (fixed elems : list value) : list value :=
  if ms_variadic s then fixed ++ [VSlice (dyn_of_sty (last_ty s)) elems] else fixed.

Record wt_call (s : msig) (fixed elems : list value) : Prop := {
  wc_fixed : Forall2 (fun p v => wt_val (p_ty p) v) (firstn (nfixed s) (ms_params s)) fixed;
  wc_elems : if ms_variadic s then Forall (wt_val (ms_elem s)) elems else elems = []
}.

(* what testify's Called receives, by mode (the specification of the packing) *)
Definition packed (unroll : bool) (s : msig) (fixed elems : list value) : list value :=
  if ms_variadic s then
    if unroll then fixed ++ elems
    else match elems with [] => fixed | _ => fixed ++ [VSlice (dyn_of_sty (last_ty s)) elems] end
  else fixed.

Lemma nfixed_le s : nfixed s <= length (ms_params s).
Proof. unfold nfixed. destruct (ms_variadic s); lia. Qed.

Lemma wt_call_len s fixed elems : wt_call s fixed elems -> length fixed = nfixed s.
Proof.
  intros [H _]. apply Forall2_len in H. rewrite firstn_length in H.
  pose proof (nfixed_le s). lia.
Qed.

Lemma typed_args_length s fixed elems : wf_sig s -> length fixed = nfixed s ->
  length (typed_args s fixed elems) = length (ms_params s).
Proof.
  intros W L. unfold typed_args, nfixed in *. destruct (ms_variadic s) eqn:V.
  - destruct (wf_var s W V) as [NE _]. rewrite app_length; simpl.
    destruct (ms_params s); [congruence | simpl in *; lia].
  - exact L.
Qed.

Lemma nth_error_app_here {A} (l r : list A) x : nth_error (l ++ x :: r) (length l) = Some x.
Proof. induction l; simpl; auto. Qed.

Lemma firstn_app_here {A} (l r : list A) : firstn (length l) (l ++ r) = l.
Proof. induction l; simpl; [destruct r; reflexivity | congruence]. Qed.

Lemma skipn_app_here {A} (l r : list A) : skipn (length l) (l ++ r) = r.
Proof. induction l; simpl; auto. Qed.

Lemma split_args_typed s fixed elems : wf_sig s -> length fixed = nfixed s ->
  split_args s (typed_args s fixed elems) =
  Some (fixed, if ms_variadic s then Some (dyn_of_sty (last_ty s), elems) else None).
Proof.
  intros W L. unfold split_args. rewrite (typed_args_length _ _ _ W L), Nat.eqb_refl. simpl.
  unfold typed_args. destruct (ms_variadic s); [|reflexivity].
  rewrite <- L, nth_error_app_here, firstn_app_here. reflexivity.
Qed.

(* C03_variadic_modes, packing half *)
Lemma pack_typed unroll s fixed elems : wf_sig s -> length fixed = nfixed s ->
  pack unroll s (typed_args s fixed elems) = Some (packed unroll s fixed elems).
Proof.
  intros W L. unfold pack, packed. rewrite (split_args_typed _ _ _ W L).
  destruct (ms_variadic s); [|reflexivity]. destruct unroll; [reflexivity|]. destruct elems; reflexivity.
Qed.

(* ------------------------------------------------------------------ the typed Run wrapper routes faithfully *)
Lemma unbox_wt T v : wf_sty T -> wt_val T v -> unbox_arg impl T v = Some v.
Proof.
  intros [WN _] [[-> I]|H]; unfold unbox_arg.
  - rewrite (WN I). unfold zero_of. now rewrite I.
  - destruct (s_nillable T); [|exact H]. destruct v; [discriminate | exact H | exact H].
Qed.

Lemma run_fixed_wt ps vs rest :
  Forall (fun p => wf_sty (p_ty p)) ps ->
  Forall2 (fun p v => wt_val (p_ty p) v) ps vs ->
  run_fixed impl ps (vs ++ rest) = Ok vs.
Proof.
  intros WF H. induction H as [|p v ps vs Hv H IH]; simpl; [reflexivity|].
  inversion WF as [|? ? Wp WF']; subst.
  rewrite (unbox_wt _ _ Wp Hv), (IH WF'). reflexivity.
Qed.

Lemma run_elems_wt E l : Forall (wt_val E) l -> run_elems impl E l = Ok l.
Proof.
  induction 1 as [|v l Hv H IH]; simpl; [reflexivity|].
  destruct Hv as [[-> I]|Hv].
  - unfold zero_of. rewrite I, IH. reflexivity.
  - destruct v; [discriminate | |]; rewrite Hv, IH; reflexivity.
Qed.

Lemma Forall_firstn {A} (P : A -> Prop) n l : Forall P l -> Forall P (firstn n l).
Proof. intros H; revert n; induction H; intros [|n]; simpl; auto. Qed.

Lemma assert_slice s l : wf_sig s -> ms_variadic s = true ->
  assert_ty impl (last_ty s) (VSlice (dyn_of_sty (last_ty s)) l) = Some (VSlice (dyn_of_sty (last_ty s)) l).
Proof.
  intros W V. destruct (wf_var s W V) as [_ NI]. unfold assert_ty. rewrite NI, dty_eqb_refl. reflexivity.
Qed.

(* The wrapper built by Run for method s in mode unroll, applied to what Called received for a
   well-typed call, hands the user callback exactly the typed arguments of the call. *)
Lemma run_typed_pack unroll s fixed elems :
  wf_sig s -> wt_call s fixed elems ->
  run_typed impl s unroll (packed unroll s fixed elems) = Ok (typed_args s fixed elems).
Proof.
  intros W C. pose proof (wt_call_len _ _ _ C) as L. destruct C as [CF CE].
  assert (WF : Forall (fun p => wf_sty (p_ty p)) (firstn (nfixed s) (ms_params s)))
    by (apply Forall_firstn, (wf_ptys s W)).
  unfold run_typed, packed, typed_args. destruct (ms_variadic s) eqn:V; simpl.
  - destruct unroll.
    + rewrite (run_fixed_wt _ _ _ WF CF). rewrite <- L, skipn_app_here, (run_elems_wt _ _ CE). reflexivity.
    + destruct elems as [|x elems].
      * rewrite <- (app_nil_r fixed) at 1. rewrite (run_fixed_wt _ _ _ WF CF).
        rewrite <- L. replace (nth_error fixed (length fixed)) with (@None value); [reflexivity|].
        symmetry. apply nth_error_None. lia.
      * rewrite (run_fixed_wt _ _ _ WF CF). rewrite <- L, nth_error_app_here.
        rewrite (assert_slice _ _ W V). reflexivity.
  - rewrite <- (app_nil_r fixed) at 1. rewrite (run_fixed_wt _ _ _ WF CF). reflexivity.
Qed.

(* ------------------------------------------------------------------ provider arguments: no capture by template locals *)
Lemma lookup_skip n k v e : n <> k -> lookup n ((k, v) :: e) = lookup n e.
Proof. intros H. simpl. apply seqb_neq in H. now rewrite H. Qed.

Lemma eval_names_skip ns k v e : ~ In k ns -> eval_names ns ((k, v) :: e) = eval_names ns e.
Proof.
  induction ns as [|n ns IH]; simpl; intros H; [reflexivity|].
  assert (n <> k) as N by (intros ->; apply H; now left).
  apply seqb_neq in N. rewrite N, IH; [reflexivity | tauto].
Qed.

Lemma eval_names_combine ns vs : NoDup ns -> length ns = length vs -> eval_names ns (combine ns vs) = Some vs.
Proof.
  revert vs; induction ns as [|n ns IH]; intros [|v vs] ND L; simpl in *; try discriminate; [reflexivity|].
  inversion ND as [|? ? NI ND']; subst. rewrite seqb_refl.
  rewrite eval_names_skip by exact NI. rewrite IH by (auto; lia). reflexivity.
Qed.

Lemma rf_local_fresh s : ~ In (rf_local s) (map p_name (ms_params s)).
Proof.
  intros H. apply (fresh_not_in 1 (B "returnFunc") (ret_local s :: scope_names s)).
  right. unfold scope_names. apply in_or_app. now left.
Qed.
Lemma ok_local_fresh s : ~ In (ok_local s) (map p_name (ms_params s)).
Proof.
  intros H. apply (fresh_not_in 1 (B "ok") (rf_local s :: ret_local s :: scope_names s)).
  right; right. unfold scope_names. apply in_or_app. now left.
Qed.

(* whatever the parameters are called (ok, returnFunc, ret, ...), the provider is called with
   the arguments of the call *)
Lemma provider_args_ok s prov vs : wf_sig s -> length vs = length (ms_params s) ->
  provider_args s prov vs = Some vs.
Proof.
  intros W L. unfold provider_args, provider_args_with.
  rewrite eval_names_skip by apply rf_local_fresh.
  rewrite eval_names_skip by apply ok_local_fresh.
  apply eval_names_combine; [apply (wf_names s W) | now rewrite map_length].
Qed.

(* ------------------------------------------------------------------ findExpectedCall refines "the first live match decides" *)
Definition decides (l : list expectation) (m : str) (args : list value) (i : nat) (e : expectation) : Prop :=
  nth_error l i = Some e /\ e_matches e m args = true /\ e_live e = true /\
  forall j e', j < i -> nth_error l j = Some e' -> e_matches e' m args && e_live e' = false.

Definition no_live_match (l : list expectation) (m : str) (args : list value) : Prop :=
  forall e, In e l -> e_matches e m args && e_live e = false.

Lemma find_expected_decides l m args i e : decides l m args i e ->
  forall k seen, fst (find_expected m args l k seen) = Some (k + i, e).
Proof.
  revert i; induction l as [|x l IH]; intros i (N & M & Lv & Pre) k seen.
  - destruct i; discriminate.
  - destruct i as [|i]; simpl in *.
    + injection N as ->. rewrite M, Lv. simpl. now rewrite Nat.add_0_r.
    + pose proof (Pre 0 x (Nat.lt_0_succ _) eq_refl) as P0.
      assert (D : decides l m args i e).
      { repeat split; auto. intros j e' Hj Hn. apply (Pre (S j) e'); [lia | exact Hn]. }
      destruct (e_matches x m args); simpl in P0.
      * rewrite P0. rewrite (IH _ D). f_equal. f_equal. lia.
      * rewrite (IH _ D). f_equal. f_equal. lia.
Qed.

Lemma find_expected_none l m args : no_live_match l m args ->
  forall k seen, fst (find_expected m args l k seen) = None.
Proof.
  induction l as [|x l IH]; intros H k seen; simpl; [reflexivity|].
  pose proof (H x (or_introl eq_refl)) as Hx.
  assert (H' : no_live_match l m args) by (intros e He; apply H; now right).
  destruct (e_matches x m args); simpl in Hx; [rewrite Hx|]; apply IH; exact H'.
Qed.

(* conversely: what findExpectedCall returns is the first live match *)
Lemma find_expected_sound l m args : forall k seen i e,
  fst (find_expected m args l k seen) = Some (i, e) -> exists j, i = k + j /\ decides l m args j e.
Proof.
  induction l as [|x l IH]; intros k seen i e H; simpl in H; [discriminate|].
  destruct (e_matches x m args) eqn:M.
  - destruct (e_live x) eqn:Lv.
    + simpl in H. injection H as <- <-. exists 0. split; [lia|]. repeat split; auto. intros j e' Hj; lia.
    + apply IH in H as (j & -> & (N & M' & L' & Pre)). exists (S j). split; [lia|].
      repeat split; auto. intros [|j'] e' Hj Hn; simpl in Hn.
      * injection Hn as <-. now rewrite M, Lv.
      * apply (Pre j' e'); [lia | exact Hn].
  - apply IH in H as (j & -> & (N & M' & L' & Pre)). exists (S j). split; [lia|].
    repeat split; auto. intros [|j'] e' Hj Hn; simpl in Hn.
    + injection Hn as <-. now rewrite M.
    + apply (Pre j' e'); [lia | exact Hn].
Qed.

Definition after_call (mk : mock) (i : nat) (e : expectation) (m : str) (args : list value) : mock :=
  {| m_exp := upd (m_exp mk) i (consume e);
     m_calls := m_calls mk ++ [{| c_method := m; c_args := args |}];
     m_test := m_test mk |}.

Lemma called_decides mk m args i e : decides (m_exp mk) m args i e ->
  called mk m args = (after_call mk i e m args, CRet e).
Proof.
  intros D. unfold called.
  pose proof (find_expected_decides _ _ _ _ _ D 0 false) as F.
  destruct (find_expected m args (m_exp mk) 0 false) as [o seen]. simpl in F. subst o. reflexivity.
Qed.

Lemma called_none mk m args : no_live_match (m_exp mk) m args -> m_test mk = true ->
  exists k, called mk m args = (mk, CFail k).
Proof.
  intros N T. unfold called.
  pose proof (find_expected_none _ _ _ N 0 false) as F.
  destruct (find_expected m args (m_exp mk) 0 false) as [o seen]. simpl in F. subst o. rewrite T. eauto.
Qed.

(* ------------------------------------------------------------------ the mock method when an expectation decides *)
Definition run_ok (unroll : bool) (s : msig) (e : expectation) : Prop :=
  e_run e = None \/ exists f, e_run e = Some (RunTyped s unroll f).

Definition run_events (s : msig) (e : expectation) (vs : list value) : list event :=
  match e_run e with Some (RunTyped _ _ f) => [EvCallback f vs] | None => [] end.

Lemma call_method_decided unroll s mk fixed elems i e :
  wf_sig s -> wt_call s fixed elems -> run_ok unroll s e ->
  decides (m_exp mk) (ms_name s) (packed unroll s fixed elems) i e ->
  let vs := typed_args s fixed elems in
  call_method impl beh unroll s mk vs =
  (after_call mk i e (ms_name s) (packed unroll s fixed elems),
   match ms_results s with
   | [] => (Returned [], run_events s e vs)
   | _ => let '(o, evs) := extract impl beh unroll s vs (e_ret e) in (o, run_events s e vs ++ evs)
   end).
Proof.
  intros W C R D vs. unfold call_method. subst vs.
  rewrite (pack_typed _ _ _ _ W (wt_call_len _ _ _ C)), (called_decides _ _ _ _ _ D).
  unfold run_events. destruct R as [R|[f R]]; rewrite R; simpl.
  - destruct (ms_results s); [reflexivity|]. destruct (extract _ _ _ _ _ _); reflexivity.
  - rewrite (run_typed_pack _ _ _ _ W C).
    destruct (ms_results s); [reflexivity|]. destruct (extract _ _ _ _ _ _); reflexivity.
Qed.

(* ------------------------------------------------------------------ return extraction *)
(* a configured return value that is not a function of a type the template writes down *)
Definition plain (v : value) : Prop := match v with VTok (DFn _ _ _) _ => False | _ => True end.

Lemma is_fn_of_plain d v : plain v -> forall ps va rs, d = DFn ps va rs -> is_fn_of d v = None.
Proof. intros P ps va rs ->. destruct v as [|[i f|p v' r] k|]; simpl in *; try reflexivity; tauto. Qed.

(* what the typed Return(...) accepts for a result of type T (a boxed value of type T), or an
   untyped nil where the template guards it *)
Definition ret_ok (T : sty) (v : value) : Prop :=
  (v = VNil /\ (s_nillable T = true \/ s_error T = true)) \/ assert_ty impl T v = Some v.
Definition unbox_ret (T : sty) (v : value) : value := match v with VNil => zero_of T | _ => v end.

Inductive ret_item := RPlain (v : value) | RProv (f : nat).
Definition item_value (s : msig) (T : sty) (it : ret_item) : value :=
  match it with RPlain v => v | RProv f => VTok (res_ty s T) f end.
Definition item_result (vs : list value) (T : sty) (it : ret_item) : value :=
  match it with RPlain v => unbox_ret T v | RProv f => hd VNil (beh f vs) end.
Definition item_events (vs : list value) (it : ret_item) : list event :=
  match it with RPlain _ => [] | RProv f => [EvCallback f vs] end.
Definition item_ok (T : sty) (it : ret_item) : Prop :=
  match it with RPlain v => plain v /\ ret_ok T v | RProv _ => True end.

Fixpoint map2 {A B C} (f : A -> B -> C) (a : list A) (b : list B) : list C :=
  match a, b with x :: a', y :: b' => f x y :: map2 f a' b' | _, _ => [] end.

Lemma extract_one_item s vs ret i T it :
  wf_sig s -> wf_sty T -> length vs = length (ms_params s) -> item_ok T it ->
  nth_error ret i = Some (item_value s T it) ->
  extract_one impl beh s vs ret i T = Ok (item_result vs T it, item_events vs it).
Proof.
  intros W [WN WE] L OK N. unfold extract_one, get. rewrite N.
  destruct it as [v|f]; cbn [item_value item_result item_events item_ok] in *.
  - destruct OK as [P R]. rewrite (is_fn_of_plain (res_ty s T) v P _ _ _ eq_refl).
    destruct R as [[-> [NL|ER]]|A].
    + destruct (s_error T) eqn:ER.
      * unfold unbox_ret, zero_of. rewrite (WE eq_refl). reflexivity.
      * rewrite NL. reflexivity.
    + rewrite ER. unfold unbox_ret, zero_of. rewrite (WE ER). reflexivity.
    + destruct v as [|d k|d l]; [discriminate | |];
      (destruct (s_error T); [rewrite A; reflexivity|]);
      (destruct (s_nillable T); rewrite A; reflexivity).
  - unfold is_fn_of. rewrite dty_eqb_refl. rewrite (provider_args_ok _ _ _ W L). reflexivity.
Qed.

Lemma extract_from_items s vs : wf_sig s -> length vs = length (ms_params s) ->
  forall Ts items pre rest, Forall wf_sty Ts -> Forall2 item_ok Ts items ->
  extract_from impl beh s vs (pre ++ map2 (item_value s) Ts items ++ rest) (length pre) Ts =
  (map2 (item_result vs) Ts items, flat_map (item_events vs) items, None).
Proof.
  intros W L Ts items pre rest WF H. revert pre WF.
  induction H as [|T it Ts items OK H IH]; intros pre WF; simpl; [reflexivity|].
  inversion WF as [|? ? WT WF']; subst.
  rewrite (extract_one_item s vs _ _ T it W WT L OK) by apply nth_error_app_here.
  specialize (IH (pre ++ [item_value s T it]) WF').
  rewrite app_length in IH. simpl in IH. rewrite Nat.add_1_r in IH.
  rewrite <- app_assoc in IH. simpl in IH. rewrite IH. reflexivity.
Qed.

Lemma res_ty_not_whole s T : 2 <= length (ms_results s) ->
  dty_eqb (res_ty s T) (whole_ty s) = false /\ dty_eqb (res_ty s T) (legacy_ty s) = false.
Proof.
  intros H. unfold res_ty, whole_ty, legacy_ty, dty_eqb.
  assert (N : nlist_eqb [s_id T] (map s_id (ms_results s)) = false).
  { destruct (nlist_eqb _ _) eqn:E; [|reflexivity]. apply nlist_eqb_length in E.
    rewrite map_length in E. simpl in E. lia. }
  rewrite N. split; [now rewrite andb_false_r | now rewrite andb_false_r].
Qed.

(* all results, whatever mix of plain values / nil / per-result providers was configured *)
Lemma extract_items unroll s vs items :
  wf_sig s -> length vs = length (ms_params s) -> ms_results s <> [] ->
  Forall2 item_ok (ms_results s) items ->
  extract impl beh unroll s vs (map2 (item_value s) (ms_results s) items) =
  (Returned (map2 (item_result vs) (ms_results s) items), flat_map (item_events vs) items).
Proof.
  intros W L NE H.
  assert (ER : extract_results impl beh s vs (map2 (item_value s) (ms_results s) items) =
               (Returned (map2 (item_result vs) (ms_results s) items), flat_map (item_events vs) items)).
  { unfold extract_results.
    pose proof (extract_from_items s vs W L _ _ [] [] (wf_rtys s W) H) as E. simpl in E.
    rewrite app_nil_r in E. rewrite E. reflexivity. }
  unfold extract.
  destruct (map2 (item_value s) (ms_results s) items) as [|r0 rest] eqn:EM.
  - destruct (ms_results s) as [|T Ts]; [congruence|]. inversion H; subst. discriminate EM.
  - destruct (Nat.leb 2 (length (ms_results s))) eqn:L2; [|exact ER].
    apply Nat.leb_le in L2.
    assert (NW : is_fn_of (whole_ty s) r0 = None /\ is_fn_of (legacy_ty s) r0 = None).
    { destruct (ms_results s) as [|T Ts] eqn:RS; [congruence|].
      inversion H as [|? it ? items' OK H']; subst.
      simpl in EM. injection EM as <- _.
      destruct it as [v|f]; cbn [item_value].
      - destruct OK as [P _].
        split; [apply (is_fn_of_plain (whole_ty s) v P _ _ _ eq_refl) | apply (is_fn_of_plain (legacy_ty s) v P _ _ _ eq_refl)].
      - destruct (res_ty_not_whole s T) as [A B]; [rewrite RS; exact L2|].
        unfold is_fn_of. rewrite A, B. split; reflexivity. }
    destruct NW as [NW NL]. rewrite NW.
    destruct (ms_variadic s && negb unroll); [rewrite NL|]; exact ER.
Qed.

(* every callback event produced by the extraction carries exactly the call's arguments *)
Definition cb_args_are (vs : list value) (ev : event) : Prop :=
  match ev with EvCallback _ a => a = vs | _ => True end.

Lemma extract_one_cb s vs ret i T r : wf_sig s -> length vs = length (ms_params s) ->
  extract_one impl beh s vs ret i T = Ok r -> Forall (cb_args_are vs) (snd r).
Proof.
  intros W L. unfold extract_one. destruct (get ret i) as [v|]; [|discriminate].
  destruct (is_fn_of (res_ty s T) v).
  - rewrite (provider_args_ok _ _ _ W L). intros H; injection H as <-. simpl. repeat constructor.
  - destruct (s_error T); [|destruct (s_nillable T)];
    repeat match goal with |- context [match ?x with _ => _ end] => destruct x end;
    intros H; try discriminate; injection H as <-; constructor.
Qed.

Lemma extract_from_cb s vs ret : wf_sig s -> length vs = length (ms_params s) ->
  forall Ts i, Forall (cb_args_are vs) (snd (fst (extract_from impl beh s vs ret i Ts))).
Proof.
  intros W L Ts. induction Ts as [|T Ts IH]; intros i; simpl; [constructor|].
  destruct (extract_one impl beh s vs ret i T) as [[v ev]|] eqn:E; [|constructor].
  specialize (IH (S i)). destruct (extract_from impl beh s vs ret (S i) Ts) as [[rs evs] p]. simpl in *.
  apply Forall_app. split; [|exact IH]. apply (extract_one_cb _ _ _ _ _ _ W L E).
Qed.

Lemma extract_cb unroll s vs ret : wf_sig s -> length vs = length (ms_params s) ->
  Forall (cb_args_are vs) (snd (extract impl beh unroll s vs ret)).
Proof.
  intros W L.
  assert (ER : Forall (cb_args_are vs) (snd (extract_results impl beh s vs ret))).
  { unfold extract_results. pose proof (extract_from_cb s vs ret W L (ms_results s) 0) as H.
    destruct (extract_from impl beh s vs ret 0 (ms_results s)) as [[rs evs] p]. simpl in H.
    destruct p; exact H. }
  assert (CP : forall r0 f, Forall (cb_args_are vs) (snd (call_provider beh s r0 f vs))).
  { intros r0 f. unfold call_provider. rewrite (provider_args_ok _ _ _ W L). simpl. repeat constructor. }
  unfold extract. destruct ret as [|r0 ret']; [constructor|].
  destruct (Nat.leb 2 (length (ms_results s))); [|exact ER].
  destruct (is_fn_of (whole_ty s) r0); [apply CP|].
  destruct (ms_variadic s && negb unroll); [|exact ER].
  destruct (is_fn_of (legacy_ty s) r0); [apply CP | exact ER].
Qed.

(* ------------------------------------------------------------------ Arguments.Diff *)
Fixpoint pad_rest (acts : list value) : bool :=
  match acts with [] => true | a :: t => posmatch VMissing a && pad_rest t end.
Fixpoint pad_match (exps acts : list value) {struct exps} : bool :=
  match exps with
  | [] => pad_rest acts
  | e :: exps' =>
      match acts with
      | [] => posmatch e VMissing && pad_match exps' []
      | a :: acts' => posmatch e a && pad_match exps' acts'
      end
  end.

Lemma diff_rest_zero acts : diff_rest acts = 0 <-> pad_rest acts = true.
Proof.
  induction acts as [|a t IH]; simpl; [tauto|]. unfold d1.
  destruct (posmatch VMissing a); simpl; [exact IH | split; [lia | discriminate]].
Qed.

(* zero differences = position-wise match, the shorter list padded with "(Missing)" *)
Lemma diff_zero exps acts : diff exps acts = 0 <-> pad_match exps acts = true.
Proof.
  revert acts; induction exps as [|e exps IH]; intros acts.
  - simpl. apply diff_rest_zero.
  - destruct acts as [|a acts]; simpl; unfold d1.
    + destruct (posmatch e VMissing); simpl; [apply IH | split; [lia | discriminate]].
    + destruct (posmatch e a); simpl; [apply IH | split; [lia | discriminate]].
Qed.

Lemma pad_match_same_length exps acts : length exps = length acts ->
  pad_match exps acts = true <-> Forall2 (fun e a => posmatch e a = true) exps acts.
Proof.
  revert acts; induction exps as [|e exps IH]; intros [|a acts] L; simpl in *; try discriminate.
  - split; [constructor | reflexivity].
  - rewrite andb_true_iff, IH by lia. split.
    + intros [A B]; constructor; assumption.
    + intros H; inversion H; subst; tauto.
Qed.

(* ------------------------------------------------------------------ Once / Times: who answers the next k calls *)
Definition step_l (l : list expectation) (m : str) (args : list value) : option nat * list expectation :=
  match fst (find_expected m args l 0 false) with
  | Some (i, e) => (Some i, upd l i (consume e))
  | None => (None, l)
  end.

Fixpoint iter_l (l : list expectation) (m : str) (args : list value) (k : nat) : list (option nat) :=
  match k with
  | 0 => []
  | S k' => let '(r, l') := step_l l m args in r :: iter_l l' m args k'
  end.

Definition osucc (o : option nat) : option nat := option_map S o.

(* the specification: expectations are consumed in registration order; a Times(n) expectation
   answers n calls, an unlimited one all further calls; afterwards the calls fail *)
Fixpoint schedule (l : list expectation) (m : str) (args : list value) (k : nat) : list (option nat) :=
  match l with
  | [] => repeat None k
  | e :: t =>
      if e_matches e m args && e_live e then
        if (e_rep e =? 0)%Z then repeat (Some 0) k
        else repeat (Some 0) (Nat.min k (Z.to_nat (e_rep e))) ++ map osucc (schedule t m args (k - Z.to_nat (e_rep e)))
      else map osucc (schedule t m args k)
  end.

Lemma find_expected_shift m args l : forall k seen seen',
  fst (find_expected m args l (S k) seen) =
  option_map (fun p => (S (fst p), snd p)) (fst (find_expected m args l k seen')).
Proof.
  induction l as [|x l IH]; intros k seen seen'; simpl; [reflexivity|].
  destruct (e_matches x m args); [destruct (e_live x); [reflexivity|]|]; apply IH.
Qed.

Lemma step_l_skip x l m args : e_matches x m args && e_live x = false ->
  step_l (x :: l) m args = (osucc (fst (step_l l m args)), x :: snd (step_l l m args)).
Proof.
  intros H. unfold step_l. simpl.
  assert (E : fst (if e_matches x m args then if e_live x then (Some (0, x), true) else find_expected m args l 1 true
                   else find_expected m args l 1 false)
              = option_map (fun p => (S (fst p), snd p)) (fst (find_expected m args l 0 false))).
  { destruct (e_matches x m args); simpl in H; [rewrite H|]; apply find_expected_shift. }
  rewrite E. destruct (fst (find_expected m args l 0 false)) as [[i e]|]; reflexivity.
Qed.

Lemma iter_l_skip x l m args k : e_matches x m args && e_live x = false ->
  iter_l (x :: l) m args k = map osucc (iter_l l m args k).
Proof.
  intros H. revert l; induction k as [|k IH]; intros l; simpl; [reflexivity|].
  rewrite (step_l_skip _ _ _ _ H). destruct (step_l l m args) as [r l']. simpl. now rewrite IH.
Qed.

Lemma step_l_hit x l m args : e_matches x m args = true -> e_live x = true ->
  step_l (x :: l) m args = (Some 0, consume x :: l).
Proof. intros M L. unfold step_l. simpl. rewrite M, L. reflexivity. Qed.

Lemma consume_matches e m args : e_matches (consume e) m args = e_matches e m args.
Proof. reflexivity. Qed.

Lemma iter_l_unlimited x l m args k : e_matches x m args = true -> e_rep x = 0%Z ->
  iter_l (x :: l) m args k = repeat (Some 0) k.
Proof.
  intros M R. revert x M R; induction k as [|k IH]; intros x M R; simpl; [reflexivity|].
  rewrite step_l_hit by (auto; unfold e_live; rewrite R; reflexivity).
  f_equal. apply IH; [exact M|]. simpl. rewrite R. reflexivity.
Qed.

Lemma iter_l_times n : forall x l m args k, e_matches x m args = true -> e_rep x = Z.of_nat (S n) ->
  iter_l (x :: l) m args k = repeat (Some 0) (Nat.min k (S n)) ++ map osucc (iter_l l m args (k - S n)).
Proof.
  induction n as [|n IH]; intros x l m args k M R.
  - destruct k as [|k]; simpl; [reflexivity|].
    rewrite step_l_hit by (auto; unfold e_live; rewrite R; reflexivity).
    replace (Nat.min k 0) with 0 by lia. simpl. f_equal. rewrite Nat.sub_0_r.
    apply iter_l_skip. rewrite consume_matches, M. unfold e_live. simpl. rewrite R. reflexivity.
  - destruct k as [|k]; [reflexivity|]. simpl iter_l.
    rewrite step_l_hit by (auto; unfold e_live; rewrite R; apply Z.ltb_lt; lia).
    replace (Nat.min (S k) (S (S n))) with (S (Nat.min k (S n))) by lia. simpl. f_equal.
    rewrite (IH (consume x) l m args k M).
    + reflexivity.
    + simpl. rewrite R.
      destruct (Z.of_nat (S (S n)) =? 1)%Z eqn:E1; [apply Z.eqb_eq in E1; lia|].
      destruct (1 <? Z.of_nat (S (S n)))%Z eqn:E2; [lia | apply Z.ltb_ge in E2; lia].
Qed.

Theorem iter_l_schedule l m args : forall k, iter_l l m args k = schedule l m args k.
Proof.
  induction l as [|x l IH]; intros k.
  - simpl. induction k as [|k IHk]; simpl; [reflexivity | now rewrite IHk].
  - simpl schedule. destruct (e_matches x m args && e_live x) eqn:H.
    + apply andb_true_iff in H as [M L].
      destruct (e_rep x =? 0)%Z eqn:R0.
      * apply Z.eqb_eq in R0. now apply iter_l_unlimited.
      * apply Z.eqb_neq in R0. unfold e_live in L. apply Z.ltb_lt in L.
        assert (exists n, e_rep x = Z.of_nat (S n)) as [n Rn].
        { exists (Z.to_nat (e_rep x) - 1). rewrite Nat2Z.inj_succ, Nat2Z.inj_sub, Z2Nat.id by lia. simpl. lia. }
        rewrite Rn, Nat2Z.id. rewrite (iter_l_times n x l m args k M Rn), IH. reflexivity.
    + rewrite (iter_l_skip _ _ _ _ _ H), IH. reflexivity.
Qed.

(* link to the mock: one Called = one step_l *)
Lemma called_step_l mk m args :
  m_exp (fst (called mk m args)) = snd (step_l (m_exp mk) m args) /\
  match fst (step_l (m_exp mk) m args) with
  | Some i => exists e, nth_error (m_exp mk) i = Some e /\ snd (called mk m args) = CRet e
  | None => forall e, snd (called mk m args) <> CRet e
  end.
Proof.
  unfold called, step_l.
  destruct (find_expected m args (m_exp mk) 0 false) as [[[i e]|] seen] eqn:F; simpl.
  - split; [reflexivity|]. exists e. split; [|reflexivity].
    pose proof (find_expected_sound (m_exp mk) m args 0 false i e) as S. rewrite F in S.
    destruct (S eq_refl) as (j & -> & (N & _)). exact N.
  - split; [reflexivity|]. intros e. destruct (m_test mk); discriminate.
Qed.

(* ------------------------------------------------------------------ cleanup *)
Lemma assert_expectations_spec mk :
  let n := length (filter (unmet mk) (m_exp mk)) in
  (n = 0 -> assert_expectations mk = []) /\
  (n <> 0 -> assert_expectations mk = repeat EvLogf n ++ [EvErrorf EAssert]).
Proof.
  intros n. unfold assert_expectations. fold n. split; intros H.
  - rewrite H. reflexivity.
  - apply Nat.eqb_neq in H. rewrite H. reflexivity.
Qed.

Lemma filter_nonempty {A} (f : A -> bool) l x : In x l -> f x = true -> length (filter f l) <> 0.
Proof.
  intros I F. assert (In x (filter f l)) as H by (apply filter_In; auto).
  destruct (filter f l); [destruct H | simpl; lia].
Qed.

Lemma filter_empty {A} (f : A -> bool) l : (forall x, In x l -> f x = false) -> length (filter f l) = 0.
Proof.
  induction l as [|a l IH]; intros H; simpl; [reflexivity|].
  rewrite (H a (or_introl eq_refl)). apply IH. intros x Hx. apply H. now right.
Qed.

(* ------------------------------------------------------------------ theorem-level statements *)
Lemma map2_plain_value s Ts rs : length Ts = length rs -> map2 (item_value s) Ts (map RPlain rs) = rs.
Proof. revert rs; induction Ts as [|T Ts IH]; intros [|r rs] L; simpl in *; try discriminate; [reflexivity|]. f_equal. apply IH. lia. Qed.

Lemma map2_plain_result vs Ts rs : map2 (item_result vs) Ts (map RPlain rs) = map2 unbox_ret Ts rs.
Proof. revert rs; induction Ts as [|T Ts IH]; intros [|r rs]; simpl; try reflexivity. f_equal. apply IH. Qed.

Lemma flat_map_plain_events vs rs : flat_map (item_events vs) (map RPlain rs) = [].
Proof. induction rs; simpl; auto. Qed.

Lemma Forall2_map_r {A B C} (R : A -> C -> Prop) (f : B -> C) l l' :
  Forall2 (fun a b => R a (f b)) l l' -> Forall2 R l (map f l').
Proof. induction 1; simpl; constructor; auto. Qed.

(* master statement: the first live matching expectation decides; its Run callback gets the
   call's arguments once; every result comes from the configured value / nil / provider *)
Theorem decided_call unroll s mk fixed elems i e items :
  wf_sig s -> wt_call s fixed elems -> run_ok unroll s e ->
  decides (m_exp mk) (ms_name s) (packed unroll s fixed elems) i e ->
  ms_results s <> [] ->
  e_ret e = map2 (item_value s) (ms_results s) items ->
  Forall2 item_ok (ms_results s) items ->
  let vs := typed_args s fixed elems in
  call_method impl beh unroll s mk vs =
  (after_call mk i e (ms_name s) (packed unroll s fixed elems),
   (Returned (map2 (item_result vs) (ms_results s) items),
    run_events s e vs ++ flat_map (item_events vs) items)).
Proof.
  intros W C R D NE ER OK vs.
  pose proof (call_method_decided unroll s mk fixed elems i e W C R D) as H. cbv zeta in H. fold vs in H.
  rewrite H. destruct (ms_results s) as [|T Ts] eqn:RS; [congruence|]. rewrite ER, <- RS.
  assert (L : length vs = length (ms_params s)) by (apply typed_args_length; [exact W | apply (wt_call_len _ _ _ C)]).
  rewrite (extract_items unroll s vs items W L); [reflexivity | congruence | rewrite RS; exact OK].
Qed.

(* the values accepted by the typed Return(...) for a result of type T: a boxed value of type T
   that is not itself a function of a provider type *)
Definition typed_ret (T : sty) (v : value) : Prop := plain v /\ wt_val T v.

Lemma typed_ret_ok T v : wf_sty T -> typed_ret T v -> item_ok T (RPlain v) /\ unbox_ret T v = v.
Proof.
  intros [WN _] [P [[-> I]|A]]; simpl.
  - split; [split; [exact P | left; split; [reflexivity | left; auto]]|]. unfold zero_of. now rewrite I.
  - split; [split; [exact P | right; exact A]|]. destruct v; [discriminate | reflexivity | reflexivity].
Qed.

Lemma typed_rets_ok Ts rs : Forall wf_sty Ts -> Forall2 typed_ret Ts rs ->
  Forall2 item_ok Ts (map RPlain rs) /\ map2 unbox_ret Ts rs = rs.
Proof.
  intros WF H. induction H as [|T v Ts rs HT H IH]; simpl; [split; [constructor | reflexivity]|].
  inversion WF as [|? ? WT WF']; subst. destruct (typed_ret_ok T v WT HT) as [A B]. destruct (IH WF') as [C D].
  split; [constructor; assumption | now rewrite B, D].
Qed.

(* C03_return *)
Theorem return_exact unroll s mk fixed elems i e :
  wf_sig s -> wt_call s fixed elems ->
  decides (m_exp mk) (ms_name s) (packed unroll s fixed elems) i e ->
  e_run e = None -> ms_results s <> [] ->
  Forall2 typed_ret (ms_results s) (e_ret e) ->
  call_method impl beh unroll s mk (typed_args s fixed elems) =
  (after_call mk i e (ms_name s) (packed unroll s fixed elems), (Returned (e_ret e), [])).
Proof.
  intros W C D R NE H.
  destruct (typed_rets_ok _ _ (wf_rtys s W) H) as [OK UB].
  pose proof (decided_call unroll s mk fixed elems i e (map RPlain (e_ret e)) W C (or_introl R) D NE) as M.
  rewrite (map2_plain_value s _ _ (Forall2_len _ _ _ H)) in M. specialize (M eq_refl OK). cbv zeta in M.
  rewrite M, map2_plain_result, UB, flat_map_plain_events. unfold run_events. rewrite R. reflexivity.
Qed.

(* C03_run_args, second half: Run(f) + Return(...): exactly one callback, with the call's arguments *)
Theorem run_exactly_once unroll s mk fixed elems i e f :
  wf_sig s -> wt_call s fixed elems ->
  decides (m_exp mk) (ms_name s) (packed unroll s fixed elems) i e ->
  e_run e = Some (RunTyped s unroll f) ->
  (ms_results s = [] \/ Forall2 typed_ret (ms_results s) (e_ret e)) ->
  call_method impl beh unroll s mk (typed_args s fixed elems) =
  (after_call mk i e (ms_name s) (packed unroll s fixed elems),
   (Returned (match ms_results s with [] => [] | _ => e_ret e end), [EvCallback f (typed_args s fixed elems)])).
Proof.
  intros W C D R [NR|H].
  - pose proof (call_method_decided unroll s mk fixed elems i e W C (or_intror (ex_intro _ f R)) D) as M.
    cbv zeta in M. rewrite M, NR. unfold run_events. rewrite R. reflexivity.
  - destruct (ms_results s) as [|T Ts] eqn:RS.
    + pose proof (call_method_decided unroll s mk fixed elems i e W C (or_intror (ex_intro _ f R)) D) as M.
      cbv zeta in M. rewrite M, RS. unfold run_events. rewrite R. reflexivity.
    + assert (WR : Forall wf_sty (T :: Ts)) by (rewrite <- RS; apply (wf_rtys s W)).
      destruct (typed_rets_ok _ _ WR H) as [OK UB].
      pose proof (decided_call unroll s mk fixed elems i e (map RPlain (e_ret e)) W C (or_intror (ex_intro _ f R)) D) as M.
      rewrite RS in M. rewrite (map2_plain_value s _ _ (Forall2_len _ _ _ H)) in M.
      specialize (M ltac:(discriminate) eq_refl OK). cbv zeta in M.
      rewrite M, map2_plain_result, UB, flat_map_plain_events. unfold run_events. rewrite R. reflexivity.
Qed.

(* C03_run_args, first half: whatever was configured, every callback/provider that runs during a
   call receives exactly the typed arguments of that call *)
Theorem callbacks_get_call_args unroll s mk fixed elems i e :
  wf_sig s -> wt_call s fixed elems -> run_ok unroll s e ->
  decides (m_exp mk) (ms_name s) (packed unroll s fixed elems) i e ->
  Forall (cb_args_are (typed_args s fixed elems))
         (snd (snd (call_method impl beh unroll s mk (typed_args s fixed elems)))).
Proof.
  intros W C R D.
  pose proof (call_method_decided unroll s mk fixed elems i e W C R D) as M. cbv zeta in M. rewrite M. clear M.
  assert (L : length (typed_args s fixed elems) = length (ms_params s))
    by (apply typed_args_length; [exact W | apply (wt_call_len _ _ _ C)]).
  assert (RE : Forall (cb_args_are (typed_args s fixed elems)) (run_events s e (typed_args s fixed elems))).
  { unfold run_events. destruct (e_run e) as [[s' u' f]|]; repeat constructor. }
  destruct (ms_results s); simpl; [exact RE|].
  pose proof (extract_cb unroll s _ (e_ret e) W L) as X.
  destruct (extract impl beh unroll s (typed_args s fixed elems) (e_ret e)) as [o evs]. simpl in *.
  apply Forall_app. split; assumption.
Qed.

(* whole-function providers (RunAndReturn with >= 2 results, Return(func...)) *)
Lemma whole_provider unroll s vs f rest :
  wf_sig s -> length vs = length (ms_params s) -> 2 <= length (ms_results s) ->
  extract impl beh unroll s vs (VTok (whole_ty s) f :: rest) = (Returned (beh f vs), [EvCallback f vs]).
Proof.
  intros W L L2. unfold extract. apply Nat.leb_le in L2. rewrite L2.
  unfold is_fn_of. rewrite dty_eqb_refl. unfold call_provider. rewrite (provider_args_ok _ _ _ W L). reflexivity.
Qed.

Lemma legacy_provider s vs f rest :
  wf_sig s -> length vs = length (ms_params s) -> 2 <= length (ms_results s) -> ms_variadic s = true ->
  extract impl beh false s vs (VTok (legacy_ty s) f :: rest) = (Returned (beh f vs), [EvCallback f vs]).
Proof.
  intros W L L2 V. unfold extract. apply Nat.leb_le in L2. rewrite L2.
  assert (N : is_fn_of (whole_ty s) (VTok (legacy_ty s) f) = None).
  { unfold is_fn_of, legacy_ty, whole_ty, dty_eqb. rewrite V. simpl. now rewrite andb_false_r. }
  rewrite N, V. cbn [andb negb]. unfold is_fn_of. rewrite dty_eqb_refl.
  unfold call_provider. rewrite (provider_args_ok _ _ _ W L). reflexivity.
Qed.

(* C03_run_and_return *)
Theorem run_and_return unroll s mk fixed elems i e f :
  wf_sig s -> wt_call s fixed elems ->
  decides (m_exp mk) (ms_name s) (packed unroll s fixed elems) i e ->
  ms_results s <> [] -> e_run e = None -> e_ret e = [VTok (whole_ty s) f] ->
  let vs := typed_args s fixed elems in
  length (beh f vs) = length (ms_results s) ->          (* Go: f has the method's result types *)
  call_method impl beh unroll s mk vs =
  (after_call mk i e (ms_name s) (packed unroll s fixed elems), (Returned (beh f vs), [EvCallback f vs])).
Proof.
  intros W C D NE R ER vs LB.
  assert (L : length vs = length (ms_params s)) by (apply typed_args_length; [exact W | apply (wt_call_len _ _ _ C)]).
  destruct (ms_results s) as [|T [|T' Ts]] eqn:RS; [congruence | |].
  - (* one result: the per-result provider has the same type *)
    pose proof (decided_call unroll s mk fixed elems i e [RProv f] W C (or_introl R) D) as M.
    rewrite RS in M. fold vs in M.
    assert (E : e_ret e = map2 (item_value s) [T] [RProv f]).
    { rewrite ER. simpl. unfold res_ty, whole_ty. rewrite RS. reflexivity. }
    specialize (M ltac:(discriminate) E ltac:(repeat constructor)). cbv zeta in M. rewrite M.
    unfold run_events. rewrite R. simpl.
    destruct (beh f vs) as [|b [|b' bs]]; simpl in LB; try discriminate. reflexivity.
  - pose proof (call_method_decided unroll s mk fixed elems i e W C (or_introl R) D) as M. cbv zeta in M. fold vs in M.
    rewrite RS in M. rewrite M, ER. rewrite (whole_provider unroll s vs f [] W L) by (rewrite RS; simpl; lia).
    unfold run_events. rewrite R. reflexivity.
Qed.

Theorem run_and_return_void unroll s mk fixed elems i e f :
  wf_sig s -> wt_call s fixed elems ->
  decides (m_exp mk) (ms_name s) (packed unroll s fixed elems) i e ->
  ms_results s = [] -> e_run e = Some (RunTyped s unroll f) ->
  call_method impl beh unroll s mk (typed_args s fixed elems) =
  (after_call mk i e (ms_name s) (packed unroll s fixed elems),
   (Returned [], [EvCallback f (typed_args s fixed elems)])).
Proof.
  intros W C D NR R.
  pose proof (run_exactly_once unroll s mk fixed elems i e f W C D R (or_introl NR)) as M. now rewrite NR in M.
Qed.

(* what RunAndReturn(f) installs *)
Lemma run_and_return_setup unroll s e0 f :
  let e := apply_setup unroll s e0 (SetRunAndReturn f) in
  (ms_results s = [] -> e_run e = Some (RunTyped s unroll f) /\ e_ret e = e_ret e0) /\
  (ms_results s <> [] -> e_ret e = [VTok (whole_ty s) f] /\ e_run e = e_run e0).
Proof. simpl. destruct (ms_results s); split; intros H; try congruence; split; reflexivity. Qed.

(* C03_unmatched_fails *)
Theorem unmatched_fails unroll s mk fixed elems :
  wf_sig s -> wt_call s fixed elems -> m_test mk = true ->
  no_live_match (m_exp mk) (ms_name s) (packed unroll s fixed elems) ->
  exists k, call_method impl beh unroll s mk (typed_args s fixed elems) = (mk, (TestFailed, [EvErrorf k; EvFailNow])).
Proof.
  intros W C T N. unfold call_method. rewrite (pack_typed _ _ _ _ W (wt_call_len _ _ _ C)).
  destruct (called_none _ _ _ N T) as [k ->]. eauto.
Qed.

(* C03_no_return_panics *)
Theorem no_return_panics unroll s mk fixed elems i e :
  wf_sig s -> wt_call s fixed elems -> run_ok unroll s e ->
  decides (m_exp mk) (ms_name s) (packed unroll s fixed elems) i e ->
  ms_results s <> [] -> e_ret e = [] ->
  fst (snd (call_method impl beh unroll s mk (typed_args s fixed elems))) = Panicked (PNoReturn (ms_name s)).
Proof.
  intros W C R D NE ER.
  pose proof (call_method_decided unroll s mk fixed elems i e W C R D) as M. cbv zeta in M. rewrite M.
  destruct (ms_results s); [congruence|]. rewrite ER. reflexivity.
Qed.

(* C03_nil_nillable (and error results): an untyped nil configured for a nillable result is returned as nil *)
Theorem nil_nillable unroll s mk fixed elems i e :
  wf_sig s -> wt_call s fixed elems -> run_ok unroll s e ->
  decides (m_exp mk) (ms_name s) (packed unroll s fixed elems) i e ->
  ms_results s <> [] ->
  Forall2 (fun T v => plain v /\ ret_ok T v) (ms_results s) (e_ret e) ->
  fst (snd (call_method impl beh unroll s mk (typed_args s fixed elems))) =
  Returned (map2 unbox_ret (ms_results s) (e_ret e)).
Proof.
  intros W C R D NE H.
  pose proof (decided_call unroll s mk fixed elems i e (map RPlain (e_ret e)) W C R D NE) as M.
  rewrite (map2_plain_value s _ _ (Forall2_len _ _ _ H)) in M.
  assert (OK : Forall2 item_ok (ms_results s) (map RPlain (e_ret e))).
  { apply Forall2_map_r. exact H. }
  specialize (M eq_refl OK). cbv zeta in M. rewrite M, map2_plain_result. reflexivity.
Qed.

(* C03_cleanup_reports *)
Theorem cleanup_reports im mk :
  m_test mk = true ->
  let evs := snd (snd (step impl beh im mk OCleanup)) in
  ((exists e, In e (m_exp mk) /\ unmet mk e = true) ->
     evs = repeat EvLogf (length (filter (unmet mk) (m_exp mk))) ++ [EvErrorf EAssert] /\
     length (filter (unmet mk) (m_exp mk)) <> 0) /\
  ((forall e, In e (m_exp mk) -> unmet mk e = false) -> evs = []).
Proof.
  intros T evs. subst evs. simpl. rewrite T.
  destruct (assert_expectations_spec mk) as [Z NZ]. cbv zeta in Z, NZ. split.
  - intros (e & I & U). pose proof (filter_nonempty _ _ _ I U) as N. split; [apply NZ; exact N | exact N].
  - intros H. apply Z. apply filter_empty. exact H.
Qed.

(* an expectation that never answered a call and whose arguments no recorded call matches, or
   that has repetitions left, is unmet *)
Lemma unmet_spec mk e :
  unmet mk e = true <->
  (e_total e = 0 /\ was_called mk e = false) \/ (0 < e_rep e)%Z.
Proof.
  unfold unmet. rewrite orb_true_iff, andb_true_iff, negb_true_iff, Nat.eqb_eq, Z.ltb_lt. tauto.
Qed.

(* EXPECT().M(xs...) registers exactly xs (flattened), after all earlier expectations *)
Theorem expect_registers unroll s mk xs ss mk' :
  expect unroll s mk xs ss = Ok mk' ->
  m_exp mk' = m_exp mk ++ [fold_left (apply_setup unroll s) ss (new_expectation (ms_name s) xs)] /\
  m_calls mk' = m_calls mk /\ m_test mk' = m_test mk.
Proof. unfold expect. destruct (existsb func_kind xs); [discriminate|]. intros H; injection H as <-. auto. Qed.

Lemma apply_setup_keeps unroll s e su :
  e_method (apply_setup unroll s e su) = e_method e /\ e_args (apply_setup unroll s e su) = e_args e.
Proof. destruct su; simpl; auto. destruct (ms_results s); auto. Qed.

Lemma fold_setup_keeps unroll s ss : forall e,
  e_method (fold_left (apply_setup unroll s) ss e) = e_method e /\
  e_args (fold_left (apply_setup unroll s) ss e) = e_args e.
Proof.
  induction ss as [|su ss IH]; intros e; simpl; [auto|].
  destruct (IH (apply_setup unroll s e su)) as [A B1]. destruct (apply_setup_keeps unroll s e su) as [C D0].
  split; congruence.
Qed.

Lemma decides_app_new l e m args :
  no_live_match l m args -> e_matches e m args = true -> e_live e = true ->
  decides (l ++ [e]) m args (length l) e.
Proof.
  intros N M L. repeat split; auto.
  - apply nth_error_app_here.
  - intros j e' Hj Hn. rewrite nth_error_app1 in Hn by exact Hj. apply N. eapply nth_error_In; eauto.
Qed.

(* a newly registered expectation decides the calls its arguments match (position by position,
   mock.Anything matching everything), unless an earlier live expectation matches too *)
Theorem registered_decides unroll s mk xs ss mk' args :
  expect unroll s mk xs ss = Ok mk' ->
  let e := fold_left (apply_setup unroll s) ss (new_expectation (ms_name s) xs) in
  no_live_match (m_exp mk) (ms_name s) args ->
  pad_match xs args = true -> e_live e = true ->
  decides (m_exp mk') (ms_name s) args (length (m_exp mk)) e.
Proof.
  intros E e N P L. destruct (expect_registers _ _ _ _ _ _ E) as [-> _].
  apply decides_app_new; auto. unfold e_matches.
  destruct (fold_setup_keeps unroll s ss (new_expectation (ms_name s) xs)) as [A B1]. fold e in A, B1.
  rewrite A, B1. simpl. rewrite seqb_refl. apply diff_zero in P. rewrite P. reflexivity.
Qed.

(* C03_times_order, on the mock: the next k identical calls are answered as the schedule says *)
Fixpoint calls_k (mk : mock) (m : str) (args : list value) (k : nat) : list (option nat) * mock :=
  match k with
  | 0 => ([], mk)
  | S k' =>
      let r := fst (step_l (m_exp mk) m args) in
      let '(rs, mk') := calls_k (fst (called mk m args)) m args k' in (r :: rs, mk')
  end.

Theorem times_order mk m args k : fst (calls_k mk m args k) = schedule (m_exp mk) m args k.
Proof.
  rewrite <- iter_l_schedule. revert mk; induction k as [|k IH]; intros mk; simpl; [reflexivity|].
  destruct (called_step_l mk m args) as [E _].
  specialize (IH (fst (called mk m args))). rewrite E in IH.
  destruct (calls_k (fst (called mk m args)) m args k) as [rs mk']. simpl in *.
  destruct (step_l (m_exp mk) m args) as [r l']. simpl in *. now rewrite IH.
Qed.

(* consumption touches only the counters *)
Lemma consume_keeps e :
  e_method (consume e) = e_method e /\ e_args (consume e) = e_args e /\
  e_ret (consume e) = e_ret e /\ e_run (consume e) = e_run e /\ e_total (consume e) = S (e_total e).
Proof. repeat split. Qed.

Lemma consume_rep e :
  e_rep (consume e) = (if (e_rep e =? 1)%Z then -1 else if (1 <? e_rep e)%Z then e_rep e - 1 else e_rep e)%Z.
Proof. reflexivity. Qed.

(* ------------------------------------------------------------------ history level: registered, never called => reported *)
Definition pending (name : str) (n : nat) (mk : mock) : Prop :=
  (exists e, nth_error (m_exp mk) n = Some e /\ e_method e = name /\ e_total e = 0) /\
  (forall c, In c (m_calls mk) -> c_method c <> name) /\ m_test mk = true.

Lemma called_other name n mk m args : m <> name -> pending name n mk -> pending name n (fst (called mk m args)).
Proof.
  intros NE ((e & N & EM & ET) & CS & T). unfold called.
  destruct (find_expected m args (m_exp mk) 0 false) as [[[i x]|] seen] eqn:F; simpl; [|repeat split; eauto].
  pose proof (find_expected_sound (m_exp mk) m args 0 false i x) as S. rewrite F in S.
  destruct (S eq_refl) as (j & -> & (Nx & Mx & _)). simpl in *.
  assert (j <> n) as D.
  { intros ->. rewrite N in Nx. injection Nx as <-. unfold e_matches in Mx.
    apply andb_true_iff in Mx as [Mx _]. apply seqb_eq in Mx. congruence. }
  repeat split; simpl.
  - exists e. rewrite nth_upd_neq by exact D. auto.
  - intros c Hc. apply in_app_or in Hc as [Hc|[<-|[]]]; [now apply CS | simpl; exact NE].
  - exact T.
Qed.

Lemma call_method_state unroll s mk vs :
  fst (call_method impl beh unroll s mk vs) = mk \/
  exists args, fst (call_method impl beh unroll s mk vs) = fst (called mk (ms_name s) args).
Proof.
  unfold call_method. destruct (pack unroll s vs) as [p|]; [|now left]. right. exists p.
  destruct (called mk (ms_name s) p) as [mk' [e|k|]]; simpl; try reflexivity.
  destruct (run_runfn impl (e_run e) p); [|reflexivity].
  destruct (ms_results s); [reflexivity|]. destruct (extract _ _ _ _ _ _). reflexivity.
Qed.

Definition calls_other (im : iface_model) (name : str) (o : op) : Prop :=
  match o with
  | OCall mi _ => forall s, nth_error (im_methods im) mi = Some s -> ms_name s <> name
  | _ => True
  end.

Lemma step_pending im name n mk o : calls_other im name o -> pending name n mk ->
  pending name n (fst (step impl beh im mk o)).
Proof.
  intros CO P. destruct o as [mi xs ss|mi vs|]; simpl.
  - destruct (nth_error (im_methods im) mi) as [s|]; [|exact P].
    destruct (expect (im_unroll im) s mk xs ss) as [mk'|] eqn:E; [|exact P]. simpl.
    destruct (expect_registers _ _ _ _ _ _ E) as (EX & CA & TE).
    destruct P as ((e & N & EM & ET) & CS & T). repeat split.
    + exists e. rewrite EX. rewrite nth_error_app1; [auto | apply nth_error_Some; congruence].
    + now rewrite CA.
    + now rewrite TE.
  - destruct (nth_error (im_methods im) mi) as [s|] eqn:NS; [|exact P].
    destruct (call_method_state (im_unroll im) s mk vs) as [->|[args ->]]; [exact P|].
    apply called_other; [apply (CO s NS) | exact P].
  - exact P.
Qed.

Lemma run_ops_pending im name n : forall ops mk, Forall (calls_other im name) ops -> pending name n mk ->
  pending name n (fst (run_ops impl beh im mk ops)).
Proof.
  induction ops as [|o ops IH]; intros mk F P; simpl; [exact P|].
  inversion F as [|? ? Fo F']; subst.
  pose proof (step_pending im name n mk o Fo P) as P1.
  destruct (step impl beh im mk o) as [mk1 ob]. simpl in P1.
  specialize (IH mk1 F' P1). destruct (run_ops impl beh im mk1 ops) as [mk2 obs]. exact IH.
Qed.

(* For every history: an expectation registered through EXPECT() on a mock on which that method had
   not been called, and followed by any registrations / calls of other methods / cleanups, is
   reported by the cleanup. *)
Theorem cleanup_reports_never_called im mk0 mi s xs ss mk1 ops :
  nth_error (im_methods im) mi = Some s -> m_test mk0 = true ->
  (forall c, In c (m_calls mk0) -> c_method c <> ms_name s) ->
  fst (step impl beh im mk0 (OExpect mi xs ss)) = mk1 -> mk1 <> mk0 ->
  Forall (calls_other im (ms_name s)) ops ->
  In (EvErrorf EAssert) (snd (snd (step impl beh im (fst (run_ops impl beh im mk1 ops)) OCleanup))).
Proof.
  intros NS T CS ST NEQ F. simpl in ST. rewrite NS in ST.
  destruct (expect (im_unroll im) s mk0 xs ss) as [mk'|] eqn:E; simpl in ST; [subst mk'|congruence].
  destruct (expect_registers _ _ _ _ _ _ E) as (EX & CA & TE).
  set (e0 := fold_left (apply_setup (im_unroll im) s) ss (new_expectation (ms_name s) xs)) in *.
  assert (P : pending (ms_name s) (length (m_exp mk0)) mk1).
  { repeat split.
    - exists e0. rewrite EX, nth_error_app_here. split; [reflexivity|].
      destruct (fold_setup_keeps (im_unroll im) s ss (new_expectation (ms_name s) xs)) as [A _].
      split; [exact A|]. unfold e0.
      assert (G : forall e, e_total (fold_left (apply_setup (im_unroll im) s) ss e) = e_total e).
      { clear. induction ss as [|su ss IH]; intros e; simpl; [reflexivity|]. rewrite IH.
        destruct su; simpl; try reflexivity. destruct (ms_results s); reflexivity. }
      rewrite G. reflexivity.
    - rewrite CA. exact CS.
    - rewrite TE. exact T. }
  pose proof (run_ops_pending im (ms_name s) _ ops mk1 F P) as ((e & N & EM & ET) & CS' & T').
  set (mk2 := fst (run_ops impl beh im mk1 ops)) in *.
  destruct (cleanup_reports im mk2 T') as [R _]. cbv zeta in R.
  assert (U : unmet mk2 e = true).
  { apply unmet_spec. left. split; [exact ET|]. unfold was_called.
    destruct (existsb _ (m_calls mk2)) eqn:X; [|reflexivity]. apply existsb_exists in X as (c & Hc & Hm).
    apply andb_true_iff in Hm as [Hm _]. apply seqb_eq in Hm. exfalso. apply (CS' c Hc). congruence. }
  destruct (R (ex_intro _ e (conj (nth_error_In _ _ N) U))) as [-> _].
  apply in_or_app. right. now left.
Qed.

(* ------------------------------------------------------------------ caller-owned argument buffers *)
Theorem wrun_resolve im : forall ws mk bs,
  wrun impl beh im mk bs ws = run_ops impl beh im mk (resolve bs ws).
Proof.
  induction ws as [|w ws IH]; intros mk bs; simpl; [reflexivity|].
  destruct (wnext bs w) as [bs' [o|]]; simpl; [|apply IH].
  destruct (step impl beh im mk o) as [mk1 ob]. rewrite IH. reflexivity.
Qed.

Definition is_bufop (w : wop) : Prop :=
  match w with WSetBuf _ _ | WMutate _ _ _ | WTestErrorf => True | _ => False end.

Lemma wrun_bufops im mk : forall ws bs, Forall is_bufop ws -> wrun impl beh im mk bs ws = (mk, []).
Proof.
  induction ws as [|w ws IH]; intros bs F; simpl; [reflexivity|].
  inversion F as [|? ? Hw F']; subst. destruct w; simpl in *; try tauto; apply IH; exact F'.
Qed.

(* The expectation registered by spreading buffer b keeps the values b held at registration,
   whatever the caller writes into b afterwards. *)
Theorem registration_copies im mk bs mi s fixed b ss muts mk1 :
  nth_error (im_methods im) mi = Some s ->
  expect (im_unroll im) s mk (fixed ++ getbuf b bs) ss = Ok mk1 ->
  Forall is_bufop muts ->
  fst (wrun impl beh im mk bs (WExpectBuf mi fixed b ss :: muts)) = mk1 /\
  exists e, m_exp mk1 = m_exp mk ++ [e] /\ e_args e = fixed ++ getbuf b bs /\ e_method e = ms_name s.
Proof.
  intros NS E F. split.
  - simpl. rewrite NS, E. rewrite (wrun_bufops im mk1 muts bs F). reflexivity.
  - destruct (expect_registers _ _ _ _ _ _ E) as (EX & _).
    eexists. split; [exact EX|].
    destruct (fold_setup_keeps (im_unroll im) s ss (new_expectation (ms_name s) (fixed ++ getbuf b bs))) as [A B0].
    split; [exact B0 | exact A].
Qed.

(* ------------------------------------------------------------------ an already failed t *)
Definition not_terrorf (w : wop) : bool := match w with WTestErrorf => false | _ => true end.

(* Whatever marks t as failed - the test's own Errorf, or another mock registered on the same t -
   and whenever it does, every observation of this mock, its cleanup report included, is the same. *)
Theorem failed_t_is_invisible im : forall ws mk bs,
  wrun impl beh im mk bs ws = wrun impl beh im mk bs (filter not_terrorf ws).
Proof.
  induction ws as [|w ws IH]; intros mk bs; [reflexivity|].
  destruct w as [o|mi fixed b ss|b l|b i v|]; cbn [filter not_terrorf]; cbn [wrun wnext].
  - destruct (step impl beh im mk o) as [mk1 ob]. rewrite IH. reflexivity.
  - destruct (step impl beh im mk (OExpect mi (fixed ++ getbuf b bs) ss)) as [mk1 ob]. rewrite IH. reflexivity.
  - apply IH.
  - apply IH.
  - apply IH.
Qed.

End Proofs.
