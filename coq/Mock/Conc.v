(* Interleaving model of goroutines using one generated mock   (C05)

   A goroutine executing one generated method is a straight-line list of atomic
   instructions over the mock's shared state, as the templates emit them
   (internal/mock_matryer.templ:93-170): per method m one call log [calls.<m>] and one
   [sync.RWMutex] [lock<m>].  Go's  x = append(x, v)  is NOT atomic: it reads the slice header
   and then writes a new one.  It is modelled as [ReadLog m] (into a goroutine-local) followed by
   [WriteApp m v] (log := local ++ [v]); that is exactly what makes an unlocked variant lose calls.
   Accesses execute whatever is held (that is what an unlocked program does); only the lock
   operations block.  The lock state is DERIVED from what the threads hold (RWMutex
   specification): Lock m is enabled iff nobody holds m, RLock m iff nobody holds m for writing.
   Go's writer preference and the scheduler only remove schedules; every Go execution is a
   schedule here.  [fresh] in [HW m fresh] is ghost: "the local copy was read under this critical
   section and the log has not been written since".
   [Embedded k] = a call into testify's embedded mock.Mock / *mock.Call (Called, On, ...),
   synchronised by testify itself (trusted, not modelled): a step without effect here.
   No proofs in this file. *)
From Mk Require Import Lib.Bytes.

Definition meth := nat.
Definition entry := nat.       (* the argument tuple of one call, identified by the call *)

Inductive instr :=
| Lock (m : meth) | Unlock (m : meth) | RLock (m : meth) | RUnlock (m : meth)
| ReadLog (m : meth) | WriteApp (m : meth) (v : entry) | WriteNil (m : meth) | Snap (m : meth)
| ReadFunc (m : meth) | CallFunc (m : meth) | Local | Embedded (k : nat).

Inductive held := HNone | HW (m : meth) (fresh : bool) | HR (m : meth).

(* the lock discipline: every access of log m happens while holding lock m in the right mode,
   the append's read and write are in one write-locked section with no write in between,
   locks are not nested, user code is not called under a lock, everything is released at the end *)
Fixpoint wl (hh : held) (p : list instr) : bool :=
  match p with
  | [] => match hh with HNone => true | _ => false end
  | i :: p' =>
    match i, hh with
    | Lock m, HNone => wl (HW m false) p'
    | Unlock m, HW m' _ => Nat.eqb m m' && wl HNone p'
    | RLock m, HNone => wl (HR m) p'
    | RUnlock m, HR m' => Nat.eqb m m' && wl HNone p'
    | ReadLog m, HW m' _ => Nat.eqb m m' && wl (HW m' true) p'
    | ReadLog m, HR m' => Nat.eqb m m' && wl (HR m') p'
    | WriteApp m _, HW m' true => Nat.eqb m m' && wl (HW m' false) p'
    | WriteNil m, HW m' _ => Nat.eqb m m' && wl (HW m' false) p'
    | Snap m, HW m' f => Nat.eqb m m' && wl (HW m' f) p'
    | Snap m, HR m' => Nat.eqb m m' && wl (HR m') p'
    | CallFunc _, HNone => wl HNone p'
    | ReadFunc _, _ => wl hh p'
    | Local, _ => wl hh p'
    | Embedded _, _ => wl hh p'
    | _, _ => false
    end
  end.

Record thread := { prog : list instr; h : held; tmp : list entry; outs : list (meth * list entry) }.
Record state := { ths : list thread; log : meth -> list entry }.

(* Some true = holds lock m for writing, Some false = for reading *)
Definition holds (hh : held) (m : meth) : option bool :=
  match hh with
  | HNone => None
  | HW m' _ => if Nat.eqb m' m then Some true else None
  | HR m' => if Nat.eqb m' m then Some false else None
  end.
Definition free_of (m : meth) (t : thread) : bool := match holds (h t) m with None => true | Some _ => false end.
Definition not_w (m : meth) (t : thread) : bool := match holds (h t) m with Some true => false | _ => true end.

Fixpoint upd {A} (l : list A) (n : nat) (x : A) : list A :=
  match l, n with
  | [], _ => []
  | _ :: t, 0 => x :: t
  | a :: t, S n => a :: upd t n x
  end.
Definition setlog (lg : meth -> list entry) (m : meth) (x : list entry) : meth -> list entry :=
  fun m' => if Nat.eqb m' m then x else lg m'.

(* one step of thread n; None = blocked, finished, or a runtime fault (unlock of an unlocked mutex) *)
Definition step (s : state) (n : nat) : option (state * instr) :=
  match nth_error (ths s) n with
  | None => None
  | Some t =>
    match prog t with
    | [] => None
    | i :: p =>
      let set hh tm ou lg := Some ({| ths := upd (ths s) n {| prog := p; h := hh; tmp := tm; outs := ou |}; log := lg |}, i) in
      match i, h t with
      | Lock m, HNone => if forallb (free_of m) (ths s) then set (HW m false) (tmp t) (outs t) (log s) else None
      | RLock m, HNone => if forallb (not_w m) (ths s) then set (HR m) (tmp t) (outs t) (log s) else None
      | Lock _, _ | RLock _, _ => None
      | Unlock m, HW m' _ => if Nat.eqb m m' then set HNone (tmp t) (outs t) (log s) else None
      | RUnlock m, HR m' => if Nat.eqb m m' then set HNone (tmp t) (outs t) (log s) else None
      | Unlock _, _ | RUnlock _, _ => None
      | ReadLog m, hh =>
        set (match hh with HW m' _ => HW m' (Nat.eqb m m') | x => x end) (log s m) (outs t) (log s)
      | WriteApp m v, hh =>
        set (match hh with HW m' _ => HW m' false | x => x end) (tmp t) (outs t) (setlog (log s) m (tmp t ++ [v]))
      | WriteNil m, hh =>
        set (match hh with HW m' _ => HW m' false | x => x end) (tmp t) (outs t) (setlog (log s) m [])
      | Snap m, hh => set hh (tmp t) (outs t ++ [(m, log s m)]) (log s)
      | ReadFunc _, hh | CallFunc _, hh | Embedded _, hh => set hh (tmp t) (outs t) (log s)
      | Local, hh => set hh (tmp t) (outs t) (log s)
      end
    end
  end.

Definition event := (nat * instr)%type.       (* (thread, instruction), in execution order *)

Fixpoint run (s : state) (evs : list event) (sched : list nat) : state * list event :=
  match sched with
  | [] => (s, evs)
  | n :: r => match step s n with
              | Some (s', i) => run s' (evs ++ [(n, i)]) r
              | None => run s evs r
              end
  end.

Definition init (ps : list (list instr)) : state :=
  {| ths := map (fun p => {| prog := p; h := HNone; tmp := []; outs := [] |}) ps; log := fun _ => [] |}.
Definition exec (ps : list (list instr)) (sched : list nat) := run (init ps) [] sched.

Definition all_done (s : state) : Prop := forall t, In t (ths s) -> prog t = [].

(* ---- data races ---- *)
(* the memory access of an instruction to a call log: (log, is a write) *)
Definition acc_of (i : instr) : option (meth * bool) :=
  match i with
  | ReadLog m | Snap m => Some (m, false)
  | WriteApp m _ | WriteNil m => Some (m, true)
  | _ => None
  end.
Definition next (s : state) (t : nat) : option instr :=
  match nth_error (ths s) t with Some th => hd_error (prog th) | None => None end.
(* two different goroutines are both about to access the same log, at least one of them writing;
   accesses are never blocked, so both are enabled: the accesses are concurrent *)
Definition race (s : state) : Prop :=
  exists t1 t2 i1 i2 m w1 w2, t1 <> t2 /\ next s t1 = Some i1 /\ next s t2 = Some i2 /\
    acc_of i1 = Some (m, w1) /\ acc_of i2 = Some (m, w2) /\ w1 || w2 = true.

(* ---- the specification side ---- *)
(* what one executed instruction does to "the entries appended to m since the last reset of m" *)
Definition eff (m : meth) (acc : list entry) (e : event) : list entry :=
  match snd e with
  | WriteApp m' v => if Nat.eqb m' m then acc ++ [v] else acc
  | WriteNil m' => if Nat.eqb m' m then [] else acc
  | _ => acc
  end.
Definition since_reset (m : meth) (evs : list event) : list entry := fold_left (eff m) evs [].

Definition app_of (m : meth) (i : instr) : list entry :=
  match i with WriteApp m' v => if Nat.eqb m' m then [v] else [] | _ => [] end.
Definition appends (m : meth) (p : list instr) : list entry := flat_map (app_of m) p.
Definition is_reset (m : meth) (i : instr) : bool := match i with WriteNil m' => Nat.eqb m' m | _ => false end.
Definition no_reset (m : meth) (ps : list (list instr)) : Prop := forall p i, In p ps -> In i p -> is_reset m i = false.

(* removing the locking from a program *)
Definition is_lock_op (i : instr) : bool :=
  match i with Lock _ | Unlock _ | RLock _ | RUnlock _ => true | _ => false end.
Definition strip_locks (p : list instr) : list instr := filter (fun i => negb (is_lock_op i)) p.

(* testify wrappers: only locals and calls into the embedded mock.Mock *)
Definition testify_instr (i : instr) : bool := match i with Local | Embedded _ => true | _ => false end.

(* ---- the instruction lists of the matryer template (what goskel must produce) ---- *)
Definition call_body (m : meth) (v : entry) : list instr :=
  [ReadFunc m; Local; Lock m; ReadLog m; WriteApp m v; Unlock m; ReadFunc m; CallFunc m].
Definition calls_body (m : meth) : list instr := [Local; RLock m; Snap m; RUnlock m].
Definition reset_body (m : meth) : list instr := [Lock m; WriteNil m; Unlock m].
