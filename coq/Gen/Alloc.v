(* Model of template.Registry (imports) and template.MethodScope (visible names) as
   offered to templates: AllocateName / SuggestName / AddName / NameExists on a scope,
   AddImport / Imports / PkgQualifier on the file registry.   (C15)
   Mirrors template/method_scope.go, template/registry.go, template/packages.go,
   template/package.go.  No proofs in this file. *)
From Mk Require Import Lib.Bytes Lib.Dec Lib.Fresh.

Record import_ := { ipath : str; iname : str; ialias : str }.

(* Package.Qualifier: alias if set, else the package name *)
Definition qualifier (i : import_) : str :=
  match ialias i with [] => iname i | _ => ialias i end.

(* imports in insertion order; Go keeps two maps (by path, by qualifier) that are
   updated together, so the qualifier map's key set is [map qualifier imports] *)
Record registry := { dst : str; inpkg : bool; imports : list import_ }.

Definition quals (r : registry) : list str := map qualifier (imports r).

Fixpoint find_path (p : str) (l : list import_) : option import_ :=
  match l with
  | [] => None
  | i :: t => if seqb p (ipath i) then Some i else find_path p t
  end.

(* Registry.addImport.  None = the nil *Package returned for the in-package self import. *)
Definition add_import (r : registry) (name path : str) : registry * option import_ :=
  if seqb path (dst r) && inpkg r then (r, None)
  else match find_path path (imports r) with
       | Some i => (r, Some i)
       | None =>
         let q := fresh 0 name (quals r) in
         let i := {| ipath := path; iname := name;
                     ialias := if seqb q name then [] else q |} in
         ({| dst := dst r; inpkg := inpkg r; imports := imports r ++ [i] |}, Some i)
       end.

(* Registry.Imports: sorted by path *)
Fixpoint insert_by_path (i : import_) (l : list import_) : list import_ :=
  match l with
  | [] => [i]
  | j :: t => if sltb (ipath j) (ipath i) then j :: insert_by_path i t else i :: l
  end.
Definition imports_sorted (r : registry) : list import_ :=
  fold_right insert_by_path [] (imports r).

(* Packages.PkgQualifier *)
Definition pkg_qualifier (r : registry) (path : str) : option str :=
  match find_path path (imports_sorted r) with
  | Some i => Some (qualifier i)
  | None => None
  end.

(* MethodScope: the set of visible names *)
Definition scope := list str.
Definition suggest (s : scope) (p : str) : str := fresh 1 p s.
Definition name_exists (s : scope) (n : str) : bool := smem n s.
Definition add_name (s : scope) (n : str) : scope := n :: s.
Definition allocate (s : scope) (p : str) : scope * str :=
  let n := suggest s p in (add_name s n, n).
(* NewMethodScope: every import qualifier of the registry is visible *)
Definition new_scope (r : registry) : scope := quals r.

Inductive op :=
| AllocateName (p : str) | SuggestName (p : str) | AddName (n : str) | NameExists (n : str)
| AddImport (name path : str) | Imports | PkgQualifier (path : str)
| NewScope.

Inductive out :=
| OName (n : str) | OBool (b : bool) | OUnit
| OImp (path qual : str)                 (* nil package: both empty *)
| OImports (l : list (str * str))        (* (path, qualifier) *)
| OQual (q : option str).

Definition state := (registry * scope)%type.

Definition imp_out (o : option import_) : out :=
  match o with Some i => OImp (ipath i) (qualifier i) | None => OImp [] [] end.

Definition step (st : state) (o : op) : state * out :=
  let '(r, s) := st in
  match o with
  | AllocateName p => let '(s', n) := allocate s p in ((r, s'), OName n)
  | SuggestName p => (st, OName (suggest s p))
  | AddName n => ((r, add_name s n), OUnit)
  | NameExists n => (st, OBool (name_exists s n))
  | AddImport name path => let '(r', i) := add_import r name path in ((r', s), imp_out i)
  | Imports => (st, OImports (map (fun i => (ipath i, qualifier i)) (imports_sorted r)))
  | PkgQualifier p => (st, OQual (pkg_qualifier r p))
  | NewScope => ((r, new_scope r), OUnit)
  end.

Fixpoint trace (st : state) (ops : list op) : list (op * out) :=
  match ops with
  | [] => []
  | o :: rest => let '(st', x) := step st o in (o, x) :: trace st' rest
  end.

Fixpoint final (st : state) (ops : list op) : state :=
  match ops with
  | [] => st
  | o :: rest => final (fst (step st o)) rest
  end.

Definition init (dstp : str) (inp : bool) : state :=
  ({| dst := dstp; inpkg := inp; imports := [] |}, []).
