(* C02 - specification-level method sets over the type AST of Gen/Types.v, and the method
   list of the generated mock type for both built-in templates.  No proofs in this file
   (Gen/MethodSet_proofs.v).

   PART 1 is a SPECIFICATION, not a model of mockery code: mockery never computes a method
   set itself, it calls go/types
       obj.Type().Underlying() asserted to *types.Interface, then Complete()     template/registry.go LookupInterface
       iface.NumMethods() / iface.Method(i)                       internal/template_generator.go Generate
   go/types is TRUSTED to compute what [method_set] below defines (go/types/typeset.go
   computeInterfaceTypeSet: explicit methods, then the type sets of the embedded elements in
   order, first occurrence of a method Id wins, overlapping methods must have identical
   signatures, result sorted by object.less).  The definition is needed to STATE property
   C02; the harness evaluates it inside Coq on the AST of every generated interface and
   compares it with the methods that the real mock files declare (go/parser), so a change
   of mockery that stops using the completed method set (or uses it wrongly) is seen.

   PART 2 mirrors the two templates: one method declaration per element of .Methods
       func (_mock *{{StructName}}{{TypeInstantiation}}) {{Name}}({{ArgList}}) {{ReturnArgTypeList}}     mock_testify.templ
       func (mock *{{StructName}}{{TypeInstantiation}}) {{Name}}({{ArgList}}) {{ReturnArgTypeList}}      mock_matryer.templ
   plus the mock's own API (EXPECT; <M>Calls, Reset<M>Calls, ResetCalls).

   PART 3 mirrors the grouping of mocks into output files (internal/cmd/mockery.go:
   mockFileToInterfaces keyed by the cleaned output file path, one entry appended per
   (interface, configs entry); Generate renders one mock type per element).            *)
From Mk Require Import Lib.Bytes Lib.Fresh Gen.Alloc Gen.Types Gen.Render.

(* ==================================================================================== *)
(* PART 1 - method sets                                                                  *)
(* ==================================================================================== *)
Inductive err :=
| EOutOfFuel                                   (* embedding deeper than the fuel *)
| EUnresolved (p : str) (n : str)              (* an embedded name that the environment does not declare *)
| ENotInterface (t : ty)                       (* an embedded element that is not an interface with methods only (type parameter, union, ...) *)
| EBadArity (p : str) (n : str)                (* wrong number of type arguments *)
| EConflict (n : str).                         (* duplicate method: explicit duplicates, or overlapping methods whose signatures differ *)

Inductive result (A : Type) := Ok (x : A) | Err (e : err).
Arguments Ok {A} x.
Arguments Err {A} e.

Definition rbind {A B} (r : result A) (f : A -> result B) : result B :=
  match r with Ok x => f x | Err e => Err e end.

(* A method of a method set.  [m_pkg] is the package of the declaration that introduced it;
   go/types identifies a method by Id(): the name for exported names, package path + name for
   the others. *)
Record meth := { m_pkg : str; m_name : str; m_sig : sig }.

(* token.IsExported restricted to ASCII (the harness generates ASCII method names; a first
   rune above U+007F would need Go's unicode tables) *)
Definition is_exported (n : str) : bool :=
  match n with
  | c :: _ => Nat.leb 65 (Byte.to_nat c) && Nat.leb (Byte.to_nat c) 90
  | [] => false
  end.

Definition mkey (m : meth) : str * str := (if is_exported (m_name m) then [] else m_pkg m, m_name m).
Definition key_eqb (a b : str * str) : bool := seqb (fst a) (fst b) && seqb (snd a) (snd b).

(* object.less: exported before non-exported, then by name, then (non-exported) by package path *)
Definition key_ltb (a b : str * str) : bool :=
  match fst a, fst b with
  | [], _ :: _ => true
  | _ :: _, [] => false
  | _, _ => if seqb (snd a) (snd b) then sltb (fst a) (fst b) else sltb (snd a) (snd b)
  end.
Definition mltb (a b : meth) : bool := key_ltb (mkey a) (mkey b).

Fixpoint minsert (m : meth) (l : list meth) : list meth :=
  match l with
  | [] => [m]
  | x :: r => if mltb x m then x :: minsert m r else m :: l
  end.
Definition msort (l : list meth) : list meth := fold_right minsert [] l.

(* ---------- identity of signatures (types.Identical on *types.Signature) ----------
   The NAMES of parameters and results do not matter; everything else is compared structurally.
   Where Go's identity is coarser than structural equality (an alias and its target, the
   method order of an interface literal) the specification answers EConflict, i.e. such
   inputs are outside the theorems; the generator does not produce them. *)
Definition label_eqb (a b : label) : bool :=
  seqb (lname a) (lname b) && seqb (ltag a) (ltag b) && Bool.eqb (lflag a) (lflag b).
Definition opt_eqb (a b : option str) : bool :=
  match a, b with None, None => true | Some x, Some y => seqb x y | _, _ => false end.
Definition dir_eqb (a b : dir) : bool :=
  match a, b with DBoth, DBoth | DSend, DSend | DRecv, DRecv => true | _, _ => false end.

Fixpoint ty_eqb (a b : ty) : bool :=
  let items := fix items (l l' : list (label * ty)) {struct l} : bool :=
    match l, l' with
    | [], [] => true
    | (la, x) :: r, (lb, y) :: r' => label_eqb la lb && ty_eqb x y && items r r'
    | _, _ => false
    end in
  match a, b with
  | TBasic n, TBasic n' => seqb n n'
  | TUnsafePtr, TUnsafePtr => true
  | TNamed p n l, TNamed p' n' l' => opt_eqb p p' && seqb n n' && items l l'
  | TAlias p n l, TAlias p' n' l' => opt_eqb p p' && seqb n n' && items l l'
  | TPtr e, TPtr e' => ty_eqb e e'
  | TSlice e, TSlice e' => ty_eqb e e'
  | TArray n e, TArray n' e' => Nat.eqb n n' && ty_eqb e e'
  | TMap k e, TMap k' e' => ty_eqb k k' && ty_eqb e e'
  | TChan d e, TChan d' e' => dir_eqb d d' && ty_eqb e e'
  | TFunc ps v rs, TFunc ps' v' rs' => items ps ps' && Bool.eqb v v' && items rs rs'
  | TStruct fs, TStruct fs' => items fs fs'
  | TIface ms es, TIface ms' es' => items ms ms' && items es es'
  | TUnion ts, TUnion ts' => items ts ts'
  | TParam n, TParam n' => seqb n n'
  | _, _ => false
  end.

(* forget the names of parameters and results, at every depth *)
Fixpoint erase (t : ty) : ty :=
  match t with
  | TBasic _ | TUnsafePtr | TParam _ => t
  | TNamed p n l => TNamed p n (map_items erase l)
  | TAlias p n l => TAlias p n (map_items erase l)
  | TPtr e => TPtr (erase e)
  | TSlice e => TSlice (erase e)
  | TArray n e => TArray n (erase e)
  | TMap k e => TMap (erase k) (erase e)
  | TChan d e => TChan d (erase e)
  | TFunc ps v rs => TFunc (map (fun it => (nolabel, erase (snd it))) ps) v (map (fun it => (nolabel, erase (snd it))) rs)
  | TStruct fs => TStruct (map_items erase fs)
  | TIface ms es => TIface (map_items erase ms) (map_items erase es)
  | TUnion ts => TUnion (map_items erase ts)
  end.
Definition esig (s : sig) : ty := erase (sig_ty s).
Definition sig_same (a b : sig) : bool := ty_eqb (esig a) (esig b).

(* ---------- declarations ---------- *)
Record idecl := {
  d_tparams : list str;                (* names of the type parameters *)
  d_methods : list (str * sig);        (* explicitly declared methods, in source order *)
  d_embeds : list ty                   (* embedded elements, in source order *)
}.
(* [type A = T] is transparent.  [type B A] (a type defined from another interface type) has
   the underlying type of A, i.e. the method set of an interface that embeds only A: it is
   written as an [EIface] with no methods and the single embedded element A. *)
Inductive entry := EIface (d : idecl) | EAlias (t : ty).
Definition denv := list (str * str * entry).       (* (package path, name) -> declaration *)

Fixpoint lookup_decl (E : denv) (p n : str) : option entry :=
  match E with
  | [] => None
  | (p', n', e) :: r => if seqb p p' && seqb n n' then Some e else lookup_decl r p n
  end.

(* the universe: error and any *)
Definition error_meth : meth :=
  {| m_pkg := []; m_name := B "Error";
     m_sig := {| sparams := []; svariadic := false; sresults := [(nolabel, TBasic (B "string"))] |} |}.

(* the methods of an interface literal are (name, func type) items *)
Fixpoint lit_methods (ms : list (label * ty)) : option (list (str * sig)) :=
  match ms with
  | [] => Some []
  | (lb, TFunc ps v rs) :: r =>
      match lit_methods r with
      | Some l => Some ((lname lb, {| sparams := ps; svariadic := v; sresults := rs |}) :: l)
      | None => None
      end
  | _ => None
  end.

Fixpoint first_dup (l : list str) : option str :=
  match l with
  | [] => None
  | x :: r => if smem x r then Some x else first_dup r
  end.

(* all methods of one interface body, with repetitions, in the order of go/types' traversal:
   the explicit methods (type parameters replaced by [sub]), then the embedded elements *)
Definition collect (rec : str -> list (str * ty) -> ty -> result (list meth))
                   (pkg : str) (sub : list (str * ty)) (ms : list (str * sig)) (es : list ty) : result (list meth) :=
  match first_dup (map fst ms) with
  | Some n => Err (EConflict n)
  | None =>
      rbind ((fix go (l : list ty) : result (list meth) :=
                match l with
                | [] => Ok []
                | x :: r => rbind (rec pkg sub x) (fun a => rbind (go r) (fun b => Ok (a ++ b)))
                end) es)
            (fun emb => Ok (map (fun m => {| m_pkg := pkg; m_name := fst m; m_sig := subst_sig sub (snd m) |}) ms ++ emb))
  end.

Definition inst_sub (sub : list (str * ty)) (tps : list str) (targs : list (label * ty)) : list (str * ty) :=
  combine tps (map (fun it => subst sub (snd it)) targs).

(* the methods that the embedded element [e] contributes; [e] is written inside package [pkg]
   under the pending instantiation [sub] *)
Fixpoint embed_set (E : denv) (fuel : nat) (pkg : str) (sub : list (str * ty)) (e : ty) {struct fuel} : result (list meth) :=
  match fuel with
  | 0 => Err EOutOfFuel
  | S f =>
      match e with
      | TNamed None n [] => if seqb n (B "error") then Ok [error_meth] else Err (ENotInterface e)
      | TAlias None n [] => if seqb n (B "any") then Ok [] else Err (ENotInterface e)
      | TNamed (Some p) n targs | TAlias (Some p) n targs =>
          match lookup_decl E p n with
          | None => Err (EUnresolved p n)
          | Some (EAlias u) => match targs with [] => embed_set E f p [] u | _ => Err (EBadArity p n) end
          | Some (EIface d) =>
              if Nat.eqb (length (d_tparams d)) (length targs)
              then collect (embed_set E f) p (inst_sub sub (d_tparams d) targs) (d_methods d) (d_embeds d)
              else Err (EBadArity p n)
          end
      | TIface ms es =>
          match lit_methods ms with
          | Some l => collect (embed_set E f) pkg sub l (map snd es)
          | None => Err (ENotInterface e)
          end
      | _ => Err (ENotInterface e)
      end
  end.

(* overlapping methods (the same Id through two embedding paths) must have identical signatures *)
Fixpoint find_key (k : str * str) (l : list meth) : option meth :=
  match l with
  | [] => None
  | m :: r => if key_eqb (mkey m) k then Some m else find_key k r
  end.
Fixpoint conflict (l : list meth) : option str :=
  match l with
  | [] => None
  | m :: r => match conflict r with
              | Some n => Some n
              | None => match find_key (mkey m) r with
                        | Some m' => if sig_same (m_sig m) (m_sig m') then None else Some (m_name m)
                        | None => None
                        end
              end
  end.
(* keep the first occurrence of every Id *)
Fixpoint dedup_from (seen : list (str * str)) (l : list meth) : list meth :=
  match l with
  | [] => []
  | m :: r => if existsb (key_eqb (mkey m)) seen then dedup_from seen r else m :: dedup_from (mkey m :: seen) r
  end.
Definition dedup := dedup_from [].

Definition finalize (raw : list meth) : result (list meth) :=
  match conflict raw with
  | Some n => Err (EConflict n)
  | None => Ok (msort (dedup raw))
  end.

(* the method set of the interface type [t] (a named, possibly instantiated interface, an alias
   of one, or an interface literal) written in package [pkg] *)
Definition method_set_of (E : denv) (fuel : nat) (pkg : str) (t : ty) : result (list meth) :=
  rbind (embed_set E fuel pkg [] t) finalize.

(* the GENERIC method set of the declared interface [p].[n]: instantiated with its own type
   parameters (this is what LookupInterface returns: the underlying interface of the
   uninstantiated named type) *)
Definition self_args (tps : list str) : list (label * ty) := map (fun t => (nolabel, TParam t)) tps.
Definition method_set (E : denv) (fuel : nat) (p n : str) : result (list meth) :=
  match lookup_decl E p n with
  | Some (EIface d) => method_set_of E fuel p (TNamed (Some p) n (self_args (d_tparams d)))
  | Some (EAlias _) => method_set_of E fuel p (TAlias (Some p) n [])
  | None => Err (EUnresolved p n)
  end.

Definition subst_meth (m : list (str * ty)) (x : meth) : meth :=
  {| m_pkg := m_pkg x; m_name := m_name x; m_sig := subst_sig m (m_sig x) |}.

(* ---------- well-formed environments (true of every type-checked Go program) ----------
   the body of a declaration mentions no type parameters but its own *)
Definition closed_ty (tps : list str) (t : ty) : bool :=
  forallb (fun r => match r with RefTParam n => smem n tps | RefObj _ _ => true end) (refs t).
Definition closed_sig (tps : list str) (s : sig) : bool := closed_ty tps (sig_ty s).
Definition wf_entry (e : entry) : bool :=
  match e with
  | EIface d => forallb (fun m => closed_sig (d_tparams d) (snd m)) (d_methods d) && forallb (closed_ty (d_tparams d)) (d_embeds d)
  | EAlias t => closed_ty [] t
  end.
Definition wf_env (E : denv) : bool := forallb (fun x => wf_entry (snd x)) E.

(* ---------- embedding depth ----------
   [rk] ranks the declared names; an environment is ranked when every declaration only embeds
   elements of smaller height (so it is acyclic).  The height of an element counts the
   declarations and the nesting of interface literals on the longest embedding path. *)
Fixpoint height (rk : str -> str -> nat) (t : ty) : nat :=
  match t with
  | TNamed (Some p) n _ | TAlias (Some p) n _ => S (rk p n)
  | TIface _ es => S (fold_right (fun it a => Nat.max (height rk (snd it)) a) 0 es)
  | _ => 1
  end.
Definition max_height (rk : str -> str -> nat) (es : list ty) : nat := fold_right (fun e a => Nat.max (height rk e) a) 0 es.
Definition ranked_entry (rk : str -> str -> nat) (p n : str) (e : entry) : bool :=
  match e with
  | EIface d => Nat.leb (max_height rk (d_embeds d)) (rk p n)
  | EAlias t => Nat.leb (height rk t) (rk p n)
  end.
(* every binding that [lookup_decl] can return is ranked *)
Definition ranked (rk : str -> str -> nat) (E : denv) : Prop :=
  forall p n e, lookup_decl E p n = Some e -> ranked_entry rk p n e = true.

(* ==================================================================================== *)
(* PART 2 - the methods of the generated mock type                                       *)
(* ==================================================================================== *)
Inductive tmpl := Testify | Matryer.

(* a method declaration of the generated file: name, parameter list (name, "..." flag,
   rendered type), result type list *)
Record mmeth := { mm_name : str; mm_params : list arg; mm_results : list rty }.

(* {{range .Methods}} func (recv) {{.Name}}({{.ArgList}}) {{.ReturnArgTypeList}} - both templates *)
Definition mock_method (d : mdata) : mmeth :=
  {| mm_name := dname d; mm_params := arg_list d; mm_results := return_arg_type_list d |}.
Definition iface_methods (t : tmpl) (id : idata) : list mmeth :=
  match t with
  | Testify => map mock_method (i_methods id)
  | Matryer => map mock_method (i_methods id)
  end.

(* the methods that the template declares on the mock type besides those of the interface *)
Definition own_api (t : tmpl) (with_resets : bool) (names : list str) : list str :=
  match t with
  | Testify => [B "EXPECT"]
  | Matryer =>
      map (fun n => n ++ B "Calls") names ++
      (if with_resets then map (fun n => B "Reset" ++ n ++ B "Calls") names ++ [B "ResetCalls"] else [])
  end.
(* further members of the mock type: fields of the struct (matryer), the embedded mock.Mock
   with its exported methods and fields (testify v1.10.0).  A method of the same name shadows
   or collides with them. *)
Definition other_members (t : tmpl) (names : list str) : list str :=
  match t with
  | Testify => [B "Mock"; B "On"; B "Called"; B "MethodCalled"; B "Test"; B "TestData"; B "AssertExpectations"; B "AssertCalled";
                B "AssertNotCalled"; B "AssertNumberOfCalls"; B "IsMethodCallable"; B "ExpectedCalls"; B "Calls"]
  | Matryer => B "calls" :: map (fun n => n ++ B "Func") names ++ map (fun n => B "lock" ++ n) names
  end.

(* all methods declared with the mock type as receiver, in file order per template:
   testify: EXPECT first; matryer: M, MCalls, (ResetMCalls) per method, then ResetCalls.  The
   harness compares as sorted lists. *)
Definition declared_methods (t : tmpl) (with_resets : bool) (id : idata) : list str :=
  map mm_name (iface_methods t id) ++ own_api t with_resets (map dname (i_methods id)).

Fixpoint nodupb (l : list str) : bool :=
  match l with [] => true | x :: r => negb (smem x r) && nodupb r end.
(* guard: no method of the interface is spelled like a member that the template itself gives
   the mock type (known-finding class C02-own-api-collision when false) *)
Definition api_free (t : tmpl) (with_resets : bool) (names : list str) : bool :=
  nodupb (names ++ own_api t with_resets names ++ other_members t names).

(* the interface handed to Generate for the declared interface p.n: go/types' iface.Method(i)
   enumerates the completed method set, TRUSTED to be [method_set] *)
Definition mock_iface (name sname : str) (tps : items ty) (ms : list meth) : iface :=
  {| if_name := name; if_struct := sname; if_tparams := tps; if_methods := map (fun m => (m_name m, m_sig m)) ms |}.

(* ------------------------------------------------------------------------------------ *)
(* PART 2b - the type parameter list of the mock type                                      *)
(* internal/template_generator.go typeParams (WITH fixes/c02-blank-type-params.diff): every
   type parameter goes through MethodScope.AddVar (Gen/Render.v add_var: the constraint's
   imports and type string become visible, the name is SuggestName(varName)); a BLANK
   parameter `_` then gets the first of  n, n1, n2, ...  (n = the name AddVar generated from
   the constraint) whose PRINTED form Exported(name) is neither the printed form of a
   declared parameter name, nor that of a name already given to an earlier blank parameter,
   nor a name visible in the scope (a constraint spelled as a bare identifier).  The
   templates print Exported(name) in the parameter list and in every instantiation of the
   mock type. *)
Fixpoint tp_search (ex : str -> str) (bad : list str) (base : str) (fuel i : nat) : option str :=
  match fuel with
  | 0 => None                                     (* excluded by tp_search_total *)
  | S f => let c := cand 1 base i in
           if smem (ex c) bad then tp_search ex bad base f (S i) else Some c
  end.
Definition tp_pick (ex : str -> str) (bad : list str) (base : str) : option str :=
  tp_search ex bad base (S (length bad)) 0.

Definition last_name (vs : list var_) : str := last (map vname vs) [].

Section TParams.
  Variable cx : ctx.
  Let ex := cx_exported cx.

  Fixpoint tp_names (taken : list str) (st : vstate) (tps : items ty) : option (list str) :=
    match tps with
    | [] => Some []
    | x :: r =>
        let st' := add_var cx st x in
        let n0 := last_name (snd st') in
        let isb := blank (lname (fst x)) in
        match (if isb then tp_pick ex (taken ++ snd (fst st')) n0 else Some n0) with
        | None => None
        | Some n =>
            match tp_names (if isb then ex n :: taken else taken) st' r with
            | Some l => Some (n :: l)
            | None => None
            end
        end
    end.

  Definition declared_names (tps : items ty) : list str :=
    map (fun x => lname (fst x)) (filter (fun x => negb (blank (lname (fst x)))) tps).

  (* the names offered for the type parameters of one mock: [r] is the file's registry when
     Generate reaches the type parameters of the interface (after its methods) *)
  Definition mock_tparams (r : registry) (tps : items ty) : option (list str) :=
    tp_names (map ex (declared_names tps)) (r, new_scope r, []) tps.
  (* as printed: `type Mock[<printed> <constraint>, ...]`, `*Mock[<printed>, ...]` *)
  Definition printed_tparams (r : registry) (tps : items ty) : option (list str) :=
    option_map (map ex) (mock_tparams r tps).
End TParams.

(* ==================================================================================== *)
(* PART 3 - grouping of mocks into output files (internal/cmd/mockery.go)                *)
(* ==================================================================================== *)
(* one request = one (interface, configs entry): the interface name, the index of the entry
   in the interface's configs list, the cleaned output file path and the struct name that the
   entry's templates evaluate to *)
Record req := { q_iface : str; q_entry : nat; q_file : str; q_struct : str }.

(* mockFileToInterfaces[filePath].Append(...): the Go map is an association list here; the
   order of its keys is irrelevant because every file is generated on its own *)
Fixpoint add_req (c : list (str * list req)) (q : req) : list (str * list req) :=
  match c with
  | [] => [(q_file q, [q])]
  | (f, l) :: r => if seqb f (q_file q) then (f, l ++ [q]) :: r else (f, l) :: add_req r q
  end.
Definition group (reqs : list req) : list (str * list req) := fold_left add_req reqs [].

(* Generate: one element of .Interfaces per request, both templates declare exactly one
   `type {{.StructName}} ... struct` per element *)
Definition mock_types (l : list req) : list str := map q_struct l.

Fixpoint file_reqs (c : list (str * list req)) (f : str) : list req :=
  match c with
  | [] => []
  | (f', l) :: r => if seqb f f' then l else file_reqs r f
  end.
