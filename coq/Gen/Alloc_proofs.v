From Coq Require Import Permutation Sorted.
From Mk Require Import Lib.Bytes Lib.Dec Lib.Fresh Gen.Alloc.

(* ---------- fresh ---------- *)
Lemma fresh_spec off p s : first_free off p s = Some (fresh off p s).
Proof. unfold fresh. destruct (first_free_total off p s) as [r E]. now rewrite E. Qed.

Lemma fresh_cand off p s : exists k, fresh off p s = cand off p k /\
                                    forall j, j < k -> In (cand off p j) s.
Proof. apply first_free_first, fresh_spec. Qed.

Lemma fresh_nonempty_or_prefix p s : fresh 0 p s = p \/ fresh 0 p s <> [].
Proof.
  destruct (fresh_cand 0 p s) as (k & E & _). rewrite E. destruct k as [|k]; [now left | right].
  simpl. intros H. apply app_eq_nil in H as [_ H]. now apply dec_nonempty in H.
Qed.

(* ---------- registry ---------- *)
Definition self (r : registry) (p : str) : Prop := p = dst r /\ inpkg r = true.

Definition RInv (r : registry) : Prop :=
  NoDup (map ipath (imports r)) /\ NoDup (quals r).

Lemma find_path_some p l i : find_path p l = Some i -> In i l /\ ipath i = p.
Proof.
  induction l as [|j t IH]; simpl; [discriminate|].
  destruct (seqb p (ipath j)) eqn:E.
  - intros H; injection H as <-. apply seqb_eq in E. auto.
  - intros H. apply IH in H as [H1 H2]. auto.
Qed.
Lemma find_path_none p l : find_path p l = None -> ~ In p (map ipath l).
Proof.
  induction l as [|j t IH]; simpl; [tauto|].
  destruct (seqb p (ipath j)) eqn:E; [discriminate|]. apply seqb_neq in E.
  intros H [G|G]; [congruence | now apply IH].
Qed.
Lemma find_path_app p l i l' : find_path p l = Some i -> find_path p (l ++ l') = Some i.
Proof.
  induction l as [|j t IH]; simpl; [discriminate|].
  destruct (seqb p (ipath j)); auto.
Qed.
Lemma find_path_in_nodup l i : NoDup (map ipath l) -> In i l -> find_path (ipath i) l = Some i.
Proof.
  induction l as [|j t IH]; simpl; [tauto|]. intros ND [->|H].
  - now rewrite seqb_refl.
  - inversion ND as [|? ? Hn ND']; subst. destruct (seqb (ipath i) (ipath j)) eqn:E.
    + apply seqb_eq in E. exfalso. apply Hn. rewrite <- E. now apply in_map.
    + now apply IH.
Qed.

Lemma new_qualifier name q :
  (q = name \/ q <> []) ->
  qualifier {| ipath := []; iname := name; ialias := if seqb q name then [] else q |} = q.
Proof.
  intros H. unfold qualifier; simpl. destruct (seqb q name) eqn:E.
  - apply seqb_eq in E. now subst.
  - apply seqb_neq in E. destruct H as [H|H]; [contradiction|]. destruct q; [congruence | reflexivity].
Qed.

Lemma add_import_cases r name path :
  let '(r', o) := add_import r name path in
  dst r' = dst r /\ inpkg r' = inpkg r /\
  ( (self r path /\ r' = r /\ o = None) \/
    (~ self r path /\ r' = r /\ exists i, o = Some i /\ find_path path (imports r) = Some i) \/
    (~ self r path /\ find_path path (imports r) = None /\
       exists i, o = Some i /\ imports r' = imports r ++ [i] /\ ipath i = path /\
                 qualifier i = fresh 0 name (quals r)) ).
Proof.
  unfold add_import. destruct (seqb path (dst r) && inpkg r) eqn:S.
  { apply andb_true_iff in S as [S1 S2]. apply seqb_eq in S1. repeat split; auto. left. unfold self. auto. }
  assert (~ self r path) as NS.
  { unfold self. intros [-> H]. rewrite seqb_refl, H in S. discriminate. }
  destruct (find_path path (imports r)) as [i|] eqn:F.
  - repeat split; auto. right; left. eauto.
  - simpl. repeat split; auto. right; right. repeat split; auto.
    eexists; repeat split; try reflexivity.
    unfold qualifier; simpl.
    pose proof (new_qualifier name (fresh 0 name (quals r)) (fresh_nonempty_or_prefix _ _)) as Q.
    unfold qualifier in Q; simpl in Q. exact Q.
Qed.

Lemma add_import_inv r name path : RInv r -> RInv (fst (add_import r name path)).
Proof.
  intros [N1 N2]. pose proof (add_import_cases r name path) as H.
  destruct (add_import r name path) as [r' o]; simpl.
  destruct H as (_ & _ & [(_ & -> & _) | [(_ & -> & _) | (_ & F & i & _ & E & P & Q)]]); try (split; assumption).
  unfold RInv, quals. rewrite E, !map_app; simpl. split.
  - apply NoDup_app_snoc; [exact N1 | rewrite P; now apply find_path_none].
  - apply NoDup_app_snoc; [exact N2 | rewrite Q; apply fresh_not_in].
Qed.

(* ---------- steps and the registry ---------- *)
Lemma step_reg_consts st o : dst (fst (fst (step st o))) = dst (fst st) /\
                             inpkg (fst (fst (step st o))) = inpkg (fst st).
Proof.
  destruct st as [r s]; destruct o as [p|p|n|n|name path| |p|]; simpl; auto.
  - pose proof (add_import_cases r name path) as H. destruct (add_import r name path); simpl. tauto.
Qed.

Lemma step_imports_mono st o : exists ext, imports (fst (fst (step st o))) = imports (fst st) ++ ext.
Proof.
  destruct st as [r s]; destruct o as [p|p|n|n|name path| |p|]; simpl; try (exists []; now rewrite app_nil_r).
  - pose proof (add_import_cases r name path) as H. destruct (add_import r name path) as [r' o]; simpl.
    destruct H as (_ & _ & [(_ & -> & _) | [(_ & -> & _) | (_ & _ & i & _ & E & _)]]);
      try (exists []; now rewrite app_nil_r). exists [i]. exact E.
Qed.

Lemma step_rinv st o : RInv (fst st) -> RInv (fst (fst (step st o))).
Proof.
  destruct st as [r s]; destruct o as [p|p|n|n|name path| |p|]; simpl; auto.
  - intros H. pose proof (add_import_inv r name path H). destruct (add_import r name path); simpl in *; auto.
Qed.

Lemma final_rinv st ops : RInv (fst st) -> RInv (fst (final st ops)).
Proof. revert st; induction ops as [|o ops IH]; simpl; intros st H; [exact H|]. apply IH, step_rinv, H. Qed.

Lemma init_rinv d b : RInv (fst (init d b)).
Proof. split; constructor. Qed.

Lemma final_consts st ops : dst (fst (final st ops)) = dst (fst st) /\ inpkg (fst (final st ops)) = inpkg (fst st).
Proof.
  revert st; induction ops as [|o ops IH]; simpl; intros st; [auto|].
  destruct (IH (fst (step st o))) as [A Bq]. destruct (step_reg_consts st o) as [C D]. split; congruence.
Qed.

Lemma final_imports_mono st ops : exists ext, imports (fst (final st ops)) = imports (fst st) ++ ext.
Proof.
  revert st; induction ops as [|o ops IH]; simpl; intros st; [exists []; now rewrite app_nil_r|].
  destruct (IH (fst (step st o))) as [e1 E1]. destruct (step_imports_mono st o) as [e2 E2].
  exists (e2 ++ e1). rewrite E1, E2, app_assoc. reflexivity.
Qed.

Lemma final_find_stable st ops p i :
  find_path p (imports (fst st)) = Some i -> find_path p (imports (fst (final st ops))) = Some i.
Proof. intros H. destruct (final_imports_mono st ops) as [e ->]. now apply find_path_app. Qed.

(* the non-nil result of AddImport, as an import of the registry after the step *)
Lemma add_import_result r name path r' o :
  add_import r name path = (r', o) ->
  (self r path /\ o = None) \/
  (~ self r path /\ exists i, o = Some i /\ ipath i = path /\ find_path path (imports r') = Some i).
Proof.
  intros E. pose proof (add_import_cases r name path) as H. rewrite E in H.
  destruct H as (_ & _ & [(S & _ & ->) | [(NS & -> & i & -> & F) | (NS & F & i & -> & Ei & P & _)]]).
  - left; auto.
  - right; split; auto. exists i. repeat split; auto. now apply find_path_some in F.
  - right; split; auto. exists i. repeat split; auto. rewrite Ei.
    clear - F P. induction (imports r) as [|j t IH]; simpl in *.
    + rewrite P, seqb_refl. reflexivity.
    + destruct (seqb path (ipath j)); [discriminate | auto].
Qed.

(* C15: the same path gets the same answer every time *)
Theorem import_stable st ops name1 name2 path :
  let st1 := fst (step st (AddImport name1 path)) in
  snd (step (final st1 ops) (AddImport name2 path)) = snd (step st (AddImport name1 path)).
Proof.
  destruct st as [r s]. simpl.
  destruct (add_import r name1 path) as [r1 o1] eqn:E1. simpl.
  destruct (final (r1, s) ops) as [r2 s2] eqn:EF. simpl.
  destruct (add_import r2 name2 path) as [r3 o2] eqn:E2. simpl.
  pose proof (final_consts (r1, s) ops) as [Cd Ci]. rewrite EF in Cd, Ci. simpl in Cd, Ci.
  pose proof (add_import_cases r name1 path) as K. rewrite E1 in K. destruct K as (Kd & Ki & _).
  apply add_import_result in E1 as [(S1 & ->) | (NS1 & i & -> & P & F)].
  - apply add_import_result in E2 as [(S2 & ->) | (NS2 & _)]; [reflexivity|].
    exfalso. apply NS2. unfold self in *. rewrite Cd, Ci, Kd, Ki. exact S1.
  - pose proof (final_find_stable (r1, s) ops path i F) as F2. rewrite EF in F2. simpl in F2.
    pose proof (add_import_cases r2 name2 path) as K2. rewrite E2 in K2.
    destruct K2 as (_ & _ & [(S2 & _) | [(_ & _ & i2 & -> & F3) | (_ & F3 & _)]]).
    + exfalso. apply NS1. unfold self in *. rewrite <- Kd, <- Ki, <- Cd, <- Ci. exact S2.
    + rewrite F2 in F3. injection F3 as <-. reflexivity.
    + rewrite F2 in F3. discriminate.
Qed.

(* every non-self AddImport in a trace returned an import that is in the final registry *)
Lemma trace_addimport_in st ops name path x :
  In (AddImport name path, x) (trace st ops) -> ~ self (fst st) path ->
  exists i, x = OImp (ipath i) (qualifier i) /\ ipath i = path /\ In i (imports (fst (final st ops))).
Proof.
  revert st; induction ops as [|o ops IH]; simpl; intros st H NS; [tauto|].
  destruct (step st o) as [st' y] eqn:E. simpl in H. destruct H as [H|H].
  - injection H as -> ->. destruct st as [r s]. simpl in E.
    destruct (add_import r name path) as [r' oi] eqn:EA. injection E as <- <-.
    apply add_import_result in EA as [(S & _) | (_ & i & -> & P & F)]; [contradiction|].
    exists i. repeat split; auto. simpl.
    pose proof (final_find_stable (r', s) ops path i F) as F2. apply find_path_some in F2. tauto.
  - assert (st' = fst (step st o)) as -> by now rewrite E. apply IH; [exact H|].
    unfold self in *. simpl. destruct (step_reg_consts st o) as [-> ->]. exact NS.
Qed.

(* C15: distinct paths get distinct qualifiers, whatever the package names *)
Theorem qual_injective d b ops n1 p1 x1 n2 p2 x2 :
  In (AddImport n1 p1, x1) (trace (init d b) ops) ->
  In (AddImport n2 p2, x2) (trace (init d b) ops) ->
  ~ (p1 = d /\ b = true) -> ~ (p2 = d /\ b = true) -> p1 <> p2 ->
  exists q1 q2, x1 = OImp p1 q1 /\ x2 = OImp p2 q2 /\ q1 <> q2.
Proof.
  intros H1 H2 S1 S2 NE.
  apply trace_addimport_in in H1 as (i1 & -> & P1 & I1); [|exact S1].
  apply trace_addimport_in in H2 as (i2 & -> & P2 & I2); [|exact S2].
  exists (qualifier i1), (qualifier i2). rewrite P1, P2. repeat split; auto.
  intros Q. pose proof (final_rinv (init d b) ops (init_rinv d b)) as [_ ND].
  assert (i1 = i2) by (eapply NoDup_map_inj_on; eauto). subst. congruence.
Qed.

(* ---------- Imports: sorted by path, each path once ---------- *)
Definition path_lt (a b : import_) : Prop := sltb (ipath a) (ipath b) = true.

Lemma insert_perm i l : Permutation (i :: l) (insert_by_path i l).
Proof.
  induction l as [|j t IH]; simpl; [apply Permutation_refl|].
  destruct (sltb (ipath j) (ipath i)); [|apply Permutation_refl].
  eapply perm_trans; [apply perm_swap|]. now apply perm_skip.
Qed.
Lemma imports_sorted_perm r : Permutation (imports r) (imports_sorted r).
Proof.
  unfold imports_sorted. induction (imports r) as [|i t IH]; simpl; [constructor|].
  eapply perm_trans; [apply perm_skip, IH | apply insert_perm].
Qed.

Lemma insert_sorted i l :
  ~ In (ipath i) (map ipath l) -> StronglySorted path_lt l -> StronglySorted path_lt (insert_by_path i l).
Proof.
  induction l as [|j t IH]; simpl; intros NI S; [repeat constructor|].
  inversion S as [|? ? S' F]; subst.
  destruct (sltb (ipath j) (ipath i)) eqn:E.
  - constructor; [apply IH; [tauto | exact S']|].
    rewrite Forall_forall. intros x Hx. apply (Permutation_in _ (Permutation_sym (insert_perm i t))) in Hx.
    destruct Hx as [<-|Hx]; [exact E | rewrite Forall_forall in F; auto].
  - assert (path_lt i j) as L.
    { unfold path_lt. destruct (sltb (ipath i) (ipath j)) eqn:E2; [reflexivity|].
      exfalso. apply NI. left. now apply sltb_total. }
    constructor; [exact S|]. constructor; [exact L|].
    rewrite Forall_forall in *. intros x Hx. unfold path_lt in *. eapply sltb_trans; eauto.
Qed.

Lemma imports_sorted_sorted r : NoDup (map ipath (imports r)) -> StronglySorted path_lt (imports_sorted r).
Proof.
  unfold imports_sorted. induction (imports r) as [|i t IH]; simpl; intros ND; [constructor|].
  inversion ND as [|? ? NI ND']; subst. apply insert_sorted; [|auto].
  intros H. apply NI. eapply Permutation_in; [|exact H].
  apply Permutation_map, Permutation_sym. apply (imports_sorted_perm {| dst := []; inpkg := false; imports := t |}).
Qed.

Theorem imports_listing d b ops :
  let r := fst (final (init d b) ops) in
  let l := map (fun i => (ipath i, qualifier i)) (imports_sorted r) in
  snd (step (final (init d b) ops) Imports) = OImports l /\
  StronglySorted (fun a b => sltb (fst a) (fst b) = true) l /\
  NoDup (map fst l) /\ NoDup (map snd l) /\
  Permutation (map fst l) (map ipath (imports r)).
Proof.
  intros r l. pose proof (final_rinv (init d b) ops (init_rinv d b)) as [N1 N2]. fold r in N1, N2.
  assert (map fst l = map ipath (imports_sorted r)) as E1 by (unfold l; rewrite map_map; reflexivity).
  assert (map snd l = map qualifier (imports_sorted r)) as E2 by (unfold l; rewrite map_map; reflexivity).
  pose proof (imports_sorted_perm r) as P.
  repeat split.
  - unfold r. destruct (final (init d b) ops); reflexivity.
  - pose proof (imports_sorted_sorted r N1) as S. unfold l. clear - S.
    induction S as [|a t S IH F]; simpl; constructor; [exact IH|].
    rewrite Forall_forall in *. intros x Hx. apply in_map_iff in Hx as (y & <- & Hy). simpl. now apply F.
  - rewrite E1. eapply Permutation_NoDup; [apply Permutation_map, P | exact N1].
  - rewrite E2. eapply Permutation_NoDup; [apply Permutation_map, P | exact N2].
  - rewrite E1. apply Permutation_map, Permutation_sym, P.
Qed.

(* PkgQualifier reports the qualifier AddImport handed out *)
Theorem pkg_qualifier_agrees r i : RInv r -> In i (imports r) -> pkg_qualifier r (ipath i) = Some (qualifier i).
Proof.
  intros [N1 _] Hi. unfold pkg_qualifier.
  rewrite (find_path_in_nodup (imports_sorted r) i); [reflexivity | |].
  - eapply Permutation_NoDup; [apply Permutation_map, imports_sorted_perm | exact N1].
  - eapply Permutation_in; [apply imports_sorted_perm | exact Hi].
Qed.

(* ---------- scope ---------- *)
Definition pure_op (o : op) : bool :=
  match o with SuggestName _ | NameExists _ | Imports | PkgQualifier _ => true | _ => false end.
Definition no_newscope (o : op) : bool := match o with NewScope => false | _ => true end.

Lemma pure_step st o : pure_op o = true -> fst (step st o) = st.
Proof. destruct st as [r s]; destruct o as [p|p|n|n|name path| |p|]; simpl; try discriminate; reflexivity. Qed.

(* C15: suggestion (and the other queries) have no effect on later results *)
Theorem queries_have_no_effect st ops :
  filter (fun x => negb (pure_op (fst x))) (trace st ops) = trace st (filter (fun o => negb (pure_op o)) ops).
Proof.
  revert st; induction ops as [|o ops IH]; simpl; intros st; [reflexivity|].
  destruct (step st o) as [st' x] eqn:E. simpl. destruct (pure_op o) eqn:P; simpl.
  - pose proof (pure_step st o P) as Q. rewrite E in Q. simpl in Q. subst. apply IH.
  - rewrite E. f_equal. apply IH.
Qed.

Lemma step_scope_mono st o : no_newscope o = true -> incl (snd st) (snd (fst (step st o))).
Proof.
  destruct st as [r s]; destruct o as [p|p|n|n|name path| |p|]; simpl; try discriminate; intros _; try apply incl_refl;
    try (apply incl_tl, incl_refl).
  destruct (add_import r name path); simpl. apply incl_refl.
Qed.

Lemma final_scope_mono st ops : forallb no_newscope ops = true -> incl (snd st) (snd (final st ops)).
Proof.
  revert st; induction ops as [|o ops IH]; simpl; intros st H; [apply incl_refl|].
  apply andb_true_iff in H as [H1 H2]. eapply incl_tran; [apply step_scope_mono, H1 | apply IH, H2].
Qed.

(* C15: a name reported as existing stays existing *)
Theorem exists_monotone st ops n :
  forallb no_newscope ops = true ->
  snd (step st (NameExists n)) = OBool true -> snd (step (final st ops) (NameExists n)) = OBool true.
Proof.
  intros H. pose proof (final_scope_mono st ops H) as M.
  destruct st as [r s]; destruct (final (r, s) ops) as [r' s']; simpl in *.
  unfold name_exists. intros E. injection E as E. apply smem_In in E. f_equal. apply smem_In. auto.
Qed.

(* the names handed out by AllocateName in a trace *)
Fixpoint allocated (t : list (op * out)) : list str :=
  match t with
  | [] => []
  | (AllocateName _, OName n) :: rest => n :: allocated rest
  | _ :: rest => allocated rest
  end.

Lemma alloc_step r s p : step (r, s) (AllocateName p) = ((r, suggest s p :: s), OName (suggest s p)).
Proof. reflexivity. Qed.

(* C15: allocated names differ from everything visible before and from each other *)
Theorem allocated_fresh st ops :
  forallb no_newscope ops = true ->
  NoDup (allocated (trace st ops)) /\ forall n, In n (allocated (trace st ops)) -> ~ In n (snd st).
Proof.
  revert st; induction ops as [|o ops IH]; simpl; intros st H; [split; [constructor | tauto]|].
  apply andb_true_iff in H as [H1 H2].
  destruct (step st o) as [st' x] eqn:E. specialize (IH st' H2) as [ND NI].
  pose proof (step_scope_mono st o H1) as M. rewrite E in M. simpl in M.
  destruct o as [p|p|n|n|name path| |p|]; simpl; try (simpl in H1; discriminate);
    try (split; [exact ND | intros m Hm Hs; apply (NI m Hm), M, Hs]).
  destruct st as [r s]. rewrite alloc_step in E. injection E as <- <-. simpl in *. split.
  - constructor; [|exact ND]. intros Hn. apply (NI _ Hn). now left.
  - intros n [<-|Hn]; [apply fresh_not_in|]. intros Hs. apply (NI n Hn). now right.
Qed.

(* the answer of AllocateName is not visible before the call and is visible afterwards *)
Theorem allocate_spec r s p :
  let '(st', x) := step (r, s) (AllocateName p) in
  exists n, x = OName n /\ ~ In n s /\ snd (step st' (NameExists n)) = OBool true /\ fst st' = r.
Proof.
  rewrite alloc_step. exists (suggest s p). repeat split; [apply fresh_not_in|].
  simpl. unfold name_exists; simpl. now rewrite seqb_refl.
Qed.
