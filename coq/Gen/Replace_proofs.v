(* Proofs about the replace-type model Gen/Replace.v. *)
From Coq Require Import Permutation.
From Mk Require Import Lib.Bytes Cfg.Json Cfg.Config Cfg.Config_proofs Gen.Alloc Gen.Alloc_proofs Gen.Replace.

(* every replacement target names a package (a configuration whose pkg-path is empty makes
   packages.Load fail; it is not a "replacement target in another package") *)
Definition valid_targets (rt : rtmap) : Prop :=
  forall k rp rn, rget k rt = Some (rp, rn) -> rp <> [].

Lemma replacement_nil t : replacement [] t = None.
Proof. destruct t; reflexivity. Qed.

Lemma replacement_named rt t r : replacement rt t = Some r -> exists p n, t = TNamed p n /\ rget (p, n) rt = Some r.
Proof. destruct t; simpl; try discriminate. intros H. eauto. Qed.

(* one variable: the model of AddVar equals AddVar without any setting on the substituted type *)
Lemma add_var_subst rt nt :
  valid_targets rt ->
  add_var rt nt = add_var [] (fst nt, subst_top rt (snd nt)).
Proof.
  intros Hv. destruct nt as [n t]. unfold add_var at 1. simpl fst; simpl snd.
  destruct (replacement rt t) as [[rp rn]|] eqn:E.
  - destruct (replacement_named _ _ _ E) as (p & nm & -> & Hg).
    unfold add_var. simpl. rewrite Hg. simpl.
    destruct rp as [|b rp']; [exfalso; eapply Hv; [exact Hg | reflexivity] | reflexivity].
  - unfold add_var. simpl.
    assert (subst_top rt t = t) as ->.
    { destruct t; try reflexivity. simpl in *. rewrite E. reflexivity. }
    rewrite replacement_nil. reflexivity.
Qed.

Lemma map_add_var_subst rt l :
  valid_targets rt ->
  map (add_var rt) l = map (add_var []) (map (fun nt => (fst nt, subst_top rt (snd nt))) l).
Proof.
  intros Hv. rewrite map_map. apply map_ext. intros nt. apply add_var_subst. exact Hv.
Qed.

(* C13_exact *)
Theorem method_exact rt m :
  valid_targets rt ->
  method_data_of rt m = method_data_of [] (fst m, subst_sig rt (snd m)).
Proof.
  intros Hv. unfold method_data_of. simpl.
  rewrite !(map_add_var_subst rt) by exact Hv. reflexivity.
Qed.

(* only a type that IS a named type is ever changed *)
Theorem subst_top_only_named rt t :
  (forall p n, t <> TNamed p n) -> subst_top rt t = t.
Proof. intros H. destruct t; try reflexivity. exfalso. eapply H. reflexivity. Qed.

Lemma subst_top_composite rt :
  (forall e, subst_top rt (TPtr e) = TPtr e) /\ (forall e, subst_top rt (TSlice e) = TSlice e)
  /\ (forall n e, subst_top rt (TArray n e) = TArray n e) /\ (forall k v, subst_top rt (TMap k v) = TMap k v)
  /\ (forall d e, subst_top rt (TChan d e) = TChan d e)
  /\ (forall ps rs va, subst_top rt (TFunc ps rs va) = TFunc ps rs va)
  /\ (forall b, subst_top rt (TBasic b) = TBasic b)
  /\ (forall x, subst_top rt (TParam x) = TParam x).
Proof. repeat split; reflexivity. Qed.

(* a key that is not set leaves the named type alone; a key that is set replaces it *)
Lemma subst_top_named rt p n :
  subst_top rt (TNamed p n) = match rget (p, n) rt with Some (rp, rn) => TNamed rp rn | None => TNamed p n end.
Proof. reflexivity. Qed.

(* a variadic parameter (go/types: the last parameter has a slice type) is never replaced *)
Lemma variadic_untouched rt n e : add_var rt (n, TSlice e) = add_var [] (n, TSlice e).
Proof. reflexivity. Qed.

(* a type-parameter-typed parameter is never replaced, whatever keys share its name *)
Lemma tparam_untouched rt n x : add_var rt (n, TParam x) = add_var [] (n, TParam x).
Proof. reflexivity. Qed.

(* methods that mention no key at top level are rendered as without the setting *)
Theorem method_untouched rt m :
  untouched_sig rt (snd m) -> method_data_of rt m = method_data_of [] m.
Proof.
  intros Hu. unfold method_data_of. f_equal.
  - apply map_ext_in. intros nt Hin. unfold add_var.
    rewrite (Hu nt) by (apply in_app_iff; now left). rewrite replacement_nil. reflexivity.
  - apply map_ext_in. intros nt Hin. unfold add_var.
    rewrite (Hu nt) by (apply in_app_iff; now right). rewrite replacement_nil. reflexivity.
Qed.

(* interfaces: each one is rendered from its own mock's map only *)
Theorem iface_exact i :
  valid_targets (i_rt i) -> iface_data i = iface_data (subst_iface i).
Proof.
  intros Hv. unfold iface_data, subst_iface. simpl. rewrite map_map.
  apply map_ext. intros m. apply method_exact. exact Hv.
Qed.

Theorem file_vars_exact ifs :
  Forall (fun i => valid_targets (i_rt i)) ifs ->
  file_vars ifs = file_vars (map subst_iface ifs).
Proof.
  induction 1 as [|i ifs Hi _ IH]; [reflexivity|].
  unfold file_vars in *. simpl. rewrite IH, (iface_exact i Hi). reflexivity.
Qed.

(* an interface without the setting in a file where others have it *)
Theorem other_interfaces_untouched a b :
  i_rt b = [] -> file_vars [a; b] = file_vars [a] ++ file_vars [{| i_name := i_name b; i_rt := []; i_methods := i_methods b |}].
Proof.
  intros H. unfold file_vars. simpl. rewrite !app_nil_r. unfold iface_data. rewrite H. reflexivity.
Qed.

(* ---------------------------------------------------------------- imports *)
Theorem imports_exact names d b ifs :
  Forall (fun i => valid_targets (i_rt i)) ifs ->
  file_imports names d b ifs = file_imports names d b (map subst_iface ifs).
Proof.
  intros H. unfold file_imports, file_registry. rewrite (file_vars_exact ifs H). reflexivity.
Qed.

Lemma fold_add_paths names paths : forall r p,
  In p (map ipath (imports (fold_left (fun r path => fst (add_import r (name_of names path) path)) paths r)))
  <-> In p (map ipath (imports r)) \/ (In p paths /\ ~ self r p).
Proof.
  induction paths as [|x paths IH]; intros r p.
  - simpl. tauto.
  - simpl fold_left. rewrite IH.
    pose proof (add_import_cases r (name_of names x) x) as Hc.
    destruct (add_import r (name_of names x) x) as [r' o]. simpl fst.
    destruct Hc as (Hd & Hi & Hc).
    assert (forall y, self r' y <-> self r y) as Hs by (intros y; unfold self; rewrite Hd, Hi; tauto).
    rewrite Hs.
    destruct Hc as [(S & -> & _) | [(NS & -> & i & _ & F) | (NS & F & i & _ & E & P & _)]].
    + simpl. split; [tauto|]. intros [H|[[<-|H] N]]; tauto.
    + apply find_path_some in F. destruct F as [Fi Fp].
      simpl. split; [tauto|]. intros [H|[[<-|H] N]]; try tauto.
      left. rewrite <- Fp. apply in_map. exact Fi.
    + rewrite E, map_app, in_app_iff. simpl. rewrite P. split.
      * intros [[H|[<-|[]]]|H]; tauto.
      * intros [H|[[<-|H] N]]; tauto.
Qed.

(* C13_imports, second half: a package is imported by the file iff a variable of the substituted
   signatures mentions it (and it is not the file's own package) - in particular the original
   package of a replaced type stays iff something else still refers to it *)
Theorem imports_iff_referenced names d b ifs p :
  Forall (fun i => valid_targets (i_rt i)) ifs ->
  In p (map fst (file_imports names d b ifs))
  <-> (exists v, In v (file_vars (map subst_iface ifs)) /\ In p (v_imports v)) /\ ~ (p = d /\ b = true).
Proof.
  intros H. rewrite (imports_exact names d b ifs H).
  unfold file_imports. rewrite map_map. simpl.
  assert (forall r, In p (map (fun i => ipath i) (imports_sorted r)) <-> In p (map ipath (imports r))) as Hp.
  { intros r. split; intros Hin.
    - eapply Permutation_in; [apply Permutation_map, Permutation_sym, imports_sorted_perm | exact Hin].
    - eapply Permutation_in; [apply Permutation_map, imports_sorted_perm | exact Hin]. }
  rewrite Hp. unfold file_registry. rewrite fold_add_paths. simpl. unfold self. simpl.
  rewrite in_flat_map. tauto.
Qed.

(* ---------------------------------------------------------------- levels *)
(* with C08's merge the map a mock is generated with is the first-set resolution of its chain, so
   a key written at any level of the chain (and not overridden below) is the replacement used *)
Theorem levels rx disc t m c k r nt :
  untouched disc (m_pkg m) ->
  mock_cfg (init_pure rx disc (init_pure rx disc t)) m = Some c ->
  first_some (map (fun x => rget k (c_rt x)) (written_chain t m)) = Some r ->
  snd nt = TNamed (fst k) (snd k) ->
  v_ty (add_var (c_rt c) nt) = TNamed (fst r) (snd r) /\ v_imports (add_var (c_rt c) nt) = [fst r].
Proof.
  intros Hu Hc Hf Ht.
  pose proof (replace_type_first_set rx disc t m c Hu Hc k) as Hr. rewrite Hf in Hr.
  unfold add_var. rewrite Ht. simpl. destruct k as [kp kn]. simpl in *. rewrite Hr.
  destruct r as [rp rn]. split; reflexivity.
Qed.

(* ---------------------------------------------------------------- generic targets (known finding) *)
(* no replacement target is a generic type: AddVar sees the map as configured *)
Definition plain_targets (decl : rkey -> str) (rt : rtmap) : Prop :=
  forall e, In e rt -> decl (snd e) = [].

Definition plain_targetsb (decl : rkey -> str) (rt : rtmap) : bool :=
  forallb (fun e => match decl (snd e) with [] => true | _ => false end) rt.

Lemma plain_targetsb_spec decl rt : plain_targetsb decl rt = true -> plain_targets decl rt.
Proof.
  unfold plain_targetsb. rewrite forallb_forall. intros H e Hin. specialize (H e Hin).
  destruct (decl (snd e)); [reflexivity | discriminate].
Qed.

Lemma resolve_plain decl rt : plain_targets decl rt -> resolve_targets decl rt = rt.
Proof.
  intros H. unfold resolve_targets. induction rt as [|[k [rp rn]] rt IH]; [reflexivity|].
  pose proof (H (k, (rp, rn)) (or_introl eq_refl)) as E. simpl in E. simpl. rewrite E, app_nil_r. f_equal.
  apply IH. intros e He. apply H. now right.
Qed.
