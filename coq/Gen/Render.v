(* Model of the template data handed to templates (C14, C02):
     template/var.go          varName, varNameForType, deCapitalise/capitalise, Var.TypeString
     template/method_scope.go populateImports(Helper), AddVar, ResolveVariableNameCollisions
     template/method.go, param_data.go, interface.go     the string accessors
     internal/template_generator.go                      methodData, typeParams, Generate
   Registry / MethodScope are REUSED from Gen/Alloc.v (C15).  No proofs in this file.

   Rendered types are structured values [rty]; every accessor of the data model is defined
   on them; [print_rty] mirrors go/types.TypeString (used for the type string that AddVar
   registers in the method scope and for display); [resolve_rty] is the denotation of a
   rendered type in a Go file that imports exactly the reported imports.

   This file describes the tree WITH the proposed fixes fixes/c14-varname-first-rune.diff
   (deCapitalise/capitalise work on the first rune; nested unsafe.Pointer is named
   "pointer") and fixes/c14-variadic-underlying.diff.                                     *)
From Mk Require Import Lib.Bytes Lib.Dec Lib.Fresh Gen.Alloc Gen.Types.

(* ---------------------------------------------------------------------------------- *)
(* Rendered types                                                                      *)
(* ---------------------------------------------------------------------------------- *)
Inductive rty :=
| RName (q : str) (n : str) (targs : list (label * rty))   (* q = "" : a bare identifier *)
| RPtr (e : rty)
| RSlice (e : rty)
| RArray (len : nat) (e : rty)
| RMap (k e : rty)
| RChan (d : dir) (e : rty)
| RFunc (ps : list (label * rty)) (variadic : bool) (rs : list (label * rty))
| RStruct (fs : list (label * rty))
| RIface (ms : list (label * rty)) (es : list (label * rty))
| RUnion (ts : list (label * rty)).

(* types.TypeString with Var.packageQualifier: [qf path] is the qualifier ("" = none) *)
Fixpoint render (qf : str -> str) (t : ty) : rty :=
  match t with
  | TBasic n => RName [] n []
  | TUnsafePtr => RName (qf unsafe_path) (B "Pointer") []
  | TNamed p n targs | TAlias p n targs =>
      RName (match p with Some p => qf p | None => [] end) n (map_items (render qf) targs)
  | TPtr e => RPtr (render qf e)
  | TSlice e => RSlice (render qf e)
  | TArray l e => RArray l (render qf e)
  | TMap k e => RMap (render qf k) (render qf e)
  | TChan d e => RChan d (render qf e)
  | TFunc ps v rs => RFunc (map_items (render qf) ps) v (map_items (render qf) rs)
  | TStruct fs => RStruct (map_items (render qf) fs)
  | TIface ms es => RIface (map_items (render qf) ms) (map_items (render qf) es)
  | TUnion ts => RUnion (map_items (render qf) ts)
  | TParam n => RName [] n []
  end.

(* ---------- go/types.TypeString layout (typestring.go, Go 1.23) ---------- *)
Fixpoint join (sep : str) (l : list str) : str :=
  match l with
  | [] => []
  | [x] => x
  | x :: r => x ++ sep ++ join sep r
  end.

(* strconv.Quote for printable ASCII tags *)
Fixpoint quote_body (s : str) : str :=
  match s with
  | [] => []
  | c :: r => (if beqb c x22 then [x5c; x22] else if beqb c x5c then [x5c; x5c] else [c]) ++ quote_body r
  end.
Definition quote (s : str) : str := [x22] ++ quote_body s ++ [x22].

Definition is_nil {A} (l : list A) : bool := match l with [] => true | _ => false end.


Fixpoint print_rty (t : rty) : str :=
  match t with
  | RName q n targs =>
      (if is_nil q then [] else q ++ B ".") ++ n ++
      (if is_nil targs then [] else B "[" ++ join (B ", ") (map (fun it => print_rty (snd it)) targs) ++ B "]")
  | RPtr e => B "*" ++ print_rty e
  | RSlice e => B "[]" ++ print_rty e
  | RArray l e => B "[" ++ dec l ++ B "]" ++ print_rty e
  | RMap k e => B "map[" ++ print_rty k ++ B "]" ++ print_rty e
  | RChan d e =>
      match d with
      | DBoth => B "chan " ++ (match e with RChan DRecv _ => B "(" ++ print_rty e ++ B ")" | _ => print_rty e end)
      | DSend => B "chan<- " ++ print_rty e
      | DRecv => B "<-chan " ++ print_rty e
      end
  | RFunc ps v rs =>
      B "func" ++
      (* pr_sig, unfolded so that the recursion is visibly structural *)
      B "(" ++ join (B ", ")
        ((fix tup (l : list (label * rty)) : list str :=
            match l with
            | [] => []
            | (lb, t) :: r =>
                ((if is_nil (lname lb) then [] else lname lb ++ B " ") ++
                 match r, v, t with
                 | [], true, RSlice e => B "..." ++ print_rty e
                 | _, _, _ => print_rty t
                 end) :: tup r
            end) ps) ++ B ")" ++
      (let res := map (fun it => (if is_nil (lname (fst it)) then [] else lname (fst it) ++ B " ") ++ print_rty (snd it)) rs in
       match rs with
       | [] => []
       | [(lb, _)] => if is_nil (lname lb) then B " " ++ join (B ", ") res else B " (" ++ join (B ", ") res ++ B ")"
       | _ => B " (" ++ join (B ", ") res ++ B ")"
       end)
  | RStruct fs =>
      B "struct{" ++ join (B "; ")
        (map (fun it => (if lflag (fst it) then [] else lname (fst it) ++ B " ") ++ print_rty (snd it) ++
                        (if is_nil (ltag (fst it)) then [] else B " " ++ quote (ltag (fst it)))) fs) ++ B "}"
  | RIface ms es =>
      B "interface{" ++ join (B "; ")
        (map (fun it => lname (fst it) ++
                        match snd it with
                        | RFunc _ _ _ => skipn 4 (print_rty (snd it))      (* name + signature: drop the "func" keyword *)
                        | _ => print_rty (snd it)
                        end) ms ++
         map (fun it => print_rty (snd it)) es) ++ B "}"
  | RUnion ts => join (B " | ") (map (fun it => (if lflag (fst it) then B "~" else []) ++ print_rty (snd it)) ts)
  end.

(* ---------------------------------------------------------------------------------- *)
(* Variable names (template/var.go)                                                    *)
(* ---------------------------------------------------------------------------------- *)
Definition is_ascii (b : byte) : bool := Nat.ltb (Byte.to_nat b) 128.
Definition ascii_lower (b : byte) : byte :=
  let n := Byte.to_nat b in
  if Nat.leb 65 n && Nat.leb n 90 then match Byte.of_nat (n + 32) with Some c => c | None => b end else b.
Definition ascii_upper (b : byte) : byte :=
  let n := Byte.to_nat b in
  if Nat.leb 97 n && Nat.leb n 122 then match Byte.of_nat (n - 32) with Some c => c | None => b end else b.

Fixpoint strip_prefix (p s : str) : option str :=
  match p, s with
  | [], _ => Some s
  | x :: p', y :: s' => if beqb x y then strip_prefix p' s' else None
  | _ :: _, [] => None
  end.

(* unicode.ToLower / ToUpper applied to the first rune, for a rune that is not ASCII:
   [tbl] lists (UTF-8 of a rune, UTF-8 of its image); runes not listed map to themselves.
   This table stands for Go's unicode tables (external; supplied by the harness for the
   runes it generates). *)
Fixpoint map_first_rune (tbl : list (str * str)) (s : str) : str :=
  match tbl with
  | [] => s
  | (u, l) :: r => match u, strip_prefix u s with
                   | _ :: _, Some rest => l ++ rest
                   | _, _ => map_first_rune r s
                   end
  end.

(* template_funcs.Exported on ASCII identifiers: an initialism if the upper-cased string is one,
   else the first byte upper-cased.  (Exported is property C16's; the model below is
   parametric in it, this instance is what the harness and the refutation witnesses use.) *)
Definition initialisms : list str :=
  [B "ACL"; B "API"; B "ASCII"; B "CPU"; B "CSS"; B "DNS"; B "EOF"; B "GUID"; B "HTML"; B "HTTP"; B "HTTPS"; B "ID"; B "IP"; B "JSON"; B "LHS";
   B "QPS"; B "RAM"; B "RHS"; B "RPC"; B "SLA"; B "SMTP"; B "SQL"; B "SSH"; B "TCP"; B "TLS"; B "TTL"; B "UDP"; B "UI"; B "UID"; B "UUID"; B "URI";
   B "URL"; B "UTF8"; B "VM"; B "XML"; B "XMPP"; B "XSRF"; B "XSS"].
Definition exported_ascii (s : str) : str :=
  match s with
  | [] => []
  | b :: r => if smem (map ascii_upper s) initialisms then map ascii_upper s else ascii_upper b :: r
  end.

Record ctx := {
  cx_names : list (str * str);     (* import path -> package name (types.Package.Name()) *)
  cx_lower : list (str * str);     (* unicode.ToLower on non-ASCII first runes *)
  cx_upper : list (str * str);     (* unicode.ToUpper on non-ASCII first runes *)
  cx_exported : str -> str         (* template_funcs.Exported (property C16) *)
}.

Fixpoint assoc (k : str) (l : list (str * str)) : option str :=
  match l with
  | [] => None
  | (a, b) :: r => if seqb k a then Some b else assoc k r
  end.

Section Model.
  Variable cx : ctx.

  Definition pkg_name (path : str) : str := match assoc path (cx_names cx) with Some n => n | None => [] end.

  (* deCapitalise / capitalise (FIXED: first rune; the empty string is returned unchanged) *)
  Definition decap (s : str) : str :=
    match s with
    | [] => []
    | b :: r => if is_ascii b then ascii_lower b :: r else map_first_rune (cx_lower cx) s
    end.
  Definition cap (s : str) : str :=
    match s with
    | [] => []
    | b :: r => if is_ascii b then ascii_upper b :: r else map_first_rune (cx_upper cx) s
    end.

  (* basicTypeVarName: switch b.Info() { case IsBoolean / IsInteger / IsFloat / IsString }
     the comparison is on the whole flag set, so unsigned integers (IsInteger|IsUnsigned)
     and complex types fall to "v" *)
  Definition basic_var_name (n : str) : str :=
    if seqb n (B "bool") then B "b"
    else if smem n [B "int"; B "int8"; B "int16"; B "int32"; B "int64"; B "rune"] then B "n"
    else if smem n [B "float32"; B "float64"] then B "f"
    else if seqb n (B "string") then B "s"
    else B "v".

  Fixpoint var_name_for_type (t : ty) : str :=
    let nested (t : ty) : str :=
      match t with
      | TBasic n => decap n                       (* deCapitalise(t.Name()) *)
      | TUnsafePtr => decap (B "Pointer")          (* FIXED: was deCapitalise("unsafe.Pointer") *)
      | _ => var_name_for_type t
      end in
    match t with
    | TNamed _ n _ =>
        if seqb n (B "error") then B "err"
        else let d := decap n in if seqb d n then d ++ B "MoqParam" else d
    | TBasic n => basic_var_name n
    | TUnsafePtr => B "v"
    | TArray _ e => nested e ++ B "s"
    | TSlice e => nested e ++ B "s"
    | TStruct _ => B "val"
    | TPtr e => var_name_for_type e
    | TFunc _ _ _ => B "fn"
    | TIface _ _ => B "ifaceVal"
    | TMap k e => nested k ++ B "To" ++ cap (nested e)
    | TChan _ e => nested e ++ B "Ch"
    | TAlias _ _ _ | TUnion _ | TParam _ => B "v"
    end.

  Definition reserved : list str :=
    [B "mock"; B "callInfo"; B "break"; B "default"; B "func"; B "interface"; B "select"; B "case"; B "defer"; B "go"; B "map"; B "struct";
     B "chan"; B "else"; B "goto"; B "package"; B "switch"; B "const"; B "fallthrough"; B "if"; B "range"; B "type"; B "continue"; B "for";
     B "import"; B "return"; B "var";
     B "string"; B "bool"; B "byte"; B "rune"; B "uintptr";
     B "int"; B "int8"; B "int16"; B "int32"; B "int64";
     B "uint"; B "uint8"; B "uint16"; B "uint32"; B "uint64";
     B "float32"; B "float64"; B "complex64"; B "complex128"].

  Definition blank (n : str) : bool := is_nil n || seqb n (B "_").

  (* varName(vr, suffix) with suffix = "" (the only suffix the generator passes) *)
  Definition var_name (name : str) (t : ty) : str :=
    if negb (blank name) then name
    else let n := var_name_for_type t in if smem n reserved then n ++ B "Param" else n.

  (* -------------------------------------------------------------------------------- *)
  (* Variables, import collection (template/method_scope.go)                          *)
  (* -------------------------------------------------------------------------------- *)
  (* Var.imports: path -> *Package (None = the nil package returned for the in-package
     self import).  Map assignment = cons; lookup finds the newest entry. *)
  Definition vimports := list (str * option import_).
  Fixpoint lookup_imp (p : str) (m : vimports) : option (option import_) :=
    match m with
    | [] => None
    | (k, v) :: r => if seqb p k then Some v else lookup_imp p r
    end.
  (* Var.packageQualifier: v.imports[path].Qualifier(); a missing entry is the nil *Package *)
  Definition qual_of (m : vimports) (p : str) : str :=
    match lookup_imp p m with Some (Some i) => qualifier i | _ => [] end.

  Record var_ := { vname : str; vty : ty; vimps : vimports }.
  Definition vrty (v : var_) : rty := render (qual_of (vimps v)) (vty v).     (* Var.TypeString, structured *)
  Definition set_name (v : var_) (n : str) : var_ := {| vname := n; vty := vty v; vimps := vimps v |}.

  (* MethodScope.addImport: registry.addImport, record in the variable's map, AddName(qualifier) *)
  Definition pstate := (registry * scope * vimports)%type.
  Definition scope_add_import (st : pstate) (path : str) : pstate :=
    let '(r, s, m) := st in
    let '(r', o) := add_import r (pkg_name path) path in
    (r', add_name s (match o with Some i => qualifier i | None => [] end), (path, o) :: m).
  Definition populate (r : registry) (s : scope) (t : ty) : pstate :=
    fold_left scope_add_import (imports_of t) (r, s, []).

  (* MethodScope.AddVar (replacement = nil) *)
  Definition vstate := (registry * scope * list var_)%type.
  Definition add_var (st : vstate) (x : label * ty) : vstate :=
    let '(r, s, vs) := st in
    let '(r', s', m) := populate r s (snd x) in
    let s'' := add_name s' (print_rty (render (qual_of m) (snd x))) in
    (r', s'', vs ++ [{| vname := suggest s'' (var_name (lname (fst x)) (snd x)); vty := snd x; vimps := m |}]).

  (* a fresh method scope (seeded with the registry's qualifiers AT THAT TIME, then with the
     names [init]), then AddVar for each *)
  Definition run_group (r : registry) (init : list str) (xs : items ty) : vstate :=
    fold_left add_var xs (r, fold_left add_name init (new_scope r), []).

  (* MethodScope.ResolveVariableNameCollisions *)
  Fixpoint resolve_names (s : scope) (vs : list var_) : scope * list var_ :=
    match vs with
    | [] => (s, [])
    | v :: r => let n := suggest s (vname v) in
                let '(s', r') := resolve_names (add_name s n) r in
                (s', set_name v n :: r')
    end.

  (* -------------------------------------------------------------------------------- *)
  (* Method / interface / file data (internal/template_generator.go)                  *)
  (* -------------------------------------------------------------------------------- *)
  Record mdata := {
    dname : str;
    dparams : list var_;           (* Params[i].Var *)
    dvariadic : bool;              (* Params[last].Variadic *)
    dreturns : list var_;
    dscope0 : scope;               (* the scope before ResolveVariableNameCollisions *)
    dscope : scope                 (* Method.Scope as the template sees it *)
  }.

  (* methodData, before collision resolution.  [tpn]: the names of the interface's type
     parameters, which the receiver of every generated method declares (FIXED:
     fixes/c14-tparam-names-visible.diff makes them visible in the method scope) *)
  Definition method_data (tpn : list str) (r : registry) (m : str * sig) : registry * mdata :=
    let '(r', s, vs) := run_group r tpn (sparams (snd m) ++ sresults (snd m)) in
    let np := length (sparams (snd m)) in
    (r', {| dname := fst m; dparams := firstn np vs; dvariadic := svariadic (snd m);
            dreturns := skipn np vs; dscope0 := s; dscope := s |}).

  Definition dvars (d : mdata) : list var_ := dparams d ++ dreturns d.

  Definition resolve_collisions (d : mdata) : mdata :=
    let '(s', vs) := resolve_names (dscope0 d) (dparams d ++ dreturns d) in
    let np := length (dparams d) in
    {| dname := dname d; dparams := firstn np vs; dvariadic := dvariadic d; dreturns := skipn np vs;
       dscope0 := dscope0 d; dscope := s' |}.

  Fixpoint methods_data (tpn : list str) (r : registry) (ms : list (str * sig)) : registry * list mdata :=
    match ms with
    | [] => (r, [])
    | m :: rest => let '(r1, d) := method_data tpn r m in
                   let '(r2, ds) := methods_data tpn r1 rest in (r2, d :: ds)
    end.

  (* the interface as handed to Generate: name, struct name, type parameters with their
     constraints, and the methods of the COMPLETED method set in go/types order
     (iface.Method(i); that order and the method set itself are go/types' and are inputs) *)
  Record iface := { if_name : str; if_struct : str; if_tparams : items ty; if_methods : list (str * sig) }.

  Record idata := { i_name : str; i_struct : str; i_tparams : list var_; i_methods : list mdata;
                    i_tpscope : scope (* the scope in which the type parameters were named; not visible to templates *) }.

  (* one iteration of the loop in Generate: all methods, then collision resolution for
     every method, then the type parameters (a fresh scope, no collision resolution) *)
  Definition gen_iface (r : registry) (i : iface) : registry * idata :=
    let '(r1, ds) := methods_data (map (fun it => lname (fst it)) (if_tparams i)) r (if_methods i) in
    let ds' := map resolve_collisions ds in
    let '(r2, s2, tps) := run_group r1 [] (if_tparams i) in
    (r2, {| i_name := if_name i; i_struct := if_struct i; i_tparams := tps; i_methods := ds'; i_tpscope := s2 |}).

  Fixpoint gen_ifaces (r : registry) (is : list iface) : registry * list idata :=
    match is with
    | [] => (r, [])
    | i :: rest => let '(r1, d) := gen_iface r i in
                   let '(r2, ds) := gen_ifaces r1 rest in (r2, d :: ds)
    end.

  (* the template.Data of one output file: one registry shared by all its interfaces *)
  Record fdata := { f_registry : registry; f_ifaces : list idata }.
  Definition gen_file (dstpath : str) (inpackage : bool) (is : list iface) : fdata :=
    let '(r, ds) := gen_ifaces {| dst := dstpath; inpkg := inpackage; imports := [] |} is in
    {| f_registry := r; f_ifaces := ds |}.
  (* Data.Imports() *)
  Definition f_imports (f : fdata) : list import_ := imports_sorted (f_registry f).

  (* -------------------------------------------------------------------------------- *)
  (* Accessors, as structured values                                                  *)
  (* -------------------------------------------------------------------------------- *)
  (* an element of an argument / type / result list: optional name, "..." flag, type *)
  Record arg := { a_name : str; a_ell : bool; a_ty : rty }.

  (* TypeString()[2:] / strings.Replace(ts, "[]", "...", 1) on the type string of a variadic
     parameter: go/types guarantees that its type is a slice, whose string starts with "[]" *)
  Definition elem_of (t : rty) : rty := match t with RSlice e => e | _ => t end.

  Definition is_last {A} (l : list A) (k : nat) : bool := Nat.eqb (S k) (length l).
  (* Params[k].Variadic *)
  Definition pvariadic (d : mdata) (k : nat) : bool := dvariadic d && is_last (dparams d) k.

  (* Returns[k].Variadic: methodData sets it to false for every result *)
  Definition rvariadic (d : mdata) (k : nat) : bool := false.

  Fixpoint mapi_from {A B} (k : nat) (f : nat -> A -> B) (l : list A) : list B :=
    match l with [] => [] | x :: r => f k x :: mapi_from (S k) f r end.
  Definition mapi {A B} := @mapi_from A B 0.

  Definition param_name (v : var_) : str := vname v.                                  (* Param.Name *)
  Definition param_type_string (v : var_) : rty := vrty v.                            (* Param.TypeString *)
  Definition param_method_arg (v : var_) (variadic : bool) : arg :=                   (* Param.MethodArg *)
    if variadic then {| a_name := vname v; a_ell := true; a_ty := elem_of (vrty v) |}
    else {| a_name := vname v; a_ell := false; a_ty := vrty v |}.
  Definition param_call_name (ellipsis : bool) (v : var_) (variadic : bool) : str * bool :=   (* Param.CallName *)
    (vname v, ellipsis && variadic).
  Definition param_type_string_ellipsis (v : var_) (variadic : bool) : arg :=        (* Param.TypeStringEllipsis *)
    if variadic then {| a_name := []; a_ell := true; a_ty := elem_of (vrty v) |}
    else {| a_name := []; a_ell := false; a_ty := vrty v |}.
  Definition param_type_string_variadic_underlying (v : var_) (variadic : bool) : rty :=   (* FIXED *)
    if variadic then elem_of (vrty v) else vrty v.

  Definition arg_list (d : mdata) : list arg := mapi (fun k v => param_method_arg v (pvariadic d k)) (dparams d).
  Definition arg_type_list (d : mdata) : list rty := map vrty (dparams d).
  Definition arg_type_list_ellipsis (d : mdata) : list arg :=
    mapi (fun k v => param_type_string_ellipsis v (pvariadic d k)) (dparams d).
  (* argCallListSlice(start, end, ellipsis); end = None stands for a negative end.
     None = the slice expression m.Params[start:end] panics. *)
  Definition arg_call_list_slice (d : mdata) (start : nat) (end_ : option nat) (ellipsis : bool) : option (list (str * bool)) :=
    let n := length (dparams d) in
    let e := match end_ with None => n | Some e => e end in
    let e := if Nat.eqb e 1 && Nat.eqb n 0 then 0 else e in
    if Nat.leb start e && Nat.leb e n
    then Some (firstn (e - start) (skipn start (mapi (fun k v => param_call_name ellipsis v (pvariadic d k)) (dparams d))))
    else None.
  Definition arg_call_list (d : mdata) : list (str * bool) :=
    mapi (fun k v => param_call_name true v (pvariadic d k)) (dparams d).
  Definition arg_call_list_no_ellipsis (d : mdata) : list (str * bool) :=
    mapi (fun k v => param_call_name false v (pvariadic d k)) (dparams d).
  Definition return_arg_type_list (d : mdata) : list rty := map vrty (dreturns d).
  Definition return_arg_name_list (d : mdata) : list str := map vname (dreturns d).
  Definition return_arg_list (d : mdata) : list arg :=
    map (fun v => {| a_name := vname v; a_ell := false; a_ty := vrty v |}) (dreturns d).
  (* Signature = "(" ArgList ") (" ReturnArgList ")",  Declaration = Name ++ Signature, Call = Name(ArgCallList) *)
  Definition signature (d : mdata) : list arg * list arg := (arg_list d, return_arg_list d).
  Definition declaration (d : mdata) : str * (list arg * list arg) := (dname d, signature d).
  Definition call (d : mdata) : str * list (str * bool) := (dname d, arg_call_list d).
  Definition is_variadic (d : mdata) : bool := negb (is_nil (dparams d)) && dvariadic d.
  Definition has_params (d : mdata) : bool := negb (is_nil (dparams d)).
  Definition has_returns (d : mdata) : bool := negb (is_nil (dreturns d)).
  Definition return_statement (d : mdata) : str := if has_returns d then B "return" else [].
  (* comparisons on the TYPE STRING *)
  Definition accepts_context (d : mdata) : bool :=
    match dparams d with v :: _ => seqb (print_rty (vrty v)) (B "context.Context") | [] => false end.
  Definition returns_error (d : mdata) : bool :=
    existsb (fun v => seqb (print_rty (vrty v)) (B "error")) (dreturns d).

  (* Interface.TypeConstraint / TypeInstantiation: Exported(param.Name()) *)
  Definition type_constraint (i : idata) : list (str * rty) :=
    map (fun v => (cx_exported cx (vname v), vrty v)) (i_tparams i).
  Definition type_instantiation (i : idata) : list str := map (fun v => cx_exported cx (vname v)) (i_tparams i).

End Model.

(* ---------------------------------------------------------------------------------- *)
(* Denotation of a rendered type                                                       *)
(* ---------------------------------------------------------------------------------- *)
(* The Go file in which the strings are placed:
     e_imports : its import declarations = exactly the reported imports (path, qualifier)
     e_dst     : the import path of the package the file belongs to
     e_local   : the type names declared at package level in that package
     e_tparams : the type parameters in scope (those declared from TypeConstraint)
     e_shadow  : variables in scope (parameter and result names inside a method body; [] in a signature) *)
Record env := { e_imports : list import_; e_dst : str; e_local : list str; e_tparams : list str; e_shadow : list str }.

Fixpoint find_qual (q : str) (l : list import_) : option import_ :=
  match l with
  | [] => None
  | i :: r => if seqb q (qualifier i) then Some i else find_qual q r
  end.

(* all-or-nothing *)
Fixpoint oseq {A} (l : list (option A)) : option (list A) :=
  match l with
  | [] => Some []
  | x :: r => match x, oseq r with Some y, Some ys => Some (y :: ys) | _, _ => None end
  end.
Definition olabel {A} (lb : label) (o : option A) : option (label * A) :=
  match o with Some u => Some (lb, u) | None => None end.

Section Resolve.
  Variable E : env.
  (* Go's scoping, innermost first: function scope (variables), type parameter list,
     file scope (imports), package scope, universe.  The result identifies the declared
     object; a bare identifier that is none of the first four is the universe object of
     that name. *)
  Definition resolve_name (q n : str) (targs : list (label * ty)) : option ty :=
    match q with
    | [] =>
        if smem n (e_shadow E) then None                                   (* a variable, not a type *)
        else if smem n (e_tparams E) then (if is_nil targs then Some (TParam n) else None)
        else if smem n (map qualifier (e_imports E)) then None             (* a package, not a type *)
        else if smem n (e_local E) then Some (TNamed (Some (e_dst E)) n targs)
        else Some (TNamed None n targs)
    | _ =>
        if smem q (e_shadow E) || smem q (e_tparams E) || smem q (e_local E) then None   (* q is not the package *)
        else match find_qual q (e_imports E) with
             | Some i => Some (TNamed (Some (ipath i)) n targs)
             | None => None                                                (* undefined: q *)
             end
    end.

  Fixpoint resolve_rty (t : rty) : option ty :=
    let items (l : list (label * rty)) : option (list (label * ty)) :=
      oseq (map (fun it => olabel (fst it) (resolve_rty (snd it))) l) in
    match t with
    | RName q n targs => match items targs with Some a => resolve_name q n a | None => None end
    | RPtr e => option_map TPtr (resolve_rty e)
    | RSlice e => option_map TSlice (resolve_rty e)
    | RArray l e => option_map (TArray l) (resolve_rty e)
    | RMap k e => match resolve_rty k, resolve_rty e with Some a, Some b => Some (TMap a b) | _, _ => None end
    | RChan d e => option_map (TChan d) (resolve_rty e)
    | RFunc ps v rs => match items ps, items rs with Some a, Some b => Some (TFunc a v b) | _, _ => None end
    | RStruct fs => option_map TStruct (items fs)
    | RIface ms es => match items ms, items es with Some a, Some b => Some (TIface a b) | _, _ => None end
    | RUnion ts => option_map TUnion (items ts)
    end.
End Resolve.

(* ---------------------------------------------------------------------------------- *)
(* Guards: the scoping side conditions under which the denotation theorems hold         *)
(* ---------------------------------------------------------------------------------- *)
(* the Go file that imports exactly the reported imports under the reported qualifiers *)
Definition file_env (dstp : str) (f : fdata) (local tps sh : list str) : env :=
  {| e_imports := f_imports f; e_dst := dstp; e_local := local; e_tparams := tps; e_shadow := sh |}.

Section Guard.
  Variable cx : ctx.
  Variable E : env.
  Variable inp : bool.

  (* what must hold of one reference made by the SOURCE type for the bare identifier / the
     qualifier to mean in the destination file what it meant in the source:
       - predeclared names are not shadowed by type parameters, imports, package-level
         declarations of the destination package or variables;
       - a type of the destination package itself (in-package) is declared there, and is
         not shadowed by a type parameter, an import or a variable;
       - the qualifier chosen for a package is not shadowed by a type parameter, a
         package-level declaration or a variable, and the package has a name;
       - a type parameter is among the type parameters in scope (the names offered by
         TypeConstraint) and is not shadowed by a variable. *)
  Definition ref_guard (qf : str -> str) (r : ref) : bool :=
    match r with
    | RefTParam n => negb (smem n (e_shadow E)) && smem n (e_tparams E)
    | RefObj None n =>
        negb (smem n (e_shadow E)) && negb (smem n (e_tparams E)) &&
        negb (smem n (map qualifier (e_imports E))) && negb (smem n (e_local E))
    | RefObj (Some p) n =>
        if seqb p (e_dst E) && inp
        then negb (smem n (e_shadow E)) && negb (smem n (e_tparams E)) &&
             negb (smem n (map qualifier (e_imports E))) && smem n (e_local E)
        else negb (is_nil (pkg_name cx p)) &&
             negb (smem (qf p) (e_shadow E)) && negb (smem (qf p) (e_tparams E)) && negb (smem (qf p) (e_local E))
    end.

  Definition var_guard (v : var_) : bool := forallb (ref_guard (qual_of (vimps v))) (refs (vty v)).
End Guard.

(* identifiers that the rendered type of a variable uses WITHOUT a qualifier *)
Definition bare_idents (v : var_) : list str :=
  flat_map (fun r => match r with
                     | RefTParam n => [n]
                     | RefObj None n => [n]
                     | RefObj (Some p) n => if is_nil (qual_of (vimps v) p) then [n] else []
                     end) (refs (vty v)).

(* known-finding class C14-name-captures-inner-type: no offered parameter/result name equals
   a bare identifier used by a type of the same signature.  (For a type that IS a bare
   identifier the code guarantees it; inside composite types it does not.) *)
Definition capture_free (d : mdata) : bool :=
  forallb (fun v => forallb (fun x => negb (smem x (map vname (dvars d)))) (bare_idents v)) (dvars d).
