(* Proofs about Gen/Render.v (C14, C02). *)
From Coq Require Import Permutation.
From Mk Require Import Lib.Bytes Lib.Dec Lib.Fresh Gen.Alloc Gen.Alloc_proofs Gen.Types Gen.Render.

(* ---------------------------------------------------------------------------------- *)
(* Induction over the type AST                                                         *)
(* ---------------------------------------------------------------------------------- *)
Definition Fitems (P : ty -> Prop) (l : list (label * ty)) : Prop := Forall (fun it => P (snd it)) l.

Lemma ty_ind' (P : ty -> Prop)
  (HB : forall n, P (TBasic n)) (HU : P TUnsafePtr)
  (HN : forall p n l, Fitems P l -> P (TNamed p n l))
  (HA : forall p n l, Fitems P l -> P (TAlias p n l))
  (HP : forall e, P e -> P (TPtr e)) (HS : forall e, P e -> P (TSlice e))
  (HAr : forall n e, P e -> P (TArray n e)) (HM : forall k e, P k -> P e -> P (TMap k e))
  (HC : forall d e, P e -> P (TChan d e))
  (HF : forall ps v rs, Fitems P ps -> Fitems P rs -> P (TFunc ps v rs))
  (HSt : forall fs, Fitems P fs -> P (TStruct fs))
  (HI : forall ms es, Fitems P ms -> Fitems P es -> P (TIface ms es))
  (HUn : forall ts, Fitems P ts -> P (TUnion ts))
  (HTp : forall n, P (TParam n)) : forall t, P t.
Proof.
  fix IH 1. intros t.
  assert (L : forall l : list (label * ty), Fitems P l -> Fitems P l) by auto.
  destruct t as [n| |p n l|p n l|e|e|n e|k e|d e|ps v rs|fs|ms es|ts|n].
  - apply HB.
  - apply HU.
  - apply HN. induction l as [|[lb x] r IHr]; constructor; [apply IH | exact IHr].
  - apply HA. induction l as [|[lb x] r IHr]; constructor; [apply IH | exact IHr].
  - apply HP, IH.
  - apply HS, IH.
  - apply HAr, IH.
  - apply HM; apply IH.
  - apply HC, IH.
  - apply HF.
    + induction ps as [|[lb x] r IHr]; constructor; [apply IH | exact IHr].
    + induction rs as [|[lb x] r IHr]; constructor; [apply IH | exact IHr].
  - apply HSt. induction fs as [|[lb x] r IHr]; constructor; [apply IH | exact IHr].
  - apply HI.
    + induction ms as [|[lb x] r IHr]; constructor; [apply IH | exact IHr].
    + induction es as [|[lb x] r IHr]; constructor; [apply IH | exact IHr].
  - apply HUn. induction ts as [|[lb x] r IHr]; constructor; [apply IH | exact IHr].
  - apply HTp.
Qed.

(* ---------------------------------------------------------------------------------- *)
(* Denotation: resolving a rendered type gives back the source type                    *)
(* ---------------------------------------------------------------------------------- *)
(* a reference is rendered so that it resolves to the object it refers to *)
Definition ref_ok (E : env) (qf : str -> str) (r : ref) : Prop :=
  match r with
  | RefObj p n => forall a, resolve_name E (match p with Some p => qf p | None => [] end) n a = Some (TNamed p n a)
  | RefTParam n => resolve_name E [] n [] = Some (TParam n)
  end.

Lemma oseq_items E qf (l : list (label * ty)) :
  Forall (fun it => resolve_rty E (render qf (snd it)) = Some (norm (snd it))) l ->
  oseq (map (fun it => olabel (fst it) (resolve_rty E (snd it))) (map_items (render qf) l)) = Some (map_items norm l).
Proof.
  unfold map_items. induction 1 as [|[lb x] r H _ IH]; [reflexivity|].
  cbn [map fst snd oseq] in *. rewrite H. cbn [olabel]. rewrite IH. reflexivity.
Qed.

Lemma Forall_refs_items (Q : ref -> Prop) (P : ty -> Prop) (l : list (label * ty)) :
  Fitems (fun t => Forall Q (refs t) -> P t) l ->
  Forall Q (flat_map (fun it => refs (snd it)) l) ->
  Forall (fun it => P (snd it)) l.
Proof.
  intros HF HQ. apply Forall_flat_map in HQ. unfold Fitems in HF.
  rewrite Forall_forall in *. intros it Hit. apply HF; [exact Hit | apply HQ; exact Hit].
Qed.

Theorem resolve_render E qf t :
  Forall (ref_ok E qf) (refs t) -> resolve_rty E (render qf t) = Some (norm t).
Proof.
  induction t as [n| |p n l IH|p n l IH|e IH|e IH|len e IH|k e IHk IHe|d e IH|ps v rs IHp IHr|fs IH|ms es IHm IHe|ts IH|n] using ty_ind';
    intros H; simpl in *.
  - inversion H as [|? ? H1 _]; subst. apply (H1 []).
  - inversion H as [|? ? H1 _]; subst. apply (H1 []).
  - inversion H as [|? ? H1 H2]; subst.
    rewrite (oseq_items E qf l (Forall_refs_items _ _ _ IH H2)). apply H1.
  - inversion H as [|? ? H1 H2]; subst.
    rewrite (oseq_items E qf l (Forall_refs_items _ _ _ IH H2)). apply H1.
  - rewrite (IH H). reflexivity.
  - rewrite (IH H). reflexivity.
  - rewrite (IH H). reflexivity.
  - apply Forall_app in H as [H1 H2]. rewrite (IHk H1), (IHe H2). reflexivity.
  - rewrite (IH H). reflexivity.
  - apply Forall_app in H as [H1 H2].
    rewrite (oseq_items E qf ps (Forall_refs_items _ _ _ IHp H1)), (oseq_items E qf rs (Forall_refs_items _ _ _ IHr H2)). reflexivity.
  - rewrite (oseq_items E qf fs (Forall_refs_items _ _ _ IH H)). reflexivity.
  - apply Forall_app in H as [H1 H2].
    rewrite (oseq_items E qf ms (Forall_refs_items _ _ _ IHm H1)), (oseq_items E qf es (Forall_refs_items _ _ _ IHe H2)). reflexivity.
  - rewrite (oseq_items E qf ts (Forall_refs_items _ _ _ IH H)). reflexivity.
  - inversion H as [|? ? H1 _]; subst. exact H1.
Qed.

(* ---------------------------------------------------------------------------------- *)
(* Registry invariants along the generation                                            *)
(* ---------------------------------------------------------------------------------- *)
Definition ext (r r' : registry) : Prop :=
  dst r' = dst r /\ inpkg r' = inpkg r /\ exists l, imports r' = imports r ++ l.

Lemma ext_refl r : ext r r.
Proof. repeat split. exists []. now rewrite app_nil_r. Qed.
Lemma ext_trans a b c : ext a b -> ext b c -> ext a c.
Proof.
  intros (D1 & I1 & l1 & E1) (D2 & I2 & l2 & E2). repeat split; try congruence.
  exists (l1 ++ l2). rewrite E2, E1. now rewrite app_assoc.
Qed.
Lemma ext_in r r' i : ext r r' -> In i (imports r) -> In i (imports r').
Proof. intros (_ & _ & l & E) H. rewrite E. apply in_or_app. now left. Qed.
Lemma ext_self r r' p : ext r r' -> (self r p <-> self r' p).
Proof. intros (D & I & _). unfold self. rewrite D, I. tauto. Qed.
Lemma ext_quals r r' : ext r r' -> incl (quals r) (quals r').
Proof. intros (_ & _ & l & E) q H. unfold quals in *. rewrite E, map_app. apply in_or_app. now left. Qed.

Definition oq (o : option import_) : str := match o with Some i => qualifier i | None => [] end.

Definition imp_ok (r : registry) (p : str) (o : option import_) : Prop :=
  match o with
  | None => self r p
  | Some i => ~ self r p /\ In i (imports r) /\ ipath i = p
  end.
Lemma imp_ok_ext r r' p o : ext r r' -> imp_ok r p o -> imp_ok r' p o.
Proof.
  intros X. destruct o as [i|]; simpl.
  - intros (A & B & C). repeat split; [rewrite <- (ext_self _ _ p X); exact A | eapply ext_in; eauto | exact C].
  - apply (ext_self _ _ p X).
Qed.

Definition MInv (r : registry) (m : vimports) : Prop := forall p o, lookup_imp p m = Some o -> imp_ok r p o.
Lemma MInv_ext r r' m : ext r r' -> MInv r m -> MInv r' m.
Proof. intros X H p o L. eapply imp_ok_ext; eauto. Qed.

Lemma qual_of_lookup m p o : lookup_imp p m = Some o -> qual_of m p = oq o.
Proof. unfold qual_of. intros ->. destruct o; reflexivity. Qed.

Section Inv.
  Variable cx : ctx.

  (* every import was added under the name the table gives to its path *)
  Definition NInv (r : registry) : Prop := forall i, In i (imports r) -> iname i = pkg_name cx (ipath i).

  Lemma add_import_full r path :
    let '(r', o) := add_import r (pkg_name cx path) path in
    RInv r -> NInv r -> RInv r' /\ NInv r' /\ ext r r' /\ imp_ok r' path o.
  Proof.
    pose proof (add_import_cases r (pkg_name cx path) path) as C.
    pose proof (add_import_inv r (pkg_name cx path) path) as I.
    destruct (add_import r (pkg_name cx path) path) as [r' o] eqn:E. simpl in I.
    destruct C as (D & P & C). intros RI NI. specialize (I RI).
    destruct C as [(S & -> & ->) | [(NS & -> & i & -> & F) | (NS & F & i & -> & Ei & Pi & Qi)]].
    - split; [|split; [|split]]; auto using ext_refl.
    - apply find_path_some in F as [F1 F2]. split; [|split; [|split]]; auto using ext_refl. simpl. auto.
    - assert (X : ext r r') by (repeat split; eauto).
      split; [|split; [|split]]; auto.
      + intros j Hj. rewrite Ei in Hj. apply in_app_or in Hj as [Hj|[<-|[]]]; [now apply NI|].
        unfold add_import in E. destruct (seqb path (dst r) && inpkg r); [discriminate|].
        rewrite F in E. injection E as _ E. subst i. reflexivity.
      + simpl. repeat split; [rewrite <- (ext_self _ _ path X); exact NS | rewrite Ei; apply in_or_app; right; now left | exact Pi].
  Qed.

  Definition PInv (st : pstate) (done : list str) : Prop :=
    let '(r, s, m) := st in
    RInv r /\ NInv r /\ MInv r m /\
    forall p, In p done -> exists o, lookup_imp p m = Some o /\ In (oq o) s.

  Lemma scope_add_import_step st done p :
    PInv st done ->
    PInv (scope_add_import cx st p) (done ++ [p]) /\
    ext (fst (fst st)) (fst (fst (scope_add_import cx st p))) /\
    incl (snd (fst st)) (snd (fst (scope_add_import cx st p))).
  Proof.
    destruct st as [[r s] m]. intros (RI & NI & MI & DN). unfold scope_add_import.
    pose proof (add_import_full r p) as A. destruct (add_import r (pkg_name cx p) p) as [r' o].
    destruct (A RI NI) as (RI' & NI' & X & OK). simpl. split; [|split; [exact X | intros x Hx; now right]].
    split; [exact RI'|]. split; [exact NI'|]. split.
    - intros p0 o0. simpl. destruct (seqb p0 p) eqn:Ep.
      + apply seqb_eq in Ep; subst. intros H; injection H as <-. exact OK.
      + intros H. eapply imp_ok_ext; eauto.
    - intros p0 Hp0. simpl. destruct (seqb p0 p) eqn:Ep.
      + exists o. split; [reflexivity | now left].
      + apply in_app_or in Hp0 as [Hp0|[<-|[]]].
        * destruct (DN _ Hp0) as (o0 & L & Hin). exists o0. split; [exact L | now right].
        * rewrite seqb_refl in Ep. discriminate.
  Qed.

  Lemma fold_scope_add_import ps : forall st done,
    PInv st done ->
    let st' := fold_left (scope_add_import cx) ps st in
    PInv st' (done ++ ps) /\ ext (fst (fst st)) (fst (fst st')) /\ incl (snd (fst st)) (snd (fst st')).
  Proof.
    induction ps as [|p ps IH]; intros st done H; simpl.
    - rewrite app_nil_r. split; [exact H|]. split; [apply ext_refl | apply incl_refl].
    - destruct (scope_add_import_step st done p H) as (H1 & X1 & S1).
      destruct (IH _ _ H1) as (H2 & X2 & S2). rewrite <- app_assoc in H2. simpl in H2.
      split; [exact H2|]. split; [eapply ext_trans; eauto | eapply incl_tran; eauto].
  Qed.

  Lemma populate_spec r s t :
    RInv r -> NInv r ->
    let '(r', s', m) := populate cx r s t in
    RInv r' /\ NInv r' /\ ext r r' /\ incl s s' /\ MInv r' m /\
    forall p, In p (imports_of t) -> exists o, lookup_imp p m = Some o /\ In (oq o) s'.
  Proof.
    intros RI NI. unfold populate.
    assert (P0 : PInv (r, s, []) []).
    { split; [exact RI|]. split; [exact NI|]. split; [intros p o; simpl; discriminate | intros p []]. }
    destruct (fold_scope_add_import (imports_of t) _ _ P0) as (H & X & S).
    destruct (fold_left (scope_add_import cx) (imports_of t) (r, s, [])) as [[r' s'] m].
    simpl in *. destruct H as (A & B & C & D). split; [exact A|]. split; [exact B|]. split; [exact X|]. split; [exact S|]. split; [exact C|exact D].
  Qed.
End Inv.

(* ---------------------------------------------------------------------------------- *)
(* AddVar, one method scope                                                            *)
(* ---------------------------------------------------------------------------------- *)
Definition VInv (r : registry) (v : var_) : Prop :=
  MInv r (vimps v) /\ forall p, In p (imports_of (vty v)) -> lookup_imp p (vimps v) <> None.
Lemma VInv_ext r r' v : ext r r' -> VInv r v -> VInv r' v.
Proof. intros X [A B]. split; [eapply MInv_ext; eauto | exact B]. Qed.

(* what identifies the rendered type of a variable *)
Definition vkey (v : var_) : ty * vimports := (vty v, vimps v).
Definition krty (k : ty * vimports) : rty := render (qual_of (snd k)) (fst k).
Lemma krty_vkey v : krty (vkey v) = vrty v.
Proof. reflexivity. Qed.

(* the scope contains the type string of every variable and every qualifier its type uses *)
Definition GScope (s : scope) (ks : list (ty * vimports)) : Prop :=
  forall k, In k ks -> In (print_rty (krty k)) s /\ forall p, In p (imports_of (fst k)) -> In (qual_of (snd k) p) s.

Lemma GScope_incl s s' ks : incl s s' -> GScope s ks -> GScope s' ks.
Proof. intros I G k Hk. destruct (G k Hk) as [A B]. split; [apply I, A | intros p Hp; apply I, B, Hp]. Qed.

Lemma fold_add_name_incl init : forall s, incl s (fold_left add_name init s) /\ incl init (fold_left add_name init s).
Proof.
  induction init as [|n init IH]; intros s; simpl.
  - split; [apply incl_refl | intros x []].
  - destruct (IH (add_name s n)) as [A B]. split.
    + intros x Hx. apply A. now right.
    + intros x [<-|Hx]; [apply A; now left | now apply B].
Qed.

Section Group.
  Variable cx : ctx.

  Definition GInv (r0 : registry) (s0 : scope) (st : vstate) (xs : items ty) : Prop :=
    let '(r, s, vs) := st in
    RInv r /\ NInv cx r /\ ext r0 r /\ incl s0 s /\ Forall (VInv r) vs /\ map vty vs = map snd xs /\ GScope s (map vkey vs).

  Lemma add_var_step r0 s0 st xs x : GInv r0 s0 st xs -> GInv r0 s0 (add_var cx st x) (xs ++ [x]).
  Proof.
    destruct st as [[r s] vs]. intros (RI & NI & X & I & VI & TY & GS). unfold add_var.
    pose proof (populate_spec cx r s (snd x) RI NI) as PS.
    destruct (populate cx r s (snd x)) as [[r' s'] m]. destruct PS as (RI' & NI' & X' & I' & MI & CL).
    simpl. split; [exact RI'|]. split; [exact NI'|]. split; [eapply ext_trans; eauto|].
    split; [intros y Hy; right; apply I', I, Hy|]. split; [|split].
    - apply Forall_app. split.
      + eapply Forall_impl; [|exact VI]. intros v. apply VInv_ext, X'.
      + constructor; [|constructor]. split; simpl; [exact MI|].
        intros p Hp. destruct (CL p Hp) as (o & L & _). congruence.
    - rewrite !map_app, TY. reflexivity.
    - rewrite map_app. intros k Hk. apply in_app_or in Hk as [Hk|[<-|[]]].
      + destruct (GS k Hk) as [A B]. split; [right; apply I', A | intros p Hp; right; apply I', B, Hp].
      + split; [now left|]. simpl. intros p Hp. destruct (CL p Hp) as (o & L & Hin).
        right. rewrite (qual_of_lookup _ _ _ L). exact Hin.
  Qed.

  Lemma fold_add_var r0 s0 ys : forall st xs, GInv r0 s0 st xs -> GInv r0 s0 (fold_left (add_var cx) ys st) (xs ++ ys).
  Proof.
    induction ys as [|y ys IH]; intros st xs H; simpl.
    - now rewrite app_nil_r.
    - specialize (IH _ _ (add_var_step _ _ _ _ y H)). now rewrite <- app_assoc in IH.
  Qed.

  Lemma run_group_spec r init xs :
    RInv r -> NInv cx r ->
    let '(r', s', vs) := run_group cx r init xs in
    RInv r' /\ NInv cx r' /\ ext r r' /\ incl (quals r) s' /\ incl init s' /\
    Forall (VInv r') vs /\ map vty vs = map snd xs /\ GScope s' (map vkey vs).
  Proof.
    intros RI NI. unfold run_group.
    assert (G0 : GInv r (fold_left add_name init (new_scope r)) (r, fold_left add_name init (new_scope r), []) []).
    { split; [exact RI|]. split; [exact NI|]. split; [apply ext_refl|]. split; [apply incl_refl|].
      split; [constructor|]. split; [reflexivity | intros k []]. }
    pose proof (fold_add_var _ _ xs _ _ G0) as G. simpl in G.
    destruct (fold_left (add_var cx) xs (r, fold_left add_name init (new_scope r), [])) as [[r' s'] vs].
    destruct G as (A & B & C & D & E & F & H).
    destruct (fold_add_name_incl init (new_scope r)) as [I1 I2].
    split; [exact A|]. split; [exact B|]. split; [exact C|].
    split; [intros q Hq; apply D, I1, Hq|]. split; [intros q Hq; apply D, I2, Hq|].
    split; [exact E|]. split; [exact F | exact H].
  Qed.
End Group.

(* ---------------------------------------------------------------------------------- *)
(* Names                                                                               *)
(* ---------------------------------------------------------------------------------- *)
Definition nonblank (n : str) : Prop := n <> [] /\ n <> B "_".

Lemma len2_nonblank (n : str) : 2 <= length n -> nonblank n.
Proof. intros H. split; intros E; rewrite E in H; vm_compute in H; lia. Qed.

Lemma suggest_nonblank s p : nonblank p -> nonblank (suggest s p).
Proof.
  intros [P1 P2]. unfold suggest. destruct (fresh_cand 1 p s) as (k & E & _). rewrite E.
  destruct k as [|k]; simpl; [split; assumption|].
  apply len2_nonblank. rewrite app_length.
  pose proof (dec_nonempty (k + 1)) as D.
  destruct p; [congruence|]. destruct (dec (k + 1)); [congruence|]. simpl. lia.
Qed.

Lemma suggest_fresh s p : ~ In (suggest s p) s.
Proof. apply fresh_not_in. Qed.

Section Names.
  Variable cx : ctx.

  Lemma resolve_names_spec vs : forall s s' vs', resolve_names s vs = (s', vs') ->
    map vkey vs' = map vkey vs /\ NoDup (map vname vs') /\
    (forall n, In n (map vname vs') -> ~ In n s) /\
    incl s s' /\ incl (map vname vs') s' /\
    (Forall (fun v => nonblank (vname v)) vs -> Forall (fun v => nonblank (vname v)) vs').
  Proof.
    induction vs as [|v vs IH]; intros s s' vs' H; simpl in H.
    - injection H as <- <-. simpl. repeat split; auto using incl_refl; try constructor; intros n [].
    - destruct (resolve_names (add_name s (suggest s (vname v))) vs) as [s1 r1] eqn:E.
      injection H as <- <-. destruct (IH _ _ _ E) as (K & ND & FR & I1 & I2 & NB).
      simpl. split; [now rewrite K|]. split.
      { constructor; [|exact ND]. intros Hin. apply (FR _ Hin). now left. }
      split.
      { intros n [<-|Hn]; [apply suggest_fresh|]. intros Hs. apply (FR _ Hn). now right. }
      split; [intros x Hx; apply I1; now right|]. split.
      { intros x [<-|Hx]; [apply I1; now left | now apply I2]. }
      intros F. inversion F as [|? ? F1 F2]; subst. constructor; [simpl; now apply suggest_nonblank | now apply NB].
  Qed.
End Names.

(* ---------- generated names are never blank ---------- *)
(* images of first runes under unicode.ToLower / ToUpper: letters, so neither empty nor "_" *)
Definition img_ok (l : str) : Prop := match l with [] => False | c :: _ => c <> x5f end.
Definition tables_ok (cx : ctx) : Prop :=
  Forall (fun e => img_ok (snd e)) (cx_lower cx) /\ Forall (fun e => img_ok (snd e)) (cx_upper cx).

Lemma img_ok_nonblank l rest : img_ok l -> nonblank (l ++ rest).
Proof.
  destruct l as [|c l]; simpl; [tauto|]. intros H. split; [discriminate|].
  intros E. change (B "_") with [x5f] in E. injection E as E _. contradiction.
Qed.

Lemma map_first_rune_cases tbl s :
  Forall (fun e => img_ok (snd e)) tbl ->
  map_first_rune tbl s = s \/ nonblank (map_first_rune tbl s).
Proof.
  induction 1 as [|[u l] tbl H _ IH]; [now left|].
  cbn [map_first_rune]. destruct u as [|c u]; [exact IH|].
  destruct (strip_prefix (c :: u) s) as [rest|]; [right; now apply img_ok_nonblank | exact IH].
Qed.

Lemma ascii_lower_5f b : ascii_lower b = x5f -> b = x5f.
Proof. intros H. destruct b; try reflexivity; vm_compute in H; discriminate. Qed.

Lemma snoc_nonblank (x : str) c : c <> x5f -> nonblank (x ++ [c]).
Proof.
  intros Hc. destruct x as [|a x]; simpl.
  - split; [discriminate|]. change (B "_") with [x5f]. congruence.
  - apply len2_nonblank. simpl. rewrite app_length. simpl. lia.
Qed.

Section VarName.
  Variable cx : ctx.
  Hypothesis TOK : tables_ok cx.

  Lemma decap_cases s : decap cx s = s \/ nonblank (decap cx s).
  Proof.
    destruct s as [|b r]; simpl; [now left|].
    destruct (is_ascii b).
    - destruct (Byte.byte_eq_dec (ascii_lower b) b) as [E|N]; [left; now rewrite E|].
      right. split; [discriminate|]. change (B "_") with [x5f]. intros E. injection E as E1 E2.
      apply ascii_lower_5f in E1 as E3. subst b. apply N. reflexivity.
    - apply map_first_rune_cases, TOK.
  Qed.

  Lemma basic_var_name_nonblank n : nonblank (basic_var_name n).
  Proof.
    unfold basic_var_name.
    repeat match goal with |- context [if ?c then _ else _] => destruct c end;
      split; intros E; vm_compute in E; discriminate.
  Qed.

  Lemma vnft_nonblank t : nonblank (var_name_for_type cx t).
  Proof.
    induction t; simpl;
      try (split; intros E; vm_compute in E; discriminate);
      try apply basic_var_name_nonblank; try assumption.
    - (* TNamed *)
      destruct (seqb n (B "error")); [split; intros E; vm_compute in E; discriminate|].
      destruct (seqb (decap cx n) n) eqn:E.
      + apply len2_nonblank. rewrite app_length. simpl. lia.
      + apply seqb_neq in E. destruct (decap_cases n) as [D|D]; [contradiction | exact D].
    - (* TSlice *) apply (snoc_nonblank _ x73). discriminate.
    - (* TArray *) apply (snoc_nonblank _ x73). discriminate.
    - (* TMap *) apply len2_nonblank. rewrite !app_length. simpl. lia.
    - (* TChan *) apply len2_nonblank. rewrite app_length. simpl. lia.
  Qed.

  Lemma var_name_nonblank name t : nonblank (var_name cx name t).
  Proof.
    unfold var_name. destruct (blank name) eqn:Bk; cbn [negb].
    - destruct (smem (var_name_for_type cx t) reserved); [|apply vnft_nonblank].
      apply len2_nonblank. rewrite app_length. simpl. lia.
    - unfold blank in Bk. apply orb_false_iff in Bk as [B1 B2]. split.
      + intros ->. discriminate.
      + intros ->. rewrite seqb_refl in B2. discriminate.
  Qed.
End VarName.

(* ---------------------------------------------------------------------------------- *)
(* One method                                                                          *)
(* ---------------------------------------------------------------------------------- *)
Lemma firstn_length_app {A} (l1 l2 : list A) : firstn (length l1) (l1 ++ l2) = l1.
Proof. induction l1; simpl; [now destruct l2 | now f_equal]. Qed.
Lemma skipn_length_app {A} (l1 l2 : list A) : skipn (length l1) (l1 ++ l2) = l2.
Proof. induction l1; simpl; auto. Qed.
Lemma map_firstn {A B} (f : A -> B) n (l : list A) : map f (firstn n l) = firstn n (map f l).
Proof. revert l; induction n; intros [|a l]; simpl; auto. now f_equal. Qed.
Lemma map_skipn {A B} (f : A -> B) n (l : list A) : map f (skipn n l) = skipn n (map f l).
Proof. revert l; induction n; intros [|a l]; simpl; auto. Qed.

Definition KInv (r : registry) (k : ty * vimports) : Prop :=
  MInv r (snd k) /\ forall p, In p (imports_of (fst k)) -> lookup_imp p (snd k) <> None.
Lemma VInv_KInv r vs : Forall (VInv r) vs <-> Forall (KInv r) (map vkey vs).
Proof. rewrite Forall_map. reflexivity. Qed.
Lemma KInv_ext r r' k : ext r r' -> KInv r k -> KInv r' k.
Proof. intros X [A B]. split; [eapply MInv_ext; eauto | exact B]. Qed.

Definition names_nonblank (vs : list var_) : Prop := Forall (fun v => nonblank (vname v)) vs.

Definition method_shape (m : str * sig) (d : mdata) : Prop :=
  dname d = fst m /\ map vty (dparams d) = map snd (sparams (snd m)) /\
  map vty (dreturns d) = map snd (sresults (snd m)) /\ dvariadic d = svariadic (snd m).

Section Method.
  Variable cx : ctx.
  Hypothesis TOK : tables_ok cx.

  Lemma fold_add_var_nonblank xs : forall st,
    names_nonblank (snd st) -> names_nonblank (snd (fold_left (add_var cx) xs st)).
  Proof.
    induction xs as [|x xs IH]; intros st H; simpl; [exact H|]. apply IH.
    destruct st as [[r s] vs]. unfold add_var. destruct (populate cx r s (snd x)) as [[r' s'] m]. simpl.
    apply Forall_app. split; [exact H|]. constructor; [|constructor]. simpl.
    apply suggest_nonblank, var_name_nonblank, TOK.
  Qed.

  Lemma method_data_spec tpn r m :
    RInv r -> NInv cx r ->
    let '(r', d) := method_data cx tpn r m in
    RInv r' /\ NInv cx r' /\ ext r r' /\ method_shape m d /\
    Forall (KInv r') (map vkey (dvars d)) /\
    incl (quals r) (dscope0 d) /\ incl tpn (dscope0 d) /\ GScope (dscope0 d) (map vkey (dvars d)) /\
    names_nonblank (dvars d).
  Proof.
    intros RI NI. unfold method_data.
    pose proof (run_group_spec cx r tpn (sparams (snd m) ++ sresults (snd m)) RI NI) as G.
    pose proof (fold_add_var_nonblank (sparams (snd m) ++ sresults (snd m)) (r, fold_left add_name tpn (new_scope r), []) (Forall_nil _)) as NB.
    unfold run_group in *.
    destruct (fold_left (add_var cx) (sparams (snd m) ++ sresults (snd m)) (r, fold_left add_name tpn (new_scope r), [])) as [[r' s'] vs].
    destruct G as (A & B & C & D & E & F & TY & GS). simpl in NB.
    assert (SPLIT : firstn (length (sparams (snd m))) vs ++ skipn (length (sparams (snd m))) vs = vs) by apply firstn_skipn.
    unfold dvars; simpl. rewrite SPLIT.
    split; [exact A|]. split; [exact B|]. split; [exact C|]. split.
    { unfold method_shape; simpl. rewrite map_app in TY.
      split; [reflexivity|]. split; [|split; [|reflexivity]].
      - rewrite map_firstn, TY. rewrite <- (map_length snd (sparams (snd m))). apply firstn_length_app.
      - rewrite map_skipn, TY. rewrite <- (map_length snd (sparams (snd m))). apply skipn_length_app. }
    split; [now apply VInv_KInv|]. split; [exact D|]. split; [exact E|]. split; [exact GS | exact NB].
  Qed.

  (* ResolveVariableNameCollisions keeps everything but the names, and the names it
     chooses are fresh for the scope, pairwise distinct, non-blank *)
  Lemma resolve_collisions_spec d :
    let d' := resolve_collisions d in
    dname d' = dname d /\ dvariadic d' = dvariadic d /\ dscope0 d' = dscope0 d /\
    map vkey (dparams d') = map vkey (dparams d) /\ map vkey (dreturns d') = map vkey (dreturns d) /\
    NoDup (map vname (dvars d')) /\
    (forall n, In n (map vname (dvars d')) -> ~ In n (dscope0 d)) /\
    (names_nonblank (dvars d) -> names_nonblank (dvars d')) /\
    incl (dscope0 d) (dscope d') /\ incl (map vname (dvars d')) (dscope d').
  Proof.
    unfold resolve_collisions. destruct (resolve_names (dscope0 d) (dparams d ++ dreturns d)) as [s' vs] eqn:E.
    destruct (resolve_names_spec _ _ _ _ E) as (K & ND & FR & I1 & I2 & NB).
    assert (SPLIT : firstn (length (dparams d)) vs ++ skipn (length (dparams d)) vs = vs) by apply firstn_skipn.
    unfold dvars; simpl. rewrite SPLIT. rewrite map_app in K.
    split; [reflexivity|]. split; [reflexivity|]. split; [reflexivity|]. split; [|split].
    - rewrite map_firstn, K. rewrite <- (map_length vkey (dparams d)). apply firstn_length_app.
    - rewrite map_skipn, K. rewrite <- (map_length vkey (dparams d)). apply skipn_length_app.
    - split; [exact ND|]. split; [exact FR|]. split; [exact NB|]. split; [exact I1 | exact I2].
  Qed.
End Method.

(* ---------------------------------------------------------------------------------- *)
(* C14_names (one method, any reachable registry)                                      *)
(* ---------------------------------------------------------------------------------- *)
Theorem names_spec cx (TOK : tables_ok cx) tpn r m :
  RInv r -> NInv cx r ->
  let d := resolve_collisions (snd (method_data cx tpn r m)) in
  let names := map vname (dvars d) in
  NoDup names /\ Forall nonblank names /\
  forall n, In n names ->
    ~ In n (quals r) /\ ~ In n tpn /\
    forall v, In v (dvars d) ->
      n <> print_rty (vrty v) /\ forall p, In p (imports_of (vty v)) -> n <> qual_of (vimps v) p.
Proof.
  intros RI NI. pose proof (method_data_spec cx TOK tpn r m RI NI) as MS.
  destruct (method_data cx tpn r m) as [r' d0]. destruct MS as (_ & _ & _ & _ & _ & IQ & IT & GS & NB).
  simpl. pose proof (resolve_collisions_spec d0) as RS. simpl in RS.
  destruct RS as (_ & _ & _ & K1 & K2 & ND & FR & NB' & _ & _).
  split; [exact ND|]. split; [apply Forall_map, NB', NB|].
  intros n Hn. specialize (FR n Hn). split; [intros H; apply FR, IQ, H|]. split; [intros H; apply FR, IT, H|].
  intros v Hv.
  assert (KV : In (vkey v) (map vkey (dvars d0))).
  { unfold dvars in *. rewrite map_app, <- K1, <- K2, <- map_app. now apply in_map. }
  destruct (GS _ KV) as [G1 G2]. split.
  - intros ->. apply FR. exact G1.
  - intros p Hp ->. apply FR. exact (G2 p Hp).
Qed.

(* ---------------------------------------------------------------------------------- *)
(* Interfaces and files                                                                *)
(* ---------------------------------------------------------------------------------- *)
Definition ivars (i : idata) : list var_ := flat_map dvars (i_methods i) ++ i_tparams i.

Definition iface_shape (i : iface) (id : idata) : Prop :=
  i_name id = if_name i /\ i_struct id = if_struct i /\
  Forall2 method_shape (if_methods i) (i_methods id) /\ map vty (i_tparams id) = map snd (if_tparams i).

Lemma map_vty_vkey vs : map vty vs = map fst (map vkey vs).
Proof. rewrite map_map. reflexivity. Qed.

Section File.
  Variable cx : ctx.
  Hypothesis TOK : tables_ok cx.

  Lemma method_shape_rc m d : method_shape m d -> method_shape m (resolve_collisions d).
  Proof.
    intros (A & B & C & D). destruct (resolve_collisions_spec d) as (N & V & _ & K1 & K2 & _).
    unfold method_shape. rewrite N, V. repeat split; auto.
    - rewrite map_vty_vkey, K1, <- map_vty_vkey. exact B.
    - rewrite map_vty_vkey, K2, <- map_vty_vkey. exact C.
  Qed.

  Lemma vkeys_rc ds : map vkey (flat_map dvars (map resolve_collisions ds)) = map vkey (flat_map dvars ds).
  Proof.
    induction ds as [|d ds IH]; simpl; [reflexivity|]. rewrite !map_app, IH. f_equal.
    destruct (resolve_collisions_spec d) as (_ & _ & _ & K1 & K2 & _). unfold dvars. now rewrite !map_app, K1, K2.
  Qed.

  Lemma methods_data_spec tpn ms : forall r,
    RInv r -> NInv cx r ->
    let '(r', ds) := methods_data cx tpn r ms in
    RInv r' /\ NInv cx r' /\ ext r r' /\ Forall2 method_shape ms ds /\ Forall (KInv r') (map vkey (flat_map dvars ds)).
  Proof.
    induction ms as [|m ms IH]; intros r RI NI; simpl.
    - split; [exact RI|]. split; [exact NI|]. split; [apply ext_refl|]. split; constructor.
    - pose proof (method_data_spec cx TOK tpn r m RI NI) as MS.
      destruct (method_data cx tpn r m) as [r1 d]. destruct MS as (RI1 & NI1 & X1 & SH & KI & _).
      specialize (IH r1 RI1 NI1). destruct (methods_data cx tpn r1 ms) as [r2 ds].
      destruct IH as (RI2 & NI2 & X2 & SH2 & KI2).
      split; [exact RI2|]. split; [exact NI2|]. split; [eapply ext_trans; eauto|]. split; [now constructor|].
      simpl. rewrite map_app. apply Forall_app. split; [|exact KI2].
      eapply Forall_impl; [|exact KI]. intros k. apply KInv_ext, X2.
  Qed.

  Lemma gen_iface_spec r i :
    RInv r -> NInv cx r ->
    let '(r', id) := gen_iface cx r i in
    RInv r' /\ NInv cx r' /\ ext r r' /\ iface_shape i id /\ Forall (KInv r') (map vkey (ivars id)).
  Proof.
    intros RI NI. unfold gen_iface.
    pose proof (methods_data_spec (map (fun it => lname (fst it)) (if_tparams i)) (if_methods i) r RI NI) as MS.
    destruct (methods_data cx (map (fun it => lname (fst it)) (if_tparams i)) r (if_methods i)) as [r1 ds].
    destruct MS as (RI1 & NI1 & X1 & SH & KI).
    pose proof (run_group_spec cx r1 [] (if_tparams i) RI1 NI1) as G.
    destruct (run_group cx r1 [] (if_tparams i)) as [[r2 s2] tps].
    destruct G as (RI2 & NI2 & X2 & _ & _ & VI & TY & _).
    split; [exact RI2|]. split; [exact NI2|]. split; [eapply ext_trans; eauto|]. split.
    - unfold iface_shape; simpl. repeat split; auto.
      clear - SH TOK. induction SH; simpl; constructor; auto using method_shape_rc.
    - unfold ivars; simpl. rewrite map_app, vkeys_rc. apply Forall_app. split.
      + eapply Forall_impl; [|exact KI]. intros k. apply KInv_ext, X2.
      + now apply VInv_KInv.
  Qed.

  Lemma gen_ifaces_spec is : forall r,
    RInv r -> NInv cx r ->
    let '(r', ids) := gen_ifaces cx r is in
    RInv r' /\ NInv cx r' /\ ext r r' /\ Forall2 iface_shape is ids /\ Forall (KInv r') (map vkey (flat_map ivars ids)).
  Proof.
    induction is as [|i is IH]; intros r RI NI; simpl.
    - split; [exact RI|]. split; [exact NI|]. split; [apply ext_refl|]. split; constructor.
    - pose proof (gen_iface_spec r i RI NI) as GS.
      destruct (gen_iface cx r i) as [r1 id]. destruct GS as (RI1 & NI1 & X1 & SH & KI).
      specialize (IH r1 RI1 NI1). destruct (gen_ifaces cx r1 is) as [r2 ids].
      destruct IH as (RI2 & NI2 & X2 & SH2 & KI2).
      split; [exact RI2|]. split; [exact NI2|]. split; [eapply ext_trans; eauto|]. split; [now constructor|].
      simpl. rewrite map_app. apply Forall_app. split; [|exact KI2].
      eapply Forall_impl; [|exact KI]. intros k. apply KInv_ext, X2.
  Qed.

  Lemma gen_file_spec dstp inp is :
    let f := gen_file cx dstp inp is in
    RInv (f_registry f) /\ NInv cx (f_registry f) /\ dst (f_registry f) = dstp /\ inpkg (f_registry f) = inp /\
    Forall2 iface_shape is (f_ifaces f) /\ Forall (KInv (f_registry f)) (map vkey (flat_map ivars (f_ifaces f))).
  Proof.
    unfold gen_file.
    assert (RI0 : RInv {| dst := dstp; inpkg := inp; imports := [] |}) by (split; constructor).
    assert (NI0 : NInv cx {| dst := dstp; inpkg := inp; imports := [] |}) by (intros i []).
    pose proof (gen_ifaces_spec is _ RI0 NI0) as GS.
    destruct (gen_ifaces cx {| dst := dstp; inpkg := inp; imports := [] |} is) as [r ids].
    destruct GS as (RI & NI & (D & I & _) & SH & KI). simpl in *. repeat split; auto; apply RI.
  Qed.
End File.

(* ---------------------------------------------------------------------------------- *)
(* Import closure and denotation for a whole file                                      *)
(* ---------------------------------------------------------------------------------- *)
Lemma refs_imports t : forall p n, In (RefObj (Some p) n) (refs t) -> In p (imports_of t).
Proof.
  assert (L : forall (l : list (label * ty)) p n,
             Fitems (fun t => forall p n, In (RefObj (Some p) n) (refs t) -> In p (imports_of t)) l ->
             In (RefObj (Some p) n) (flat_map (fun it => refs (snd it)) l) ->
             In p (flat_map (fun it => imports_of (snd it)) l)).
  { intros l p n F H. apply in_flat_map in H as (it & Hit & Hr). apply in_flat_map. exists it. split; [exact Hit|].
    unfold Fitems in F. rewrite Forall_forall in F. eapply F; eauto. }
  induction t as [n| |p n l IH|p n l IH|e IH|e IH|len e IH|k e IHk IHe|d e IH|ps v rs IHp IHr|fs IH|ms es IHm IHe|ts IH|n] using ty_ind';
    intros q m H; simpl in *.
  - destruct H as [H|[]]; discriminate.
  - destruct H as [H|[]]. injection H as <- _. now left.
  - destruct H as [H|H]; [injection H as -> _; now left|]. apply in_or_app. right. eapply L; eauto.
  - destruct H as [H|H]; [injection H as -> _; now left|]. apply in_or_app. right. eapply L; eauto.
  - eauto.
  - eauto.
  - eauto.
  - apply in_app_or in H as [H|H]; apply in_or_app; [left | right]; eauto.
  - eauto.
  - apply in_app_or in H as [H|H]; apply in_or_app; [left | right]; eapply L; eauto.
  - eapply L; eauto.
  - apply in_app_or in H as [H|H]; apply in_or_app; [left | right]; eapply L; eauto.
  - eapply L; eauto.
  - destruct H as [H|[]]; discriminate.
Qed.

Lemma find_qual_in_nodup l i : NoDup (map qualifier l) -> In i l -> find_qual (qualifier i) l = Some i.
Proof.
  induction l as [|j t IH]; simpl; [tauto|]. intros ND [->|H].
  - now rewrite seqb_refl.
  - inversion ND as [|? ? Hn ND']; subst. destruct (seqb (qualifier i) (qualifier j)) eqn:E.
    + apply seqb_eq in E. exfalso. apply Hn. rewrite <- E. now apply in_map.
    + now apply IH.
Qed.

Lemma find_qual_some q l i : find_qual q l = Some i -> In i l /\ qualifier i = q.
Proof.
  induction l as [|j t IH]; simpl; [discriminate|].
  destruct (seqb q (qualifier j)) eqn:E.
  - intros H; injection H as <-. apply seqb_eq in E. auto.
  - intros H. apply IH in H as [H1 H2]. auto.
Qed.

Section Closure.
  Variable cx : ctx.
  Hypothesis TOK : tables_ok cx.

  (* the package of every named type mentioned by any variable of the file is imported
     under the qualifier the variable's type string uses (and the file's own package, when
     the file is in-package, is never imported and its types are rendered bare) *)
  Definition closed_for (dstp : str) (inp : bool) (f : fdata) (v : var_) (p : str) : Prop :=
    if seqb p dstp && inp then qual_of (vimps v) p = []
    else exists i, In i (f_imports f) /\ ipath i = p /\ qual_of (vimps v) p = qualifier i /\
                   find_qual (qualifier i) (f_imports f) = Some i /\
                   (pkg_name cx p <> [] -> qualifier i <> []).

  Theorem import_closure dstp inp is :
    let f := gen_file cx dstp inp is in
    NoDup (map ipath (f_imports f)) /\ NoDup (map qualifier (f_imports f)) /\
    forall id v p, In id (f_ifaces f) -> In v (ivars id) -> In p (imports_of (vty v)) -> closed_for dstp inp f v p.
  Proof.
    intros f. pose proof (gen_file_spec cx TOK dstp inp is) as GS. cbv zeta in GS. fold f in GS.
    destruct GS as (RI & NI & D & I & _ & KI).
    pose proof (imports_sorted_perm (f_registry f)) as PM.
    assert (NDq : NoDup (map qualifier (f_imports f))).
    { eapply Permutation_NoDup; [apply Permutation_map, PM | apply RI]. }
    split; [eapply Permutation_NoDup; [apply Permutation_map, PM | apply RI]|]. split; [exact NDq|].
    intros id v p Hid Hv Hp. unfold closed_for.
    rewrite Forall_forall in KI.
    assert (KV : KInv (f_registry f) (vkey v)).
    { apply KI. apply in_map. apply in_flat_map. exists id. auto. }
    destruct KV as [MI CL]. specialize (CL p Hp). simpl in MI, CL.
    destruct (lookup_imp p (vimps v)) as [o|] eqn:L; [|congruence].
    specialize (MI p o L). rewrite (qual_of_lookup _ _ _ L).
    destruct o as [i|]; simpl in MI.
    - destruct MI as (NS & Hin & Pi).
      destruct (seqb p dstp && inp) eqn:S.
      { exfalso. apply NS. apply andb_true_iff in S as [S1 S2]. apply seqb_eq in S1. unfold self. rewrite D, I. auto. }
      assert (Hin' : In i (f_imports f)) by (eapply Permutation_in; [exact PM | exact Hin]).
      exists i. split; [exact Hin'|]. split; [exact Pi|]. split; [reflexivity|]. split.
      + now apply find_qual_in_nodup.
      + intros NE. specialize (NI i Hin). rewrite Pi in NI. unfold qualifier. destruct (ialias i); [congruence | discriminate].
    - destruct MI as [MI1 MI2]. rewrite D in MI1. rewrite I in MI2. rewrite MI1, MI2, seqb_refl. reflexivity.
  Qed.
End Closure.

(* ---------- scoping side conditions ---------- *)
Section Guard.
  Variable cx : ctx.
  Variable E : env.
  Variable inp : bool.

  Definition closed_ref (qf : str -> str) (r : ref) : Prop :=
    match r with
    | RefObj (Some p) _ =>
        if seqb p (e_dst E) && inp then qf p = []
        else exists i, find_qual (qf p) (e_imports E) = Some i /\ ipath i = p /\ (pkg_name cx p <> [] -> qf p <> [])
    | _ => True
    end.

  Lemma ref_guard_ok qf r : closed_ref qf r -> ref_guard cx E inp qf r = true -> ref_ok E qf r.
  Proof.
    destruct r as [[p|] n|n]; simpl.
    - destruct (seqb p (e_dst E) && inp) eqn:S.
      + intros Q G a. apply andb_true_iff in S as [S _]. apply seqb_eq in S. subst p.
        apply andb_true_iff in G as [G G4]. apply andb_true_iff in G as [G G3]. apply andb_true_iff in G as [G1 G2].
        apply negb_true_iff in G1, G2, G3.
        rewrite Q. unfold resolve_name. rewrite G1, G2, G3, G4. reflexivity.
      + intros (i & F & Pi & NE) G a.
        apply andb_true_iff in G as [G G4]. apply andb_true_iff in G as [G G3]. apply andb_true_iff in G as [G1 G2].
        apply negb_true_iff in G1, G2, G3, G4.
        assert (Q : qf p <> []) by (apply NE; destruct (pkg_name cx p); [discriminate G1 | discriminate]).
        unfold resolve_name. destruct (qf p) as [|c q] eqn:Eq; [congruence|].
        rewrite G2, G3, G4. simpl. rewrite F, Pi. reflexivity.
    - intros _ G a.
      apply andb_true_iff in G as [G G4]. apply andb_true_iff in G as [G G3]. apply andb_true_iff in G as [G1 G2].
      apply negb_true_iff in G1, G2, G3, G4.
      unfold resolve_name. rewrite G1, G2, G3, G4. reflexivity.
    - intros _ G. apply andb_true_iff in G as [G1 G2]. apply negb_true_iff in G1.
      unfold resolve_name. rewrite G1, G2. reflexivity.
  Qed.
End Guard.

Section Denote.
  Variable cx : ctx.
  Hypothesis TOK : tables_ok cx.

  Theorem denote dstp inp is local tps sh :
    let f := gen_file cx dstp inp is in
    let E := file_env dstp f local tps sh in
    forall id v, In id (f_ifaces f) -> In v (ivars id) ->
      var_guard cx E inp v = true ->
      resolve_rty E (vrty v) = Some (norm (vty v)).
  Proof.
    intros f E id v Hid Hv G. apply resolve_render. apply Forall_forall. intros r Hr.
    unfold var_guard in G. rewrite forallb_forall in G. specialize (G r Hr).
    apply (ref_guard_ok cx E inp); [|exact G].
    destruct r as [[p|] n|n]; simpl; auto.
    pose proof (import_closure cx TOK dstp inp is) as IC. cbv zeta in IC. fold f in IC.
    destruct IC as (_ & _ & IC). specialize (IC id v p Hid Hv (refs_imports _ _ _ Hr)).
    unfold closed_for in IC. destruct (seqb p dstp && inp); [exact IC|].
    destruct IC as (i & _ & Pi & Q & F & NE). exists i. rewrite Q. auto.
  Qed.
End Denote.

(* ---------------------------------------------------------------------------------- *)
(* Accessors                                                                           *)
(* ---------------------------------------------------------------------------------- *)
Lemma map_mapi_from {A B C} (F : B -> C) (G : nat -> A -> B) l : forall k,
  map F (mapi_from k G l) = mapi_from k (fun j x => F (G j x)) l.
Proof. induction l as [|x l IH]; intros k; simpl; [reflexivity | now rewrite IH]. Qed.

Lemma mapi_from_ext {A B} (f g : nat -> A -> B) l : forall k,
  (forall j x, nth_error l j = Some x -> f (k + j) x = g (k + j) x) -> mapi_from k f l = mapi_from k g l.
Proof.
  induction l as [|x l IH]; intros k H; simpl; [reflexivity|]. f_equal.
  - specialize (H 0 x eq_refl). now rewrite Nat.add_0_r in H.
  - apply IH. intros j y Hj. specialize (H (S j) y Hj). now rewrite <- plus_n_Sm in H.
Qed.

Lemma mapi_from_const {A B} (h : A -> B) l : forall k, mapi_from k (fun _ x => h x) l = map h l.
Proof. induction l as [|x l IH]; intros k; simpl; [reflexivity | now rewrite IH]. Qed.

(* the denotation of an element of an argument list: "...T" denotes the slice type []T *)
Definition den_arg (E : env) (a : arg) : option ty :=
  option_map (fun t => if a_ell a then TSlice t else t) (resolve_rty E (a_ty a)).

Section Accessors.
  Variable cx : ctx.
  Variable E : env.

  (* go/types: the type of a variadic parameter is a slice *)
  Definition variadic_wf (d : mdata) : Prop :=
    forall j v, nth_error (dparams d) j = Some v -> pvariadic d j = true -> exists e, vty v = TSlice e.

  Definition resolves (v : var_) : Prop := resolve_rty E (vrty v) = Some (norm (vty v)).

  Lemma den_elem v b :
    resolves v -> (b = true -> exists e, vty v = TSlice e) ->
    option_map (fun t => if b then TSlice t else t) (resolve_rty E (if b then elem_of (vrty v) else vrty v)) = Some (norm (vty v)).
  Proof.
    intros R W. destruct b; [|now rewrite R].
    destruct (W eq_refl) as [e He]. unfold resolves, vrty in *. rewrite He in *. simpl in *.
    destruct (resolve_rty E (render (qual_of (vimps v)) e)); simpl in *; congruence.
  Qed.

  Lemma den_method_arg v b : resolves v -> (b = true -> exists e, vty v = TSlice e) ->
    den_arg E (param_method_arg v b) = Some (norm (vty v)).
  Proof. intros R W. pose proof (den_elem v b R W) as H. unfold den_arg, param_method_arg. destruct b; exact H. Qed.

  Lemma den_type_string_ellipsis v b : resolves v -> (b = true -> exists e, vty v = TSlice e) ->
    den_arg E (param_type_string_ellipsis v b) = Some (norm (vty v)).
  Proof. intros R W. pose proof (den_elem v b R W) as H. unfold den_arg, param_type_string_ellipsis. destruct b; exact H. Qed.

  (* TypeStringVariadicUnderlying denotes the element type of a variadic parameter *)
  Lemma den_variadic_underlying v b : resolves v -> (b = true -> exists e, vty v = TSlice e) ->
    option_map (fun t => if b then TSlice t else t) (resolve_rty E (param_type_string_variadic_underlying v b)) = Some (norm (vty v)).
  Proof. intros R W. exact (den_elem v b R W). Qed.

  Theorem accessors_denote d :
    Forall resolves (dvars d) -> variadic_wf d ->
    map (den_arg E) (arg_list d) = map (fun v => Some (norm (vty v))) (dparams d) /\
    map (den_arg E) (arg_type_list_ellipsis d) = map (fun v => Some (norm (vty v))) (dparams d) /\
    map (resolve_rty E) (arg_type_list d) = map (fun v => Some (norm (vty v))) (dparams d) /\
    map (resolve_rty E) (return_arg_type_list d) = map (fun v => Some (norm (vty v))) (dreturns d) /\
    map (den_arg E) (return_arg_list d) = map (fun v => Some (norm (vty v))) (dreturns d) /\
    map a_name (arg_list d) = map vname (dparams d) /\
    map a_name (return_arg_list d) = map vname (dreturns d) /\
    return_arg_name_list d = map vname (dreturns d) /\
    map fst (arg_call_list d) = map vname (dparams d) /\
    map a_ell (arg_list d) = mapi (fun k _ => pvariadic d k) (dparams d) /\
    map snd (arg_call_list d) = mapi (fun k _ => pvariadic d k) (dparams d).
  Proof.
    intros R W. unfold dvars in R. apply Forall_app in R as [RP RR].
    rewrite Forall_forall in RP, RR.
    assert (PI : forall j v, nth_error (dparams d) j = Some v -> resolves v).
    { intros j v H. apply RP. eapply nth_error_In; eauto. }
    unfold arg_list, arg_type_list_ellipsis, arg_type_list, return_arg_type_list, return_arg_list,
           return_arg_name_list, arg_call_list, mapi.
    repeat split.
    - rewrite map_mapi_from, <- (mapi_from_const (fun v => Some (norm (vty v))) (dparams d) 0).
      apply mapi_from_ext. intros j v H. simpl. apply den_method_arg; [eapply PI; eauto | intros B; eapply W; eauto].
    - rewrite map_mapi_from, <- (mapi_from_const (fun v => Some (norm (vty v))) (dparams d) 0).
      apply mapi_from_ext. intros j v H. simpl. apply den_type_string_ellipsis; [eapply PI; eauto | intros B; eapply W; eauto].
    - rewrite map_map. apply map_ext_in. intros v Hv. apply RP, Hv.
    - rewrite map_map. apply map_ext_in. intros v Hv. apply RR, Hv.
    - rewrite map_map. apply map_ext_in. intros v Hv. unfold den_arg; simpl. rewrite (RR v Hv). reflexivity.
    - rewrite map_mapi_from, <- (mapi_from_const vname (dparams d) 0). apply mapi_from_ext.
      intros j v _. unfold param_method_arg. destruct (pvariadic d (0 + j)); reflexivity.
    - rewrite map_map. reflexivity.
    - rewrite map_mapi_from, <- (mapi_from_const vname (dparams d) 0). apply mapi_from_ext. reflexivity.
    - rewrite map_mapi_from. apply mapi_from_ext. intros j v _. unfold param_method_arg. destruct (pvariadic d (0 + j)); reflexivity.
    - rewrite map_mapi_from. apply mapi_from_ext. intros j v _. reflexivity.
  Qed.
End Accessors.

(* ---------------------------------------------------------------------------------- *)
(* Methods: each exactly once, in the given order                                      *)
(* ---------------------------------------------------------------------------------- *)
Lemma Forall2_imp {A B} (P Q : A -> B -> Prop) l l' :
  (forall a b, P a b -> Q a b) -> Forall2 P l l' -> Forall2 Q l l'.
Proof. intros H. induction 1; constructor; auto. Qed.

Lemma shape_names ms ds : Forall2 method_shape ms ds -> map dname ds = map fst ms.
Proof. induction 1 as [|m d ms ds (H & _) _ IH]; simpl; [reflexivity | now rewrite H, IH]. Qed.

Theorem methods_once cx (TOK : tables_ok cx) dstp inp is :
  Forall2 (fun i id =>
     i_name id = if_name i /\ i_struct id = if_struct i /\
     map dname (i_methods id) = map fst (if_methods i) /\
     Forall2 method_shape (if_methods i) (i_methods id) /\
     map vty (i_tparams id) = map snd (if_tparams i))
    is (f_ifaces (gen_file cx dstp inp is)).
Proof.
  destruct (gen_file_spec cx TOK dstp inp is) as (_ & _ & _ & _ & SH & _).
  eapply Forall2_imp; [|exact SH]. intros i id (A & B & C & D). repeat split; auto. now apply shape_names.
Qed.

(* ---------------------------------------------------------------------------------- *)
(* Type parameters                                                                     *)
(* ---------------------------------------------------------------------------------- *)
Lemma suggest_id s p : ~ In p s -> suggest s p = p.
Proof.
  intros H. unfold suggest. destruct (fresh_cand 1 p s) as (k & E & F). rewrite E.
  destruct k as [|k]; [reflexivity|]. exfalso. apply H. apply (F 0). lia.
Qed.

Section TParams.
  Variable cx : ctx.

  Lemma fold_scope_incl ps : forall st, incl (snd (fst st)) (snd (fst (fold_left (scope_add_import cx) ps st))).
  Proof.
    induction ps as [|p ps IH]; intros st; simpl; [apply incl_refl|].
    eapply incl_tran; [|apply IH]. destruct st as [[r s] m]. unfold scope_add_import.
    destruct (add_import r (pkg_name cx p) p). simpl. intros x Hx. now right.
  Qed.

  Definition named_from (s : scope) (x : label * ty) (v : var_) : Prop :=
    exists s1, incl s1 s /\ vname v = suggest s1 (var_name cx (lname (fst x)) (snd x)).

  Lemma add_var_names st xs x :
    Forall2 (named_from (snd (fst st))) xs (snd st) ->
    Forall2 (named_from (snd (fst (add_var cx st x)))) (xs ++ [x]) (snd (add_var cx st x)).
  Proof.
    destruct st as [[r s] vs]. simpl. intros H. unfold add_var.
    pose proof (fold_scope_incl (imports_of (snd x)) (r, s, [])) as I. unfold populate.
    destruct (fold_left (scope_add_import cx) (imports_of (snd x)) (r, s, [])) as [[r' s'] m]. simpl in *.
    apply Forall2_app.
    - eapply Forall2_imp; [|exact H]. intros a b (s1 & I1 & N). exists s1. split; [|exact N].
      intros y Hy. right. apply I, I1, Hy.
    - constructor; [|constructor]. eexists. split; [apply incl_refl | reflexivity].
  Qed.

  Lemma fold_add_var_names ys : forall st xs,
    Forall2 (named_from (snd (fst st))) xs (snd st) ->
    Forall2 (named_from (snd (fst (fold_left (add_var cx) ys st)))) (xs ++ ys) (snd (fold_left (add_var cx) ys st)).
  Proof.
    induction ys as [|y ys IH]; intros st xs H; simpl; [now rewrite app_nil_r|].
    specialize (IH _ _ (add_var_names st xs y H)). now rewrite <- app_assoc in IH.
  Qed.

  (* a type parameter keeps its name unless the name is visible in the scope in which the
     type parameters are named (an import qualifier of the file so far, the type string of
     a constraint) *)
  Theorem tparam_names r i :
    let id := snd (gen_iface cx r i) in
    forallb (fun x => negb (blank (lname (fst x))) && negb (smem (lname (fst x)) (i_tpscope id))) (if_tparams i) = true ->
    map vname (i_tparams id) = map (fun x => lname (fst x)) (if_tparams i).
  Proof.
    unfold gen_iface.
    destruct (methods_data cx (map (fun it => lname (fst it)) (if_tparams i)) r (if_methods i)) as [r1 ds].
    unfold run_group.
    pose proof (fold_add_var_names (if_tparams i) (r1, fold_left add_name [] (new_scope r1), []) [] (Forall2_nil _)) as N.
    destruct (fold_left (add_var cx) (if_tparams i) (r1, fold_left add_name [] (new_scope r1), [])) as [[r2 s2] tps].
    simpl in *. intros G. rewrite forallb_forall in G.
    induction N as [|x v xs vs (s1 & I1 & Nm) _ IH]; simpl; [reflexivity|].
    f_equal.
    - specialize (G x (or_introl eq_refl)). apply andb_true_iff in G as [G1 G2].
      rewrite Nm. unfold var_name. rewrite G1. apply suggest_id.
      apply negb_true_iff in G2. apply smem_false in G2. intros H. apply G2, I1, H.
    - apply IH. intros y Hy. apply G. now right.
  Qed.
End TParams.

(* TypeConstraint / TypeInstantiation reproduce the declared names when Exported leaves
   them unchanged *)
Theorem typeparams_spec cx r i :
  let id := snd (gen_iface cx r i) in
  forallb (fun x => negb (blank (lname (fst x))) && negb (smem (lname (fst x)) (i_tpscope id))) (if_tparams i) = true ->
  (forall x, In x (if_tparams i) -> cx_exported cx (lname (fst x)) = lname (fst x)) ->
  type_instantiation cx id = map (fun x => lname (fst x)) (if_tparams i) /\
  map fst (type_constraint cx id) = map (fun x => lname (fst x)) (if_tparams i) /\
  map snd (type_constraint cx id) = map vrty (i_tparams id).
Proof.
  intros id G EX. pose proof (tparam_names cx r i G) as N. fold id in N.
  unfold type_instantiation, type_constraint. rewrite !map_map. simpl.
  assert (H : map (fun v => cx_exported cx (vname v)) (i_tparams id) = map (fun x => lname (fst x)) (if_tparams i)).
  { rewrite <- (map_map vname (cx_exported cx)), N, map_map. apply map_ext_in. exact EX. }
  repeat split; auto.
Qed.

(* ---------------------------------------------------------------------------------- *)
(* Derived (boolean) accessors agree with the lists the same data offers               *)
(* ---------------------------------------------------------------------------------- *)
Lemma is_nil_false {A} (l : list A) : negb (is_nil l) = true <-> l <> [].
Proof. destruct l; simpl; split; congruence. Qed.

Theorem flags_spec d :
  (has_params d = true <-> dparams d <> []) /\
  (has_returns d = true <-> dreturns d <> []) /\
  (return_statement d = B "return" <-> dreturns d <> []) /\
  (is_variadic d = true <-> dparams d <> [] /\ dvariadic d = true) /\
  (* IsVariadic <-> some element of ArgList / ArgCallList carries "..." (then it is the last one) *)
  (is_variadic d = true <-> existsb a_ell (arg_list d) = true) /\
  (is_variadic d = true <-> existsb snd (arg_call_list d) = true) /\
  (* ReturnsError <-> some result's TYPE STRING is "error" *)
  (returns_error d = true <-> exists v, In v (dreturns d) /\ print_rty (vrty v) = B "error") /\
  (* ... in particular when a result is the predeclared error *)
  ((exists v, In v (dreturns d) /\ vty v = TNamed None (B "error") []) -> returns_error d = true) /\
  (accepts_context d = true <-> exists v r, dparams d = v :: r /\ print_rty (vrty v) = B "context.Context").
Proof.
  assert (EX : forall (f : nat -> bool) (l : list var_) k,
             existsb (fun b => b) (mapi_from k (fun j _ => f j) l) = true <-> exists j, j < length l /\ f (k + j) = true).
  { intros f l. induction l as [|x l IH]; intros k; simpl.
    - split; [discriminate | intros (j & H & _); lia].
    - rewrite orb_true_iff, IH. split.
      + intros [H|(j & Hj & H)]; [exists 0; rewrite Nat.add_0_r; split; [lia | exact H] | exists (S j); rewrite <- plus_n_Sm; split; [lia | exact H]].
      + intros ([|j] & Hj & H); [left; now rewrite Nat.add_0_r in H | right; exists j; rewrite <- plus_n_Sm in H; split; [lia | exact H]]. }
  assert (PV : is_variadic d = true <-> exists j, j < length (dparams d) /\ pvariadic d (0 + j) = true).
  { unfold is_variadic, pvariadic, is_last. rewrite andb_true_iff, is_nil_false. split.
    - intros [NE V]. destruct (dparams d) as [|x l] eqn:E; [congruence|]. exists (length l). simpl. rewrite V, Nat.eqb_refl. split; [lia | reflexivity].
    - intros (j & Hj & H). apply andb_true_iff in H as [V _]. split; [intros E; rewrite E in Hj; simpl in Hj; lia | exact V]. }
  unfold has_params, has_returns, return_statement.
  split; [apply is_nil_false|]. split; [apply is_nil_false|]. split.
  { unfold has_returns. destruct (dreturns d); simpl; split; try congruence. intros H; vm_compute in H; discriminate. }
  split. { unfold is_variadic. rewrite andb_true_iff, is_nil_false. reflexivity. }
  split.
  { rewrite PV. unfold arg_list, mapi. rewrite <- (EX (fun j => pvariadic d j) (dparams d) 0).
    assert (M : forall l k, existsb a_ell (mapi_from k (fun j v => param_method_arg v (pvariadic d j)) l)
                          = existsb (fun b => b) (mapi_from k (fun j _ => pvariadic d j) l)).
    { induction l as [|x l IH]; intros k; simpl; [reflexivity|]. rewrite IH. f_equal.
      unfold param_method_arg. destruct (pvariadic d k); reflexivity. }
    rewrite M. reflexivity. }
  split.
  { rewrite PV. unfold arg_call_list, mapi. rewrite <- (EX (fun j => pvariadic d j) (dparams d) 0).
    assert (M : forall l k, existsb snd (mapi_from k (fun j v => param_call_name true v (pvariadic d j)) l)
                          = existsb (fun b => b) (mapi_from k (fun j _ => pvariadic d j) l)).
    { induction l as [|x l IH]; intros k; simpl; [reflexivity|]. now rewrite IH. }
    rewrite M. reflexivity. }
  split.
  { unfold returns_error. rewrite existsb_exists. split; intros (v & Hv & H); exists v; split; auto; now apply seqb_eq. }
  split.
  { intros (v & Hv & T). unfold returns_error. apply existsb_exists. exists v. split; [exact Hv|].
    unfold vrty. rewrite T. vm_compute. reflexivity. }
  unfold accepts_context. destruct (dparams d) as [|v r]; split.
  - discriminate.
  - intros (v & r & H & _). discriminate.
  - intros H. exists v, r. split; [reflexivity | now apply seqb_eq].
  - intros (v' & r' & H & P). injection H as <- <-. now apply seqb_eq.
Qed.

(* ---------------------------------------------------------------------------------- *)
(* ArgCallListSlice: the elements of index in [start, end)                             *)
(* ---------------------------------------------------------------------------------- *)
Lemma nth_error_skipn' {A} s : forall (l : list A) i, nth_error (skipn s l) i = nth_error l (s + i).
Proof. induction s as [|s IH]; intros [|x l] i; simpl; auto. now destruct i. Qed.
Lemma nth_error_firstn_lt {A} k : forall (l : list A) i, i < k -> nth_error (firstn k l) i = nth_error l i.
Proof.
  induction k as [|k IH]; intros l i H; [lia|]. destruct l as [|x l]; simpl; [now destruct i|].
  destruct i as [|i]; simpl; [reflexivity | apply IH; lia].
Qed.
Lemma mapi_from_length {A B} (f : nat -> A -> B) l : forall k, length (mapi_from k f l) = length l.
Proof. induction l; intros k; simpl; auto. Qed.

(* the end index actually used: a negative end means "to the end"; end = 1 on a method without
   parameters is read as 0 (special case in the code) *)
Definition eff_end (n : nat) (e : option nat) : nat :=
  match e with None => n | Some e => if Nat.eqb e 1 && Nat.eqb n 0 then 0 else e end.

Theorem slice_spec d s e (ell : bool) :
  let n := length (dparams d) in
  let e' := eff_end n e in
  let full := if ell then arg_call_list d else arg_call_list_no_ellipsis d in
  (s <= e' <= n -> exists l, arg_call_list_slice d s e ell = Some l /\ length l = e' - s /\
                             forall i, i < e' - s -> nth_error l i = nth_error full (s + i)) /\
  (~ (s <= e' <= n) -> arg_call_list_slice d s e ell = None).
Proof.
  intros n e' full. unfold arg_call_list_slice. fold n.
  assert (EE : (let e0 := match e with None => n | Some e0 => e0 end in if Nat.eqb e0 1 && Nat.eqb n 0 then 0 else e0) = e').
  { unfold e', eff_end. destruct e as [e0|]; simpl; [reflexivity|].
    destruct (Nat.eqb n 1 && Nat.eqb n 0) eqn:X; [|reflexivity].
    apply andb_true_iff in X as [X1 X2]. apply Nat.eqb_eq in X1, X2. lia. }
  cbv zeta in EE. rewrite EE.
  set (L := mapi (fun k v => param_call_name ell v (pvariadic d k)) (dparams d)).
  assert (FL : L = full) by (unfold L, full, arg_call_list, arg_call_list_no_ellipsis; destruct ell; reflexivity).
  assert (LL : length L = n) by (unfold L, mapi; apply mapi_from_length).
  split.
  - intros [H1 H2]. assert (B1 : Nat.leb s e' = true) by (apply Nat.leb_le; exact H1).
    assert (B2 : Nat.leb e' n = true) by (apply Nat.leb_le; exact H2).
    rewrite B1, B2. simpl. eexists. split; [reflexivity|]. split.
    + rewrite firstn_length, skipn_length, LL. lia.
    + intros i Hi. rewrite nth_error_firstn_lt by exact Hi. rewrite nth_error_skipn', FL. reflexivity.
  - intros H. destruct (Nat.leb s e') eqn:B1; [|reflexivity]. destruct (Nat.leb e' n) eqn:B2; [|reflexivity].
    apply Nat.leb_le in B1, B2. exfalso. apply H. lia.
Qed.

(* ---------------------------------------------------------------------------------- *)
(* Which variables are variadic                                                        *)
(* ---------------------------------------------------------------------------------- *)
Theorem variadic_flags d :
  (forall k, pvariadic d k = true <-> dvariadic d = true /\ S k = length (dparams d)) /\
  (forall k, rvariadic d k = false) /\
  (* with the flag off every flag-sensitive accessor is the type string / the name, unchanged *)
  (forall v, param_method_arg v false = {| a_name := vname v; a_ell := false; a_ty := vrty v |} /\
             param_type_string_ellipsis v false = {| a_name := []; a_ell := false; a_ty := vrty v |} /\
             param_type_string_variadic_underlying v false = vrty v /\
             param_call_name true v false = (vname v, false)).
Proof.
  split; [|split; [reflexivity | intros v; repeat split]].
  intros k. unfold pvariadic, is_last. rewrite andb_true_iff, Nat.eqb_eq. reflexivity.
Qed.
