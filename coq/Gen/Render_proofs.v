(* Proofs about Gen/Render.v (C14, C02). *)
From Coq Require Import Permutation.
From Mk Require Import Lib.Bytes Lib.Dec Lib.Fresh Gen.Alloc Gen.Alloc_proofs Gen.Types Gen.Render.

(* ---------------------------------------------------------------------------------- *)
(* Induction over the type AST                                                         *)
(* ---------------------------------------------------------------------------------- *)
Definition Fitems (P : ty -> Prop) (l : list (label * ty)) : Prop := Forall (fun it => P (snd it)) l.

Lemma ty_ind' (P : ty -> Prop)
  (HB : forall n, P (TBasic n)) (HU : P TUnsafePtr)
  (HN : forall p n l, Fitems P l -> P (TNamed p n l))
  (HA : forall p n l, Fitems P l -> P (TAlias p n l))
  (HP : forall e, P e -> P (TPtr e)) (HS : forall e, P e -> P (TSlice e))
  (HAr : forall n e, P e -> P (TArray n e)) (HM : forall k e, P k -> P e -> P (TMap k e))
  (HC : forall d e, P e -> P (TChan d e))
  (HF : forall ps v rs, Fitems P ps -> Fitems P rs -> P (TFunc ps v rs))
  (HSt : forall fs, Fitems P fs -> P (TStruct fs))
  (HI : forall ms es, Fitems P ms -> Fitems P es -> P (TIface ms es))
  (HUn : forall ts, Fitems P ts -> P (TUnion ts))
  (HTp : forall n, P (TParam n)) : forall t, P t.
Proof.
  fix IH 1. intros t.
  assert (L : forall l : list (label * ty), Fitems P l -> Fitems P l) by auto.
  destruct t as [n| |p n l|p n l|e|e|n e|k e|d e|ps v rs|fs|ms es|ts|n].
  - apply HB.
  - apply HU.
  - apply HN. induction l as [|[lb x] r IHr]; constructor; [apply IH | exact IHr].
  - apply HA. induction l as [|[lb x] r IHr]; constructor; [apply IH | exact IHr].
  - apply HP, IH.
  - apply HS, IH.
  - apply HAr, IH.
  - apply HM; apply IH.
  - apply HC, IH.
  - apply HF.
    + induction ps as [|[lb x] r IHr]; constructor; [apply IH | exact IHr].
    + induction rs as [|[lb x] r IHr]; constructor; [apply IH | exact IHr].
  - apply HSt. induction fs as [|[lb x] r IHr]; constructor; [apply IH | exact IHr].
  - apply HI.
    + induction ms as [|[lb x] r IHr]; constructor; [apply IH | exact IHr].
    + induction es as [|[lb x] r IHr]; constructor; [apply IH | exact IHr].
  - apply HUn. induction ts as [|[lb x] r IHr]; constructor; [apply IH | exact IHr].
  - apply HTp.
Qed.

(* ---------------------------------------------------------------------------------- *)
(* Denotation: resolving a rendered type gives back the source type                    *)
(* ---------------------------------------------------------------------------------- *)
(* a reference is rendered so that it resolves to the object it refers to *)
Definition ref_ok (E : env) (qf : str -> str) (r : ref) : Prop :=
  match r with
  | RefObj p n => forall a, resolve_name E (match p with Some p => qf p | None => [] end) n a = Some (TNamed p n a)
  | RefTParam n => resolve_name E [] n [] = Some (TParam n)
  end.

Lemma oseq_items E qf (l : list (label * ty)) :
  Forall (fun it => resolve_rty E (render qf (snd it)) = Some (norm (snd it))) l ->
  oseq (map (fun it => olabel (fst it) (resolve_rty E (snd it))) (map_items (render qf) l)) = Some (map_items norm l).
Proof.
  unfold map_items. induction 1 as [|[lb x] r H _ IH]; [reflexivity|].
  cbn [map fst snd oseq] in *. rewrite H. cbn [olabel]. rewrite IH. reflexivity.
Qed.

Lemma Forall_refs_items (Q : ref -> Prop) (P : ty -> Prop) (l : list (label * ty)) :
  Fitems (fun t => Forall Q (refs t) -> P t) l ->
  Forall Q (flat_map (fun it => refs (snd it)) l) ->
  Forall (fun it => P (snd it)) l.
Proof.
  intros HF HQ. apply Forall_flat_map in HQ. unfold Fitems in HF.
  rewrite Forall_forall in *. intros it Hit. apply HF; [exact Hit | apply HQ; exact Hit].
Qed.

Theorem resolve_render E qf t :
  Forall (ref_ok E qf) (refs t) -> resolve_rty E (render qf t) = Some (norm t).
Proof.
  induction t as [n| |p n l IH|p n l IH|e IH|e IH|len e IH|k e IHk IHe|d e IH|ps v rs IHp IHr|fs IH|ms es IHm IHe|ts IH|n] using ty_ind';
    intros H; simpl in *.
  - inversion H as [|? ? H1 _]; subst. apply (H1 []).
  - inversion H as [|? ? H1 _]; subst. apply (H1 []).
  - inversion H as [|? ? H1 H2]; subst.
    rewrite (oseq_items E qf l (Forall_refs_items _ _ _ IH H2)). apply H1.
  - inversion H as [|? ? H1 H2]; subst.
    rewrite (oseq_items E qf l (Forall_refs_items _ _ _ IH H2)). apply H1.
  - rewrite (IH H). reflexivity.
  - rewrite (IH H). reflexivity.
  - rewrite (IH H). reflexivity.
  - apply Forall_app in H as [H1 H2]. rewrite (IHk H1), (IHe H2). reflexivity.
  - rewrite (IH H). reflexivity.
  - apply Forall_app in H as [H1 H2].
    rewrite (oseq_items E qf ps (Forall_refs_items _ _ _ IHp H1)), (oseq_items E qf rs (Forall_refs_items _ _ _ IHr H2)). reflexivity.
  - rewrite (oseq_items E qf fs (Forall_refs_items _ _ _ IH H)). reflexivity.
  - apply Forall_app in H as [H1 H2].
    rewrite (oseq_items E qf ms (Forall_refs_items _ _ _ IHm H1)), (oseq_items E qf es (Forall_refs_items _ _ _ IHe H2)). reflexivity.
  - rewrite (oseq_items E qf ts (Forall_refs_items _ _ _ IH H)). reflexivity.
  - inversion H as [|? ? H1 _]; subst. exact H1.
Qed.

(* ---------------------------------------------------------------------------------- *)
(* Registry invariants along the generation                                            *)
(* ---------------------------------------------------------------------------------- *)
Definition ext (r r' : registry) : Prop :=
  dst r' = dst r /\ inpkg r' = inpkg r /\ exists l, imports r' = imports r ++ l.

Lemma ext_refl r : ext r r.
Proof. repeat split. exists []. now rewrite app_nil_r. Qed.
Lemma ext_trans a b c : ext a b -> ext b c -> ext a c.
Proof.
  intros (D1 & I1 & l1 & E1) (D2 & I2 & l2 & E2). repeat split; try congruence.
  exists (l1 ++ l2). rewrite E2, E1. now rewrite app_assoc.
Qed.
Lemma ext_in r r' i : ext r r' -> In i (imports r) -> In i (imports r').
Proof. intros (_ & _ & l & E) H. rewrite E. apply in_or_app. now left. Qed.
Lemma ext_self r r' p : ext r r' -> (self r p <-> self r' p).
Proof. intros (D & I & _). unfold self. rewrite D, I. tauto. Qed.
Lemma ext_quals r r' : ext r r' -> incl (quals r) (quals r').
Proof. intros (_ & _ & l & E) q H. unfold quals in *. rewrite E, map_app. apply in_or_app. now left. Qed.

Definition oq (o : option import_) : str := match o with Some i => qualifier i | None => [] end.

Definition imp_ok (r : registry) (p : str) (o : option import_) : Prop :=
  match o with
  | None => self r p
  | Some i => ~ self r p /\ In i (imports r) /\ ipath i = p
  end.
Lemma imp_ok_ext r r' p o : ext r r' -> imp_ok r p o -> imp_ok r' p o.
Proof.
  intros X. destruct o as [i|]; simpl.
  - intros (A & B & C). repeat split; [rewrite <- (ext_self _ _ p X); exact A | eapply ext_in; eauto | exact C].
  - apply (ext_self _ _ p X).
Qed.

Definition MInv (r : registry) (m : vimports) : Prop := forall p o, lookup_imp p m = Some o -> imp_ok r p o.
Lemma MInv_ext r r' m : ext r r' -> MInv r m -> MInv r' m.
Proof. intros X H p o L. eapply imp_ok_ext; eauto. Qed.

Lemma qual_of_lookup m p o : lookup_imp p m = Some o -> qual_of m p = oq o.
Proof. unfold qual_of. intros ->. destruct o; reflexivity. Qed.

Section Inv.
  Variable cx : ctx.

  (* every import was added under the name the table gives to its path *)
  Definition NInv (r : registry) : Prop := forall i, In i (imports r) -> iname i = pkg_name cx (ipath i).

  Lemma add_import_full r path :
    let '(r', o) := add_import r (pkg_name cx path) path in
    RInv r -> NInv r -> RInv r' /\ NInv r' /\ ext r r' /\ imp_ok r' path o.
  Proof.
    pose proof (add_import_cases r (pkg_name cx path) path) as C.
    pose proof (add_import_inv r (pkg_name cx path) path) as I.
    destruct (add_import r (pkg_name cx path) path) as [r' o] eqn:E. simpl in I.
    destruct C as (D & P & C). intros RI NI. specialize (I RI).
    destruct C as [(S & -> & ->) | [(NS & -> & i & -> & F) | (NS & F & i & -> & Ei & Pi & Qi)]].
    - split; [|split; [|split]]; auto using ext_refl.
    - apply find_path_some in F as [F1 F2]. split; [|split; [|split]]; auto using ext_refl. simpl. auto.
    - assert (X : ext r r') by (repeat split; eauto).
      split; [|split; [|split]]; auto.
      + intros j Hj. rewrite Ei in Hj. apply in_app_or in Hj as [Hj|[<-|[]]]; [now apply NI|].
        unfold add_import in E. destruct (seqb path (dst r) && inpkg r); [discriminate|].
        rewrite F in E. injection E as _ E. subst i. reflexivity.
      + simpl. repeat split; [rewrite <- (ext_self _ _ path X); exact NS | rewrite Ei; apply in_or_app; right; now left | exact Pi].
  Qed.

  Definition PInv (st : pstate) (done : list str) : Prop :=
    let '(r, s, m) := st in
    RInv r /\ NInv r /\ MInv r m /\
    forall p, In p done -> exists o, lookup_imp p m = Some o /\ In (oq o) s.

  Lemma scope_add_import_step st done p :
    PInv st done ->
    PInv (scope_add_import cx st p) (done ++ [p]) /\
    ext (fst (fst st)) (fst (fst (scope_add_import cx st p))) /\
    incl (snd (fst st)) (snd (fst (scope_add_import cx st p))).
  Proof.
    destruct st as [[r s] m]. intros (RI & NI & MI & DN). unfold scope_add_import.
    pose proof (add_import_full r p) as A. destruct (add_import r (pkg_name cx p) p) as [r' o].
    destruct (A RI NI) as (RI' & NI' & X & OK). simpl. split; [|split; [exact X | intros x Hx; now right]].
    split; [exact RI'|]. split; [exact NI'|]. split.
    - intros p0 o0. simpl. destruct (seqb p0 p) eqn:Ep.
      + apply seqb_eq in Ep; subst. intros H; injection H as <-. exact OK.
      + intros H. eapply imp_ok_ext; eauto.
    - intros p0 Hp0. simpl. destruct (seqb p0 p) eqn:Ep.
      + exists o. split; [reflexivity | now left].
      + apply in_app_or in Hp0 as [Hp0|[<-|[]]].
        * destruct (DN _ Hp0) as (o0 & L & Hin). exists o0. split; [exact L | now right].
        * rewrite seqb_refl in Ep. discriminate.
  Qed.

  Lemma fold_scope_add_import ps : forall st done,
    PInv st done ->
    let st' := fold_left (scope_add_import cx) ps st in
    PInv st' (done ++ ps) /\ ext (fst (fst st)) (fst (fst st')) /\ incl (snd (fst st)) (snd (fst st')).
  Proof.
    induction ps as [|p ps IH]; intros st done H; simpl.
    - rewrite app_nil_r. split; [exact H|]. split; [apply ext_refl | apply incl_refl].
    - destruct (scope_add_import_step st done p H) as (H1 & X1 & S1).
      destruct (IH _ _ H1) as (H2 & X2 & S2). rewrite <- app_assoc in H2. simpl in H2.
      split; [exact H2|]. split; [eapply ext_trans; eauto | eapply incl_tran; eauto].
  Qed.

  Lemma populate_spec r s t :
    RInv r -> NInv r ->
    let '(r', s', m) := populate cx r s t in
    RInv r' /\ NInv r' /\ ext r r' /\ incl s s' /\ MInv r' m /\
    forall p, In p (imports_of t) -> exists o, lookup_imp p m = Some o /\ In (oq o) s'.
  Proof.
    intros RI NI. unfold populate.
    assert (P0 : PInv (r, s, []) []).
    { split; [exact RI|]. split; [exact NI|]. split; [intros p o; simpl; discriminate | intros p []]. }
    destruct (fold_scope_add_import (imports_of t) _ _ P0) as (H & X & S).
    destruct (fold_left (scope_add_import cx) (imports_of t) (r, s, [])) as [[r' s'] m].
    simpl in *. destruct H as (A & B & C & D). split; [exact A|]. split; [exact B|]. split; [exact X|]. split; [exact S|]. split; [exact C|exact D].
  Qed.
End Inv.

(* ---------------------------------------------------------------------------------- *)
(* AddVar, one method scope                                                            *)
(* ---------------------------------------------------------------------------------- *)
Definition VInv (r : registry) (v : var_) : Prop :=
  MInv r (vimps v) /\ forall p, In p (imports_of (vty v)) -> lookup_imp p (vimps v) <> None.
Lemma VInv_ext r r' v : ext r r' -> VInv r v -> VInv r' v.
Proof. intros X [A B]. split; [eapply MInv_ext; eauto | exact B]. Qed.

(* what identifies the rendered type of a variable *)
Definition vkey (v : var_) : ty * vimports := (vty v, vimps v).
Definition krty (k : ty * vimports) : rty := render (qual_of (snd k)) (fst k).
Lemma krty_vkey v : krty (vkey v) = vrty v.
Proof. reflexivity. Qed.

(* the scope contains the type string of every variable and every qualifier its type uses *)
Definition GScope (s : scope) (ks : list (ty * vimports)) : Prop :=
  forall k, In k ks -> In (print_rty (krty k)) s /\ forall p, In p (imports_of (fst k)) -> In (qual_of (snd k) p) s.

Lemma GScope_incl s s' ks : incl s s' -> GScope s ks -> GScope s' ks.
Proof. intros I G k Hk. destruct (G k Hk) as [A B]. split; [apply I, A | intros p Hp; apply I, B, Hp]. Qed.

Lemma fold_add_name_incl init : forall s, incl s (fold_left add_name init s) /\ incl init (fold_left add_name init s).
Proof.
  induction init as [|n init IH]; intros s; simpl.
  - split; [apply incl_refl | intros x []].
  - destruct (IH (add_name s n)) as [A B]. split.
    + intros x Hx. apply A. now right.
    + intros x [<-|Hx]; [apply A; now left | now apply B].
Qed.

Section Group.
  Variable cx : ctx.

  Definition GInv (r0 : registry) (s0 : scope) (st : vstate) (xs : items ty) : Prop :=
    let '(r, s, vs) := st in
    RInv r /\ NInv cx r /\ ext r0 r /\ incl s0 s /\ Forall (VInv r) vs /\ map vty vs = map snd xs /\ GScope s (map vkey vs).

  Lemma add_var_step r0 s0 st xs x : GInv r0 s0 st xs -> GInv r0 s0 (add_var cx st x) (xs ++ [x]).
  Proof.
    destruct st as [[r s] vs]. intros (RI & NI & X & I & VI & TY & GS). unfold add_var.
    pose proof (populate_spec cx r s (snd x) RI NI) as PS.
    destruct (populate cx r s (snd x)) as [[r' s'] m]. destruct PS as (RI' & NI' & X' & I' & MI & CL).
    simpl. split; [exact RI'|]. split; [exact NI'|]. split; [eapply ext_trans; eauto|].
    split; [intros y Hy; right; apply I', I, Hy|]. split; [|split].
    - apply Forall_app. split.
      + eapply Forall_impl; [|exact VI]. intros v. apply VInv_ext, X'.
      + constructor; [|constructor]. split; simpl; [exact MI|].
        intros p Hp. destruct (CL p Hp) as (o & L & _). congruence.
    - rewrite !map_app, TY. reflexivity.
    - rewrite map_app. intros k Hk. apply in_app_or in Hk as [Hk|[<-|[]]].
      + destruct (GS k Hk) as [A B]. split; [right; apply I', A | intros p Hp; right; apply I', B, Hp].
      + split; [now left|]. simpl. intros p Hp. destruct (CL p Hp) as (o & L & Hin).
        right. rewrite (qual_of_lookup _ _ _ L). exact Hin.
  Qed.

  Lemma fold_add_var r0 s0 ys : forall st xs, GInv r0 s0 st xs -> GInv r0 s0 (fold_left (add_var cx) ys st) (xs ++ ys).
  Proof.
    induction ys as [|y ys IH]; intros st xs H; simpl.
    - now rewrite app_nil_r.
    - specialize (IH _ _ (add_var_step _ _ _ _ y H)). now rewrite <- app_assoc in IH.
  Qed.

  Lemma run_group_spec r init xs :
    RInv r -> NInv cx r ->
    let '(r', s', vs) := run_group cx r init xs in
    RInv r' /\ NInv cx r' /\ ext r r' /\ incl (quals r) s' /\ incl init s' /\
    Forall (VInv r') vs /\ map vty vs = map snd xs /\ GScope s' (map vkey vs).
  Proof.
    intros RI NI. unfold run_group.
    assert (G0 : GInv r (fold_left add_name init (new_scope r)) (r, fold_left add_name init (new_scope r), []) []).
    { split; [exact RI|]. split; [exact NI|]. split; [apply ext_refl|]. split; [apply incl_refl|].
      split; [constructor|]. split; [reflexivity | intros k []]. }
    pose proof (fold_add_var _ _ xs _ _ G0) as G. simpl in G.
    destruct (fold_left (add_var cx) xs (r, fold_left add_name init (new_scope r), [])) as [[r' s'] vs].
    destruct G as (A & B & C & D & E & F & H).
    destruct (fold_add_name_incl init (new_scope r)) as [I1 I2].
    split; [exact A|]. split; [exact B|]. split; [exact C|].
    split; [intros q Hq; apply D, I1, Hq|]. split; [intros q Hq; apply D, I2, Hq|].
    split; [exact E|]. split; [exact F | exact H].
  Qed.
End Group.

(* ---------------------------------------------------------------------------------- *)
(* Names                                                                               *)
(* ---------------------------------------------------------------------------------- *)
Definition nonblank (n : str) : Prop := n <> [] /\ n <> B "_".

Lemma len2_nonblank (n : str) : 2 <= length n -> nonblank n.
Proof. intros H. split; intros E; rewrite E in H; vm_compute in H; lia. Qed.

Lemma suggest_nonblank s p : nonblank p -> nonblank (suggest s p).
Proof.
  intros [P1 P2]. unfold suggest. destruct (fresh_cand 1 p s) as (k & E & _). rewrite E.
  destruct k as [|k]; simpl; [split; assumption|].
  apply len2_nonblank. rewrite app_length.
  pose proof (dec_nonempty (k + 1)) as D.
  destruct p; [congruence|]. destruct (dec (k + 1)); [congruence|]. simpl. lia.
Qed.

Lemma suggest_fresh s p : ~ In (suggest s p) s.
Proof. apply fresh_not_in. Qed.

Section Names.
  Variable cx : ctx.

  Lemma resolve_names_spec vs : forall s s' vs', resolve_names s vs = (s', vs') ->
    map vkey vs' = map vkey vs /\ NoDup (map vname vs') /\
    (forall n, In n (map vname vs') -> ~ In n s) /\
    incl s s' /\ incl (map vname vs') s' /\
    (Forall (fun v => nonblank (vname v)) vs -> Forall (fun v => nonblank (vname v)) vs').
  Proof.
    induction vs as [|v vs IH]; intros s s' vs' H; simpl in H.
    - injection H as <- <-. simpl. repeat split; auto using incl_refl; try constructor; intros n [].
    - destruct (resolve_names (add_name s (suggest s (vname v))) vs) as [s1 r1] eqn:E.
      injection H as <- <-. destruct (IH _ _ _ E) as (K & ND & FR & I1 & I2 & NB).
      simpl. split; [now rewrite K|]. split.
      { constructor; [|exact ND]. intros Hin. apply (FR _ Hin). now left. }
      split.
      { intros n [<-|Hn]; [apply suggest_fresh|]. intros Hs. apply (FR _ Hn). now right. }
      split; [intros x Hx; apply I1; now right|]. split.
      { intros x [<-|Hx]; [apply I1; now left | now apply I2]. }
      intros F. inversion F as [|? ? F1 F2]; subst. constructor; [simpl; now apply suggest_nonblank | now apply NB].
  Qed.
End Names.

(* ---------- generated names are never blank ---------- *)
(* images of first runes under unicode.ToLower / ToUpper: letters, so neither empty nor "_" *)
Definition img_ok (l : str) : Prop := match l with [] => False | c :: _ => c <> x5f end.
Definition tables_ok (cx : ctx) : Prop :=
  Forall (fun e => img_ok (snd e)) (cx_lower cx) /\ Forall (fun e => img_ok (snd e)) (cx_upper cx).

Lemma img_ok_nonblank l rest : img_ok l -> nonblank (l ++ rest).
Proof.
  destruct l as [|c l]; simpl; [tauto|]. intros H. split; [discriminate|].
  intros E. change (B "_") with [x5f] in E. injection E as E _. contradiction.
Qed.

Lemma map_first_rune_cases tbl s :
  Forall (fun e => img_ok (snd e)) tbl ->
  map_first_rune tbl s = s \/ nonblank (map_first_rune tbl s).
Proof.
  induction 1 as [|[u l] tbl H _ IH]; [now left|].
  cbn [map_first_rune]. destruct u as [|c u]; [exact IH|].
  destruct (strip_prefix (c :: u) s) as [rest|]; [right; now apply img_ok_nonblank | exact IH].
Qed.

Lemma ascii_lower_5f b : ascii_lower b = x5f -> b = x5f.
Proof. intros H. destruct b; try reflexivity; vm_compute in H; discriminate. Qed.

Lemma snoc_nonblank (x : str) c : c <> x5f -> nonblank (x ++ [c]).
Proof.
  intros Hc. destruct x as [|a x]; simpl.
  - split; [discriminate|]. change (B "_") with [x5f]. congruence.
  - apply len2_nonblank. simpl. rewrite app_length. simpl. lia.
Qed.

Section VarName.
  Variable cx : ctx.
  Hypothesis TOK : tables_ok cx.

  Lemma decap_cases s : decap cx s = s \/ nonblank (decap cx s).
  Proof.
    destruct s as [|b r]; simpl; [now left|].
    destruct (is_ascii b).
    - destruct (Byte.byte_eq_dec (ascii_lower b) b) as [E|N]; [left; now rewrite E|].
      right. split; [discriminate|]. change (B "_") with [x5f]. intros E. injection E as E1 E2.
      apply ascii_lower_5f in E1 as E3. subst b. apply N. reflexivity.
    - apply map_first_rune_cases, TOK.
  Qed.

  Lemma basic_var_name_nonblank n : nonblank (basic_var_name n).
  Proof.
    unfold basic_var_name.
    repeat match goal with |- context [if ?c then _ else _] => destruct c end;
      split; intros E; vm_compute in E; discriminate.
  Qed.

  Lemma vnft_nonblank t : nonblank (var_name_for_type cx t).
  Proof.
    induction t; simpl;
      try (split; intros E; vm_compute in E; discriminate);
      try apply basic_var_name_nonblank; try assumption.
    - (* TNamed *)
      destruct (seqb n (B "error")); [split; intros E; vm_compute in E; discriminate|].
      destruct (seqb (decap cx n) n) eqn:E.
      + apply len2_nonblank. rewrite app_length. simpl. lia.
      + apply seqb_neq in E. destruct (decap_cases n) as [D|D]; [contradiction | exact D].
    - (* TSlice *) apply (snoc_nonblank _ x73). discriminate.
    - (* TArray *) apply (snoc_nonblank _ x73). discriminate.
    - (* TMap *) apply len2_nonblank. rewrite !app_length. simpl. lia.
    - (* TChan *) apply len2_nonblank. rewrite app_length. simpl. lia.
  Qed.

  Lemma var_name_nonblank name t : nonblank (var_name cx name t).
  Proof.
    unfold var_name. destruct (blank name) eqn:Bk; cbn [negb].
    - destruct (smem (var_name_for_type cx t) reserved); [|apply vnft_nonblank].
      apply len2_nonblank. rewrite app_length. simpl. lia.
    - unfold blank in Bk. apply orb_false_iff in Bk as [B1 B2]. split.
      + intros ->. discriminate.
      + intros ->. rewrite seqb_refl in B2. discriminate.
  Qed.
End VarName.
