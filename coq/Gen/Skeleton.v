(* Scoping skeletons of generated mock files (C01).

   A skeleton is what is left of a Go file when everything but NAME BINDING is erased: imports
   (path, qualifier), top-level declarations, and per declaration a tree of items: declarations of
   identifiers, uses of identifiers, nested blocks - in source order, so that Go's rule "the scope of a
   local starts after its declaration and ends with the block" can be evaluated exactly.

   [wf_file] is the executable scoping judgement.  The harness tool goscope extracts a skeleton (with the
   purely SYNTACTIC use kinds KQual/KType/KCon/KVal) from every file the real templates write and the kernel
   re-checks [wf_file extracted = true] on every run.  [testify_skel] / [matryer_skel] are the models of the
   two built-in templates (internal/mock_testify.templ, internal/mock_matryer.templ): they build the
   skeleton from the template data (names after collision resolution, rendered types) and carry INTENT use
   kinds (which object the template author meant); [erase] forgets the intent and the harness checks
   [norm (erase model) = norm extracted].  No proofs in this file (Gen/Skeleton_proofs.v). *)
From Coq Require Strings.String.
From Mk Require Import Lib.Bytes Lib.Dec Lib.Fresh Gen.Alloc.
Local Delimit Scope string_scope with string.

(* ------------------------------------------------------------------ skeleton language *)
Inductive ukind :=
| KQual                 (* q.X : q must be an import qualifier of the file, not shadowed *)
| KType | KCon | KVal   (* syntactic: identifier in type position / inside a type-parameter constraint /
                           in expression position *)
(* intents (model skeletons only) *)
| KTParam | KTParamC    (* a type parameter bound by the enclosing declaration (C: inside a constraint) *)
| KPkgType | KPkgCon    (* a package-level or predeclared type; not bound inside the declaration *)
| KTopType              (* a type declared at top level of this very file *)
| KVar (outer : bool)   (* a variable/parameter/receiver; outer: bound in the outermost block of the function *)
| KBuiltin.             (* a predeclared function or constant (len, make, append, panic, nil) *)

Inductive item :=
| IUse (k : ukind) (n : str)
| IDecl (ty : bool) (n : str)      (* ty = true: type parameter; false: variable / parameter / field *)
| IBlock (l : list item).

Inductive tkind := TType | TVar | TFunc | TMethod.
Record top := { t_kind : tkind; t_name : str; t_recv : str; t_items : list item }.

Record skeleton := {
  s_imports : list (str * str);      (* (path, qualifier) *)
  s_other_types : list str;          (* package-level names declared by the other files of the package *)
  s_other_vals : list str;
  s_tops : list top }.

(* ------------------------------------------------------------------ the judgement *)
Definition universe_types : list str :=
  map B ["bool"; "byte"; "complex64"; "complex128"; "error"; "float32"; "float64"; "int"; "int8"; "int16";
         "int32"; "int64"; "rune"; "string"; "uint"; "uint8"; "uint16"; "uint32"; "uint64"; "uintptr"; "any"]%string.
Definition universe_vals : list str :=
  map B ["true"; "false"; "iota"; "nil"; "append"; "cap"; "clear"; "close"; "complex"; "copy"; "delete"; "imag";
         "len"; "make"; "max"; "min"; "new"; "panic"; "print"; "println"; "real"; "recover"]%string.
Definition comparable_ : str := B "comparable".
Definition blank : str := B "_".

Record scope := { sv : list str; st : list str }.    (* variables, type parameters declared so far *)
Definition empty_scope := {| sv := []; st := [] |}.
Definition has (n : str) (s : scope) : bool := smem n (sv s) || smem n (st s).
Definition declare (ty : bool) (n : str) (s : scope) : scope :=
  if ty then {| sv := sv s; st := n :: st s |} else {| sv := n :: sv s; st := st s |}.

(* innermost binding of n: (is a type parameter, is in the outermost block) *)
Fixpoint lookup (n : str) (env : list scope) : option (bool * bool) :=
  match env with
  | [] => None
  | s :: rest =>
    if smem n (sv s) then Some (false, match rest with [] => true | _ => false end)
    else if smem n (st s) then Some (true, match rest with [] => true | _ => false end)
    else lookup n rest
  end.

Record fctx := { c_quals : list str; c_types : list str; c_vals : list str; c_filetypes : list str }.

Definition pkg_type_ok (c : fctx) (n : str) : bool :=
  (smem n (c_types c) || smem n universe_types) && negb (smem n (c_quals c)).

Definition resolve_ok (c : fctx) (env : list scope) (k : ukind) (n : str) : bool :=
  match k, lookup n env with
  | KQual, None => smem n (c_quals c)
  | KType, Some (true, _) => true
  | KType, None => pkg_type_ok c n
  | KCon, Some (true, _) => true
  | KCon, None => pkg_type_ok c n || seqb n comparable_
  | KVal, Some (false, _) => true
  | KVal, None => smem n (c_vals c) || smem n universe_vals || smem n (c_quals c)
  | KTParam, Some (true, _) => true
  | KTParamC, Some (true, _) => true
  | KPkgType, None => pkg_type_ok c n
  | KPkgCon, None => pkg_type_ok c n || seqb n comparable_
  | KTopType, None => smem n (c_filetypes c)
  | KVar o, Some (false, o') => if o then o' else true
  | KBuiltin, None => smem n universe_vals && negb (smem n (c_vals c)) && negb (smem n (c_types c))
                      && negb (smem n (c_quals c))
  | _, _ => false
  end.

Section WF.
Variable c : fctx.

(* outer: enclosing blocks, innermost first; cur: the current block so far.  Result: the current block
   after the item, None = scoping error (redeclaration in the same block, or a use that does not resolve
   as required). *)
Fixpoint wf_item (outer : list scope) (cur : scope) (i : item) {struct i} : option scope :=
  match i with
  | IUse k n => if resolve_ok c (cur :: outer) k n then Some cur else None
  | IDecl ty n => if seqb n blank then Some cur else if has n cur then None else Some (declare ty n cur)
  | IBlock l =>
    if (fix go (s : scope) (l : list item) {struct l} : bool :=
          match l with
          | [] => true
          | i :: t => match wf_item (cur :: outer) s i with Some s' => go s' t | None => false end
          end) empty_scope l
    then Some cur else None
  end.

Fixpoint wf_items (outer : list scope) (cur : scope) (l : list item) : option scope :=
  match l with
  | [] => Some cur
  | i :: t => match wf_item outer cur i with Some s => wf_items outer s t | None => None end
  end.

Definition wf_top (t : top) : bool :=
  match wf_items [] empty_scope (t_items t) with Some _ => true | None => false end.
End WF.

Fixpoint nodupb (l : list str) : bool :=
  match l with [] => true | x :: t => negb (smem x t) && nodupb t end.
Definition disjointb (a b : list str) : bool := forallb (fun x => negb (smem x b)) a.

(* all qualifier uses of an item tree; an expression-position identifier that is not bound anywhere in the
   tree may also be the base of q.F *)
Fixpoint qual_uses (i : item) : list str :=
  match i with
  | IUse KQual n => [n]
  | IUse KVal n => [n]
  | IUse _ _ => []
  | IDecl _ _ => []
  | IBlock l => (fix go (l : list item) : list str := match l with [] => [] | i :: t => qual_uses i ++ go t end) l
  end.

Definition top_names (k : tkind -> bool) (s : skeleton) : list str :=
  map t_name (filter (fun t => k (t_kind t) && negb (seqb (t_name t) blank)) (s_tops s)).
Definition is_type k := match k with TType => true | _ => false end.
Definition is_val k := match k with TVar | TFunc => true | _ => false end.
Definition is_pkglevel k := match k with TMethod => false | _ => true end.
Definition is_method k := match k with TMethod => true | _ => false end.
Definition dot : str := B ".".
Definition method_keys (s : skeleton) : list str :=
  map (fun t => t_recv t ++ dot ++ t_name t) (filter (fun t => is_method (t_kind t)) (s_tops s)).

Definition skel_ctx (s : skeleton) : fctx :=
  {| c_quals := map snd (s_imports s);
     c_types := top_names is_type s ++ s_other_types s;
     c_vals := top_names is_val s ++ s_other_vals s;
     c_filetypes := top_names is_type s |}.

Definition wf_file (s : skeleton) : bool :=
  let quals := filter (fun q => negb (seqb q blank) && negb (seqb q dot)) (map snd (s_imports s)) in
  let used := flat_map (fun t => flat_map qual_uses (t_items t)) (s_tops s) in
  let tops := top_names is_pkglevel s in
  let others := s_other_types s ++ s_other_vals s in
  nodupb (map fst (s_imports s)) && nodupb quals                 (* paths and qualifiers unique *)
  && forallb (fun q => smem q used) quals                        (* every import is used *)
  && nodupb tops && disjointb tops quals && disjointb tops others && disjointb quals others
  && nodupb (method_keys s)
  && forallb (wf_top (skel_ctx s)) (s_tops s).

(* ------------------------------------------------------------------ erasure and normal form *)
Definition erase_kind (k : ukind) : ukind :=
  match k with
  | KTParam | KPkgType | KTopType => KType
  | KTParamC | KPkgCon => KCon
  | KVar _ | KBuiltin => KVal
  | k => k
  end.
Fixpoint erase (i : item) : item :=
  match i with
  | IUse k n => IUse (erase_kind k) n
  | IDecl ty n => IDecl ty n
  | IBlock l => IBlock (map erase l)
  end.

Definition kcode (k : ukind) : nat :=
  match k with KQual => 0 | KType => 1 | KCon => 2 | KVal => 3 | KTParam => 4 | KTParamC => 5 | KPkgType => 6
             | KPkgCon => 7 | KTopType => 8 | KVar true => 9 | KVar false => 10 | KBuiltin => 11 end.
Definition use_ltb (a b : ukind * str) : bool :=
  if Nat.ltb (kcode (fst a)) (kcode (fst b)) then true
  else if Nat.ltb (kcode (fst b)) (kcode (fst a)) then false else sltb (snd a) (snd b).
Definition use_eqb (a b : ukind * str) : bool := Nat.eqb (kcode (fst a)) (kcode (fst b)) && seqb (snd a) (snd b).
Fixpoint ins_use (u : ukind * str) (l : list (ukind * str)) : list (ukind * str) :=
  match l with
  | [] => [u]
  | v :: t => if use_eqb u v then l else if use_ltb u v then u :: l else v :: ins_use u t
  end.
Definition flush (run : list (ukind * str)) : list item := map (fun u => IUse (fst u) (snd u)) run.

(* runs of consecutive uses become sorted and duplicate-free: the order of the uses between two
   declarations / blocks is irrelevant for scoping *)
Fixpoint norm_item (i : item) : item :=
  match i with
  | IBlock l =>
    IBlock ((fix go (run : list (ukind * str)) (l : list item) : list item :=
               match l with
               | [] => flush run
               | IUse k n :: t => go (ins_use (k, n) run) t
               | i :: t => flush run ++ norm_item i :: go [] t
               end) [] l)
  | i => i
  end.
Definition norm (l : list item) : list item := match norm_item (IBlock l) with IBlock l' => l' | _ => l end.

Definition kind_eqb (a b : ukind) : bool := Nat.eqb (kcode a) (kcode b).
Fixpoint item_eqb (a b : item) {struct a} : bool :=
  match a, b with
  | IUse k n, IUse k' n' => kind_eqb k k' && seqb n n'
  | IDecl t n, IDecl t' n' => Bool.eqb t t' && seqb n n'
  | IBlock l, IBlock l' =>
    (fix go (l l' : list item) : bool :=
       match l, l' with
       | [], [] => true
       | x :: t, y :: t' => item_eqb x y && go t t'
       | _, _ => false
       end) l l'
  | _, _ => false
  end.
Definition items_eqb (a b : list item) : bool := item_eqb (IBlock a) (IBlock b).

Definition tkind_eqb (a b : tkind) : bool :=
  match a, b with TType, TType | TVar, TVar | TFunc, TFunc | TMethod, TMethod => true | _, _ => false end.
Definition top_eqb (a b : top) : bool :=
  tkind_eqb (t_kind a) (t_kind b) && seqb (t_name a) (t_name b) && seqb (t_recv a) (t_recv b)
  && items_eqb (norm (map erase (t_items a))) (norm (t_items b)).

(* ------------------------------------------------------------------ template data (input of the models) *)
(* a rendered type, as the flat item list goscope produces for the type string: IUse KQual q, IUse KType n
   (KCon n inside constraints), IBlock [IDecl false f ...] for the field names of a struct type *)
Definition tyitems := list item.

Record pdata := { pn : str; pexp : str (* exported pn *); pty : tyitems; pvariadic : bool;
                  pany : bool (* variadic of interface{} / any *); pnil : bool (* Var.Nillable *) }.
Record rdata := { rn : str; rty : tyitems; riserr : bool; rnil : bool }.
Record mdata := { mn : str; mps : list pdata; mrs : list rdata;
                  mvisible : list str (* names visible in the method scope when the template runs *) }.
Record tpdata := { tdecl : str (* name as declared by the mock: exported *); torig : str (* as used in types *);
                   tcon : tyitems (* constraint *); tens : option tyitems (* ensure-line type argument *) }.
Record idata := { ifname : str; ifstruct : str; iftps : list tpdata; ifms : list mdata }.
Record fdata := { f_inpkg : bool; f_srcname : str; f_imports : list (str * str) (* registry: path, qualifier *);
                  f_ifaces : list idata; f_other_types : list str; f_other_vals : list str }.

Record topts := { unroll : bool }.
Record mopts := { skip_ensure : bool; stub_impl : bool; with_resets : bool }.

(* ------------------------------------------------------------------ shared pieces *)
Definition intent (tps : list tpdata) (ty : tyitems) : list item :=
  map (fun i => match i with
                | IUse KType n => if smem n (map torig tps) then IUse KTParam n else IUse KPkgType n
                | IUse KCon n => if smem n (map torig tps) then IUse KTParamC n else IUse KPkgCon n
                | i => i
                end) ty.

Definition uv (o : bool) (n : str) := IUse (KVar o) n.
Definition uvs (o : bool) (ns : list str) := map (uv o) ns.
Definition ub (n : String.string) := IUse KBuiltin (B n).
Arguments ub _%string.
Definition uq (n : str) := IUse KQual n.
Definition utop (n : str) := IUse KTopType n.
Definition dv (n : str) := IDecl false n.
Definition dvs (ns : list str) := map dv ns.
Definition L (n : String.string) : str := B n.
Arguments L _%string.

Definition tp_binders (tps : list tpdata) : list item := map (fun t => IDecl true (tdecl t)) tps.
Definition tp_decl (tps : list tpdata) : list item := tp_binders tps ++ flat_map (fun t => intent tps (tcon t)) tps.
Definition tp_inst (tps : list tpdata) : list item := map (fun t => IUse KTParam (tdecl t)) tps.

Definition pnames (ps : list pdata) := map pn ps.
Definition rnames (rs : list rdata) := map rn rs.
Definition ptys tps (ps : list pdata) : list item := flat_map (fun p => intent tps (pty p)) ps.
Definition rtys tps (rs : list rdata) : list item := flat_map (fun r => intent tps (rty r)) rs.
Definition last_variadic (ps : list pdata) : bool := match rev ps with p :: _ => pvariadic p | [] => false end.
Definition last_p (ps : list pdata) : option pdata := match rev ps with p :: _ => Some p | [] => None end.
Definition mk_top k n r its := {| t_kind := k; t_name := n; t_recv := r; t_items := its |}.
Definition nonempty {A} (l : list A) : bool := match l with [] => false | _ => true end.

(* ------------------------------------------------------------------ testify *)
Definition mock_q : str := B "mock".
Definition testify_path : str := B "github.com/stretchr/testify/mock".

(* ASCII first-letter functions (firstIsLower / firstUpper on the struct name) *)
Definition is_lower (b : byte) : bool := Nat.leb 97 (bnat b) && Nat.leb (bnat b) 122.
Definition up (b : byte) : byte := if is_lower b then match Byte.of_nat (bnat b - 32) with Some x => x | None => b end else b.
Definition ctor_name (s : str) : str :=
  match s with
  | [] => B "New"
  | b :: t => (if is_lower b then B "new" else B "New") ++ up b :: t
  end.

(* {{ $method.Scope.AllocateName "ret" }}, "returnFunc", "ok": executed only when the method has results
   (mock_testify.templ after fixes/c03-variadic-multi-return); Gen/Alloc.v is the model of AllocateName *)
Definition tf_alloc (m : mdata) : list str * (str * str * str) :=
  let '(s1, r) := allocate (mvisible m) (B "ret") in
  let '(s2, rf) := allocate s1 (B "returnFunc") in
  let '(s3, k) := allocate s2 (B "ok") in (s3, (r, rf, k)).
Definition ret_name (m : mdata) : str := fst (fst (snd (tf_alloc m))).
Definition rf_name (m : mdata) : str := snd (fst (snd (tf_alloc m))).
Definition ok_name (m : mdata) : str := snd (snd (tf_alloc m)).
(* the Run wrapper allocates arg<i> for every nillable non-variadic parameter number i, in order
   (fixes/c03-typed-run-wrapper), in the same method scope *)
Fixpoint run_args (s : list str) (i : nat) (ps : list pdata) : list (pdata * option str) :=
  match ps with
  | [] => []
  | p :: t => if pnil p
              then let '(s', a) := allocate s (B "arg" ++ dec i) in (p, Some a) :: run_args s' (S i) t
              else (p, None) :: run_args s (S i) t
  end.
Definition run_scope (m : mdata) : list str := if nonempty (mrs m) then fst (tf_alloc m) else mvisible m.
Definition nonvar_ps (m : mdata) : list pdata := if last_variadic (mps m) then removelast (mps m) else mps m.
Definition arg_names (m : mdata) : list str :=
  flat_map (fun x => match snd x with Some a => [a] | None => [] end) (run_args (run_scope m) 0 (nonvar_ps m)).
Fixpoint r_names_from (i n : nat) : list str :=
  match n with 0 => [] | S k => (B "r" ++ dec i) :: r_names_from (S i) k end.
Definition r_names (m : mdata) : list str := r_names_from 0 (length (mrs m)).

Definition tf_else (tps : list tpdata) (r : str) (ri : str) (rd : rdata) : list item :=
  if riserr rd then [uv true r; uv true ri]
  else if rnil rd then [IBlock [uv true r; ub "nil"; IBlock ([uv true r] ++ intent tps (rty rd) ++ [uv true ri])]]
  else [uv true r] ++ intent tps (rty rd) ++ [uv true ri].

Definition tf_body (o : topts) (tps : list tpdata) (m : mdata) : list item :=
  let ps := mps m in let rs := mrs m in
  let has_r := nonempty rs in
  let var := last_variadic ps in
  let lastn := match last_p ps with Some p => pn p | None => [] end in
  let lastany := match last_p ps with Some p => pany p | None => false end in
  let called_plain := uv true (L "_mock") :: uvs true (pnames ps) in
  let '(pre, called) :=
    if negb var || negb (unroll o) then
      if var then
        let tmp := if has_r then [uv true (L "tmpRet")] else [] in
        ((if has_r then [uq mock_q; dv (L "tmpRet")] else [])
         ++ [IBlock [ub "len"; uv true lastn;
                     IBlock (uv true (L "_mock") :: uvs true (pnames ps) ++ tmp);
                     IBlock (uv true (L "_mock") :: uvs true (pnames (removelast ps)) ++ tmp)]],
         tmp)
      else ([], called_plain)
    else
      ((if lastany then []
        else [ub "make"; ub "len"; uv true lastn; dv (L "_va");
              IBlock [uv true lastn; dv (L "_i");
                      IBlock [uv true lastn; uv false (L "_i"); uv true (L "_va"); uv false (L "_i")]]])
       ++ [dv (L "_ca")]
       ++ (if Nat.ltb 1 (length ps)
           then [ub "append"; uv true (L "_ca")] ++ uvs true (pnames (removelast ps)) ++ [uv true (L "_ca")] else [])
       ++ [ub "append"; uv true (L "_ca"); uv true (if lastany then lastn else L "_va"); uv true (L "_ca")],
       [uv true (L "_mock"); uv true (L "_ca")]) in
  if negb has_r then pre ++ called
  else
    let r := ret_name m in let rf := rf_name m in let okn := ok_name m in
    let ris := r_names m in
    pre ++ called ++ [dv r; IBlock [ub "len"; uv true r; IBlock [ub "panic"]]]
    ++ flat_map (fun x => intent tps (rty (fst x)) ++ [dv (snd x)]) (combine rs ris)
    ++ (if Nat.ltb 1 (length rs)
        then let whole := IBlock ([uv true r] ++ ptys tps ps ++ rtys tps rs
                                  ++ [dv rf; dv okn; uv false okn; IBlock (uv false rf :: uvs true (pnames ps))]) in
             whole :: (if var && negb (unroll o) then [whole] else [])
        else [])
    ++ map (fun x => IBlock ([uv true r] ++ ptys tps ps ++ intent tps (rty (fst x))
                             ++ [dv rf; dv okn; uv false okn;
                                 IBlock (uv false rf :: uvs true (pnames ps) ++ [uv true (snd x)]);
                                 IBlock (tf_else tps r (snd x) (fst x))]))
           (combine rs ris)
    ++ uvs true ris.

Definition tf_run_closure (o : topts) (tps : list tpdata) (m : mdata) : list item :=
  let ps := mps m in
  let ras := run_args (run_scope m) 0 (nonvar_ps m) in
  let pre := flat_map (fun x => match snd x with
                                | Some a => intent tps (pty (fst x))
                                            ++ [dv a; IBlock [uv false (L "args"); ub "nil";
                                                              IBlock ([uv false (L "args")] ++ intent tps (pty (fst x))
                                                                      ++ [uv false a])]]
                                | None => [] end) ras in
  let run_uses := flat_map (fun x => match snd x with
                                     | Some a => [uv false a]
                                     | None => uv false (L "args") :: intent tps (pty (fst x)) end) ras in
  [uq mock_q; dv (L "args")] ++ pre
  ++ (if last_variadic ps then
        let elem := match last_p ps with Some p => intent tps (pty p) | None => [] end in
        (if unroll o then
           [ub "make"] ++ elem ++ [ub "len"; uv false (L "args"); dv (L "variadicArgs");
            IBlock [uv false (L "args"); dv (L "i"); dv (L "a");
                    IBlock [IBlock [uv false (L "a"); ub "nil";
                                    IBlock ([uv false (L "a")] ++ elem ++ [uv false (L "variadicArgs"); uv false (L "i")])]]]]
         else
           elem ++ [dv (L "variadicArgs");
                    IBlock [ub "len"; uv false (L "args");
                            IBlock ([uv false (L "args")] ++ elem ++ [uv false (L "variadicArgs")])]])
        ++ [uv true (L "run")] ++ run_uses ++ [uv false (L "variadicArgs")]
      else [uv true (L "run")] ++ run_uses).

Definition sep : str := B "_".
Definition expecter_name (s : str) := s ++ B "_Expecter".
Definition call_name (s mname : str) := s ++ sep ++ mname ++ B "_Call".

Section TestifyTops.
Variables (o : topts) (i : idata).
Let tps := iftps i.
Let S := ifstruct i.
Let E := expecter_name (ifstruct i).
Definition tf_mock_top (m : mdata) : top :=
  mk_top TMethod (mn m) S
    (tp_binders tps ++ [utop S] ++ ptys tps (mps m) ++ rtys tps (mrs m) ++ [dv (L "_mock")] ++ dvs (pnames (mps m))
     ++ tf_body o tps m).
Definition tf_call_type_top (m : mdata) : top :=
  mk_top TType (call_name S (mn m)) [] (tp_decl tps ++ [IBlock [dv (L "Call")]; uq mock_q]).
Definition tf_expecter_method_top (m : mdata) : top :=
  let C := call_name S (mn m) in let ps := mps m in
  mk_top TMethod (mn m) E
    (tp_binders tps ++ [utop E; utop C] ++ tp_inst tps ++ [dv (L "_e")] ++ dvs (pnames ps)
     ++ [utop C] ++ tp_inst tps ++ [uv true (L "_e")]
     ++ (if last_variadic ps then [ub "append"] else []) ++ uvs true (pnames ps)).
Definition tf_run_top (m : mdata) : top :=
  let C := call_name S (mn m) in
  mk_top TMethod (L "Run") C
    (tp_binders tps ++ [utop C] ++ ptys tps (mps m) ++ [utop C] ++ tp_inst tps ++ [dv (L "_c"); dv (L "run")]
     ++ [uv true (L "_c"); IBlock (tf_run_closure o tps m); uv true (L "_c")]).
Definition tf_return_top (m : mdata) : top :=
  let C := call_name S (mn m) in let rs := mrs m in
  mk_top TMethod (L "Return") C
    (tp_binders tps ++ [utop C] ++ rtys tps rs ++ [utop C] ++ tp_inst tps ++ [dv (L "_c")] ++ dvs (rnames rs)
     ++ [uv true (L "_c")] ++ uvs true (rnames rs) ++ [uv true (L "_c")]).
Definition tf_runandreturn_top (m : mdata) : top :=
  let C := call_name S (mn m) in
  mk_top TMethod (L "RunAndReturn") C
    (tp_binders tps ++ [utop C] ++ ptys tps (mps m) ++ rtys tps (mrs m) ++ [utop C] ++ tp_inst tps
     ++ [dv (L "_c"); dv (L "run"); uv true (L "_c"); uv true (L "run"); uv true (L "_c")]).
Definition testify_method (m : mdata) : list top :=
  [tf_mock_top m; tf_call_type_top m; tf_expecter_method_top m; tf_run_top m; tf_return_top m; tf_runandreturn_top m].

Definition tf_ctor_top : top :=
  mk_top TFunc (ctor_name S) []
    (tp_decl tps ++ [uq mock_q; utop S] ++ tp_inst tps ++ [dv (L "t"); utop S] ++ tp_inst tps
     ++ [dv (L "mock"); uv true (L "mock"); uv true (L "t"); uv true (L "t");
         IBlock [uv true (L "mock"); uv true (L "t")]; uv true (L "mock")]).
Definition tf_struct_top : top := mk_top TType S [] (tp_decl tps ++ [IBlock [dv (L "Mock")]; uq mock_q]).
Definition tf_expecter_type_top : top := mk_top TType E [] (tp_decl tps ++ [IBlock [dv (L "mock")]; uq mock_q]).
Definition tf_expect_top : top :=
  mk_top TMethod (L "EXPECT") S
    (tp_binders tps ++ [utop S; utop E] ++ tp_inst tps ++ [dv (L "_m"); utop E] ++ tp_inst tps ++ [uv true (L "_m")]).
Definition testify_iface : list top :=
  [tf_ctor_top; tf_struct_top; tf_expecter_type_top; tf_expect_top] ++ flat_map testify_method (ifms i).
End TestifyTops.

(* the registry of the file as the data model left it (imports in path order) *)
Definition reg_of (f : fdata) : registry :=
  {| dst := []; inpkg := false;
     imports := map (fun pq => {| ipath := fst pq; iname := snd pq; ialias := [] |}) (f_imports f) |}.
Definition imports_of (r : registry) : list (str * str) :=
  map (fun i => (ipath i, qualifier i)) (imports_sorted r).

Definition testify_skel (o : topts) (f : fdata) : skeleton :=
  {| s_imports := imports_of (reg_of f) ++ [(testify_path, mock_q)];   (* hard-coded in the template *)
     s_other_types := f_other_types f; s_other_vals := f_other_vals f;
     s_tops := flat_map (testify_iface o) (f_ifaces f) |}.

(* ------------------------------------------------------------------ matryer *)
Definition sync_p : str := B "sync".
Definition fmt_p : str := B "fmt".
Definition implements_some (f : fdata) : bool := existsb (fun i => nonempty (ifms i)) (f_ifaces f).

(* {{.Registry.AddImport "sync" "sync"}} if some mock has a method.  (The unchanged tree also executed
   {{.Registry.AddImport "fmt" "fmt"}} although nothing in the file uses fmt: fixes/c01-matryer-fmt; the
   model of that behaviour is [matryer_reg_with_fmt], kept for the regression lemma C01_fmt_import_unused.) *)
Definition matryer_reg (f : fdata) : registry :=
  let r0 := reg_of f in
  if implements_some f then fst (add_import r0 sync_p sync_p) else r0.
Definition matryer_reg_with_fmt (f : fdata) : registry := fst (add_import (matryer_reg f) fmt_p fmt_p).
Definition sync_q (f : fdata) : str :=
  match pkg_qualifier (matryer_reg f) sync_p with Some q => q | None => B "<no sync import>" end.

Definition unparseable : str := B "<not a type>".
Definition ensure_args (tps : list tpdata) : list item :=
  flat_map (fun t => match tens t with Some ty => intent [] ty | None => [IUse KPkgType unparseable] end) tps.

Definition fields (ns : list str) : item := IBlock (dvs ns).
Definition pexps (ps : list pdata) := map pexp ps.
Definition func_name (m : str) := m ++ B "Func".
Definition lock_name (m : str) := B "lock" ++ m.
Definition calls_name (m : str) := m ++ B "Calls".
Definition reset_name (m : str) := B "Reset" ++ m ++ B "Calls".

Definition mt_lock_triple : list item := [uv true (L "mock"); ub "nil"; uv true (L "mock"); uv true (L "mock")].

Section MatryerTops.
Variables (o : mopts) (f : fdata) (i : idata).
Let tps := iftps i.
Let S := ifstruct i.
Definition mt_method_top (m : mdata) : top :=
  let ps := mps m in let rs := mrs m in
  mk_top TMethod (mn m) S
    (tp_binders tps ++ [utop S] ++ ptys tps ps ++ rtys tps rs ++ [dv (L "mock")] ++ dvs (pnames ps)
     ++ (if stub_impl o then [] else [IBlock [uv true (L "mock"); ub "nil"; IBlock [ub "panic"]]])
     ++ [fields (pexps ps)] ++ ptys tps ps ++ uvs true (pnames ps) ++ [dv (L "callInfo")]
     ++ [uv true (L "mock"); ub "append"; uv true (L "mock"); uv true (L "callInfo"); uv true (L "mock");
         uv true (L "mock")]
     ++ (if stub_impl o
         then [IBlock [uv true (L "mock"); ub "nil";
                       IBlock (flat_map (fun r => intent tps (rty r) ++ [dv (rn r)]) rs ++ uvs false (rnames rs))]]
         else [])
     ++ [uv true (L "mock")] ++ uvs true (pnames ps)).
Definition mt_calls_top (m : mdata) : top :=
  let ps := mps m in
  mk_top TMethod (calls_name (mn m)) S
    (tp_binders tps ++ [utop S; fields (pexps ps)] ++ ptys tps ps ++ [dv (L "mock"); fields (pexps ps)]
     ++ ptys tps ps ++ [dv (L "calls"); uv true (L "mock"); uv true (L "mock"); uv true (L "calls");
                        uv true (L "mock"); uv true (L "calls")]).
Definition mt_reset_top (m : mdata) : top :=
  mk_top TMethod (reset_name (mn m)) S (tp_binders tps ++ [utop S; dv (L "mock")] ++ mt_lock_triple).
Definition matryer_method (m : mdata) : list top :=
  [mt_method_top m; mt_calls_top m] ++ (if with_resets o then [mt_reset_top m] else []).

Definition mt_ensure_top : top :=
  mk_top TVar blank []
    ((if f_inpkg f then [IUse KPkgType (ifname i)] else [uq (f_srcname f)])
     ++ ensure_args tps ++ [utop S] ++ ensure_args tps).
Definition mt_struct_top : top :=
  let ms := ifms i in
  mk_top TType S []
    (tp_decl tps
     ++ [fields (map (fun m => func_name (mn m)) ms ++ [L "calls"] ++ map (fun m => lock_name (mn m)) ms)]
     ++ flat_map (fun m => ptys tps (mps m) ++ rtys tps (mrs m)) ms
     ++ [fields (map mn ms)]
     ++ flat_map (fun m => fields (pexps (mps m)) :: ptys tps (mps m)) ms
     ++ map (fun _ => uq (sync_q f)) ms).
Definition mt_resetall_top : top :=
  mk_top TMethod (L "ResetCalls") S
    (tp_binders tps ++ [utop S; dv (L "mock")] ++ flat_map (fun _ => mt_lock_triple) (ifms i)).
Definition matryer_iface : list top :=
  (if skip_ensure o then [] else [mt_ensure_top]) ++ [mt_struct_top] ++ flat_map matryer_method (ifms i)
  ++ (if with_resets o then [mt_resetall_top] else []).
End MatryerTops.

Definition matryer_skel (o : mopts) (f : fdata) : skeleton :=
  {| s_imports := imports_of (matryer_reg f);
     s_other_types := f_other_types f; s_other_vals := f_other_vals f;
     s_tops := flat_map (matryer_iface o f) (f_ifaces f) |}.

(* ------------------------------------------------------------------ comparison with an extracted skeleton *)
Fixpoint ins_pair (p : str * str) (l : list (str * str)) : list (str * str) :=
  match l with
  | [] => [p]
  | q :: t => if sltb (fst p) (fst q) then p :: l else q :: ins_pair p t
  end.
Definition sort_pairs (l : list (str * str)) := fold_right ins_pair [] l.
Fixpoint pairs_eqb (a b : list (str * str)) : bool :=
  match a, b with
  | [], [] => true
  | x :: a', y :: b' => seqb (fst x) (fst y) && seqb (snd x) (snd y) && pairs_eqb a' b'
  | _, _ => false
  end.
Fixpoint tops_diff (i : nat) (a b : list top) : list nat :=
  match a, b with
  | [], [] => []
  | x :: a', y :: b' => (if top_eqb x y then [] else [i]) ++ tops_diff (S i) a' b'
  | _, _ => [i]
  end.

(* model vs extracted: same imports (as sets of (path, qualifier)), same declarations in the same order,
   per declaration the same normalised item tree once the model's intent is erased.
   Result: [] = agree; otherwise 0 = imports differ, k+1 = top-level declaration number k differs. *)
Definition skel_diff (model extracted : skeleton) : list nat :=
  (if pairs_eqb (sort_pairs (s_imports model)) (sort_pairs (s_imports extracted)) then [] else [0])
  ++ map S (tops_diff 0 (s_tops model) (s_tops extracted)).


(* ------------------------------------------------------------------ guards *)
Definition builtins : list str := [L "len"; L "make"; L "append"; L "panic"; L "nil"].
(* variables the testify template declares with a fixed spelling, per function:
   mock method: _mock tmpRet _va _i _ca; expecter: _e; Run/Return/RunAndReturn: _c run args variadicArgs i a;
   EXPECT: _m; constructor: t mock *)
Definition tf_vars : list str :=
  [L "_mock"; L "_m"; L "_e"; L "_c"; L "t"; L "mock"; L "tmpRet"; L "_va"; L "_i"; L "_ca";
   L "run"; L "args"; L "variadicArgs"; L "i"; L "a"].
Definition mt_vars : list str := [L "mock"; L "callInfo"; L "calls"].
(* what a PARAMETER of a testify-mocked method must not be called: the fixed variables of the two functions that
   bind the parameters (mock method, expecter method), the predeclared identifiers and the qualifier they use *)
Definition tf_taboo : list str := [L "_mock"; L "_e"; L "tmpRet"; L "_va"; L "_i"; L "_ca"] ++ builtins ++ [mock_q].
Definition mt_taboo : list str := [L "mock"; L "callInfo"; L "append"; L "nil"; L "panic"].

Definition ty_quals (l : tyitems) : list str :=
  flat_map (fun i => match i with IUse KQual n => [n] | _ => [] end) l.
Definition ty_bares (l : tyitems) : list str :=
  flat_map (fun i => match i with IUse KType n | IUse KCon n => [n] | _ => [] end) l.
Definition ty_idents (l : tyitems) : list str := ty_quals l ++ ty_bares l.
Definition field_block_ok (l : list item) : bool :=
  forallb (fun i => match i with IDecl false n => negb (seqb n blank) | _ => false end) l
  && nodupb (flat_map (fun i => match i with IDecl _ n => [n] | _ => [] end) l).

Definition sig_idents (tps : list tpdata) (m : mdata) : list str :=
  flat_map (fun p => ty_idents (pty p)) (mps m) ++ flat_map (fun r => ty_idents (rty r)) (mrs m)
  ++ flat_map (fun t => ty_idents (tcon t)) tps ++ map tdecl tps.
Definition tp_idents (tps : list tpdata) : list str := flat_map (fun t => ty_idents (tcon t)) tps ++ map tdecl tps.

(* ---- finding classes (each has a ..._refuted witness in Properties/C01.v) ---- *)
(* rows 17b/C14: a parameter or result spelled like a type name, qualifier or type parameter of its own signature *)
Definition g_capture (tps : list tpdata) (m : mdata) : bool :=
  disjointb (pnames (mps m) ++ rnames (mrs m)) (sig_idents tps m).
(* row 18/C14: the mock declares its type parameters under the EXPORTED name, the types use the original one *)
Definition g_tparams (tps : list tpdata) : bool := forallb (fun t => seqb (tdecl t) (torig t)) tps.
(* row 17: testify parameters / results spelled like the template's own identifiers *)
Definition g_tf_params (m : mdata) : bool := disjointb (pnames (mps m)) (tf_taboo ++ r_names m).
Definition g_tf_results (m : mdata) : bool := negb (smem (L "_c") (rnames (mrs m))).
(* a type name, qualifier or type parameter spelled like a variable (or predeclared identifier) the template
   uses - e.g. a package called mock - or like one of the generated types *)
Definition tf_gen_types (s : str) (ms : list mdata) : list str :=
  s :: expecter_name s :: map (fun m => call_name s (mn m)) ms.
Definition g_tf_types (s : str) (ms : list mdata) (tps : list tpdata) (m : mdata) : bool :=
  disjointb (sig_idents tps m)
            (tf_vars ++ builtins ++ [ret_name m; rf_name m; ok_name m] ++ arg_names m ++ r_names m ++ tf_gen_types s ms).
Definition g_tf_tps (s : str) (ms : list mdata) (tps : list tpdata) : bool :=
  disjointb (tp_idents tps) (tf_vars ++ builtins ++ tf_gen_types s ms).
Definition g_mt_params (m : mdata) : bool := disjointb (pnames (mps m)) mt_taboo.
Definition g_mt_fields (m : mdata) : bool := nodupb (pexps (mps m)).
Definition g_mt_types (s : str) (tps : list tpdata) (m : mdata) : bool :=
  disjointb (sig_idents tps m) (mt_vars ++ builtins ++ [s]).
Definition g_mt_tps (s : str) (tps : list tpdata) : bool := disjointb (tp_idents tps) (mt_vars ++ builtins ++ [s]).
(* row 19: the ensure line instantiates a generic interface with each parameter's constraint spelled as a type *)
Definition g_mt_ensure_arg (tps : list tpdata) (t : tpdata) : bool :=
  match tens t with
  | Some ty => disjointb (ty_bares ty) (comparable_ :: map torig tps)
  | None => false
  end.
(* row 19: out of package the ensure line says <source package name>.<Interface>: needs that import, under that name *)
Definition g_mt_ensure_import (f : fdata) : bool := f_inpkg f || smem (f_srcname f) (map snd (f_imports f)).
(* a source import whose qualifier is `mock` collides with the import the testify template hard-codes *)
Definition g_tf_mock_import (f : fdata) : bool :=
  negb (smem mock_q (map snd (f_imports f))) && negb (smem testify_path (map fst (f_imports f))).

Definition tf_guards_iface (i : idata) : bool :=
  g_tparams (iftps i) && g_tf_tps (ifstruct i) (ifms i) (iftps i)
  && forallb (fun m => g_capture (iftps i) m && g_tf_params m && g_tf_results m
                       && g_tf_types (ifstruct i) (ifms i) (iftps i) m) (ifms i).
Definition mt_guards_iface (o : mopts) (f : fdata) (i : idata) : bool :=
  g_tparams (iftps i) && g_mt_tps (ifstruct i) (iftps i)
  && forallb (fun m => g_capture (iftps i) m && g_mt_params m && g_mt_fields m
                       && g_mt_types (ifstruct i) (iftps i) m) (ifms i)
  && (skip_ensure o || (g_mt_ensure_import f && forallb (g_mt_ensure_arg (iftps i)) (iftps i))).

Definition tf_guards (f : fdata) : bool := g_tf_mock_import f && forallb tf_guards_iface (f_ifaces f).
Definition mt_guards (o : mopts) (f : fdata) : bool := forallb (mt_guards_iface o f) (f_ifaces f).

(* ---- what the data model and the file context owe (C14 / C15 / configuration): checked on every case ---- *)
Definition names_ok (ns : list str) : bool := nodupb ns && forallb (fun n => negb (seqb n blank)) ns.
(* a rendered type: uses and closed blocks of distinct field names; every qualifier is an import of the file, every
   bare name is a type parameter of the interface or a type of the destination package / a predeclared type *)
Definition ty_item_known (c : fctx) (tps : list tpdata) (i : item) : bool :=
  match i with
  | IUse KQual q => smem q (c_quals c) && negb (smem q (map torig tps))
  | IUse KType n => smem n (map torig tps) || pkg_type_ok c n
  | IUse KCon n => smem n (map torig tps) || pkg_type_ok c n || seqb n comparable_
  | IBlock fs => field_block_ok fs
  | _ => false
  end.
Definition types_known (c : fctx) (tps : list tpdata) (ty : tyitems) : bool := forallb (ty_item_known c tps) ty.
(* shape of the names the template allocates or numbers: always true (ret/returnFunc/ok/arg<i> with a numeric
   suffix, r<i>), checked rather than proved *)
Definition d_tf_names (m : mdata) : bool :=
  nodupb (arg_names m ++ r_names m)
  && disjointb ([ret_name m; rf_name m; ok_name m] ++ arg_names m ++ r_names m) (tf_vars ++ builtins ++ [mock_q; blank])
  && disjointb (r_names m) [ret_name m; rf_name m; ok_name m].
Definition d_method (c : fctx) (tps : list tpdata) (m : mdata) : bool :=
  names_ok (pnames (mps m)) && names_ok (rnames (mrs m)) && names_ok (pexps (mps m))
  && forallb (fun p => types_known c tps (pty p)) (mps m)
  && forallb (fun r => types_known c tps (rty r)) (mrs m)
  && forallb (fun n => smem n (mvisible m)) (pnames (mps m))      (* the method scope sees its parameters *)
  && d_tf_names m.
Definition d_iface (c : fctx) (i : idata) : bool :=
  names_ok (map tdecl (iftps i))
  && forallb (fun t => types_known c (iftps i) (tcon t)) (iftps i)
  && forallb (d_method c (iftps i)) (ifms i).
Definition all_type_quals (f : fdata) : list str :=
  flat_map (fun i => flat_map (fun t => ty_quals (tcon t)) (iftps i)
                     ++ flat_map (fun m => flat_map (fun p => ty_quals (pty p)) (mps m)
                                           ++ flat_map (fun r => ty_quals (rty r)) (mrs m)) (ifms i)) (f_ifaces f).
Definition d_builtins (c : fctx) : bool :=
  forallb (fun n => smem n universe_vals && negb (smem n (c_vals c)) && negb (smem n (c_types c))
                    && negb (smem n (c_quals c))) builtins.
(* c: the file context of the generated file (skel_ctx of the model skeleton) *)
Definition data_ok (f : fdata) (c : fctx) : bool :=
  nodupb (map fst (f_imports f)) && names_ok (map snd (f_imports f))
  && forallb (fun q => negb (seqb q dot)) (map snd (f_imports f))
  && forallb (fun q => smem q (all_type_quals f)) (map snd (f_imports f))      (* only needed imports *)
  && nonempty (f_ifaces f)
  && d_builtins c
  && forallb (d_iface c) (f_ifaces f).

(* matryer, ensure line: the type arguments are types of the destination file *)
Definition d_mt_ensure (o : mopts) (f : fdata) (c : fctx) : bool :=
  skip_ensure o
  || forallb (fun i => (negb (f_inpkg f) || pkg_type_ok c (ifname i))
                       && forallb (fun t => match tens t with Some ty => types_known c [] ty | None => true end) (iftps i))
             (f_ifaces f).

(* matryer: the generated field names are distinct (method names are, by Go; <M>Func / calls / lock<M> by their
   shape) and the sync qualifier is not a type parameter of the interface: always true, checked rather than proved *)
Definition d_mt_iface (f : fdata) (i : idata) : bool :=
  negb (seqb (ifstruct i) blank)
  && names_ok (map (fun m => func_name (mn m)) (ifms i) ++ [L "calls"] ++ map (fun m => lock_name (mn m)) (ifms i))
  && names_ok (map mn (ifms i))
  && negb (smem (sync_q f) (map tdecl (iftps i))).
Definition d_mt (o : mopts) (f : fdata) (c : fctx) : bool :=
  d_mt_ensure o f c && forallb (d_mt_iface f) (f_ifaces f).
(* testify: the generated type names are not blank and not spelled like a variable of the template or a parameter *)
Definition d_tf_iface (i : idata) : bool :=
  negb (seqb (ifstruct i) blank)
  && disjointb (tf_gen_types (ifstruct i) (ifms i)) tf_vars
  && forallb (fun m => disjointb (pnames (mps m)) (tf_gen_types (ifstruct i) (ifms i))) (ifms i).
Definition d_tf (f : fdata) : bool := forallb d_tf_iface (f_ifaces f).

(* no collision among the generated top-level names, with the rest of the package, or with the imports:
   depends on the configured struct names and on the API-collision exclusion of the property text *)
Definition file_names_ok (s : skeleton) : bool :=
  let quals := filter (fun q => negb (seqb q blank) && negb (seqb q dot)) (map snd (s_imports s)) in
  let tops := top_names is_pkglevel s in
  let others := s_other_types s ++ s_other_vals s in
  nodupb tops && disjointb tops quals && disjointb tops others && disjointb quals others && nodupb (method_keys s).

(* ------------------------------------------------------------------ generated parameter names *)
(* template/var.go: varName for an UNNAMED (or _) parameter whose type is a named type T (ASCII):
   varNameForType gives "err" for error, else the decapitalised type name (+ "MoqParam" if that changes
   nothing); varName appends "Param" when the result is on its reserved list - the identifiers the built-in
   templates use themselves (mock, callInfo), the Go keywords and the basic type names. *)
Definition is_upper (b : byte) : bool := Nat.leb 65 (bnat b) && Nat.leb (bnat b) 90.
Definition low (b : byte) : byte := if is_upper b then match Byte.of_nat (bnat b + 32) with Some x => x | None => b end else b.
Definition decap (s : str) : str := match s with [] => [] | b :: t => low b :: t end.
Definition reserved_names : list str :=
  [L "mock"; L "callInfo"; L "break"; L "default"; L "func"; L "interface"; L "select"; L "case"; L "defer"; L "go";
   L "map"; L "struct"; L "chan"; L "else"; L "goto"; L "package"; L "switch"; L "const"; L "fallthrough"; L "if";
   L "range"; L "type"; L "continue"; L "for"; L "import"; L "return"; L "var";
   L "string"; L "bool"; L "byte"; L "rune"; L "uintptr"; L "int"; L "int8"; L "int16"; L "int32"; L "int64";
   L "uint"; L "uint8"; L "uint16"; L "uint32"; L "uint64"; L "float32"; L "float64"; L "complex64"; L "complex128"].
Definition gen_name (tn : str) : str :=
  let n := if seqb tn (L "error") then L "err"
           else let d := decap tn in if seqb d tn then d ++ L "MoqParam" else d in
  if smem n reserved_names then n ++ L "Param" else n.
