(* Model of replace-type in the generator.                                            (C13)
   Mirrors
     internal/template_generator.go  methodData: for every parameter and result, the switch on
                                     *types.Named / *types.Alias that computes (package path,
                                     type name), Config.GetReplacement, MethodScope.AddVar
     template/method_scope.go        AddVar with and without a replacement, populateImports
     template/var.go                 TypeString with the registry's qualifiers
     config/config.go                GetReplacement (the replace-type map of the mock's own config,
                                     merged over the levels by Cfg/Config.v)
   as they are AFTER fixes/c13-replace-type-named-only.diff (the lookup happens only for named and
   alias types; the pinned code also looks up ("", "") for every other type, so an entry with an
   empty package path and type name replaces every pointer, slice, variadic and basic-typed
   parameter) and fixes/c08-replace-type-inherit.diff (inheritance, see C13_levels).
   No proofs in this file (Gen/Replace_proofs.v).

   go/types is not verified: a type is the small AST [ty]; [TNamed pkg name] is a *types.Named or
   *types.Alias whose object lives in package [pkg] ([] = universe scope: error, any, comparable);
   the last parameter of a variadic method has type [TSlice elem] as in go/types.  A type
   parameter of a generic interface is [TParam name]: it has an object and a name like a named
   type, but it is neither *types.Named nor *types.Alias, so methodData computes no key for it
   - also when a package-level type of the same name is a replace-type key.  Instantiated
   generic types are outside the model. *)
From Mk Require Import Lib.Bytes Lib.Dec Cfg.Config Gen.Alloc.

Inductive chandir := CBoth | CSend | CRecv.

Inductive ty :=
| TBasic (name : str)
| TNamed (pkg name : str)
| TParam (name : str)                     (* a type parameter of the interface: *types.TypeParam *)
| TPtr (t : ty)
| TSlice (t : ty)
| TArray (n : nat) (t : ty)
| TMap (k v : ty)
| TChan (d : chandir) (t : ty)
| TFunc (ps rs : list ty) (variadic : bool).

Record sig := { s_params : list (str * ty); s_variadic : bool; s_results : list (str * ty) }.

(* a method of an interface; an interface of an output file together with the replace-type map
   of the mock's own (merged) config *)
Definition method := (str * sig)%type.
Record iface := { i_name : str; i_rt : rtmap; i_methods : list method }.

(* populateImportsHelper: the packages a type mentions, in traversal order *)
Fixpoint imports_of (t : ty) : list str :=
  match t with
  | TBasic _ => []
  | TParam _ => []
  | TNamed pkg _ => match pkg with [] => [] | _ => [pkg] end
  | TPtr e | TSlice e | TArray _ e | TChan _ e => imports_of e
  | TMap k v => imports_of k ++ imports_of v
  | TFunc ps rs _ =>
    (fix go (l : list ty) : list str := match l with [] => [] | x :: r => imports_of x ++ go r end) ps
    ++ (fix go (l : list ty) : list str := match l with [] => [] | x :: r => imports_of x ++ go r end) rs
  end.

(* the variable handed to the templates: declared name, type, and the imports its type needs *)
Record var := { v_name : str; v_ty : ty; v_imports : list str }.

(* AddVar resolves a replacement by packages.Load(pkg-path) and Scope().Lookup(type-name) in the
   package's FULL scope (type-checked from source: unexported names included, which matters for
   in-package mocks), and renders object.Type().  For an ordinary named type or alias that prints
   as the name; for a GENERIC type go/types prints the declaration's type-parameter list after
   it ("fakeG[T any]"), which is not a type expression: the configuration has no way to name
   an instantiation.  [decl] gives that list for every target ([] for an ordinary type);
   [resolve_targets] is the map as AddVar sees it.  Known finding C13-generic-target. *)
Definition resolve_targets (decl : rkey -> str) (rt : rtmap) : rtmap :=
  map (fun e => (fst e, (fst (snd e), snd (snd e) ++ decl (snd e)))) rt.

(* methodData's switch + GetReplacement: only a parameter whose type IS a named/alias type has a
   key *)
Definition replacement (rt : rtmap) (t : ty) : option rkey :=
  match t with
  | TNamed pkg name => rget (pkg, name) rt
  | _ => None
  end.

(* MethodScope.AddVar *)
Definition add_var (rt : rtmap) (nt : str * ty) : var :=
  match replacement rt (snd nt) with
  | Some (rpkg, rname) =>
    (* packages.Load(replacement.PkgPath), Scope().Lookup(TypeName): the object's type; only the
       replacement's package is imported *)
    {| v_name := fst nt; v_ty := TNamed rpkg rname; v_imports := [rpkg] |}
  | None => {| v_name := fst nt; v_ty := snd nt; v_imports := imports_of (snd nt) |}
  end.

Record method_data := { md_name : str; md_params : list var; md_variadic : bool; md_results : list var }.

Definition method_data_of (rt : rtmap) (m : method) : method_data :=
  {| md_name := fst m;
     md_params := map (add_var rt) (s_params (snd m));
     md_variadic := s_variadic (snd m);
     md_results := map (add_var rt) (s_results (snd m)) |}.

Definition iface_data (i : iface) : list method_data := map (method_data_of (i_rt i)) (i_methods i).

Definition md_vars (md : method_data) : list var := md_params md ++ md_results md.

(* all variables of an output file, in the order AddVar is called *)
Definition file_vars (ifs : list iface) : list var :=
  flat_map (fun i => flat_map md_vars (iface_data i)) ifs.

(* the registry of the file: Registry.addImport for every import of every variable, in order;
   [names] gives the package name of a path (go/packages) *)
Definition name_of (names : list (str * str)) (path : str) : str :=
  match Cfg.Json.get path names with Some n => n | None => path end.

Definition file_registry (names : list (str * str)) (dst : str) (inpkg : bool) (ifs : list iface) : registry :=
  fold_left (fun r path => fst (add_import r (name_of names path) path))
            (flat_map v_imports (file_vars ifs))
            {| dst := dst; inpkg := inpkg; imports := [] |}.

Definition file_imports (names : list (str * str)) (dst : str) (inpkg : bool) (ifs : list iface) : list (str * str) :=
  map (fun i => (ipath i, qualifier i)) (imports_sorted (file_registry names dst inpkg ifs)).

(* ---------------------------------------------------------------- rendering (types.TypeString) *)
Fixpoint join (sep : str) (l : list str) : str :=
  match l with
  | [] => []
  | [x] => x
  | x :: r => x ++ sep ++ join sep r
  end.

Section Render.
  Variable q : str -> str.       (* qualifier of a package path in this file *)

  Fixpoint render (t : ty) : str :=
    match t with
    | TBasic n => n
    | TParam n => n
    | TNamed pkg n => match pkg with
                      | [] => n
                      | _ => match q pkg with [] => n | ql => ql ++ B "." ++ n end
                      end
    | TPtr e => B "*" ++ render e
    | TSlice e => B "[]" ++ render e
    | TArray n e => B "[" ++ dec n ++ B "]" ++ render e
    | TMap k v => B "map[" ++ render k ++ B "]" ++ render v
    | TChan CBoth e => B "chan " ++ render e
    | TChan CSend e => B "chan<- " ++ render e
    | TChan CRecv e => B "<-chan " ++ render e
    | TFunc ps rs variadic =>
      let fix params (l : list ty) : list str :=
          match l with
          | [] => []
          | [x] => [if variadic then match x with TSlice e => B "..." ++ render e | _ => render x end
                    else render x]
          | x :: r => render x :: params r
          end in
      let fix results (l : list ty) : list str :=
          match l with [] => [] | x :: r => render x :: results r end in
      B "func(" ++ join (B ", ") (params ps) ++ B ")"
      ++ match rs with
         | [] => []
         | [_] => B " " ++ join (B ", ") (results rs)
         | _ => B " (" ++ join (B ", ") (results rs) ++ B ")"
         end
    end.
End Render.

Definition qual_of (imps : list (str * str)) (path : str) : str :=
  match Cfg.Json.get path imps with Some ql => ql | None => [] end.

(* what the probe template prints for a method: the type string of every parameter and result *)
Definition rendered_method (imps : list (str * str)) (md : method_data) : str * list str * list str :=
  (md_name md, map (fun v => render (qual_of imps) (v_ty v)) (md_params md),
   map (fun v => render (qual_of imps) (v_ty v)) (md_results md)).

(* ---------------------------------------------------------------- specification *)
(* the source signature with every top-level occurrence of a key replaced *)
Definition subst_top (rt : rtmap) (t : ty) : ty :=
  match t with
  | TNamed pkg name => match rget (pkg, name) rt with Some (rp, rn) => TNamed rp rn | None => t end
  | _ => t
  end.

Definition subst_sig (rt : rtmap) (s : sig) : sig :=
  {| s_params := map (fun nt => (fst nt, subst_top rt (snd nt))) (s_params s);
     s_variadic := s_variadic s;
     s_results := map (fun nt => (fst nt, subst_top rt (snd nt))) (s_results s) |}.

Definition subst_iface (i : iface) : iface :=
  {| i_name := i_name i; i_rt := [];
     i_methods := map (fun m => (fst m, subst_sig (i_rt i) (snd m))) (i_methods i) |}.

(* a signature that mentions no key at top level *)
Definition untouched_sig (rt : rtmap) (s : sig) : Prop :=
  forall nt, In nt (s_params s ++ s_results s) -> replacement rt (snd nt) = None.
