(* Proofs about Gen/MethodSet.v (C02). *)
From Coq Require Import Permutation Sorted Lia.
From Mk Require Import Lib.Bytes Lib.Fresh Gen.Alloc Gen.Alloc_proofs Gen.Types Gen.Render Gen.Render_proofs Gen.MethodSet.

(* ==================================================================================== *)
(* Equality of types                                                                     *)
(* ==================================================================================== *)
Lemma label_eqb_eq a b : label_eqb a b = true <-> a = b.
Proof.
  destruct a as [n t f], b as [n' t' f']. unfold label_eqb; simpl.
  rewrite !andb_true_iff, !seqb_eq, Bool.eqb_true_iff.
  split; [intros [[-> ->] ->]; reflexivity | intros H; injection H; auto].
Qed.
Lemma opt_eqb_eq a b : opt_eqb a b = true <-> a = b.
Proof.
  destruct a, b; simpl; try rewrite seqb_eq; split; intros H; try congruence; try discriminate; auto.
Qed.
Lemma dir_eqb_eq a b : dir_eqb a b = true <-> a = b.
Proof. destruct a, b; simpl; split; intros H; congruence. Qed.

Fixpoint items_eqb (l l' : list (label * ty)) : bool :=
  match l, l' with
  | [], [] => true
  | (la, x) :: r, (lb, y) :: r' => label_eqb la lb && ty_eqb x y && items_eqb r r'
  | _, _ => false
  end.

Lemma items_eqb_eq l : Fitems (fun x => forall y, ty_eqb x y = true <-> x = y) l ->
  forall l', items_eqb l l' = true <-> l = l'.
Proof.
  induction 1 as [|[la x] r Hx _ IH]; intros [|[lb y] r']; simpl; try (split; intros; congruence).
  rewrite !andb_true_iff, label_eqb_eq, (Hx y), IH. simpl.
  split; [intros [[-> ->] ->]; reflexivity | intros H; injection H; auto].
Qed.

Lemma ty_eqb_eq : forall a b, ty_eqb a b = true <-> a = b.
Proof.
  induction a using ty_ind'; intros b; destruct b; simpl; try (split; intros; congruence);
    fold items_eqb;
    repeat rewrite andb_true_iff;
    repeat match goal with
           | H : Fitems _ ?l |- context [items_eqb ?l ?l'] => rewrite (items_eqb_eq l H l')
           end;
    repeat rewrite seqb_eq; repeat rewrite opt_eqb_eq; repeat rewrite dir_eqb_eq;
    repeat rewrite Nat.eqb_eq; repeat rewrite Bool.eqb_true_iff;
    repeat match goal with
           | H : forall b, ty_eqb ?a b = true <-> ?a = b |- context [ty_eqb ?a ?c] => rewrite (H c)
           end;
    try (split; [intuition congruence | intros H'; injection H'; intuition congruence]).
Qed.

Lemma sig_same_eq a b : sig_same a b = true <-> esig a = esig b.
Proof. apply ty_eqb_eq. Qed.

(* ==================================================================================== *)
(* Keys and their order                                                                  *)
(* ==================================================================================== *)
Lemma key_eqb_eq a b : key_eqb a b = true <-> a = b.
Proof.
  destruct a, b. unfold key_eqb; simpl. rewrite andb_true_iff, !seqb_eq.
  split; [intros [-> ->]; reflexivity | intros H; injection H; auto].
Qed.

Lemma existsb_key k seen : existsb (key_eqb k) seen = true <-> In k seen.
Proof.
  rewrite existsb_exists. split.
  - intros (x & Hx & E). apply key_eqb_eq in E. subst. exact Hx.
  - intros H. exists k. split; [exact H | apply key_eqb_eq; reflexivity].
Qed.

Lemma key_ltb_irrefl a : key_ltb a a = false.
Proof. destruct a as [[|c p] n]; unfold key_ltb; cbn [fst snd]; rewrite seqb_refl; apply sltb_irrefl. Qed.

Lemma key_ltb_trans a b c : key_ltb a b = true -> key_ltb b c = true -> key_ltb a c = true.
Proof.
  destruct a as [pa na], b as [pb nb], c as [pc nc]. unfold key_ltb; simpl.
  assert (K : forall p q (n m : str), (if seqb n m then sltb p q else sltb n m) = true ->
              forall r k, (if seqb m k then sltb q r else sltb m k) = true ->
              (if seqb n k then sltb p r else sltb n k) = true).
  { intros p q n m H1 r k H2.
    destruct (seqb n m) eqn:E1.
    - apply seqb_eq in E1; subst m. destruct (seqb n k) eqn:E2; [eapply sltb_trans; eauto | exact H2].
    - destruct (seqb m k) eqn:E2.
      + apply seqb_eq in E2; subst k. rewrite E1. exact H1.
      + destruct (seqb n k) eqn:E3.
        * apply seqb_eq in E3; subst k. pose proof (sltb_asym _ _ H1). congruence.
        * eapply sltb_trans; eauto. }
  destruct pa as [|xa pa], pb as [|xb pb], pc as [|xc pc]; try congruence; try (intros; reflexivity);
    intros H1 H2; eapply K; eauto.
Qed.

Lemma key_ltb_total a b : key_ltb a b = false -> key_ltb b a = false -> a = b.
Proof.
  destruct a as [pa na], b as [pb nb]. unfold key_ltb; simpl.
  assert (K : forall p q (n m : str), (if seqb n m then sltb p q else sltb n m) = false ->
              (if seqb m n then sltb q p else sltb m n) = false -> (p, n) = (q, m)).
  { intros p q n m H1 H2. destruct (seqb n m) eqn:E1.
    - apply seqb_eq in E1; subst m. rewrite seqb_refl in H2. f_equal. apply sltb_total; assumption.
    - assert (E2 : seqb m n = false) by (apply seqb_neq; apply seqb_neq in E1; congruence).
      rewrite E2 in H2. apply seqb_neq in E1. exfalso. apply E1. apply sltb_total; assumption. }
  destruct pa as [|xa pa], pb as [|xb pb]; try congruence; intros H1 H2; eapply K; eauto.
Qed.

Lemma key_ltb_asym a b : key_ltb a b = true -> key_ltb b a = false.
Proof.
  intros H. destruct (key_ltb b a) eqn:E; [|reflexivity].
  pose proof (key_ltb_trans _ _ _ H E) as T. rewrite key_ltb_irrefl in T. discriminate.
Qed.

(* ==================================================================================== *)
(* Sorting                                                                               *)
(* ==================================================================================== *)
Definition klt (a b : meth) : Prop := key_ltb (mkey a) (mkey b) = true.

Lemma minsert_perm m l : Permutation (m :: l) (minsert m l).
Proof.
  induction l as [|x r IH]; simpl; [reflexivity|].
  destruct (mltb x m); [|reflexivity].
  rewrite perm_swap. now apply perm_skip.
Qed.
Lemma msort_perm l : Permutation l (msort l).
Proof.
  induction l as [|x r IH]; simpl; [reflexivity|].
  rewrite <- minsert_perm. now apply perm_skip.
Qed.

Lemma minsert_sorted m l :
  StronglySorted klt l -> ~ In (mkey m) (map mkey l) -> StronglySorted klt (minsert m l).
Proof.
  induction 1 as [|x r SS IH FA]; intros NI; simpl.
  - constructor; constructor.
  - unfold mltb. destruct (key_ltb (mkey x) (mkey m)) eqn:E.
    + constructor.
      * apply IH. intros H. apply NI. now right.
      * rewrite Forall_forall in *. intros y Hy.
        apply (Permutation_in _ (Permutation_sym (minsert_perm m r))) in Hy. destruct Hy as [<-|Hy]; [exact E | now apply FA].
    + assert (L : klt m x).
      { unfold klt. destruct (key_ltb (mkey m) (mkey x)) eqn:E2; [reflexivity|].
        exfalso. apply NI. left. apply key_ltb_total; assumption. }
      constructor; [constructor; assumption|].
      constructor; [exact L|]. rewrite Forall_forall in *. intros y Hy. unfold klt in *.
      eapply key_ltb_trans; [exact L | now apply FA].
Qed.

Lemma msort_sorted l : NoDup (map mkey l) -> StronglySorted klt (msort l).
Proof.
  induction l as [|x r IH]; simpl; intros ND; [constructor|].
  inversion ND as [|? ? NI ND']; subst. apply minsert_sorted; [now apply IH|].
  intros H. apply NI. apply in_map_iff in H as (y & E & Hy). apply in_map_iff. exists y. split; [exact E|].
  eapply Permutation_in; [apply Permutation_sym, msort_perm | exact Hy].
Qed.

(* two lists sorted strictly by a key and with the same elements are equal *)
Lemma sorted_unique {A} (k : A -> str * str) (l1 : list A) : forall l2,
  StronglySorted (fun a b => key_ltb (k a) (k b) = true) l1 ->
  StronglySorted (fun a b => key_ltb (k a) (k b) = true) l2 ->
  (forall x, In x l1 <-> In x l2) -> l1 = l2.
Proof.
  induction l1 as [|x1 r1 IH]; intros [|x2 r2] S1 S2 EQ.
  - reflexivity.
  - exfalso. apply (proj2 (EQ x2)). now left.
  - exfalso. apply (proj1 (EQ x1)). now left.
  - inversion S1 as [|? ? S1' F1]; inversion S2 as [|? ? S2' F2]; subst.
    rewrite Forall_forall in F1, F2.
    assert (X : x1 = x2).
    { destruct (proj1 (EQ x1) (or_introl eq_refl)) as [E|H1]; [congruence|].
      destruct (proj2 (EQ x2) (or_introl eq_refl)) as [E|H2]; [congruence|].
      pose proof (F2 _ H1) as Q1. pose proof (F1 _ H2) as Q2.
      pose proof (key_ltb_asym _ _ Q1). congruence. }
    subst x2. f_equal. apply IH; auto. intros y. split; intros Hy.
    + destruct (proj1 (EQ y) (or_intror Hy)) as [E|H]; [|exact H].
      subst y. pose proof (F1 _ Hy) as Q. rewrite key_ltb_irrefl in Q. discriminate.
    + destruct (proj2 (EQ y) (or_intror Hy)) as [E|H]; [|exact H].
      subst y. pose proof (F2 _ Hy) as Q. rewrite key_ltb_irrefl in Q. discriminate.
Qed.

Lemma StronglySorted_map {A B} (f : A -> B) (R : B -> B -> Prop) l :
  StronglySorted (fun a b => R (f a) (f b)) l -> StronglySorted R (map f l).
Proof.
  induction 1 as [|x r SS IH FA]; simpl; constructor; [exact IH|].
  rewrite Forall_forall in *. intros y Hy. apply in_map_iff in Hy as (z & <- & Hz). now apply FA.
Qed.

(* ==================================================================================== *)
(* Removing repeated Ids                                                                 *)
(* ==================================================================================== *)
Lemma dedup_from_spec l : forall seen,
  let d := dedup_from seen l in
  (forall x, In x d -> In x l /\ ~ In (mkey x) seen) /\
  NoDup (map mkey d) /\
  (forall x, In x l -> ~ In (mkey x) seen -> In (mkey x) (map mkey d)).
Proof.
  induction l as [|m r IH]; intros seen; simpl.
  - split; [intros x []|]. split; [constructor | intros x []].
  - destruct (existsb (key_eqb (mkey m)) seen) eqn:E.
    + apply existsb_key in E. destruct (IH seen) as (A & B & C). split; [|split].
      * intros x Hx. destruct (A _ Hx). split; [now right | assumption].
      * exact B.
      * intros x [<-|Hx] NS; [contradiction | now apply C].
    + assert (NS : ~ In (mkey m) seen) by (intros H; apply existsb_key in H; congruence).
      destruct (IH (mkey m :: seen)) as (A & B & C). split; [|split].
      * intros x [<-|Hx]; [split; [now left | exact NS]|].
        destruct (A _ Hx) as [I1 I2]. split; [now right|]. intros Hs. apply I2. now right.
      * simpl. constructor; [|exact B]. intros H. apply in_map_iff in H as (y & Ey & Hy).
        apply (proj2 (A _ Hy)). left. congruence.
      * intros x [<-|Hx] NSx; [now left|]. simpl.
        destruct (key_eqb (mkey m) (mkey x)) eqn:K; [left; now apply key_eqb_eq|].
        right. apply C; [exact Hx|]. intros [H|H]; [|contradiction].
        rewrite H in K. assert (key_eqb (mkey x) (mkey x) = true) by now apply key_eqb_eq. congruence.
Qed.

Lemma dedup_incl l x : In x (dedup l) -> In x l.
Proof. intros H. now apply (proj1 (dedup_from_spec l [])). Qed.
Lemma dedup_nodup l : NoDup (map mkey (dedup l)).
Proof. apply (dedup_from_spec l []). Qed.
Lemma dedup_keys l x : In x l -> In (mkey x) (map mkey (dedup l)).
Proof. intros H. apply (proj2 (proj2 (dedup_from_spec l []))); auto. Qed.

(* ==================================================================================== *)
(* Overlapping methods                                                                   *)
(* ==================================================================================== *)
Definition consistent (l : list meth) : Prop :=
  forall a b, In a l -> In b l -> mkey a = mkey b -> esig (m_sig a) = esig (m_sig b).

Lemma find_key_some k l m : find_key k l = Some m -> In m l /\ mkey m = k.
Proof.
  induction l as [|x r IH]; simpl; [discriminate|].
  destruct (key_eqb (mkey x) k) eqn:E.
  - intros H; injection H as <-. split; [now left | now apply key_eqb_eq].
  - intros H. destruct (IH H). split; [now right | assumption].
Qed.
Lemma find_key_none k l : find_key k l = None -> forall m, In m l -> mkey m <> k.
Proof.
  induction l as [|x r IH]; simpl; [intros _ m []|].
  destruct (key_eqb (mkey x) k) eqn:E; [discriminate|].
  intros H m [<-|Hm]; [|now apply IH]. intros K. apply key_eqb_eq in K. congruence.
Qed.

Lemma conflict_spec l : conflict l = None <-> consistent l.
Proof.
  induction l as [|m r IH]; simpl.
  - split; [intros _ a b [] | reflexivity].
  - destruct (conflict r) as [n|] eqn:C.
    + split; [discriminate|]. intros H. assert (X : consistent r) by (intros a b Ha Hb; apply H; now right).
      apply IH in X. discriminate.
    + assert (CR : consistent r) by now apply IH.
      destruct (find_key (mkey m) r) as [m'|] eqn:F.
      * destruct (find_key_some _ _ _ F) as [Hin K].
        destruct (sig_same (m_sig m) (m_sig m')) eqn:S.
        -- apply sig_same_eq in S. split; [intros _|reflexivity].
           intros a b [<-|Ha] [<-|Hb] E; auto.
           ++ rewrite S. apply CR; auto. congruence.
           ++ rewrite S. symmetry. apply CR; auto. congruence.
        -- split; [discriminate|]. intros H. exfalso.
           assert (esig (m_sig m) = esig (m_sig m')) by (apply H; [now left | now right | congruence]).
           apply sig_same_eq in H0. congruence.
      * split; [intros _|reflexivity]. pose proof (find_key_none _ _ F) as N.
        intros a b [<-|Ha] [<-|Hb] E; auto.
        -- exfalso. apply (N b Hb). congruence.
        -- exfalso. apply (N a Ha). congruence.
Qed.

Lemma consistent_perm l l' : Permutation l l' -> consistent l -> consistent l'.
Proof.
  intros P C a b Ha Hb. apply C; eapply Permutation_in; try apply Permutation_sym; eauto.
Qed.

(* ==================================================================================== *)
(* The traversal                                                                         *)
(* ==================================================================================== *)
Lemma rbind_ok {A B} (r : result A) (f : A -> result B) y : rbind r f = Ok y -> exists x, r = Ok x /\ f x = Ok y.
Proof. destruct r; simpl; [eauto | discriminate]. Qed.

Fixpoint emb_all (rec : ty -> result (list meth)) (l : list ty) : result (list meth) :=
  match l with
  | [] => Ok []
  | x :: r => rbind (rec x) (fun a => rbind (emb_all rec r) (fun b => Ok (a ++ b)))
  end.
Definition explicit (pkg : str) (sub : list (str * ty)) (ms : list (str * sig)) : list meth :=
  map (fun m => {| m_pkg := pkg; m_name := fst m; m_sig := subst_sig sub (snd m) |}) ms.

Lemma collect_unfold rec pkg sub ms es :
  collect rec pkg sub ms es =
  match first_dup (map fst ms) with
  | Some n => Err (EConflict n)
  | None => rbind (emb_all (rec pkg sub) es) (fun emb => Ok (explicit pkg sub ms ++ emb))
  end.
Proof.
  unfold collect. destruct (first_dup (map fst ms)); [reflexivity|]. f_equal.
  induction es as [|x r IH]; simpl; [reflexivity|]. destruct (rec pkg sub x); simpl; [|reflexivity]. now rewrite IH.
Qed.

Lemma first_dup_none l : first_dup l = None <-> NoDup l.
Proof.
  induction l as [|x r IH]; simpl; [split; [constructor | reflexivity]|].
  destruct (smem x r) eqn:E.
  - split; [discriminate|]. intros H. inversion H; subst. apply smem_In in E. contradiction.
  - rewrite IH. apply smem_false in E. split; [intros H; now constructor | intros H; now inversion H].
Qed.

Lemma emb_all_perm rec es es' : Permutation es es' ->
  forall a, emb_all rec es = Ok a -> exists b, emb_all rec es' = Ok b /\ Permutation a b.
Proof.
  induction 1 as [|x l l' P IH|x y l|l1 l2 l3 P1 IH1 P2 IH2]; intros a H.
  - exists a. split; [exact H | reflexivity].
  - simpl in H. apply rbind_ok in H as (a1 & R1 & H). apply rbind_ok in H as (a2 & R2 & H). injection H as <-.
    destruct (IH _ R2) as (b2 & E2 & Q). exists (a1 ++ b2). simpl. rewrite R1, E2. simpl. split; [reflexivity | now apply Permutation_app_head].
  - simpl in H. apply rbind_ok in H as (ay & Ry & H). apply rbind_ok in H as (t & Rt & H). injection H as <-.
    apply rbind_ok in Rt as (ax & Rx & H). apply rbind_ok in H as (al & Rl & H). injection H as <-.
    exists (ax ++ ay ++ al). simpl. rewrite Rx, Ry, Rl. simpl. split; [reflexivity|].
    rewrite !app_assoc. apply Permutation_app_tail. apply Permutation_app_comm.
  - destruct (IH1 _ H) as (b & E & Q). destruct (IH2 _ E) as (c & E' & Q'). exists c. split; [exact E' | now transitivity b].
Qed.

Lemma collect_perm rec pkg sub ms ms' es es' raw :
  Permutation ms ms' -> Permutation es es' -> collect rec pkg sub ms es = Ok raw ->
  exists raw', collect rec pkg sub ms' es' = Ok raw' /\ Permutation raw raw'.
Proof.
  intros Pm Pe. rewrite !collect_unfold.
  destruct (first_dup (map fst ms)) eqn:D; [discriminate|]. apply first_dup_none in D.
  assert (D' : first_dup (map fst ms') = None).
  { apply first_dup_none. eapply Permutation_NoDup; [apply Permutation_map, Pm | exact D]. }
  rewrite D'. intros H. apply rbind_ok in H as (emb & R & H). injection H as <-.
  destruct (emb_all_perm _ _ _ Pe _ R) as (emb' & R' & Q). exists (explicit pkg sub ms' ++ emb'). rewrite R'. simpl.
  split; [reflexivity|]. apply Permutation_app; [apply Permutation_map, Pm | exact Q].
Qed.

(* ==================================================================================== *)
(* Order-freeness of the resulting SET                                                   *)
(* ==================================================================================== *)
(* what identifies a method of a method set: its Id and its signature up to names *)
Definition view (m : meth) : (str * str) * ty := (mkey m, esig (m_sig m)).

Lemma view_dedup raw : consistent raw -> forall x, In x (map view (dedup raw)) <-> In x (map view raw).
Proof.
  intros C x. split; intros H; apply in_map_iff in H as (a & <- & Ha); apply in_map_iff.
  - exists a. split; [reflexivity | now apply dedup_incl].
  - pose proof (dedup_keys _ _ Ha) as K. apply in_map_iff in K as (a' & E & Ha'). exists a'. split; [|exact Ha'].
    unfold view. rewrite E. f_equal. apply C; auto. now apply dedup_incl.
Qed.

Lemma finalize_view raw u : finalize raw = Ok u ->
  consistent raw /\ u = msort (dedup raw) /\ forall x, In x (map view u) <-> In x (map view raw).
Proof.
  unfold finalize. destruct (conflict raw) eqn:C; [discriminate|]. intros H; injection H as <-.
  apply conflict_spec in C. split; [exact C|]. split; [reflexivity|]. intros x.
  rewrite <- (view_dedup raw C). split; intros H; eapply Permutation_in; try exact H; apply Permutation_map;
    [apply Permutation_sym|]; apply msort_perm.
Qed.

Lemma finalize_sorted raw u : finalize raw = Ok u -> StronglySorted klt u /\ NoDup (map mkey u).
Proof.
  intros H. destruct (finalize_view _ _ H) as (_ & -> & _). split.
  - apply msort_sorted, dedup_nodup.
  - eapply Permutation_NoDup; [apply Permutation_map, msort_perm | apply dedup_nodup].
Qed.

Lemma finalize_perm raw raw' u : Permutation raw raw' -> finalize raw = Ok u ->
  exists u', finalize raw' = Ok u' /\ map view u = map view u'.
Proof.
  intros P H. destruct (finalize_view _ _ H) as (C & _ & V).
  pose proof (consistent_perm _ _ P C) as C'.
  assert (F : finalize raw' = Ok (msort (dedup raw'))).
  { unfold finalize. apply conflict_spec in C'. now rewrite C'. }
  exists (msort (dedup raw')). split; [exact F|].
  destruct (finalize_view _ _ F) as (_ & _ & V').
  apply (sorted_unique fst).
  - apply StronglySorted_map with (f := view) (R := fun a b => key_ltb (fst a) (fst b) = true). apply (finalize_sorted _ _ H).
  - apply StronglySorted_map with (f := view) (R := fun a b => key_ltb (fst a) (fst b) = true). apply (finalize_sorted _ _ F).
  - intros x. rewrite V, V'. split; intros Hx; eapply Permutation_in; try exact Hx; apply Permutation_map; [|apply Permutation_sym]; exact P.
Qed.

(* the method set of an interface body: explicit methods [ms], embedded elements [es] *)
Definition body_set (E : denv) (f : nat) (pkg : str) (sub : list (str * ty)) (ms : list (str * sig)) (es : list ty) : result (list meth) :=
  rbind (collect (embed_set E f) pkg sub ms es) finalize.

Theorem order_free E f pkg sub ms ms' es es' r :
  Permutation ms ms' -> Permutation es es' -> body_set E f pkg sub ms es = Ok r ->
  exists r', body_set E f pkg sub ms' es' = Ok r' /\ map view r = map view r'.
Proof.
  intros Pm Pe H. unfold body_set in *. apply rbind_ok in H as (raw & R & F).
  destruct (collect_perm _ _ _ _ _ _ _ _ Pm Pe R) as (raw' & R' & Q). rewrite R'. simpl. eapply finalize_perm; eauto.
Qed.

(* the declared interface p.n is such a body *)
Lemma self_args_length tps : length (self_args tps) = length tps.
Proof. apply map_length. Qed.

Lemma method_set_unfold E f p n d :
  lookup_decl E p n = Some (EIface d) ->
  method_set E (S f) p n = body_set E f p (inst_sub [] (d_tparams d) (self_args (d_tparams d))) (d_methods d) (d_embeds d).
Proof.
  intros L. unfold method_set, method_set_of, body_set. rewrite L. simpl. rewrite L.
  rewrite self_args_length, Nat.eqb_refl. reflexivity.
Qed.

(* ==================================================================================== *)
(* Substitution                                                                          *)
(* ==================================================================================== *)
Lemma map_items_ext (f g : ty -> ty) l : Fitems (fun x => f x = g x) l -> map_items f l = map_items g l.
Proof. induction 1 as [|[lb x] r H _ IH]; simpl; [reflexivity|]. simpl in H. now rewrite H, IH. Qed.
Lemma map_items_map_items (f g : ty -> ty) l : map_items f (map_items g l) = map_items (fun x => f (g x)) l.
Proof. unfold map_items. rewrite map_map. reflexivity. Qed.

Definition map_sub (g : ty -> ty) (m : list (str * ty)) : list (str * ty) := map (fun kv => (fst kv, g (snd kv))) m.
Lemma lookup_map_sub g n m : lookup_ty n (map_sub g m) = option_map g (lookup_ty n m).
Proof. induction m as [|[k v] r IH]; simpl; [reflexivity|]. destruct (seqb n k); [reflexivity | exact IH]. Qed.

Lemma erase_subst m : forall t, erase (subst m t) = subst (map_sub erase m) (erase t).
Proof.
  induction t using ty_ind'; simpl; try reflexivity;
    try (f_equal; rewrite !map_items_map_items; apply map_items_ext; assumption);
    try congruence.
  - f_equal; unfold map_items; rewrite !map_map; simpl.
    + clear H0. induction H as [|[lb x] r Hx _ IH]; simpl; [reflexivity|]. simpl in Hx. now rewrite Hx, IH.
    + clear H. induction H0 as [|[lb x] r Hx _ IH]; simpl; [reflexivity|]. simpl in Hx. now rewrite Hx, IH.
  - rewrite lookup_map_sub. destruct (lookup_ty n m); reflexivity.
Qed.

Lemma esig_subst m s : esig (subst_sig m s) = subst (map_sub erase m) (esig s).
Proof. unfold esig. rewrite <- erase_subst. reflexivity. Qed.

Lemma mkey_subst m x : mkey (subst_meth m x) = mkey x.
Proof. reflexivity. Qed.

Lemma consistent_subst m l : consistent l -> consistent (map (subst_meth m) l).
Proof.
  intros C a b Ha Hb E. apply in_map_iff in Ha as (a0 & <- & Ha). apply in_map_iff in Hb as (b0 & <- & Hb).
  simpl. rewrite !esig_subst. f_equal. apply C; auto.
Qed.

Lemma dedup_from_subst m l : forall seen, dedup_from seen (map (subst_meth m) l) = map (subst_meth m) (dedup_from seen l).
Proof.
  induction l as [|x r IH]; intros seen; simpl; [reflexivity|]. rewrite mkey_subst.
  destruct (existsb (key_eqb (mkey x)) seen); simpl; now rewrite IH.
Qed.
Lemma minsert_subst m x l : minsert (subst_meth m x) (map (subst_meth m) l) = map (subst_meth m) (minsert x l).
Proof.
  induction l as [|y r IH]; simpl; [reflexivity|]. unfold mltb. rewrite !mkey_subst.
  destruct (key_ltb (mkey y) (mkey x)); simpl; [now rewrite IH | reflexivity].
Qed.
Lemma msort_subst m l : msort (map (subst_meth m) l) = map (subst_meth m) (msort l).
Proof. induction l as [|x r IH]; simpl; [reflexivity|]. now rewrite IH, minsert_subst. Qed.

Lemma finalize_subst m raw u : finalize raw = Ok u -> finalize (map (subst_meth m) raw) = Ok (map (subst_meth m) u).
Proof.
  intros H. destruct (finalize_view _ _ H) as (C & -> & _).
  unfold finalize. pose proof (consistent_subst m _ C) as C'. apply conflict_spec in C'. rewrite C'.
  unfold dedup. now rewrite dedup_from_subst, msort_subst.
Qed.

(* two substitutions that agree on the type parameters occurring in a type *)
Definition agree (m a b : list (str * ty)) (t : ty) : Prop :=
  forall n, In (RefTParam n) (refs t) -> subst a (TParam n) = subst m (subst b (TParam n)).

Lemma agree_items m a b (l : list (label * ty)) :
  (forall n, In (RefTParam n) (flat_map (fun it => refs (snd it)) l) -> subst a (TParam n) = subst m (subst b (TParam n))) ->
  Fitems (fun x => agree m a b x -> subst a x = subst m (subst b x)) l ->
  map_items (subst a) l = map_items (fun x => subst m (subst b x)) l.
Proof.
  intros A F. apply map_items_ext. induction F as [|[lb x] r Hx _ IH]; constructor.
  - simpl in *. apply Hx. intros n Hn. apply A. apply in_or_app. now left.
  - apply IH. intros n Hn. apply A. simpl. apply in_or_app. now right.
Qed.

Lemma subst_agree m a b : forall t, agree m a b t -> subst a t = subst m (subst b t).
Proof.
  unfold agree. induction t using ty_ind'; intros A; simpl in A |- *; try reflexivity;
    try (f_equal; rewrite ?map_items_map_items; apply agree_items; [|assumption]; intros k Hk; apply A; auto using in_or_app; fail);
    try (f_equal; auto; fail).
  - f_equal; [apply IHt1 | apply IHt2]; intros k Hk; apply A; apply in_or_app; auto.
  - f_equal; rewrite map_items_map_items; apply agree_items; try assumption; intros k Hk; apply A; apply in_or_app; auto.
  - f_equal; rewrite map_items_map_items; apply agree_items; try assumption; intros k Hk; apply A; apply in_or_app; auto.
Qed.

Lemma subst_sig_agree m a b s : agree m a b (sig_ty s) -> subst_sig a s = subst_sig m (subst_sig b s).
Proof.
  intros A. pose proof (subst_agree m a b _ A) as H. destruct s as [ps v rs]. unfold sig_ty, subst_sig in *. simpl in *.
  injection H as H1 H2. now rewrite H1, H2.
Qed.

Lemma closed_ty_spec tps t : closed_ty tps t = true <-> forall n, In (RefTParam n) (refs t) -> In n tps.
Proof.
  unfold closed_ty. rewrite forallb_forall. split.
  - intros H n Hn. specialize (H _ Hn). now apply smem_In.
  - intros H [p n|n] Hr; [reflexivity|]. apply smem_In. now apply H.
Qed.

Lemma lookup_decl_wf E p n e : wf_env E = true -> lookup_decl E p n = Some e -> wf_entry e = true.
Proof.
  unfold wf_env. induction E as [|[[p' n'] e'] r IH]; simpl; [discriminate|].
  rewrite andb_true_iff. intros [W1 W2]. destruct (seqb p p' && seqb n n'); [intros H; injection H as <-; exact W1 | now apply IH].
Qed.

Lemma lookup_combine_map (g : ty -> ty) n tps : forall ys,
  lookup_ty n (combine tps (map g ys)) = option_map g (lookup_ty n (combine tps ys)).
Proof.
  induction tps as [|t r IH]; intros [|y ys]; simpl; try reflexivity. destruct (seqb n t); [reflexivity | apply IH].
Qed.
Lemma lookup_combine_in n tps : forall ys, In n tps -> length tps = length ys ->
  exists y, lookup_ty n (combine tps ys) = Some y /\ In y ys.
Proof.
  induction tps as [|t r IH]; intros [|y ys] Hn L; simpl in *; try contradiction; try discriminate.
  destruct (seqb n t) eqn:E; [exists y; auto|]. apply seqb_neq in E.
  destruct Hn as [->|Hn]; [congruence|]. destruct (IH ys Hn) as (z & Hz & Iz); [lia|]. exists z. auto.
Qed.

Lemma inst_sub_eq sub tps targs : inst_sub sub tps targs = combine tps (map (subst sub) (map snd targs)).
Proof. unfold inst_sub. now rewrite map_map. Qed.

(* instantiating the instantiation *)
Lemma agree_inst m a b tps (targs : list (label * ty)) t :
  length tps = length targs ->
  (forall y, In y (map snd targs) -> agree m a b y) ->
  (forall n, In (RefTParam n) (refs t) -> In n tps) ->
  agree m (inst_sub a tps targs) (inst_sub b tps targs) t.
Proof.
  intros L AY CL n Hn. specialize (CL _ Hn). rewrite !inst_sub_eq. simpl. rewrite !lookup_combine_map.
  destruct (lookup_combine_in n tps (map snd targs) CL) as (y & Hy & Iy); [now rewrite map_length|].
  rewrite Hy. simpl. apply subst_agree. now apply AY.
Qed.

Lemma lit_methods_in ms : forall l, lit_methods ms = Some l ->
  forall s, In s l -> exists it, In it ms /\ snd it = sig_ty (snd s).
Proof.
  induction ms as [|[lb t] r IH]; simpl; intros l H s Hs.
  - injection H as <-. contradiction.
  - destruct t; try discriminate. destruct (lit_methods r) as [l0|] eqn:E; [|discriminate]. injection H as <-.
    destruct Hs as [<-|Hs]; [eexists; split; [now left | reflexivity]|].
    destruct (IH _ eq_refl _ Hs) as (it & I1 & I2). exists it. split; [now right | exact I2].
Qed.

Lemma emb_all_subst m (rec_a rec_b : ty -> result (list meth)) es :
  (forall e r, In e es -> rec_b e = Ok r -> rec_a e = Ok (map (subst_meth m) r)) ->
  forall r, emb_all rec_b es = Ok r -> emb_all rec_a es = Ok (map (subst_meth m) r).
Proof.
  induction es as [|x l IH]; intros H r R; simpl in *.
  - injection R as <-. reflexivity.
  - apply rbind_ok in R as (a1 & R1 & R). apply rbind_ok in R as (a2 & R2 & R). injection R as <-.
    rewrite (H x a1 (or_introl eq_refl) R1). simpl. rewrite (IH (fun e r I => H e r (or_intror I)) _ R2). simpl. now rewrite map_app.
Qed.

Lemma collect_subst m rec pkg a b ms es r :
  (forall e r', In e es -> rec pkg b e = Ok r' -> rec pkg a e = Ok (map (subst_meth m) r')) ->
  (forall s, In s ms -> subst_sig a (snd s) = subst_sig m (subst_sig b (snd s))) ->
  collect rec pkg b ms es = Ok r -> collect rec pkg a ms es = Ok (map (subst_meth m) r).
Proof.
  intros HR HS. rewrite !collect_unfold. destruct (first_dup (map fst ms)); [discriminate|].
  intros H. apply rbind_ok in H as (emb & R & H). injection H as <-.
  rewrite (emb_all_subst m _ _ es HR _ R). simpl. f_equal. rewrite map_app. f_equal.
  unfold explicit. rewrite map_map. apply map_ext_in. intros s Hs. unfold subst_meth. simpl. now rewrite HS.
Qed.

Section Subst.
  Variable E : denv.
  Hypothesis WF : wf_env E = true.
  Variable m : list (str * ty).

  Lemma named_subst f a b p n targs r
    (IH : forall pkg a b e r, agree m a b e -> embed_set E f pkg b e = Ok r -> embed_set E f pkg a e = Ok (map (subst_meth m) r)) :
    (forall y, In y (map snd targs) -> agree m a b y) ->
    match lookup_decl E p n with
    | None => Err (EUnresolved p n)
    | Some (EAlias u) => match targs with [] => embed_set E f p [] u | _ => Err (EBadArity p n) end
    | Some (EIface d) =>
        if Nat.eqb (length (d_tparams d)) (length targs)
        then collect (embed_set E f) p (inst_sub b (d_tparams d) targs) (d_methods d) (d_embeds d)
        else Err (EBadArity p n)
    end = Ok r ->
    match lookup_decl E p n with
    | None => Err (EUnresolved p n)
    | Some (EAlias u) => match targs with [] => embed_set E f p [] u | _ => Err (EBadArity p n) end
    | Some (EIface d) =>
        if Nat.eqb (length (d_tparams d)) (length targs)
        then collect (embed_set E f) p (inst_sub a (d_tparams d) targs) (d_methods d) (d_embeds d)
        else Err (EBadArity p n)
    end = Ok (map (subst_meth m) r).
  Proof.
    intros AY. destruct (lookup_decl E p n) as [[d|u]|] eqn:L; [| |discriminate].
    - pose proof (lookup_decl_wf _ _ _ _ WF L) as W. simpl in W. apply andb_true_iff in W as [W1 W2].
      rewrite forallb_forall in W1, W2.
      destruct (Nat.eqb (length (d_tparams d)) (length targs)) eqn:LE; [|discriminate]. apply Nat.eqb_eq in LE.
      apply collect_subst.
      + intros e r' He. apply IH. apply agree_inst; auto. apply closed_ty_spec. now apply W2.
      + intros s Hs. apply subst_sig_agree. apply agree_inst; auto. apply closed_ty_spec. now apply (W1 s).
    - pose proof (lookup_decl_wf _ _ _ _ WF L) as W. simpl in W.
      destruct targs; [|discriminate]. apply IH. intros k Hk.
      apply (proj1 (closed_ty_spec [] u) W) in Hk. contradiction.
  Qed.

  Lemma embed_subst : forall f pkg a b e r,
    agree m a b e -> embed_set E f pkg b e = Ok r -> embed_set E f pkg a e = Ok (map (subst_meth m) r).
  Proof.
    induction f as [|f IH]; intros pkg a b e r A H; [discriminate|].
    assert (AY : forall p n targs, (e = TNamed p n targs \/ e = TAlias p n targs) -> forall y, In y (map snd targs) -> agree m a b y).
    { intros p n targs He y Hy k Hk. apply A. apply in_map_iff in Hy as (it & <- & Hit).
      destruct He as [->| ->]; simpl; right; apply in_flat_map; exists it; auto. }
    destruct e as [n| |p n targs|p n targs|e|e|k e|k e|d e|ps v rs|fs|ms es|ts|n]; try discriminate.
    - (* named *) destruct p as [p|].
      + simpl in H |- *. apply (named_subst f a b p n targs r IH); eauto.
      + simpl in H |- *. destruct targs; [|discriminate]. destruct (seqb n (B "error")); [|discriminate].
        injection H as <-. reflexivity.
    - (* alias *) destruct p as [p|].
      + simpl in H |- *. apply (named_subst f a b p n targs r IH); eauto.
      + simpl in H |- *. destruct targs; [|discriminate]. destruct (seqb n (B "any")); [|discriminate].
        injection H as <-. reflexivity.
    - (* literal *) simpl in H |- *. destruct (lit_methods ms) as [l|] eqn:LM; [|discriminate].
      revert H. apply collect_subst.
      + intros x r' Hx. apply IH. intros k Hk. apply A. simpl. apply in_or_app. right.
        apply in_map_iff in Hx as (it & <- & Hit). apply in_flat_map. exists it. auto.
      + intros s Hs. apply subst_sig_agree. intros k Hk. apply A. simpl. apply in_or_app. left.
        destruct (lit_methods_in _ _ LM _ Hs) as (it & I1 & I2). apply in_flat_map. exists it. split; [exact I1 | now rewrite I2].
  Qed.
End Subst.

Lemma self_sub_id tps n : subst (inst_sub [] tps (self_args tps)) (TParam n) = TParam n.
Proof.
  rewrite inst_sub_eq. unfold self_args. rewrite !map_map. simpl.
  induction tps as [|t r IH]; simpl; [reflexivity|]. destruct (seqb n t) eqn:E; [apply seqb_eq in E; now subst | exact IH].
Qed.

Theorem instantiation E f p n d targs ms :
  wf_env E = true -> lookup_decl E p n = Some (EIface d) -> length targs = length (d_tparams d) ->
  method_set E f p n = Ok ms ->
  method_set_of E f p (TNamed (Some p) n targs) = Ok (map (subst_meth (inst_sub [] (d_tparams d) targs)) ms).
Proof.
  intros WF L LEN H. destruct f as [|f]; [unfold method_set, method_set_of in H; rewrite L in H; discriminate|].
  rewrite (method_set_unfold _ _ _ _ _ L) in H. unfold body_set in H. apply rbind_ok in H as (raw & R & F).
  unfold method_set_of. simpl. rewrite L. rewrite <- LEN, Nat.eqb_refl.
  set (A := inst_sub [] (d_tparams d) targs).
  assert (C : collect (embed_set E f) p A (d_methods d) (d_embeds d) = Ok (map (subst_meth A) raw)).
  { revert R. apply collect_subst.
    - intros e r' _. apply embed_subst; [exact WF|]. intros k _. now rewrite self_sub_id.
    - intros s _. apply subst_sig_agree. intros k _. now rewrite self_sub_id. }
  rewrite C. simpl. now apply finalize_subst.
Qed.

(* ==================================================================================== *)
(* Fuel: any embedding depth                                                             *)
(* ==================================================================================== *)
Lemma emb_all_mono (rec rec' : ty -> result (list meth)) es :
  (forall e r, rec e = Ok r -> rec' e = Ok r) -> forall r, emb_all rec es = Ok r -> emb_all rec' es = Ok r.
Proof.
  intros M. induction es as [|x l IH]; intros r R; simpl in *; [exact R|].
  apply rbind_ok in R as (a1 & R1 & R). apply rbind_ok in R as (a2 & R2 & R). injection R as <-.
  rewrite (M _ _ R1). simpl. rewrite (IH _ R2). reflexivity.
Qed.

Lemma collect_mono (rec rec' : str -> list (str * ty) -> ty -> result (list meth)) pkg sub ms es r :
  (forall e r, rec pkg sub e = Ok r -> rec' pkg sub e = Ok r) ->
  collect rec pkg sub ms es = Ok r -> collect rec' pkg sub ms es = Ok r.
Proof.
  intros M. rewrite !collect_unfold. destruct (first_dup (map fst ms)); [discriminate|].
  intros H. apply rbind_ok in H as (emb & R & H). now rewrite (emb_all_mono _ _ es M _ R).
Qed.

Lemma embed_set_S E : forall f pkg sub e r, embed_set E f pkg sub e = Ok r -> embed_set E (S f) pkg sub e = Ok r.
Proof.
  induction f as [|f IH]; intros pkg sub e r H; [discriminate|].
  assert (N : forall p n targs,
    match lookup_decl E p n with
    | None => Err (EUnresolved p n)
    | Some (EAlias u) => match targs with [] => embed_set E f p [] u | _ => Err (EBadArity p n) end
    | Some (EIface d) =>
        if Nat.eqb (length (d_tparams d)) (length targs)
        then collect (embed_set E f) p (inst_sub sub (d_tparams d) targs) (d_methods d) (d_embeds d)
        else Err (EBadArity p n)
    end = Ok r ->
    match lookup_decl E p n with
    | None => Err (EUnresolved p n)
    | Some (EAlias u) => match targs with [] => embed_set E (S f) p [] u | _ => Err (EBadArity p n) end
    | Some (EIface d) =>
        if Nat.eqb (length (d_tparams d)) (length targs)
        then collect (embed_set E (S f)) p (inst_sub sub (d_tparams d) targs) (d_methods d) (d_embeds d)
        else Err (EBadArity p n)
    end = Ok r).
  { intros p n targs. destruct (lookup_decl E p n) as [[d|u]|]; [| |discriminate].
    - destruct (Nat.eqb (length (d_tparams d)) (length targs)); [|discriminate]. apply collect_mono. intros e' r'. apply IH.
    - destruct targs; [apply IH | discriminate]. }
  destruct e as [n0| |p n0 targs|p n0 targs|e0|e0|k e0|k e0|d0 e0|ps v rs|fs|ms es|ts|n0]; try discriminate.
  - destruct p as [p|]; [apply (N p n0 targs); exact H | exact H].
  - destruct p as [p|]; [apply (N p n0 targs); exact H | exact H].
  - change (embed_set E (S f) pkg sub (TIface ms es)) with
      (match lit_methods ms with Some l => collect (embed_set E f) pkg sub l (map snd es) | None => Err (ENotInterface (TIface ms es)) end) in H.
    change (embed_set E (S (S f)) pkg sub (TIface ms es)) with
      (match lit_methods ms with Some l => collect (embed_set E (S f)) pkg sub l (map snd es) | None => Err (ENotInterface (TIface ms es)) end).
    destruct (lit_methods ms); [|discriminate]. revert H. apply collect_mono. intros e' r'. apply IH.
Qed.

Lemma embed_set_mono E f f' pkg sub e r : f <= f' -> embed_set E f pkg sub e = Ok r -> embed_set E f' pkg sub e = Ok r.
Proof. induction 1 as [|k L IH]; [auto | intros X; apply embed_set_S; auto]. Qed.

Theorem method_set_fuel_mono E f f' p n ms : f <= f' -> method_set E f p n = Ok ms -> method_set E f' p n = Ok ms.
Proof.
  intros L. unfold method_set, method_set_of. destruct (lookup_decl E p n) as [[d|u]|]; [| |discriminate];
    intros H; apply rbind_ok in H as (raw & R & F); rewrite (embed_set_mono _ _ _ _ _ _ _ L R); exact F.
Qed.

(* enough fuel: no OutOfFuel for acyclic environments of embedding depth <= fuel *)
Lemma emb_all_fuel (rec : ty -> result (list meth)) es :
  (forall e, In e es -> rec e <> Err EOutOfFuel) -> emb_all rec es <> Err EOutOfFuel.
Proof.
  induction es as [|x l IH]; intros H; simpl; [discriminate|].
  destruct (rec x) eqn:R; simpl.
  - destruct (emb_all rec l) eqn:R2; simpl; [discriminate|]. intros X. injection X as ->. apply IH; [|reflexivity].
    intros e He. apply H. now right.
  - intros X. injection X as ->. apply (H x); [now left | exact R].
Qed.

Lemma collect_fuel rec pkg sub ms es :
  (forall e, In e es -> rec pkg sub e <> Err EOutOfFuel) -> collect rec pkg sub ms es <> Err EOutOfFuel.
Proof.
  intros H. rewrite collect_unfold. destruct (first_dup (map fst ms)); [discriminate|].
  pose proof (emb_all_fuel (rec pkg sub) es H) as N. destruct (emb_all (rec pkg sub) es) as [x|e]; simpl; [discriminate|].
  intros X. injection X as ->. now apply N.
Qed.

Lemma max_height_le rk es e : In e es -> height rk e <= max_height rk es.
Proof. induction es as [|x l IH]; simpl; [intros []|]. intros [->|H]; [lia | specialize (IH H); lia]. Qed.

Lemma height_pos rk t : 1 <= height rk t.
Proof. destruct t as [| |[p|] ? ?|[p|] ? ?| | | | | | | | | |]; simpl; lia. Qed.

Theorem fuel_sufficient rk E : ranked rk E ->
  forall f pkg sub e, height rk e <= f -> embed_set E f pkg sub e <> Err EOutOfFuel.
Proof.
  intros RK. induction f as [|f IH]; intros pkg sub e H; [pose proof (height_pos rk e); lia|].
  assert (N : forall p n targs, rk p n <= f ->
    match lookup_decl E p n with
    | None => Err (EUnresolved p n)
    | Some (EAlias u) => match targs with [] => embed_set E f p [] u | _ => Err (EBadArity p n) end
    | Some (EIface d) =>
        if Nat.eqb (length (d_tparams d)) (length targs)
        then collect (embed_set E f) p (inst_sub sub (d_tparams d) targs) (d_methods d) (d_embeds d)
        else Err (EBadArity p n)
    end <> Err EOutOfFuel).
  { intros p n targs L. destruct (lookup_decl E p n) as [[d|u]|] eqn:LK; [| |discriminate].
    - pose proof (RK _ _ _ LK) as R. simpl in R. apply Nat.leb_le in R.
      destruct (Nat.eqb (length (d_tparams d)) (length targs)); [|discriminate].
      apply collect_fuel. intros e' He. apply IH. pose proof (max_height_le rk _ _ He). lia.
    - pose proof (RK _ _ _ LK) as R. simpl in R. apply Nat.leb_le in R.
      destruct targs; [|discriminate]. apply IH. lia. }
  destruct e as [n0| |p n0 targs|p n0 targs|e0|e0|k e0|k e0|d0 e0|ps v rs|fs|ms es|ts|n0]; try discriminate.
  - destruct p as [p|]; [apply N; simpl in H; lia|]. simpl. destruct targs; [|discriminate]. destruct (seqb n0 (B "error")); discriminate.
  - destruct p as [p|]; [apply N; simpl in H; lia|]. simpl. destruct targs; [|discriminate]. destruct (seqb n0 (B "any")); discriminate.
  - change (embed_set E (S f) pkg sub (TIface ms es)) with
      (match lit_methods ms with Some l => collect (embed_set E f) pkg sub l (map snd es) | None => Err (ENotInterface (TIface ms es)) end).
    destruct (lit_methods ms); [|discriminate]. apply collect_fuel. intros e' He. apply IH.
    apply in_map_iff in He as (it & <- & Hit). simpl in H.
    assert (height rk (snd it) <= fold_right (fun it a => Nat.max (height rk (snd it)) a) 0 es).
    { clear H. induction es as [|x es' IHl]; simpl; [contradiction|]. destruct Hit as [->|Hit]; [lia | specialize (IHl Hit); lia]. }
    lia.
Qed.

Theorem method_set_fuel_sufficient rk E f p n : ranked rk E -> S (rk p n) <= f -> method_set E f p n <> Err EOutOfFuel.
Proof.
  intros RK L. unfold method_set, method_set_of. destruct (lookup_decl E p n) as [[d|u]|]; [| |discriminate].
  - pose proof (fuel_sufficient rk E RK f p [] (TNamed (Some p) n (self_args (d_tparams d))) L) as N.
    destruct (embed_set E f p [] (TNamed (Some p) n (self_args (d_tparams d)))) as [raw|e]; simpl.
    + unfold finalize. destruct (conflict raw); discriminate.
    + intros X. injection X as ->. now apply N.
  - pose proof (fuel_sufficient rk E RK f p [] (TAlias (Some p) n []) L) as N.
    destruct (embed_set E f p [] (TAlias (Some p) n [])) as [raw|e]; simpl.
    + unfold finalize. destruct (conflict raw); discriminate.
    + intros X. injection X as ->. now apply N.
Qed.

(* ==================================================================================== *)
(* Shape of every method set                                                             *)
(* ==================================================================================== *)
Lemma method_set_of_sorted E f pkg t ms : method_set_of E f pkg t = Ok ms -> StronglySorted klt ms /\ NoDup (map mkey ms).
Proof. unfold method_set_of. intros H. apply rbind_ok in H as (raw & _ & F). exact (finalize_sorted _ _ F). Qed.

Lemma method_set_sorted E f p n ms : method_set E f p n = Ok ms -> StronglySorted klt ms /\ NoDup (map mkey ms).
Proof. unfold method_set. destruct (lookup_decl E p n) as [[d|u]|]; [| |discriminate]; apply method_set_of_sorted. Qed.

(* one package for all unexported methods: names are then pairwise distinct *)
Definition one_pkg (ms : list meth) : Prop :=
  forall a b, In a ms -> In b ms -> is_exported (m_name a) = false -> is_exported (m_name b) = false -> m_pkg a = m_pkg b.

Lemma names_nodup ms : NoDup (map mkey ms) -> one_pkg ms -> NoDup (map m_name ms).
Proof.
  induction ms as [|x r IH]; simpl; intros ND OP; [constructor|].
  inversion ND as [|? ? NI ND']; subst. constructor.
  - intros H. apply NI. apply in_map_iff in H as (y & E & Hy). apply in_map_iff. exists y. split; [|exact Hy].
    unfold mkey. rewrite E. destruct (is_exported (m_name x)) eqn:X; [reflexivity|].
    f_equal. apply OP; [now right | now left | congruence | exact X].
  - apply IH; [exact ND'|]. intros a b Ha Hb. apply OP; now right.
Qed.

(* ==================================================================================== *)
(* The mock's methods                                                                    *)
(* ==================================================================================== *)
Lemma iface_methods_same t id : iface_methods t id = map mock_method (i_methods id).
Proof. destruct t; reflexivity. Qed.

Lemma Forall2_In_l {A B} (P : A -> B -> Prop) l l' x : Forall2 P l l' -> In x l -> exists y, In y l' /\ P x y.
Proof.
  induction 1 as [|a b l l' H _ IH]; [intros []|]. intros [<-|Hx]; [exists b; split; [now left | exact H]|].
  destruct (IH Hx) as (y & Hy & Py). exists y. split; [now right | exact Py].
Qed.

Lemma Forall2_map_l {A B C} (f : A -> B) (P : B -> C -> Prop) l : forall l', Forall2 P (map f l) l' -> Forall2 (fun a c => P (f a) c) l l'.
Proof. induction l as [|x r IH]; intros l' H; inversion H; subst; constructor; auto. Qed.

(* the "..." flags of a source signature: only on the last parameter of a variadic method *)
Definition ell_flags (s : sig) : list bool := mapi (fun k _ => svariadic s && is_last (sparams s) k) (sparams s).
(* go/types: the type of a variadic parameter is a slice *)
Definition variadic_ok (s : sig) : Prop :=
  forall j it, nth_error (sparams s) j = Some it -> svariadic s = true -> is_last (sparams s) j = true -> exists e, snd it = TSlice e.

Lemma mapi_from_len {A B C} (f : nat -> C) (l : list A) : forall (l' : list B) k, length l = length l' ->
  mapi_from k (fun j _ => f j) l = mapi_from k (fun j _ => f j) l'.
Proof. induction l as [|x r IH]; intros [|y r'] k L; simpl in *; try discriminate; [reflexivity|]. f_equal. apply IH. lia. Qed.

Lemma shape_variadic_wf m d : method_shape m d -> variadic_ok (snd m) -> variadic_wf d.
Proof.
  intros (_ & P & _ & V) W j v Hj PV. unfold pvariadic in PV. apply andb_true_iff in PV as [DV IL].
  assert (LEN : length (dparams d) = length (sparams (snd m))) by (rewrite <- (map_length vty), P; apply map_length).
  pose proof (map_nth_error vty _ _ Hj) as N. rewrite P in N.
  destruct (nth_error (sparams (snd m)) j) as [it|] eqn:NE.
  - rewrite (map_nth_error snd _ _ NE) in N. injection N as N. rewrite <- N. apply (W j it NE); [congruence|].
    unfold is_last in *. now rewrite <- LEN.
  - apply nth_error_None in NE. assert (j < length (dparams d)) by (apply nth_error_Some; congruence). lia.
Qed.

Lemma Forall2_imp_in {A B} (P Q : A -> B -> Prop) l l' :
  Forall2 P l l' -> (forall a b, In a l -> In b l' -> P a b -> Q a b) -> Forall2 Q l l'.
Proof.
  induction 1 as [|a b l l' H _ IH]; intros M; constructor.
  - apply M; [now left | now left | exact H].
  - apply IH. intros x y Hx Hy. apply M; now right.
Qed.

Lemma length_mapi_from {A B} (f : nat -> A -> B) l : forall k, length (mapi_from k f l) = length l.
Proof. induction l as [|x r IH]; intros k; simpl; [reflexivity | now rewrite IH]. Qed.

Section Mock.
  Variable cx : ctx.
  Hypothesis TOK : tables_ok cx.

  (* what the mock method generated from the data-model method [d] has to be for the source
     method [m]: same name, arity, "..." flags, and - placed in a file that imports what the
     data model reports, whenever nothing the source refers to is shadowed there (var_guard,
     C14) - parameter and result types that denote the source types *)
  Definition implements (E' : env) (inp : bool) (m : meth) (d : mdata) : Prop :=
    let x := mock_method d in
    mm_name x = m_name m /\
    length (mm_params x) = length (sparams (m_sig m)) /\ length (mm_results x) = length (sresults (m_sig m)) /\
    map a_ell (mm_params x) = ell_flags (m_sig m) /\
    (variadic_ok (m_sig m) -> (forall v, In v (dvars d) -> var_guard cx E' inp v = true) ->
       map (den_arg E') (mm_params x) = map (fun it => Some (norm (snd it))) (sparams (m_sig m)) /\
       map (resolve_rty E') (mm_results x) = map (fun it => Some (norm (snd it))) (sresults (m_sig m))).

  Theorem mock_implements dstp inp is name sname tps ms local tpn sh :
    In (mock_iface name sname tps ms) is ->
    let f := gen_file cx dstp inp is in
    let E' := file_env dstp f local tpn sh in
    exists id, In id (f_ifaces f) /\ i_name id = name /\ i_struct id = sname /\
      (forall t, map mm_name (iface_methods t id) = map m_name ms) /\
      Forall2 (implements E' inp) ms (i_methods id).
  Proof.
    intros Hin f E'. pose proof (methods_once cx TOK dstp inp is) as MO. fold f in MO.
    destruct (Forall2_In_l _ _ _ _ MO Hin) as (id & Hid & N & S & NM & SH & _). simpl in *.
    exists id. split; [exact Hid|]. split; [exact N|]. split; [exact S|]. split.
    - intros t. rewrite iface_methods_same, map_map. simpl. etransitivity; [exact NM|]. rewrite map_map. reflexivity.
    - apply (Forall2_map_l (fun m : meth => (m_name m, m_sig m))) in SH. apply (Forall2_imp_in _ _ _ _ SH). intros m d _ Hd SHm.
      pose proof SHm as (DN & P & R & V). simpl in DN, P, R, V. unfold implements. simpl.
      assert (LP : length (dparams d) = length (sparams (m_sig m))) by (rewrite <- (map_length vty), P; apply map_length).
      assert (LR : length (dreturns d) = length (sresults (m_sig m))) by (rewrite <- (map_length vty), R; apply map_length).
      split; [exact DN|].
      split; [unfold arg_list, mapi; now rewrite length_mapi_from|].
      split; [unfold return_arg_type_list; now rewrite map_length|].
      assert (FL : map a_ell (arg_list d) = ell_flags (m_sig m)).
      { unfold arg_list, ell_flags, mapi. rewrite map_mapi_from.
        rewrite (mapi_from_ext _ (fun j _ => svariadic (m_sig m) && is_last (sparams (m_sig m)) j)).
        - apply (mapi_from_len (fun j => svariadic (m_sig m) && is_last (sparams (m_sig m)) j)). exact LP.
        - intros j v _. unfold param_method_arg, pvariadic, is_last. rewrite V, LP.
          destruct (svariadic (m_sig m) && _); reflexivity. }
      split; [exact FL|]. intros VO G.
      assert (RS : Forall (resolves E') (dvars d)).
      { apply Forall_forall. intros v Hv. unfold resolves.
        apply (denote cx TOK dstp inp is local tpn sh id v Hid); [|now apply G].
        unfold ivars. apply in_or_app. left. apply in_flat_map. exists d. auto. }
      pose proof (shape_variadic_wf (m_name m, m_sig m) d SHm VO) as VW.
      destruct (accessors_denote E' d RS VW) as (A1 & _ & _ & A4 & _).
      rewrite A1, A4. split.
      + rewrite <- (map_map vty (fun t => Some (norm t))), P, map_map. reflexivity.
      + rewrite <- (map_map vty (fun t => Some (norm t))), R, map_map. reflexivity.
  Qed.
End Mock.

(* the declared methods of the mock type are pairwise distinct when the guard holds *)
Lemma nodupb_spec l : nodupb l = true -> NoDup l.
Proof.
  induction l as [|x r IH]; simpl; [constructor|]. rewrite andb_true_iff, negb_true_iff. intros [N R].
  constructor; [now apply smem_false | now apply IH].
Qed.

Lemma NoDup_app_l {A} (l l' : list A) : NoDup (l ++ l') -> NoDup l.
Proof.
  induction l as [|x r IH]; simpl; intros H; [constructor|]. inversion H as [|? ? NI ND]; subst.
  constructor; [intros X; apply NI; apply in_or_app; now left | now apply IH].
Qed.

Lemma declared_nodup t wr id :
  api_free t wr (map dname (i_methods id)) = true -> NoDup (declared_methods t wr id).
Proof.
  intros H. apply nodupb_spec in H. unfold declared_methods. rewrite iface_methods_same, map_map. simpl.
  rewrite app_assoc in H. eapply NoDup_app_l. exact H.
Qed.

(* ==================================================================================== *)
(* Grouping into output files                                                            *)
(* ==================================================================================== *)
Definition routed (f : str) (q : req) : bool := seqb f (q_file q).

Lemma file_reqs_add c q f :
  file_reqs (add_req c q) f = file_reqs c f ++ (if routed f q then [q] else []).
Proof.
  unfold routed. induction c as [|[f' l] r IH]; simpl.
  - destruct (seqb f (q_file q)); reflexivity.
  - destruct (seqb f' (q_file q)) eqn:E; simpl.
    + apply seqb_eq in E. subst f'. destruct (seqb f (q_file q)); [reflexivity | now rewrite app_nil_r].
    + destruct (seqb f f') eqn:E2; [|exact IH].
      apply seqb_eq in E2. subst f'. rewrite E. now rewrite app_nil_r.
Qed.

Lemma file_reqs_fold reqs : forall c f,
  file_reqs (fold_left add_req reqs c) f = file_reqs c f ++ filter (routed f) reqs.
Proof.
  induction reqs as [|q r IH]; intros c f; simpl; [now rewrite app_nil_r|].
  rewrite IH, file_reqs_add, <- app_assoc. destruct (routed f q); reflexivity.
Qed.

(* the mocks of one output file are exactly the requests routed to it, in request order *)
Theorem group_file reqs f : file_reqs (group reqs) f = filter (routed f) reqs.
Proof. unfold group. now rewrite file_reqs_fold. Qed.

Lemma add_req_keys c q :
  map fst (add_req c q) = if smem (q_file q) (map fst c) then map fst c else map fst c ++ [q_file q].
Proof.
  induction c as [|[f l] r IH]; simpl; [reflexivity|].
  destruct (seqb f (q_file q)) eqn:E; simpl.
  - apply seqb_eq in E. subst f. now rewrite seqb_refl.
  - assert (E2 : seqb (q_file q) f = false) by (apply seqb_neq; apply seqb_neq in E; congruence).
    rewrite E2, IH. destruct (smem (q_file q) (map fst r)); reflexivity.
Qed.

Lemma add_req_inv c q :
  NoDup (map fst c) /\ (forall f l, In (f, l) c -> l = file_reqs c f /\ l <> []) ->
  NoDup (map fst (add_req c q)) /\ (forall f l, In (f, l) (add_req c q) -> l = file_reqs (add_req c q) f /\ l <> []).
Proof.
  intros [ND INV]. split.
  - rewrite add_req_keys. destruct (smem (q_file q) (map fst c)) eqn:E; [exact ND|].
    apply NoDup_app_snoc; [exact ND | now apply smem_false].
  - revert ND INV. induction c as [|[f0 l0] r IH]; simpl; intros ND INV f l H.
    + destruct H as [H|[]]. injection H as <- <-. rewrite seqb_refl. split; [reflexivity | discriminate].
    + inversion ND as [|? ? NI ND']; subst.
      destruct (seqb f0 (q_file q)) eqn:E.
      * destruct H as [H|H].
        -- injection H as <- <-. simpl. rewrite seqb_refl. split; [reflexivity | destruct l0; discriminate].
        -- simpl. destruct (seqb f f0) eqn:E2.
           ++ apply seqb_eq in E2. subst f0. exfalso. apply NI. apply in_map_iff. exists (f, l). auto.
           ++ destruct (INV f l (or_intror H)) as [I1 I2]. simpl in I1. rewrite E2 in I1. auto.
      * destruct H as [H|H].
        -- injection H as <- <-. simpl. rewrite seqb_refl. destruct (INV f0 l0 (or_introl eq_refl)) as [_ I2]. auto.
        -- simpl. destruct (seqb f f0) eqn:E2.
           ++ apply seqb_eq in E2. subst f0. exfalso.
              assert (In f (map fst (add_req r q))) by (apply in_map_iff; exists (f, l); auto).
              rewrite add_req_keys in H0. destruct (smem (q_file q) (map fst r)); [contradiction|].
              apply in_app_or in H0 as [H0|[H0|[]]]; [contradiction|]. subst f. now rewrite seqb_refl in E.
           ++ apply IH; auto. intros f' l' H'. destruct (INV f' l' (or_intror H')) as [I1 I2]. simpl in I1.
              destruct (seqb f' f0) eqn:E3; [|auto].
              apply seqb_eq in E3. subst f'. exfalso. apply NI. apply in_map_iff. exists (f0, l'). auto.
Qed.

Theorem group_files reqs :
  NoDup (map fst (group reqs)) /\
  forall f l, In (f, l) (group reqs) -> l = filter (routed f) reqs /\ l <> [].
Proof.
  assert (G : forall c, (NoDup (map fst c) /\ (forall f l, In (f, l) c -> l = file_reqs c f /\ l <> [])) ->
            NoDup (map fst (fold_left add_req reqs c)) /\
            (forall f l, In (f, l) (fold_left add_req reqs c) -> l = file_reqs (fold_left add_req reqs c) f /\ l <> [])).
  { induction reqs as [|q r IH]; intros c H; simpl; [exact H|]. apply IH. now apply add_req_inv. }
  destruct (G []) as [ND INV]; [split; [constructor | intros f l []]|].
  split; [exact ND|]. intros f l H. destruct (INV f l H) as [I1 I2]. split; [|exact I2].
  rewrite I1. apply group_file.
Qed.

Lemma NoDup_map_filter {A B} (g : A -> B) (p : A -> bool) l : NoDup (map g l) -> NoDup (map g (filter p l)).
Proof.
  induction l as [|x r IH]; simpl; intros ND; [constructor|]. inversion ND as [|? ? NI ND']; subst.
  destruct (p x); simpl; [|now apply IH]. constructor; [|now apply IH].
  intros H. apply NI. apply in_map_iff in H as (y & E & Hy). apply filter_In in Hy as [Hy _]. apply in_map_iff. eauto.
Qed.

Lemma NoDup_pair_const {A B C} (g1 : A -> B) (g2 : A -> C) (c : B) l :
  (forall q, In q l -> g1 q = c) -> NoDup (map (fun q => (g1 q, g2 q)) l) -> NoDup (map g2 l).
Proof.
  induction l as [|x r IH]; simpl; intros K ND; [constructor|]. inversion ND as [|? ? NI ND']; subst.
  constructor; [|apply IH; auto].
  intros H. apply NI. apply in_map_iff in H as (y & E & Hy). apply in_map_iff. exists y. split; [|exact Hy].
  rewrite E. f_equal. rewrite (K y (or_intror Hy)), (K x (or_introl eq_refl)). reflexivity.
Qed.

(* exactly one mock type per (interface, configs entry) in the file the entry is routed to, none elsewhere *)
Theorem once reqs f :
  mock_types (file_reqs (group reqs) f) = map q_struct (filter (routed f) reqs) /\
  (forall I, length (filter (fun q => seqb I (q_iface q)) (file_reqs (group reqs) f))
             = length (filter (fun q => seqb I (q_iface q) && routed f q) reqs)) /\
  (NoDup (map (fun q => (q_iface q, q_entry q)) reqs) ->
     NoDup (map (fun q => (q_iface q, q_entry q)) (file_reqs (group reqs) f))) /\
  (NoDup (map (fun q => (q_file q, q_struct q)) reqs) -> NoDup (mock_types (file_reqs (group reqs) f))).
Proof.
  rewrite group_file. split; [reflexivity|]. split; [|split].
  - intros I. f_equal. induction reqs as [|q r IH]; simpl; [reflexivity|].
    destruct (routed f q); simpl; destruct (seqb I (q_iface q)); simpl; now rewrite IH.
  - apply NoDup_map_filter.
  - intros ND. unfold mock_types. apply (NoDup_pair_const q_file q_struct f).
    + intros q Hq. apply filter_In in Hq as [_ Hq]. unfold routed in Hq. apply seqb_eq in Hq. now symmetry.
    + now apply NoDup_map_filter.
Qed.

(* a request is served in its own file and in no other *)
Theorem once_routed reqs q f : In q (file_reqs (group reqs) f) <-> In q reqs /\ q_file q = f.
Proof.
  rewrite group_file, filter_In. unfold routed. rewrite seqb_eq. split; intros [A B]; split; auto.
Qed.

(* ==================================================================================== *)
(* Statements assembled for Properties/C02.v                                             *)
(* ==================================================================================== *)
Theorem method_set_main cx (TOK : tables_ok cx) E fuel p n ms :
  method_set E fuel p n = Ok ms ->
  forall dstp inp is sname tps local tpn sh,
  In (mock_iface n sname tps ms) is ->
  let f := gen_file cx dstp inp is in
  let E' := file_env dstp f local tpn sh in
  exists id, In id (f_ifaces f) /\ i_name id = n /\ i_struct id = sname /\
    (forall t, iface_methods t id = map mock_method (i_methods id)) /\
    (forall t, map mm_name (iface_methods t id) = map m_name ms) /\
    Forall2 (implements cx E' inp) ms (i_methods id).
Proof.
  intros _ dstp inp is sname tps local tpn sh Hin f E'.
  destruct (mock_implements cx TOK dstp inp is n sname tps ms local tpn sh Hin) as (id & A & B & C & D & F).
  exists id. repeat split; auto. intros t. apply iface_methods_same.
Qed.

Theorem no_drop_no_dup cx (TOK : tables_ok cx) E fuel p n ms :
  method_set E fuel p n = Ok ms ->
  NoDup (map mkey ms) /\ StronglySorted klt ms /\
  forall dstp inp is sname tps, In (mock_iface n sname tps ms) is ->
  exists id, In id (f_ifaces (gen_file cx dstp inp is)) /\ i_name id = n /\ i_struct id = sname /\
    forall t,
      Permutation (map mm_name (iface_methods t id)) (map m_name ms) /\
      (one_pkg ms -> NoDup (map mm_name (iface_methods t id))) /\
      (forall wr, api_free t wr (map m_name ms) = true -> NoDup (declared_methods t wr id)).
Proof.
  intros H. destruct (method_set_sorted _ _ _ _ _ H) as [SS ND]. split; [exact ND|]. split; [exact SS|].
  intros dstp inp is sname tps Hin.
  destruct (mock_implements cx TOK dstp inp is n sname tps ms [] [] [] Hin) as (id & A & B & C & D & _).
  exists id. repeat split; auto.
  - rewrite D. reflexivity.
  - intros OP. rewrite D. now apply names_nodup.
  - intros wr AF. apply declared_nodup. specialize (D t). rewrite iface_methods_same, map_map in D. simpl in D.
    replace (map dname (i_methods id)) with (map m_name ms) by (symmetry; exact D). exact AF.
Qed.

Theorem embedding_depth E :
  (forall f f' p n ms, f <= f' -> method_set E f p n = Ok ms -> method_set E f' p n = Ok ms) /\
  (forall rk, ranked rk E -> forall f p n, S (rk p n) <= f -> method_set E f p n <> Err EOutOfFuel).
Proof.
  split; [intros f f' p n ms; apply method_set_fuel_mono | intros rk RK f p n; now apply method_set_fuel_sufficient].
Qed.

Lemma NoDup_nodupb l : NoDup l -> nodupb l = true.
Proof.
  induction 1 as [|x r NI _ IH]; simpl; [reflexivity|]. rewrite IH, andb_true_r. apply negb_true_iff. now apply smem_false.
Qed.

(* ==================================================================================== *)
(* Type parameters of the mock: blank parameters get fresh printed names                 *)
(* ==================================================================================== *)
Lemma tp_search_spec ex bad base : forall f i c,
  tp_search ex bad base f i = Some c -> ~ In (ex c) bad /\ exists j, c = cand 1 base j.
Proof.
  induction f as [|f IH]; simpl; intros i c H; [discriminate|].
  destruct (smem (ex (cand 1 base i)) bad) eqn:E; [now apply IH in H|].
  injection H as <-. split; [now apply smem_false | eauto].
Qed.

Lemma tp_search_none ex bad base : forall f i,
  tp_search ex bad base f i = None -> forall j, i <= j < i + f -> In (ex (cand 1 base j)) bad.
Proof.
  induction f as [|f IH]; simpl; intros i H j Hj; [lia|].
  destruct (smem (ex (cand 1 base i)) bad) eqn:E; [|discriminate].
  destruct (Nat.eq_dec j i) as [->|NE]; [now apply smem_In|]. apply (IH (S i) H). lia.
Qed.

(* the fuel |bad|+1 always suffices when Exported keeps the candidates apart (pigeonhole) *)
Lemma tp_pick_total ex bad base :
  (forall i j, ex (cand 1 base i) = ex (cand 1 base j) -> i = j) -> exists c, tp_pick ex bad base = Some c.
Proof.
  intros INJ. unfold tp_pick. destruct (tp_search ex bad base (S (length bad)) 0) as [c|] eqn:E; [eauto|]. exfalso.
  pose proof (tp_search_none _ _ _ _ _ E) as N.
  set (L := map (fun j => ex (cand 1 base j)) (seq 0 (S (length bad)))).
  assert (ND : NoDup L).
  { apply FinFun.Injective_map_NoDup; [intros a b; apply INJ | apply seq_NoDup]. }
  assert (IN : incl L bad).
  { intros x Hx. apply in_map_iff in Hx as (j & <- & Hj). apply in_seq in Hj. apply N. lia. }
  pose proof (NoDup_incl_length ND IN) as LE. unfold L in LE. rewrite map_length, seq_length in LE. lia.
Qed.

Lemma Forall2_len {A B} (P : A -> B -> Prop) l l' : Forall2 P l l' -> length l = length l'.
Proof. induction 1; simpl; congruence. Qed.

Section TParamsProofs.
  Variable cx : ctx.
  Let ex := cx_exported cx.

  Definition kept (x : label * ty) (n : str) : Prop := blank (lname (fst x)) = false -> n = lname (fst x).

  Lemma tp_names_inv : forall tps taken st ns,
    tp_names cx taken st tps = Some ns -> Forall2 kept tps ns ->
    incl (map ex (declared_names tps)) taken -> NoDup (map ex (declared_names tps)) ->
    NoDup (map ex ns) /\
    (forall m, In m ns -> In (ex m) (map ex (declared_names tps)) \/ ~ In (ex m) taken) /\
    Forall2 (fun x n => blank (lname (fst x)) = true -> ~ In (ex n) taken) tps ns.
  Proof.
    induction tps as [|x r IH]; intros taken st ns H K INC ND.
    - simpl in H. injection H as <-. split; [constructor|]. split; [intros m []|constructor].
    - simpl in H. destruct (blank (lname (fst x))) eqn:B.
      + destruct (tp_pick (cx_exported cx) (taken ++ snd (fst (add_var cx st x))) (last_name (snd (add_var cx st x)))) as [n|] eqn:P; [|discriminate].
        destruct (tp_names cx (cx_exported cx n :: taken) (add_var cx st x) r) as [l|] eqn:R; [|discriminate].
        injection H as <-. inversion K as [|? ? ? ? K1 K2]; subst.
        assert (NT : ~ In (ex n) taken).
        { destruct (tp_search_spec _ _ _ _ _ _ P) as [NI _]. intros X. apply NI. apply in_or_app. now left. }
        assert (DN : declared_names (x :: r) = declared_names r) by (unfold declared_names; simpl; now rewrite B).
        rewrite DN in *.
        destruct (IH _ _ _ R K2) as (A1 & A2 & A3); [intros y Hy; right; now apply INC | exact ND|].
        split; [|split].
        * simpl. constructor; [|exact A1]. intros X. apply in_map_iff in X as (m & E & Hm).
          destruct (A2 m Hm) as [D|D]; [apply NT; rewrite <- E; now apply INC | apply D; left; now rewrite E].
        * intros m [<-|Hm]; [now right|]. destruct (A2 m Hm) as [D|D]; [now left | right; intros X; apply D; now right].
        * constructor; [intros _; exact NT|]. revert A3. apply Forall2_imp. intros y m F Hb X. apply (F Hb). now right.
      + destruct (tp_names cx taken (add_var cx st x) r) as [l|] eqn:R; [|discriminate].
        injection H as <-. inversion K as [|? ? ? ? K1 K2]; subst. rewrite (K1 B) in *.
        assert (DN : declared_names (x :: r) = lname (fst x) :: declared_names r) by (unfold declared_names; simpl; now rewrite B).
        rewrite DN in *. simpl in ND, INC. inversion ND as [|? ? NI ND']; subst.
        destruct (IH _ _ _ R K2) as (A1 & A2 & A3); [intros y Hy; apply INC; now right | exact ND'|].
        split; [|split].
        * simpl. constructor; [|exact A1]. intros X. apply in_map_iff in X as (m & E & Hm).
          destruct (A2 m Hm) as [D|D]; [apply NI; now rewrite <- E | apply D; rewrite E; apply INC; now left].
        * intros m [<-|Hm]; [left; now left|]. destruct (A2 m Hm) as [D|D]; [left; now right | now right].
        * constructor; [congruence | exact A3].
  Qed.

  (* pairwise distinct printed names, blank parameters away from every declared name *)
  Theorem tparams_distinct r tps ns :
    mock_tparams cx r tps = Some ns -> Forall2 kept tps ns ->
    NoDup (map ex (declared_names tps)) ->
    NoDup (map ex ns) /\ length ns = length tps /\
    Forall2 (fun x n => blank (lname (fst x)) = true -> ~ In (ex n) (map ex (declared_names tps))) tps ns.
  Proof.
    intros H K ND. destruct (tp_names_inv _ _ _ _ H K (fun y Hy => Hy) ND) as (A1 & _ & A3).
    split; [exact A1|]. split; [symmetry; eapply Forall2_len; eauto | exact A3].
  Qed.

  (* never out of fuel when Exported keeps  n, n1, n2, ...  apart *)
  Theorem tparams_total :
    (forall base i j, ex (cand 1 base i) = ex (cand 1 base j) -> i = j) ->
    forall tps taken st, exists ns, tp_names cx taken st tps = Some ns.
  Proof.
    intros INJ. induction tps as [|x r IH]; intros taken st; simpl; [eauto|].
    destruct (blank (lname (fst x))).
    - destruct (tp_pick_total (cx_exported cx) (taken ++ snd (fst (add_var cx st x))) (last_name (snd (add_var cx st x))) (INJ _)) as (c & ->).
      destruct (IH (cx_exported cx c :: taken) (add_var cx st x)) as (l & ->). eauto.
    - destruct (IH taken (add_var cx st x)) as (l & ->). eauto.
  Qed.
End TParamsProofs.
