(* Proofs about the scoping skeletons (C01).  Model: Gen/Skeleton.v. *)
From Coq Require Import Permutation.
From Mk Require Import Lib.Bytes Lib.Dec Lib.Fresh Gen.Alloc Gen.Alloc_proofs Gen.Skeleton.

(* ------------------------------------------------------------------ boolean list facts *)
Lemma smem_app x a b : smem x (a ++ b) = smem x a || smem x b.
Proof. induction a as [|y a IH]; simpl; [reflexivity|]. destruct (seqb x y); [reflexivity | exact IH]. Qed.

Lemma smem_cons x y l : smem x (y :: l) = seqb x y || smem x l.
Proof. simpl. destruct (seqb x y); reflexivity. Qed.

Lemma smem_rev x l : smem x (rev l) = smem x l.
Proof.
  destruct (smem x l) eqn:E.
  - apply smem_In. apply -> in_rev. now apply smem_In.
  - apply smem_false. intros H. apply in_rev in H. apply smem_false in E. contradiction.
Qed.

Lemma smem_true_In x l : In x l -> smem x l = true.
Proof. apply smem_In. Qed.

Lemma seqb_sym a b : seqb a b = seqb b a.
Proof.
  destruct (seqb a b) eqn:E; symmetry.
  - apply seqb_eq in E. subst. apply seqb_refl.
  - apply seqb_neq. apply seqb_neq in E. congruence.
Qed.

Lemma nodupb_NoDup l : nodupb l = true <-> NoDup l.
Proof.
  induction l as [|x l IH]; simpl; [split; [constructor | reflexivity]|].
  rewrite andb_true_iff, negb_true_iff, smem_false, IH. split.
  - intros [H1 H2]. now constructor.
  - intros H. inversion H; subst. tauto.
Qed.

Lemma disjointb_spec a b : disjointb a b = true <-> forall x, In x a -> ~ In x b.
Proof.
  unfold disjointb. rewrite forallb_forall. split; intros H x Hx.
  - specialize (H x Hx). apply negb_true_iff in H. now apply smem_false.
  - apply negb_true_iff, smem_false. now apply H.
Qed.

Lemma disjointb_smem_l a b x : disjointb a b = true -> In x a -> smem x b = false.
Proof. intros H Hx. apply smem_false. eapply disjointb_spec; eauto. Qed.
Lemma disjointb_smem_r a b x : disjointb a b = true -> In x b -> smem x a = false.
Proof. intros H Hx. apply smem_false. intros Ha. eapply disjointb_spec; eauto. Qed.

Lemma disjointb_app_r a b c : disjointb a (b ++ c) = true <-> disjointb a b = true /\ disjointb a c = true.
Proof.
  rewrite !disjointb_spec. split.
  - intros H. split; intros x Hx Hb; apply (H x Hx); apply in_or_app; tauto.
  - intros [H1 H2] x Hx Hb. apply in_app_or in Hb as [Hb|Hb]; [eapply H1 | eapply H2]; eauto.
Qed.
Lemma disjointb_app_l a b c : disjointb (a ++ b) c = true <-> disjointb a c = true /\ disjointb b c = true.
Proof. unfold disjointb. rewrite forallb_app, andb_true_iff. reflexivity. Qed.

Lemma nodupb_app a b : nodupb (a ++ b) = true <-> nodupb a = true /\ nodupb b = true /\ disjointb a b = true.
Proof.
  induction a as [|x a IH].
  - simpl. unfold disjointb; simpl. tauto.
  - change ((x :: a) ++ b) with (x :: (a ++ b)). cbn [nodupb].
    rewrite !andb_true_iff, !negb_true_iff, smem_app, orb_false_iff, IH.
    unfold disjointb; cbn [forallb]. rewrite andb_true_iff, negb_true_iff. tauto.
Qed.

Lemma nodupb_perm a b : Permutation a b -> nodupb a = true -> nodupb b = true.
Proof. intros P H. apply nodupb_NoDup. eapply Permutation_NoDup; [exact P | now apply nodupb_NoDup]. Qed.

(* ------------------------------------------------------------------ the judgement, compositionally *)
Section Judge.
Variable c : fctx.

Lemma wf_item_block outer cur l :
  wf_item c outer cur (IBlock l)
  = match wf_items c (cur :: outer) empty_scope l with Some _ => Some cur | None => None end.
Proof.
  simpl. generalize empty_scope as s. induction l as [|i t IH]; intros s; simpl; [reflexivity|].
  destruct (wf_item c (cur :: outer) s i) as [s'|]; [apply IH | reflexivity].
Qed.

Lemma wf_items_app outer cur a b :
  wf_items c outer cur (a ++ b)
  = match wf_items c outer cur a with Some s => wf_items c outer s b | None => None end.
Proof.
  revert cur; induction a as [|i a IH]; intros cur; simpl; [reflexivity|].
  destruct (wf_item c outer cur i); [apply IH | reflexivity].
Qed.

Lemma wf_items_cons outer cur i l :
  wf_items c outer cur (i :: l)
  = match wf_item c outer cur i with Some s => wf_items c outer s l | None => None end.
Proof. reflexivity. Qed.

Definition is_use_ok (env : list scope) (i : item) : bool :=
  match i with IUse k n => resolve_ok c env k n | _ => false end.

Lemma wf_uses outer cur l :
  forallb (is_use_ok (cur :: outer)) l = true -> wf_items c outer cur l = Some cur.
Proof.
  induction l as [|i l IH]; [reflexivity|]. cbn [forallb]. rewrite andb_true_iff. intros [H1 H2].
  destruct i as [k n| |]; cbn [is_use_ok] in H1; try discriminate.
  cbn [wf_items wf_item]. rewrite H1. now apply IH.
Qed.

Definition add_vars (ns : list str) (s : scope) : scope := {| sv := rev ns ++ sv s; st := st s |}.
Definition add_tys (ns : list str) (s : scope) : scope := {| sv := sv s; st := rev ns ++ st s |}.

Lemma decl_side ty n cur ns :
  smem n ns = false ->
  forallb (fun m => negb (seqb m blank) && negb (has m cur)) ns = true ->
  forallb (fun m => negb (seqb m blank) && negb (has m (declare ty n cur))) ns = true.
Proof.
  intros N1 F2. apply forallb_forall. intros m Hm. rewrite forallb_forall in F2. specialize (F2 m Hm).
  apply andb_true_iff in F2 as [B2 H2]. rewrite B2. cbn [andb].
  apply negb_true_iff in H2. unfold has in H2. apply orb_false_iff in H2 as [H2a H2b].
  assert (seqb m n = false) as E.
  { apply seqb_neq. intros ->. apply smem_false in N1. contradiction. }
  unfold has, declare. destruct ty; cbn [sv st]; rewrite smem_cons, E, H2a, H2b; reflexivity.
Qed.

Lemma wf_dvs outer cur ns :
  nodupb ns = true -> forallb (fun n => negb (seqb n blank) && negb (has n cur)) ns = true ->
  wf_items c outer cur (dvs ns) = Some (add_vars ns cur).
Proof.
  revert cur; induction ns as [|n ns IH]; intros cur ND F.
  - destruct cur; reflexivity.
  - cbn [nodupb] in ND. cbn [forallb] in F.
    apply andb_true_iff in ND as [N1 N2]. apply andb_true_iff in F as [F1 F2].
    apply andb_true_iff in F1 as [B H]. apply negb_true_iff in B, H, N1.
    unfold dvs, dv. cbn [map wf_items wf_item]. rewrite B, H.
    change (map (fun n0 => IDecl false n0) ns) with (dvs ns).
    rewrite IH; [| exact N2 | now apply decl_side].
    unfold add_vars, declare. cbn [sv st rev]. rewrite <- app_assoc. reflexivity.
Qed.

Lemma wf_dts outer cur ns :
  nodupb ns = true -> forallb (fun n => negb (seqb n blank) && negb (has n cur)) ns = true ->
  wf_items c outer cur (map (IDecl true) ns) = Some (add_tys ns cur).
Proof.
  revert cur; induction ns as [|n ns IH]; intros cur ND F.
  - destruct cur; reflexivity.
  - cbn [nodupb] in ND. cbn [forallb] in F.
    apply andb_true_iff in ND as [N1 N2]. apply andb_true_iff in F as [F1 F2].
    apply andb_true_iff in F1 as [B H]. apply negb_true_iff in B, H, N1.
    cbn [map wf_items wf_item]. rewrite B, H.
    rewrite IH; [| exact N2 | now apply decl_side].
    unfold add_tys, declare. cbn [sv st rev]. rewrite <- app_assoc. reflexivity.
Qed.

(* a closed block of field names *)
Lemma wf_fields outer cur ns :
  nodupb ns = true -> forallb (fun n => negb (seqb n blank)) ns = true ->
  wf_item c outer cur (fields ns) = Some cur.
Proof.
  intros ND NB. unfold fields. rewrite wf_item_block, wf_dvs; [reflexivity | exact ND |].
  apply forallb_forall. intros n Hn. rewrite forallb_forall in NB. rewrite (NB n Hn). reflexivity.
Qed.
End Judge.

(* ------------------------------------------------------------------ resolution *)
Fixpoint free (n : str) (env : list scope) : bool :=
  match env with [] => true | s :: r => negb (has n s) && free n r end.
(* a variable of the outermost block, not redeclared inside *)
Fixpoint var0 (n : str) (env : list scope) : bool :=
  match env with
  | [] => false
  | s :: r => match r with [] => smem n (sv s) | _ => negb (has n s) && var0 n r end
  end.
(* a type parameter (of the outermost block), not shadowed *)
Fixpoint ty0 (n : str) (env : list scope) : bool :=
  match env with
  | [] => false
  | s :: r => match r with [] => negb (smem n (sv s)) && smem n (st s) | _ => negb (has n s) && ty0 n r end
  end.
(* some variable: the innermost binding of n is a variable *)
Fixpoint varany (n : str) (env : list scope) : bool :=
  match env with
  | [] => false
  | s :: r => smem n (sv s) || (negb (smem n (st s)) && varany n r)
  end.

Lemma lookup_free n env : free n env = true -> lookup n env = None.
Proof.
  induction env as [|s r IH]; [reflexivity|]. cbn [free lookup]. unfold has.
  rewrite andb_true_iff, negb_true_iff, orb_false_iff. intros [[-> ->] H]. now apply IH.
Qed.
Lemma lookup_var0 n env : var0 n env = true -> lookup n env = Some (false, true).
Proof.
  induction env as [|s r IH]; [discriminate|]. cbn [var0 lookup]. destruct r as [|s' r'].
  - intros ->. reflexivity.
  - unfold has. rewrite andb_true_iff, negb_true_iff, orb_false_iff. intros [[-> ->] H]. now apply IH.
Qed.
Lemma lookup_ty0 n env : ty0 n env = true -> lookup n env = Some (true, true).
Proof.
  induction env as [|s r IH]; [discriminate|]. cbn [ty0 lookup]. destruct r as [|s' r'].
  - rewrite andb_true_iff, negb_true_iff. intros [-> ->]. reflexivity.
  - unfold has. rewrite andb_true_iff, negb_true_iff, orb_false_iff. intros [[-> ->] H]. now apply IH.
Qed.
Lemma lookup_varany n env : varany n env = true -> exists o, lookup n env = Some (false, o).
Proof.
  induction env as [|s r IH]; [discriminate|]. cbn [varany lookup].
  destruct (smem n (sv s)); [eauto|]. cbn [orb]. rewrite andb_true_iff, negb_true_iff. intros [-> H]. now apply IH.
Qed.

Section Resolve.
Variable c : fctx.
Lemma res_qual env n : free n env = true -> smem n (c_quals c) = true -> resolve_ok c env KQual n = true.
Proof. intros F Q. unfold resolve_ok. now rewrite (lookup_free _ _ F). Qed.
Lemma res_top env n : free n env = true -> smem n (c_filetypes c) = true -> resolve_ok c env KTopType n = true.
Proof. intros F Q. unfold resolve_ok. now rewrite (lookup_free _ _ F). Qed.
Lemma res_pkgtype env n : free n env = true -> pkg_type_ok c n = true -> resolve_ok c env KPkgType n = true.
Proof. intros F Q. unfold resolve_ok. now rewrite (lookup_free _ _ F). Qed.
Lemma res_pkgcon env n : free n env = true -> pkg_type_ok c n || seqb n comparable_ = true ->
  resolve_ok c env KPkgCon n = true.
Proof. intros F Q. unfold resolve_ok. now rewrite (lookup_free _ _ F). Qed.
Lemma res_builtin env n : free n env = true ->
  smem n universe_vals && negb (smem n (c_vals c)) && negb (smem n (c_types c)) && negb (smem n (c_quals c)) = true ->
  resolve_ok c env KBuiltin n = true.
Proof. intros F Q. unfold resolve_ok. now rewrite (lookup_free _ _ F). Qed.
Lemma res_tparam env n : ty0 n env = true -> resolve_ok c env KTParam n = true.
Proof. intros F. unfold resolve_ok. now rewrite (lookup_ty0 _ _ F). Qed.
Lemma res_tparamc env n : ty0 n env = true -> resolve_ok c env KTParamC n = true.
Proof. intros F. unfold resolve_ok. now rewrite (lookup_ty0 _ _ F). Qed.
Lemma res_var0 env n o : var0 n env = true -> resolve_ok c env (KVar o) n = true.
Proof. intros F. unfold resolve_ok. rewrite (lookup_var0 _ _ F). now destruct o. Qed.
Lemma res_varany env n : varany n env = true -> resolve_ok c env (KVar false) n = true.
Proof. intros F. unfold resolve_ok. destruct (lookup_varany _ _ F) as [o ->]. reflexivity. Qed.
End Resolve.

(* ------------------------------------------------------------------ environments of template functions *)
(* In the functions the templates emit, type parameters are bound only in the outermost block.  Then
   resolution is a matter of membership in flat lists. *)
Definition vars_of (env : list scope) : list str := flat_map sv env.
Fixpoint tys_ok (T : list str) (env : list scope) : bool :=
  match env with
  | [] => false
  | s :: r => match r with
              | [] => forallb (fun n => smem n T) (st s) && forallb (fun n => smem n (st s)) T
              | _ => match st s with [] => tys_ok T r | _ => false end
              end
  end.

Lemma tys_ok_push T s env : st s = [] -> env <> [] -> tys_ok T (s :: env) = tys_ok T env.
Proof. intros E N. destruct env; [congruence|]. cbn [tys_ok]. now rewrite E. Qed.

Lemma free_of T env n :
  tys_ok T env = true -> smem n (vars_of env) = false -> smem n T = false -> free n env = true.
Proof.
  induction env as [|s r IH]; [reflexivity|]. cbn [tys_ok vars_of flat_map free]. fold (vars_of r).
  rewrite smem_app, orb_false_iff. intros K [V1 V2] NT. destruct r as [|s' r'].
  - apply andb_true_iff in K as [K1 K2]. unfold has. rewrite V1. cbn [orb free].
    destruct (smem n (st s)) eqn:E; [|reflexivity].
    rewrite forallb_forall in K1. apply smem_In in E. specialize (K1 n E). congruence.
  - destruct (st s) eqn:E; [|discriminate]. unfold has. rewrite V1, E. cbn [smem orb negb andb].
    now apply IH.
Qed.

Lemma ty0_of T env n :
  tys_ok T env = true -> smem n (vars_of env) = false -> smem n T = true -> ty0 n env = true.
Proof.
  induction env as [|s r IH]; [discriminate|]. cbn [tys_ok vars_of flat_map ty0]. fold (vars_of r).
  rewrite smem_app, orb_false_iff. intros K [V1 V2] NT. destruct r as [|s' r'].
  - apply andb_true_iff in K as [K1 K2]. rewrite V1. cbn [negb andb].
    rewrite forallb_forall in K2. apply smem_In in NT. exact (K2 n NT).
  - destruct (st s) eqn:E; [|discriminate]. unfold has. rewrite V1, E. cbn [smem orb negb andb].
    now apply IH.
Qed.

Lemma varany_of T env n : tys_ok T env = true -> smem n (vars_of env) = true -> varany n env = true.
Proof.
  induction env as [|s r IH]; [discriminate|]. cbn [tys_ok vars_of flat_map varany]. fold (vars_of r).
  rewrite smem_app. intros K V. destruct (smem n (sv s)) eqn:E; [reflexivity|]. cbn [orb] in *.
  destruct r as [|s' r']; [cbn [vars_of flat_map smem] in V; discriminate|].
  destruct (st s) eqn:E2; [|discriminate]. cbn [smem negb andb]. now apply IH.
Qed.

(* env = inner ++ [s0] *)
Lemma var0_of T inner s0 n :
  tys_ok T (inner ++ [s0]) = true -> smem n (vars_of inner) = false -> smem n (sv s0) = true ->
  var0 n (inner ++ [s0]) = true.
Proof.
  induction inner as [|s r IH]; intros K V H; [exact H|].
  cbn [app tys_ok vars_of flat_map var0] in *. fold (vars_of r) in V.
  rewrite smem_app, orb_false_iff in V. destruct V as [V1 V2].
  destruct (r ++ [s0]) as [|x y] eqn:E; [destruct r; discriminate|].
  destruct (st s) eqn:E2; [|discriminate]. unfold has. rewrite V1, E2. cbn [smem orb negb andb].
  now apply IH.
Qed.

Section Pieces.
Variable c : fctx.

Lemma wf_use_ok outer cur k n l :
  resolve_ok c (cur :: outer) k n = true ->
  wf_items c outer cur (IUse k n :: l) = wf_items c outer cur l.
Proof. intros H. cbn [wf_items wf_item]. now rewrite H. Qed.

Lemma wf_decl_ok outer cur ty n l :
  seqb n blank = false -> has n cur = false ->
  wf_items c outer cur (IDecl ty n :: l) = wf_items c outer (declare ty n cur) l.
Proof. intros B H. cbn [wf_items wf_item]. now rewrite B, H. Qed.

Lemma wf_block_ok outer cur b l s' :
  wf_items c (cur :: outer) empty_scope b = Some s' ->
  wf_items c outer cur (IBlock b :: l) = wf_items c outer cur l.
Proof. intros H. rewrite wf_items_cons, wf_item_block, H. reflexivity. Qed.

Definition decl_names (l : list item) : list str :=
  flat_map (fun i => match i with IDecl _ n => [n] | _ => [] end) l.
Lemma decl_names_dvs ns : decl_names (dvs ns) = ns.
Proof. induction ns as [|x ns IH]; [reflexivity|]. unfold decl_names, dvs in *. cbn [map flat_map app]. now rewrite IH. Qed.

Lemma fields_as_dvs fs :
  field_block_ok fs = true ->
  exists ns, fs = dvs ns /\ nodupb ns = true /\ forallb (fun n => negb (seqb n blank)) ns = true.
Proof.
  unfold field_block_ok. fold (decl_names fs). rewrite andb_true_iff. intros [F N].
  induction fs as [|i fs IH].
  - exists []. repeat split.
  - cbn [forallb] in F. apply andb_true_iff in F as [F1 F2].
    destruct i as [| [|] n |]; try discriminate.
    change (decl_names (IDecl false n :: fs)) with (n :: decl_names fs) in N.
    cbn [nodupb] in N. apply andb_true_iff in N as [N1 N2].
    destruct (IH F2 N2) as (ns & E & ND & NB). subst fs. rewrite decl_names_dvs in N1.
    exists (n :: ns). repeat split.
    + cbn [nodupb]. now rewrite N1, ND.
    + cbn [forallb]. now rewrite F1, NB.
Qed.

Lemma wf_field_block outer cur fs l :
  field_block_ok fs = true -> wf_items c outer cur (IBlock fs :: l) = wf_items c outer cur l.
Proof.
  intros F. destruct (fields_as_dvs fs F) as (ns & -> & ND & NB).
  eapply wf_block_ok. apply wf_dvs; [exact ND|].
  apply forallb_forall. intros n Hn. rewrite forallb_forall in NB. now rewrite (NB n Hn).
Qed.

(* a rendered type in an environment that binds none of its identifiers, except the type parameters *)
Lemma wf_intent T tps outer cur ty :
  T = map torig tps ->
  types_known c tps ty = true ->
  tys_ok T (cur :: outer) = true ->
  disjointb (ty_idents ty) (vars_of (cur :: outer)) = true ->
  wf_items c outer cur (intent tps ty) = Some cur.
Proof.
  intros -> K TO D. unfold ty_idents in D. apply disjointb_app_l in D as [DQ DB].
  induction ty as [|i ty IH]; [reflexivity|].
  unfold types_known in K. cbn [forallb] in K. apply andb_true_iff in K as [K1 K2].
  assert (disjointb (ty_quals ty) (vars_of (cur :: outer)) = true /\
          disjointb (ty_bares ty) (vars_of (cur :: outer)) = true) as [DQ' DB'].
  { unfold ty_quals, ty_bares in *. cbn [flat_map] in DQ, DB.
    apply disjointb_app_l in DQ as [_ DQ]. apply disjointb_app_l in DB as [_ DB]. now split. }
  specialize (IH K2 DQ' DB').
  unfold intent in *. cbn [map].
  destruct i as [k n| |fs]; try discriminate.
  - assert (smem n (vars_of (cur :: outer)) = false) as NV.
    { destruct k; try discriminate; unfold ty_quals, ty_bares in DQ, DB; cbn [flat_map app] in DQ, DB.
      - unfold disjointb in DQ. cbn [forallb] in DQ. apply andb_true_iff in DQ as [DQ _]. now apply negb_true_iff in DQ.
      - unfold disjointb in DB. cbn [forallb] in DB. apply andb_true_iff in DB as [DB _]. now apply negb_true_iff in DB.
      - unfold disjointb in DB. cbn [forallb] in DB. apply andb_true_iff in DB as [DB _]. now apply negb_true_iff in DB. }
    destruct k; try discriminate; cbn [ty_item_known] in K1.
    + apply andb_true_iff in K1 as [Q NT]. apply negb_true_iff in NT.
      rewrite wf_use_ok; [exact IH|]. apply res_qual; [|exact Q]. eapply free_of; eauto.
    + destruct (smem n (map torig tps)) eqn:E.
      * rewrite wf_use_ok; [exact IH|]. apply res_tparam. eapply ty0_of; eauto.
      * cbn [orb] in K1. rewrite wf_use_ok; [exact IH|]. apply res_pkgtype; [|exact K1]. eapply free_of; eauto.
    + destruct (smem n (map torig tps)) eqn:E.
      * rewrite wf_use_ok; [exact IH|]. apply res_tparamc. eapply ty0_of; eauto.
      * cbn [orb] in K1. rewrite wf_use_ok; [exact IH|]. apply res_pkgcon; [|exact K1]. eapply free_of; eauto.
  - cbn [ty_item_known] in K1. rewrite wf_field_block; [exact IH | exact K1].
Qed.
End Pieces.

Lemma var0_of' T env n :
  tys_ok T env = true -> smem n (vars_of (removelast env)) = false ->
  smem n (sv (last env empty_scope)) = true -> var0 n env = true.
Proof.
  intros K V H. assert (env <> []) as NE by (destruct env; [discriminate | congruence]).
  rewrite (app_removelast_last empty_scope NE) in K |- *. eapply var0_of; eauto.
Qed.

Section Uses.
Variable c : fctx.
Variable T : list str.

Lemma use_var0 outer cur o n l :
  tys_ok T (cur :: outer) = true ->
  smem n (vars_of (removelast (cur :: outer))) = false ->
  smem n (sv (last (cur :: outer) empty_scope)) = true ->
  wf_items c outer cur (IUse (KVar o) n :: l) = wf_items c outer cur l.
Proof. intros K V H. apply wf_use_ok, res_var0. eapply var0_of'; eauto. Qed.

Lemma use_varany outer cur n l :
  tys_ok T (cur :: outer) = true -> smem n (vars_of (cur :: outer)) = true ->
  wf_items c outer cur (IUse (KVar false) n :: l) = wf_items c outer cur l.
Proof. intros K V. apply wf_use_ok, res_varany. eapply varany_of; eauto. Qed.

Lemma use_builtin outer cur n l :
  tys_ok T (cur :: outer) = true -> smem n (vars_of (cur :: outer)) = false -> smem n T = false ->
  smem n universe_vals && negb (smem n (c_vals c)) && negb (smem n (c_types c)) && negb (smem n (c_quals c)) = true ->
  wf_items c outer cur (IUse KBuiltin n :: l) = wf_items c outer cur l.
Proof. intros K V NT F. apply wf_use_ok, res_builtin; [eapply free_of; eauto | exact F]. Qed.

Lemma use_qual outer cur n l :
  tys_ok T (cur :: outer) = true -> smem n (vars_of (cur :: outer)) = false -> smem n T = false ->
  smem n (c_quals c) = true ->
  wf_items c outer cur (IUse KQual n :: l) = wf_items c outer cur l.
Proof. intros K V NT F. apply wf_use_ok, res_qual; [eapply free_of; eauto | exact F]. Qed.

Lemma use_top outer cur n l :
  tys_ok T (cur :: outer) = true -> smem n (vars_of (cur :: outer)) = false -> smem n T = false ->
  smem n (c_filetypes c) = true ->
  wf_items c outer cur (IUse KTopType n :: l) = wf_items c outer cur l.
Proof. intros K V NT F. apply wf_use_ok, res_top; [eapply free_of; eauto | exact F]. Qed.

Lemma use_pkgtype outer cur n l :
  tys_ok T (cur :: outer) = true -> smem n (vars_of (cur :: outer)) = false -> smem n T = false ->
  pkg_type_ok c n = true ->
  wf_items c outer cur (IUse KPkgType n :: l) = wf_items c outer cur l.
Proof. intros K V NT F. apply wf_use_ok, res_pkgtype; [eapply free_of; eauto | exact F]. Qed.

Lemma use_tparams outer cur ns l :
  tys_ok T (cur :: outer) = true ->
  forallb (fun n => negb (smem n (vars_of (cur :: outer))) && smem n T) ns = true ->
  wf_items c outer cur (map (IUse KTParam) ns ++ l) = wf_items c outer cur l.
Proof.
  intros K F. induction ns as [|n ns IH]; [reflexivity|]. cbn [forallb] in F.
  apply andb_true_iff in F as [F1 F2]. apply andb_true_iff in F1 as [V NT]. apply negb_true_iff in V.
  cbn [map app]. rewrite wf_use_ok; [now apply IH|]. apply res_tparam. eapply ty0_of; eauto.
Qed.

Lemma use_vars0 outer cur o ns l :
  tys_ok T (cur :: outer) = true ->
  forallb (fun n => negb (smem n (vars_of (removelast (cur :: outer)))) && smem n (sv (last (cur :: outer) empty_scope))) ns = true ->
  wf_items c outer cur (uvs o ns ++ l) = wf_items c outer cur l.
Proof.
  intros K F. induction ns as [|n ns IH]; [reflexivity|]. cbn [forallb] in F.
  apply andb_true_iff in F as [F1 F2]. apply andb_true_iff in F1 as [V H]. apply negb_true_iff in V.
  unfold uvs, uv in *. cbn [map app]. rewrite use_var0; auto.
Qed.

Lemma use_varsany outer cur ns l :
  tys_ok T (cur :: outer) = true ->
  forallb (fun n => smem n (vars_of (cur :: outer))) ns = true ->
  wf_items c outer cur (uvs false ns ++ l) = wf_items c outer cur l.
Proof.
  intros K F. induction ns as [|n ns IH]; [reflexivity|]. cbn [forallb] in F.
  apply andb_true_iff in F as [F1 F2]. unfold uvs, uv in *. cbn [map app]. rewrite use_varany; auto.
Qed.

Lemma decl_vars outer cur ns l :
  nodupb ns = true -> forallb (fun n => negb (seqb n blank) && negb (has n cur)) ns = true ->
  wf_items c outer cur (dvs ns ++ l) = wf_items c outer (add_vars ns cur) l.
Proof. intros ND F. rewrite wf_items_app, (wf_dvs c outer cur ns ND F). reflexivity. Qed.

Lemma decl_tys outer cur ns l :
  nodupb ns = true -> forallb (fun n => negb (seqb n blank) && negb (has n cur)) ns = true ->
  wf_items c outer cur (map (IDecl true) ns ++ l) = wf_items c outer (add_tys ns cur) l.
Proof. intros ND F. rewrite wf_items_app, (wf_dts c outer cur ns ND F). reflexivity. Qed.

Lemma use_types tps outer cur {A} (proj : A -> tyitems) (xs : list A) l :
  T = map torig tps ->
  forallb (fun x => types_known c tps (proj x)) xs = true ->
  tys_ok T (cur :: outer) = true ->
  disjointb (flat_map (fun x => ty_idents (proj x)) xs) (vars_of (cur :: outer)) = true ->
  wf_items c outer cur (flat_map (fun x => intent tps (proj x)) xs ++ l) = wf_items c outer cur l.
Proof.
  intros ET K TO D. induction xs as [|x xs IH]; [reflexivity|].
  cbn [forallb flat_map] in *. apply andb_true_iff in K as [K1 K2]. apply disjointb_app_l in D as [D1 D2].
  rewrite <- app_assoc, wf_items_app, (wf_intent c T tps outer cur (proj x) ET K1 TO D1). now apply IH.
Qed.

Lemma use_type tps outer cur ty l :
  T = map torig tps -> types_known c tps ty = true -> tys_ok T (cur :: outer) = true ->
  disjointb (ty_idents ty) (vars_of (cur :: outer)) = true ->
  wf_items c outer cur (intent tps ty ++ l) = wf_items c outer cur l.
Proof. intros ET K TO D. rewrite wf_items_app, (wf_intent c T tps outer cur ty ET K TO D). reflexivity. Qed.
End Uses.

(* ------------------------------------------------------------------ tactics *)
Lemma smem_sub x big small :
  smem x big = false -> forallb (fun y => smem y big) small = true -> smem x small = false.
Proof.
  intros H F. apply smem_false. intros Hx. rewrite forallb_forall in F. specialize (F x Hx). congruence.
Qed.
Lemma smem_incl x big small : smem x big = false -> incl small big -> smem x small = false.
Proof. intros H I. apply smem_false. intros Hx. apply smem_false in H. apply H, I, Hx. Qed.
Lemma seqb_of_smem x y l : smem x l = false -> smem y l = true -> seqb x y = false.
Proof.
  intros H1 H2. apply seqb_neq. intros ->. congruence.
Qed.
Lemma smem_cons_false x y l : seqb x y = false -> smem x l = false -> smem x (y :: l) = false.
Proof. intros H1 H2. now rewrite smem_cons, H1, H2. Qed.
Lemma smem_app_false x a b : smem x a = false -> smem x b = false -> smem x (a ++ b) = false.
Proof. intros H1 H2. now rewrite smem_app, H1, H2. Qed.

Ltac in_solve :=
  match goal with
  | |- In _ (_ :: _) => first [left; reflexivity | right; in_solve]
  | |- In _ (_ ++ _) => apply in_or_app; first [left; in_solve | right; in_solve]
  | |- In _ (rev _) => apply -> in_rev; in_solve
  | |- In _ ?l => first [ assumption
                        | apply smem_In; reflexivity
                        | let l' := eval hnf in l in (progress change l with l'); in_solve ]
  end.

(* goal: smem x l = false *)
Ltac sf :=
  first
    [ assumption
    | reflexivity
    | apply smem_app_false; sf
    | rewrite smem_rev; sf
    | apply smem_cons_false; [sq | sf]
    | match goal with
      | H : disjointb ?a ?l = true |- smem ?x ?l = false => apply (disjointb_smem_l a l x H); in_solve
      | H : disjointb ?l ?b = true |- smem ?x ?l = false => apply (disjointb_smem_r l b x H); in_solve
      | H : disjointb ?a ?b = true |- smem ?x ?l = false =>
        first [ apply (smem_sub x b l); [apply (disjointb_smem_l a b x H); in_solve | reflexivity]
              | apply (smem_sub x a l); [apply (disjointb_smem_r a b x H); in_solve | reflexivity]
              | apply (smem_incl x b l); [apply (disjointb_smem_l a b x H); in_solve | intros ? ?; in_solve]
              | apply (smem_incl x a l); [apply (disjointb_smem_r a b x H); in_solve | intros ? ?; in_solve] ]
      | H : smem ?x ?big = false |- smem ?x ?l = false => apply (smem_sub x big l H); reflexivity
      end ]
with sq :=
  first
    [ assumption
    | reflexivity
    | rewrite seqb_sym; assumption
    | match goal with
      | H : smem ?x ?l = false |- seqb ?x ?y = false => apply (seqb_of_smem x y l H); apply smem_true_In; in_solve
      | H : smem ?y ?l = false |- seqb ?x ?y = false => rewrite seqb_sym; apply (seqb_of_smem y x l H); apply smem_true_In; in_solve
      | H : disjointb ?a ?b = true |- seqb ?x ?y = false =>
        first [ apply (seqb_of_smem x y b); [apply (disjointb_smem_l a b x H); in_solve | apply smem_true_In; in_solve]
              | apply (seqb_of_smem x y a); [apply (disjointb_smem_r a b x H); in_solve | apply smem_true_In; in_solve]
              | rewrite seqb_sym; apply (seqb_of_smem y x b); [apply (disjointb_smem_l a b y H); in_solve | apply smem_true_In; in_solve]
              | rewrite seqb_sym; apply (seqb_of_smem y x a); [apply (disjointb_smem_r a b y H); in_solve | apply smem_true_In; in_solve] ]
      end ].
(* goal: smem x l = true *)
Ltac st := apply smem_true_In; in_solve.
