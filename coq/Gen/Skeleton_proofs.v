(* Proofs about the scoping skeletons (C01).  Model: Gen/Skeleton.v. *)
From Coq Require Import Permutation.
From Mk Require Import Lib.Bytes Lib.Dec Lib.Fresh Gen.Alloc Gen.Alloc_proofs Gen.Skeleton.

(* ------------------------------------------------------------------ boolean list facts *)
Lemma smem_app x a b : smem x (a ++ b) = smem x a || smem x b.
Proof. induction a as [|y a IH]; simpl; [reflexivity|]. destruct (seqb x y); [reflexivity | exact IH]. Qed.

Lemma smem_cons x y l : smem x (y :: l) = seqb x y || smem x l.
Proof. simpl. destruct (seqb x y); reflexivity. Qed.

Lemma smem_rev x l : smem x (rev l) = smem x l.
Proof.
  destruct (smem x l) eqn:E.
  - apply smem_In. apply -> in_rev. now apply smem_In.
  - apply smem_false. intros H. apply in_rev in H. apply smem_false in E. contradiction.
Qed.

Lemma smem_true_In x l : In x l -> smem x l = true.
Proof. apply smem_In. Qed.

Lemma seqb_sym a b : seqb a b = seqb b a.
Proof.
  destruct (seqb a b) eqn:E; symmetry.
  - apply seqb_eq in E. subst. apply seqb_refl.
  - apply seqb_neq. apply seqb_neq in E. congruence.
Qed.

Lemma nodupb_NoDup l : nodupb l = true <-> NoDup l.
Proof.
  induction l as [|x l IH]; simpl; [split; [constructor | reflexivity]|].
  rewrite andb_true_iff, negb_true_iff, smem_false, IH. split.
  - intros [H1 H2]. now constructor.
  - intros H. inversion H; subst. tauto.
Qed.

Lemma disjointb_spec a b : disjointb a b = true <-> forall x, In x a -> ~ In x b.
Proof.
  unfold disjointb. rewrite forallb_forall. split; intros H x Hx.
  - specialize (H x Hx). apply negb_true_iff in H. now apply smem_false.
  - apply negb_true_iff, smem_false. now apply H.
Qed.

Lemma disjointb_smem_l a b x : disjointb a b = true -> In x a -> smem x b = false.
Proof. intros H Hx. apply smem_false. eapply disjointb_spec; eauto. Qed.
Lemma disjointb_smem_r a b x : disjointb a b = true -> In x b -> smem x a = false.
Proof. intros H Hx. apply smem_false. intros Ha. eapply disjointb_spec; eauto. Qed.

Lemma disjointb_app_r a b c : disjointb a (b ++ c) = true <-> disjointb a b = true /\ disjointb a c = true.
Proof.
  rewrite !disjointb_spec. split.
  - intros H. split; intros x Hx Hb; apply (H x Hx); apply in_or_app; tauto.
  - intros [H1 H2] x Hx Hb. apply in_app_or in Hb as [Hb|Hb]; [eapply H1 | eapply H2]; eauto.
Qed.
Lemma disjointb_app_l a b c : disjointb (a ++ b) c = true <-> disjointb a c = true /\ disjointb b c = true.
Proof. unfold disjointb. rewrite forallb_app, andb_true_iff. reflexivity. Qed.

Lemma nodupb_app a b : nodupb (a ++ b) = true <-> nodupb a = true /\ nodupb b = true /\ disjointb a b = true.
Proof.
  induction a as [|x a IH].
  - simpl. unfold disjointb; simpl. tauto.
  - change ((x :: a) ++ b) with (x :: (a ++ b)). cbn [nodupb].
    rewrite !andb_true_iff, !negb_true_iff, smem_app, orb_false_iff, IH.
    unfold disjointb; cbn [forallb]. rewrite andb_true_iff, negb_true_iff. tauto.
Qed.

Lemma nodupb_perm a b : Permutation a b -> nodupb a = true -> nodupb b = true.
Proof. intros P H. apply nodupb_NoDup. eapply Permutation_NoDup; [exact P | now apply nodupb_NoDup]. Qed.

(* ------------------------------------------------------------------ the judgement, compositionally *)
Section Judge.
Variable c : fctx.

Lemma wf_item_block outer cur l :
  wf_item c outer cur (IBlock l)
  = match wf_items c (cur :: outer) empty_scope l with Some _ => Some cur | None => None end.
Proof.
  simpl. generalize empty_scope as s. induction l as [|i t IH]; intros s; simpl; [reflexivity|].
  destruct (wf_item c (cur :: outer) s i) as [s'|]; [apply IH | reflexivity].
Qed.

Lemma wf_items_app outer cur a b :
  wf_items c outer cur (a ++ b)
  = match wf_items c outer cur a with Some s => wf_items c outer s b | None => None end.
Proof.
  revert cur; induction a as [|i a IH]; intros cur; simpl; [reflexivity|].
  destruct (wf_item c outer cur i); [apply IH | reflexivity].
Qed.

Lemma wf_items_cons outer cur i l :
  wf_items c outer cur (i :: l)
  = match wf_item c outer cur i with Some s => wf_items c outer s l | None => None end.
Proof. reflexivity. Qed.

Definition is_use_ok (env : list scope) (i : item) : bool :=
  match i with IUse k n => resolve_ok c env k n | _ => false end.

Lemma wf_uses outer cur l :
  forallb (is_use_ok (cur :: outer)) l = true -> wf_items c outer cur l = Some cur.
Proof.
  induction l as [|i l IH]; [reflexivity|]. cbn [forallb]. rewrite andb_true_iff. intros [H1 H2].
  destruct i as [k n| |]; cbn [is_use_ok] in H1; try discriminate.
  cbn [wf_items wf_item]. rewrite H1. now apply IH.
Qed.

Definition add_vars (ns : list str) (s : scope) : scope := {| sv := rev ns ++ sv s; st := st s |}.
Definition add_tys (ns : list str) (s : scope) : scope := {| sv := sv s; st := rev ns ++ st s |}.

Lemma decl_side ty n cur ns :
  smem n ns = false ->
  forallb (fun m => negb (seqb m blank) && negb (has m cur)) ns = true ->
  forallb (fun m => negb (seqb m blank) && negb (has m (declare ty n cur))) ns = true.
Proof.
  intros N1 F2. apply forallb_forall. intros m Hm. rewrite forallb_forall in F2. specialize (F2 m Hm).
  apply andb_true_iff in F2 as [B2 H2]. rewrite B2. cbn [andb].
  apply negb_true_iff in H2. unfold has in H2. apply orb_false_iff in H2 as [H2a H2b].
  assert (seqb m n = false) as E.
  { apply seqb_neq. intros ->. apply smem_false in N1. contradiction. }
  unfold has, declare. destruct ty; cbn [sv st]; rewrite smem_cons, E, H2a, H2b; reflexivity.
Qed.

Lemma wf_dvs outer cur ns :
  nodupb ns = true -> forallb (fun n => negb (seqb n blank) && negb (has n cur)) ns = true ->
  wf_items c outer cur (dvs ns) = Some (add_vars ns cur).
Proof.
  revert cur; induction ns as [|n ns IH]; intros cur ND F.
  - destruct cur; reflexivity.
  - cbn [nodupb] in ND. cbn [forallb] in F.
    apply andb_true_iff in ND as [N1 N2]. apply andb_true_iff in F as [F1 F2].
    apply andb_true_iff in F1 as [B H]. apply negb_true_iff in B, H, N1.
    unfold dvs, dv. cbn [map wf_items wf_item]. rewrite B, H.
    change (map (fun n0 => IDecl false n0) ns) with (dvs ns).
    rewrite IH; [| exact N2 | now apply decl_side].
    unfold add_vars, declare. cbn [sv st rev]. rewrite <- app_assoc. reflexivity.
Qed.

Lemma wf_dts outer cur ns :
  nodupb ns = true -> forallb (fun n => negb (seqb n blank) && negb (has n cur)) ns = true ->
  wf_items c outer cur (map (IDecl true) ns) = Some (add_tys ns cur).
Proof.
  revert cur; induction ns as [|n ns IH]; intros cur ND F.
  - destruct cur; reflexivity.
  - cbn [nodupb] in ND. cbn [forallb] in F.
    apply andb_true_iff in ND as [N1 N2]. apply andb_true_iff in F as [F1 F2].
    apply andb_true_iff in F1 as [B H]. apply negb_true_iff in B, H, N1.
    cbn [map wf_items wf_item]. rewrite B, H.
    rewrite IH; [| exact N2 | now apply decl_side].
    unfold add_tys, declare. cbn [sv st rev]. rewrite <- app_assoc. reflexivity.
Qed.

(* a closed block of field names *)
Lemma wf_fields outer cur ns :
  nodupb ns = true -> forallb (fun n => negb (seqb n blank)) ns = true ->
  wf_item c outer cur (fields ns) = Some cur.
Proof.
  intros ND NB. unfold fields. rewrite wf_item_block, wf_dvs; [reflexivity | exact ND |].
  apply forallb_forall. intros n Hn. rewrite forallb_forall in NB. rewrite (NB n Hn). reflexivity.
Qed.
End Judge.

(* ------------------------------------------------------------------ resolution *)
Fixpoint free (n : str) (env : list scope) : bool :=
  match env with [] => true | s :: r => negb (has n s) && free n r end.
(* a variable of the outermost block, not redeclared inside *)
Fixpoint var0 (n : str) (env : list scope) : bool :=
  match env with
  | [] => false
  | s :: r => match r with [] => smem n (sv s) | _ => negb (has n s) && var0 n r end
  end.
(* a type parameter (of the outermost block), not shadowed *)
Fixpoint ty0 (n : str) (env : list scope) : bool :=
  match env with
  | [] => false
  | s :: r => match r with [] => negb (smem n (sv s)) && smem n (st s) | _ => negb (has n s) && ty0 n r end
  end.
(* some variable: the innermost binding of n is a variable *)
Fixpoint varany (n : str) (env : list scope) : bool :=
  match env with
  | [] => false
  | s :: r => smem n (sv s) || (negb (smem n (st s)) && varany n r)
  end.

Lemma lookup_free n env : free n env = true -> lookup n env = None.
Proof.
  induction env as [|s r IH]; [reflexivity|]. cbn [free lookup]. unfold has.
  rewrite andb_true_iff, negb_true_iff, orb_false_iff. intros [[-> ->] H]. now apply IH.
Qed.
Lemma lookup_var0 n env : var0 n env = true -> lookup n env = Some (false, true).
Proof.
  induction env as [|s r IH]; [discriminate|]. cbn [var0 lookup]. destruct r as [|s' r'].
  - intros ->. reflexivity.
  - unfold has. rewrite andb_true_iff, negb_true_iff, orb_false_iff. intros [[-> ->] H]. now apply IH.
Qed.
Lemma lookup_ty0 n env : ty0 n env = true -> lookup n env = Some (true, true).
Proof.
  induction env as [|s r IH]; [discriminate|]. cbn [ty0 lookup]. destruct r as [|s' r'].
  - rewrite andb_true_iff, negb_true_iff. intros [-> ->]. reflexivity.
  - unfold has. rewrite andb_true_iff, negb_true_iff, orb_false_iff. intros [[-> ->] H]. now apply IH.
Qed.
Lemma lookup_varany n env : varany n env = true -> exists o, lookup n env = Some (false, o).
Proof.
  induction env as [|s r IH]; [discriminate|]. cbn [varany lookup].
  destruct (smem n (sv s)); [eauto|]. cbn [orb]. rewrite andb_true_iff, negb_true_iff. intros [-> H]. now apply IH.
Qed.

Section Resolve.
Variable c : fctx.
Lemma res_qual env n : free n env = true -> smem n (c_quals c) = true -> resolve_ok c env KQual n = true.
Proof. intros F Q. unfold resolve_ok. now rewrite (lookup_free _ _ F). Qed.
Lemma res_top env n : free n env = true -> smem n (c_filetypes c) = true -> resolve_ok c env KTopType n = true.
Proof. intros F Q. unfold resolve_ok. now rewrite (lookup_free _ _ F). Qed.
Lemma res_pkgtype env n : free n env = true -> pkg_type_ok c n = true -> resolve_ok c env KPkgType n = true.
Proof. intros F Q. unfold resolve_ok. now rewrite (lookup_free _ _ F). Qed.
Lemma res_pkgcon env n : free n env = true -> pkg_type_ok c n || seqb n comparable_ = true ->
  resolve_ok c env KPkgCon n = true.
Proof. intros F Q. unfold resolve_ok. now rewrite (lookup_free _ _ F). Qed.
Lemma res_builtin env n : free n env = true ->
  smem n universe_vals && negb (smem n (c_vals c)) && negb (smem n (c_types c)) && negb (smem n (c_quals c)) = true ->
  resolve_ok c env KBuiltin n = true.
Proof. intros F Q. unfold resolve_ok. now rewrite (lookup_free _ _ F). Qed.
Lemma res_tparam env n : ty0 n env = true -> resolve_ok c env KTParam n = true.
Proof. intros F. unfold resolve_ok. now rewrite (lookup_ty0 _ _ F). Qed.
Lemma res_tparamc env n : ty0 n env = true -> resolve_ok c env KTParamC n = true.
Proof. intros F. unfold resolve_ok. now rewrite (lookup_ty0 _ _ F). Qed.
Lemma res_var0 env n o : var0 n env = true -> resolve_ok c env (KVar o) n = true.
Proof. intros F. unfold resolve_ok. rewrite (lookup_var0 _ _ F). now destruct o. Qed.
Lemma res_varany env n : varany n env = true -> resolve_ok c env (KVar false) n = true.
Proof. intros F. unfold resolve_ok. destruct (lookup_varany _ _ F) as [o ->]. reflexivity. Qed.
End Resolve.

(* ------------------------------------------------------------------ environments of template functions *)
(* In the functions the templates emit, type parameters are bound only in the outermost block.  Then
   resolution is a matter of membership in flat lists. *)
Definition vars_of (env : list scope) : list str := flat_map sv env.
Fixpoint tys_ok (T : list str) (env : list scope) : bool :=
  match env with
  | [] => false
  | s :: r => match r with
              | [] => forallb (fun n => smem n T) (st s) && forallb (fun n => smem n (st s)) T
              | _ => match st s with [] => tys_ok T r | _ => false end
              end
  end.

Lemma tys_ok_push T s env : st s = [] -> env <> [] -> tys_ok T (s :: env) = tys_ok T env.
Proof. intros E N. destruct env; [congruence|]. cbn [tys_ok]. now rewrite E. Qed.

Lemma free_of T env n :
  tys_ok T env = true -> smem n (vars_of env) = false -> smem n T = false -> free n env = true.
Proof.
  induction env as [|s r IH]; [reflexivity|]. cbn [tys_ok vars_of flat_map free]. fold (vars_of r).
  rewrite smem_app, orb_false_iff. intros K [V1 V2] NT. destruct r as [|s' r'].
  - apply andb_true_iff in K as [K1 K2]. unfold has. rewrite V1. cbn [orb free].
    destruct (smem n (st s)) eqn:E; [|reflexivity].
    rewrite forallb_forall in K1. apply smem_In in E. specialize (K1 n E). congruence.
  - destruct (st s) eqn:E; [|discriminate]. unfold has. rewrite V1, E. cbn [smem orb negb andb].
    now apply IH.
Qed.

Lemma ty0_of T env n :
  tys_ok T env = true -> smem n (vars_of env) = false -> smem n T = true -> ty0 n env = true.
Proof.
  induction env as [|s r IH]; [discriminate|]. cbn [tys_ok vars_of flat_map ty0]. fold (vars_of r).
  rewrite smem_app, orb_false_iff. intros K [V1 V2] NT. destruct r as [|s' r'].
  - apply andb_true_iff in K as [K1 K2]. rewrite V1. cbn [negb andb].
    rewrite forallb_forall in K2. apply smem_In in NT. exact (K2 n NT).
  - destruct (st s) eqn:E; [|discriminate]. unfold has. rewrite V1, E. cbn [smem orb negb andb].
    now apply IH.
Qed.

Lemma varany_of T env n : tys_ok T env = true -> smem n (vars_of env) = true -> varany n env = true.
Proof.
  induction env as [|s r IH]; [discriminate|]. cbn [tys_ok vars_of flat_map varany]. fold (vars_of r).
  rewrite smem_app. intros K V. destruct (smem n (sv s)) eqn:E; [reflexivity|]. cbn [orb] in *.
  destruct r as [|s' r']; [cbn [vars_of flat_map smem] in V; discriminate|].
  destruct (st s) eqn:E2; [|discriminate]. cbn [smem negb andb]. now apply IH.
Qed.

(* env = inner ++ [s0] *)
Lemma var0_of T inner s0 n :
  tys_ok T (inner ++ [s0]) = true -> smem n (vars_of inner) = false -> smem n (sv s0) = true ->
  var0 n (inner ++ [s0]) = true.
Proof.
  induction inner as [|s r IH]; intros K V H; [exact H|].
  cbn [app tys_ok vars_of flat_map var0] in *. fold (vars_of r) in V.
  rewrite smem_app, orb_false_iff in V. destruct V as [V1 V2].
  destruct (r ++ [s0]) as [|x y] eqn:E; [destruct r; discriminate|].
  destruct (st s) eqn:E2; [|discriminate]. unfold has. rewrite V1, E2. cbn [smem orb negb andb].
  now apply IH.
Qed.

Section Pieces.
Variable c : fctx.

Lemma wf_use_ok outer cur k n l :
  resolve_ok c (cur :: outer) k n = true ->
  wf_items c outer cur (IUse k n :: l) = wf_items c outer cur l.
Proof. intros H. cbn [wf_items wf_item]. now rewrite H. Qed.

Lemma wf_decl_ok outer cur ty n l :
  seqb n blank = false -> has n cur = false ->
  wf_items c outer cur (IDecl ty n :: l) = wf_items c outer (declare ty n cur) l.
Proof. intros B H. cbn [wf_items wf_item]. now rewrite B, H. Qed.

Lemma wf_block_ok outer cur b l s' :
  wf_items c (cur :: outer) empty_scope b = Some s' ->
  wf_items c outer cur (IBlock b :: l) = wf_items c outer cur l.
Proof. intros H. rewrite wf_items_cons, wf_item_block, H. reflexivity. Qed.

Definition decl_names (l : list item) : list str :=
  flat_map (fun i => match i with IDecl _ n => [n] | _ => [] end) l.
Lemma decl_names_dvs ns : decl_names (dvs ns) = ns.
Proof. induction ns as [|x ns IH]; [reflexivity|]. unfold decl_names, dvs in *. cbn [map flat_map app]. now rewrite IH. Qed.

Lemma fields_as_dvs fs :
  field_block_ok fs = true ->
  exists ns, fs = dvs ns /\ nodupb ns = true /\ forallb (fun n => negb (seqb n blank)) ns = true.
Proof.
  unfold field_block_ok. fold (decl_names fs). rewrite andb_true_iff. intros [F N].
  induction fs as [|i fs IH].
  - exists []. repeat split.
  - cbn [forallb] in F. apply andb_true_iff in F as [F1 F2].
    destruct i as [| [|] n |]; try discriminate.
    change (decl_names (IDecl false n :: fs)) with (n :: decl_names fs) in N.
    cbn [nodupb] in N. apply andb_true_iff in N as [N1 N2].
    destruct (IH F2 N2) as (ns & E & ND & NB). subst fs. rewrite decl_names_dvs in N1.
    exists (n :: ns). repeat split.
    + cbn [nodupb]. now rewrite N1, ND.
    + cbn [forallb]. now rewrite F1, NB.
Qed.

Lemma wf_field_block outer cur fs l :
  field_block_ok fs = true -> wf_items c outer cur (IBlock fs :: l) = wf_items c outer cur l.
Proof.
  intros F. destruct (fields_as_dvs fs F) as (ns & -> & ND & NB).
  eapply wf_block_ok. apply wf_dvs; [exact ND|].
  apply forallb_forall. intros n Hn. rewrite forallb_forall in NB. now rewrite (NB n Hn).
Qed.

(* a rendered type in an environment that binds none of its identifiers, except the type parameters *)
Lemma wf_intent T tps outer cur ty :
  T = map torig tps ->
  types_known c tps ty = true ->
  tys_ok T (cur :: outer) = true ->
  disjointb (ty_idents ty) (vars_of (cur :: outer)) = true ->
  wf_items c outer cur (intent tps ty) = Some cur.
Proof.
  intros -> K TO D. unfold ty_idents in D. apply disjointb_app_l in D as [DQ DB].
  induction ty as [|i ty IH]; [reflexivity|].
  unfold types_known in K. cbn [forallb] in K. apply andb_true_iff in K as [K1 K2].
  assert (disjointb (ty_quals ty) (vars_of (cur :: outer)) = true /\
          disjointb (ty_bares ty) (vars_of (cur :: outer)) = true) as [DQ' DB'].
  { unfold ty_quals, ty_bares in *. cbn [flat_map] in DQ, DB.
    apply disjointb_app_l in DQ as [_ DQ]. apply disjointb_app_l in DB as [_ DB]. now split. }
  specialize (IH K2 DQ' DB').
  unfold intent in *. cbn [map].
  destruct i as [k n| |fs]; try discriminate.
  - assert (smem n (vars_of (cur :: outer)) = false) as NV.
    { destruct k; try discriminate; unfold ty_quals, ty_bares in DQ, DB; cbn [flat_map app] in DQ, DB.
      - unfold disjointb in DQ. cbn [forallb] in DQ. apply andb_true_iff in DQ as [DQ _]. now apply negb_true_iff in DQ.
      - unfold disjointb in DB. cbn [forallb] in DB. apply andb_true_iff in DB as [DB _]. now apply negb_true_iff in DB.
      - unfold disjointb in DB. cbn [forallb] in DB. apply andb_true_iff in DB as [DB _]. now apply negb_true_iff in DB. }
    destruct k; try discriminate; cbn [ty_item_known] in K1.
    + apply andb_true_iff in K1 as [Q NT]. apply negb_true_iff in NT.
      rewrite wf_use_ok; [exact IH|]. apply res_qual; [|exact Q]. eapply free_of; eauto.
    + destruct (smem n (map torig tps)) eqn:E.
      * rewrite wf_use_ok; [exact IH|]. apply res_tparam. eapply ty0_of; eauto.
      * cbn [orb] in K1. rewrite wf_use_ok; [exact IH|]. apply res_pkgtype; [|exact K1]. eapply free_of; eauto.
    + destruct (smem n (map torig tps)) eqn:E.
      * rewrite wf_use_ok; [exact IH|]. apply res_tparamc. eapply ty0_of; eauto.
      * cbn [orb] in K1. rewrite wf_use_ok; [exact IH|]. apply res_pkgcon; [|exact K1]. eapply free_of; eauto.
  - cbn [ty_item_known] in K1. rewrite wf_field_block; [exact IH | exact K1].
Qed.
End Pieces.

Lemma var0_of' T env n :
  tys_ok T env = true -> smem n (vars_of (removelast env)) = false ->
  smem n (sv (last env empty_scope)) = true -> var0 n env = true.
Proof.
  intros K V H. assert (env <> []) as NE by (destruct env; [discriminate | congruence]).
  rewrite (app_removelast_last empty_scope NE) in K |- *. eapply var0_of; eauto.
Qed.

Section Uses.
Variable c : fctx.
Variable T : list str.

Lemma use_var0 outer cur o n l :
  tys_ok T (cur :: outer) = true ->
  smem n (vars_of (removelast (cur :: outer))) = false ->
  smem n (sv (last (cur :: outer) empty_scope)) = true ->
  wf_items c outer cur (IUse (KVar o) n :: l) = wf_items c outer cur l.
Proof. intros K V H. apply wf_use_ok, res_var0. eapply var0_of'; eauto. Qed.

Lemma use_varany outer cur n l :
  tys_ok T (cur :: outer) = true -> smem n (vars_of (cur :: outer)) = true ->
  wf_items c outer cur (IUse (KVar false) n :: l) = wf_items c outer cur l.
Proof. intros K V. apply wf_use_ok, res_varany. eapply varany_of; eauto. Qed.

Lemma use_builtin outer cur n l :
  tys_ok T (cur :: outer) = true -> smem n (vars_of (cur :: outer)) = false -> smem n T = false ->
  smem n universe_vals && negb (smem n (c_vals c)) && negb (smem n (c_types c)) && negb (smem n (c_quals c)) = true ->
  wf_items c outer cur (IUse KBuiltin n :: l) = wf_items c outer cur l.
Proof. intros K V NT F. apply wf_use_ok, res_builtin; [eapply free_of; eauto | exact F]. Qed.

Lemma use_qual outer cur n l :
  tys_ok T (cur :: outer) = true -> smem n (vars_of (cur :: outer)) = false -> smem n T = false ->
  smem n (c_quals c) = true ->
  wf_items c outer cur (IUse KQual n :: l) = wf_items c outer cur l.
Proof. intros K V NT F. apply wf_use_ok, res_qual; [eapply free_of; eauto | exact F]. Qed.

Lemma use_top outer cur n l :
  tys_ok T (cur :: outer) = true -> smem n (vars_of (cur :: outer)) = false -> smem n T = false ->
  smem n (c_filetypes c) = true ->
  wf_items c outer cur (IUse KTopType n :: l) = wf_items c outer cur l.
Proof. intros K V NT F. apply wf_use_ok, res_top; [eapply free_of; eauto | exact F]. Qed.

Lemma use_pkgtype outer cur n l :
  tys_ok T (cur :: outer) = true -> smem n (vars_of (cur :: outer)) = false -> smem n T = false ->
  pkg_type_ok c n = true ->
  wf_items c outer cur (IUse KPkgType n :: l) = wf_items c outer cur l.
Proof. intros K V NT F. apply wf_use_ok, res_pkgtype; [eapply free_of; eauto | exact F]. Qed.

Lemma use_tparams outer cur ns l :
  tys_ok T (cur :: outer) = true ->
  forallb (fun n => negb (smem n (vars_of (cur :: outer))) && smem n T) ns = true ->
  wf_items c outer cur (map (IUse KTParam) ns ++ l) = wf_items c outer cur l.
Proof.
  intros K F. induction ns as [|n ns IH]; [reflexivity|]. cbn [forallb] in F.
  apply andb_true_iff in F as [F1 F2]. apply andb_true_iff in F1 as [V NT]. apply negb_true_iff in V.
  cbn [map app]. rewrite wf_use_ok; [now apply IH|]. apply res_tparam. eapply ty0_of; eauto.
Qed.

Lemma use_vars0 outer cur o ns l :
  tys_ok T (cur :: outer) = true ->
  forallb (fun n => negb (smem n (vars_of (removelast (cur :: outer)))) && smem n (sv (last (cur :: outer) empty_scope))) ns = true ->
  wf_items c outer cur (uvs o ns ++ l) = wf_items c outer cur l.
Proof.
  intros K F. induction ns as [|n ns IH]; [reflexivity|]. cbn [forallb] in F.
  apply andb_true_iff in F as [F1 F2]. apply andb_true_iff in F1 as [V H]. apply negb_true_iff in V.
  unfold uvs, uv in *. cbn [map app]. rewrite use_var0; auto.
Qed.

Lemma use_varsany outer cur ns l :
  tys_ok T (cur :: outer) = true ->
  forallb (fun n => smem n (vars_of (cur :: outer))) ns = true ->
  wf_items c outer cur (uvs false ns ++ l) = wf_items c outer cur l.
Proof.
  intros K F. induction ns as [|n ns IH]; [reflexivity|]. cbn [forallb] in F.
  apply andb_true_iff in F as [F1 F2]. unfold uvs, uv in *. cbn [map app]. rewrite use_varany; auto.
Qed.

Lemma decl_vars outer cur ns l :
  nodupb ns = true -> forallb (fun n => negb (seqb n blank) && negb (has n cur)) ns = true ->
  wf_items c outer cur (dvs ns ++ l) = wf_items c outer (add_vars ns cur) l.
Proof. intros ND F. rewrite wf_items_app, (wf_dvs c outer cur ns ND F). reflexivity. Qed.

Lemma decl_tys outer cur ns l :
  nodupb ns = true -> forallb (fun n => negb (seqb n blank) && negb (has n cur)) ns = true ->
  wf_items c outer cur (map (IDecl true) ns ++ l) = wf_items c outer (add_tys ns cur) l.
Proof. intros ND F. rewrite wf_items_app, (wf_dts c outer cur ns ND F). reflexivity. Qed.

Lemma use_types tps outer cur {A} (proj : A -> tyitems) (xs : list A) l :
  T = map torig tps ->
  forallb (fun x => types_known c tps (proj x)) xs = true ->
  tys_ok T (cur :: outer) = true ->
  disjointb (flat_map (fun x => ty_idents (proj x)) xs) (vars_of (cur :: outer)) = true ->
  wf_items c outer cur (flat_map (fun x => intent tps (proj x)) xs ++ l) = wf_items c outer cur l.
Proof.
  intros ET K TO D. induction xs as [|x xs IH]; [reflexivity|].
  cbn [forallb flat_map] in *. apply andb_true_iff in K as [K1 K2]. apply disjointb_app_l in D as [D1 D2].
  rewrite <- app_assoc, wf_items_app, (wf_intent c T tps outer cur (proj x) ET K1 TO D1). now apply IH.
Qed.

Lemma use_type tps outer cur ty l :
  T = map torig tps -> types_known c tps ty = true -> tys_ok T (cur :: outer) = true ->
  disjointb (ty_idents ty) (vars_of (cur :: outer)) = true ->
  wf_items c outer cur (intent tps ty ++ l) = wf_items c outer cur l.
Proof. intros ET K TO D. rewrite wf_items_app, (wf_intent c T tps outer cur ty ET K TO D). reflexivity. Qed.
End Uses.

(* ------------------------------------------------------------------ tactics *)
Lemma smem_sub x big small :
  smem x big = false -> forallb (fun y => smem y big) small = true -> smem x small = false.
Proof.
  intros H F. apply smem_false. intros Hx. rewrite forallb_forall in F. specialize (F x Hx). congruence.
Qed.
Lemma smem_incl x big small : smem x big = false -> incl small big -> smem x small = false.
Proof. intros H I. apply smem_false. intros Hx. apply smem_false in H. apply H, I, Hx. Qed.
Lemma seqb_of_smem x y l : smem x l = false -> smem y l = true -> seqb x y = false.
Proof.
  intros H1 H2. apply seqb_neq. intros ->. congruence.
Qed.
Lemma smem_cons_false x y l : seqb x y = false -> smem x l = false -> smem x (y :: l) = false.
Proof. intros H1 H2. now rewrite smem_cons, H1, H2. Qed.
Lemma smem_app_false x a b : smem x a = false -> smem x b = false -> smem x (a ++ b) = false.
Proof. intros H1 H2. now rewrite smem_app, H1, H2. Qed.

Ltac in_solve :=
  lazymatch goal with
  | |- In _ (_ :: _) => first [left; reflexivity | right; in_solve]
  | |- In _ (_ ++ _) => apply in_or_app; first [left; in_solve | right; in_solve]
  | |- In _ (rev _) => apply -> in_rev; in_solve
  | |- In _ ?l => first [ assumption
                        | apply smem_In; reflexivity
                        | let l' := eval hnf in l in (progress change l with l'); in_solve ]
  end.

(* goal: smem x l = false *)
Ltac sf :=
  first
    [ assumption
    | reflexivity
    | apply smem_app_false; sf
    | rewrite smem_rev; sf
    | apply smem_cons_false; [sq | sf]
    | match goal with
      | H : disjointb ?a ?l = true |- smem ?x ?l = false => apply (disjointb_smem_l a l x H); in_solve
      | H : disjointb ?l ?b = true |- smem ?x ?l = false => apply (disjointb_smem_r l b x H); in_solve
      | H : disjointb ?a ?b = true |- smem ?x ?l = false =>
        first [ apply (smem_sub x b l); [apply (disjointb_smem_l a b x H); in_solve | reflexivity]
              | apply (smem_sub x a l); [apply (disjointb_smem_r a b x H); in_solve | reflexivity]
              | apply (smem_incl x b l); [apply (disjointb_smem_l a b x H); in_solve | intros ? ?; in_solve]
              | apply (smem_incl x a l); [apply (disjointb_smem_r a b x H); in_solve | intros ? ?; in_solve] ]
      | H : smem ?x ?big = false |- smem ?x ?l = false => apply (smem_sub x big l H); reflexivity
      end ]
with sq :=
  first
    [ assumption
    | reflexivity
    | rewrite seqb_sym; assumption
    | match goal with
      | H : smem ?x ?l = false |- seqb ?x ?y = false => apply (seqb_of_smem x y l H); apply smem_true_In; in_solve
      | H : smem ?y ?l = false |- seqb ?x ?y = false => rewrite seqb_sym; apply (seqb_of_smem y x l H); apply smem_true_In; in_solve
      | H : disjointb ?a ?b = true |- seqb ?x ?y = false =>
        first [ apply (seqb_of_smem x y b); [apply (disjointb_smem_l a b x H); in_solve | apply smem_true_In; in_solve]
              | apply (seqb_of_smem x y a); [apply (disjointb_smem_r a b x H); in_solve | apply smem_true_In; in_solve]
              | rewrite seqb_sym; apply (seqb_of_smem y x b); [apply (disjointb_smem_l a b y H); in_solve | apply smem_true_In; in_solve]
              | rewrite seqb_sym; apply (seqb_of_smem y x a); [apply (disjointb_smem_r a b y H); in_solve | apply smem_true_In; in_solve] ]
      end ].
(* goal: smem x l = true *)
Ltac st := apply smem_true_In; in_solve.

(* ================================================================== matryer *)
Lemma tp_binders_eq tps : tp_binders tps = map (IDecl true) (map tdecl tps).
Proof. unfold tp_binders. now rewrite map_map. Qed.
Lemma tp_inst_eq tps : tp_inst tps = map (IUse KTParam) (map tdecl tps).
Proof. unfold tp_inst. now rewrite map_map. Qed.
Lemma g_tparams_eq tps : g_tparams tps = true -> map tdecl tps = map torig tps.
Proof.
  unfold g_tparams. induction tps as [|t tps IH]; [reflexivity|]. cbn [forallb map].
  rewrite andb_true_iff. intros [E F]. apply seqb_eq in E. now rewrite E, IH.
Qed.

Lemma forallb_impl {A} (p q : A -> bool) l :
  (forall x, In x l -> p x = true -> q x = true) -> forallb p l = true -> forallb q l = true.
Proof. rewrite !forallb_forall. auto. Qed.

Lemma names_ok_nb ns n : names_ok ns = true -> In n ns -> seqb n blank = false.
Proof.
  unfold names_ok. rewrite andb_true_iff, forallb_forall. intros [_ F] H. apply negb_true_iff. auto.
Qed.
Lemma names_ok_nd ns : names_ok ns = true -> nodupb ns = true.
Proof. unfold names_ok. rewrite andb_true_iff. tauto. Qed.

(* the scope after the type parameter binders *)
Definition s_tp (T : list str) : scope := add_tys T empty_scope.
Lemma tys_ok_tp T : tys_ok T [s_tp T] = true.
Proof.
  cbn [tys_ok s_tp add_tys st empty_scope]. rewrite app_nil_r. apply andb_true_iff.
  split; apply forallb_forall; intros n H; apply smem_In.
  - apply in_rev. exact H.
  - apply in_rev in H. exact H.
Qed.

Lemma builtin_ok c n : d_builtins c = true -> In n builtins ->
  smem n universe_vals && negb (smem n (c_vals c)) && negb (smem n (c_types c)) && negb (smem n (c_quals c)) = true.
Proof. unfold d_builtins. rewrite forallb_forall. auto. Qed.

Lemma disjointb_sym a b : disjointb a b = true -> disjointb b a = true.
Proof. rewrite !disjointb_spec. intros H x Hx Ha. exact (H x Ha Hx). Qed.
Lemma disjointb_sub_l a a' b : disjointb a b = true -> incl a' a -> disjointb a' b = true.
Proof. rewrite !disjointb_spec. intros H I x Hx. apply H, I, Hx. Qed.
Lemma disjointb_sub_r a b b' : disjointb a b = true -> incl b' b -> disjointb a b' = true.
Proof. rewrite !disjointb_spec. intros H I x Hx Hb. exact (H x Hx (I x Hb)). Qed.

Lemma disjointb_nil_r a : disjointb a [] = true.
Proof. apply disjointb_spec. intros x _ []. Qed.
Lemma disjointb_nil_l a : disjointb [] a = true.
Proof. reflexivity. Qed.
Lemma disjointb_rev_r a b : disjointb a b = true -> disjointb a (rev b) = true.
Proof. rewrite !disjointb_spec. intros H x Hx Hb. apply in_rev in Hb. exact (H x Hx Hb). Qed.
Lemma disjointb_rev_l a b : disjointb a b = true -> disjointb (rev a) b = true.
Proof. rewrite !disjointb_spec. intros H x Hx. apply in_rev in Hx. exact (H x Hx). Qed.
Lemma disjointb_cons_r a y l : smem y a = false -> disjointb a l = true -> disjointb a (y :: l) = true.
Proof.
  rewrite !disjointb_spec. intros H1 H2 x Hx [->|Hl]; [apply smem_false in H1; contradiction | exact (H2 x Hx Hl)].
Qed.
Lemma disjointb_cons_l y a b : smem y b = false -> disjointb a b = true -> disjointb (y :: a) b = true.
Proof. intros H1 H2. unfold disjointb in *. cbn [forallb]. now rewrite H1, H2. Qed.

Lemma tys_ok_inner T s env : st s = [] -> tys_ok T env = true -> tys_ok T (s :: env) = true.
Proof. intros E K. destruct env; [discriminate|]. cbn [tys_ok]. now rewrite E. Qed.
Lemma tys_ok_same_st T s s' : st s = st s' -> tys_ok T [s'] = true -> tys_ok T [s] = true.
Proof. cbn [tys_ok]. now intros ->. Qed.

Ltac incl_solve := let x := fresh "x" in let H := fresh "H" in intros x H; in_solve.

Ltac tysok :=
  repeat (apply tys_ok_inner; [reflexivity|]);
  match goal with |- tys_ok ?T [_] = true => apply (tys_ok_same_st T _ (s_tp T)); [reflexivity | apply tys_ok_tp] end.

Ltac dj :=
  first
    [ assumption
    | apply disjointb_sym; assumption
    | apply disjointb_nil_r
    | apply disjointb_nil_l
    | apply disjointb_app_r; split; dj
    | apply disjointb_app_l; split; dj
    | apply disjointb_rev_r; dj
    | apply disjointb_rev_l; dj
    | apply disjointb_cons_r; [sf | dj]
    | apply disjointb_cons_l; [sf | dj]
    | match goal with
      | H : disjointb ?a ?b = true |- disjointb ?a ?b' = true => apply (disjointb_sub_r a b b' H); incl_solve
      | H : disjointb ?a ?b = true |- disjointb ?a' ?b = true => apply (disjointb_sub_l a a' b H); incl_solve
      | H : disjointb ?b ?a = true |- disjointb ?a ?b' = true => apply disjointb_sym; apply (disjointb_sub_l b b' a H); incl_solve
      | H : disjointb ?b ?a = true |- disjointb ?a' ?b = true => apply disjointb_sym; apply (disjointb_sub_r b a a' H); incl_solve
      end ].

Ltac envc := cbn [vars_of flat_map sv st declare add_vars add_tys s_tp empty_scope app removelast last rev].

Lemma use_fields c outer cur ns l :
  names_ok ns = true -> wf_items c outer cur (fields ns :: l) = wf_items c outer cur l.
Proof.
  intros N. unfold fields. eapply wf_block_ok. apply wf_dvs; [exact (names_ok_nd _ N)|].
  apply forallb_forall. intros n Hn. now rewrite (names_ok_nb _ _ N Hn).
Qed.

Ltac uvar0 c T := unfold uv at 1; rewrite (use_var0 c T); [| tysok | envc; sf | envc; st].
Ltac uvarany c T := unfold uv at 1; rewrite (use_varany c T); [| tysok | envc; st].
Ltac ubuiltin c T HB := unfold ub at 1; rewrite (use_builtin c T); [| tysok | envc; sf | sf | apply builtin_ok; [exact HB | in_solve]].
Ltac ddecl := unfold dv at 1; rewrite wf_decl_ok; [| reflexivity | unfold has; envc; apply orb_false_iff; split; sf].

(* side conditions of the group lemmas *)
Ltac each := apply forallb_forall; let x := fresh "x" in let Hx := fresh "Hx" in intros x Hx.

Lemma d_method_parts c tps m : d_method c tps m = true ->
  names_ok (pnames (mps m)) = true /\ names_ok (rnames (mrs m)) = true /\ names_ok (pexps (mps m)) = true /\
  forallb (fun p => types_known c tps (pty p)) (mps m) = true /\
  forallb (fun r => types_known c tps (rty r)) (mrs m) = true /\
  forallb (fun n => smem n (mvisible m)) (pnames (mps m)) = true /\ d_tf_names m = true.
Proof. unfold d_method. rewrite !andb_true_iff. tauto. Qed.

Lemma tys_ok_declare T n cur outer : tys_ok T (declare false n cur :: outer) = tys_ok T (cur :: outer).
Proof. destruct outer; reflexivity. Qed.

Lemma add_vars_cons n ns s : add_vars ns (declare false n s) = add_vars (n :: ns) s.
Proof. unfold add_vars, declare. cbn [sv st rev]. now rewrite <- app_assoc. Qed.

Section SeqDecls.
Variables (c : fctx) (T : list str) (tps : list tpdata).
Hypothesis ET : T = map torig tps.
Context {A : Type} (ty : A -> tyitems) (nm : A -> str).
(* var ( a A; b B ): declarations in sequence, every type after the earlier names *)
Lemma seq_decls outer xs : forall cur l,
  names_ok (map nm xs) = true ->
  forallb (fun n => negb (has n cur)) (map nm xs) = true ->
  forallb (fun x => types_known c tps (ty x)) xs = true ->
  tys_ok T (cur :: outer) = true ->
  disjointb (flat_map (fun x => ty_idents (ty x)) xs) (vars_of (cur :: outer) ++ map nm xs) = true ->
  wf_items c outer cur (flat_map (fun x => intent tps (ty x) ++ [dv (nm x)]) xs ++ l)
  = wf_items c outer (add_vars (map nm xs) cur) l.
Proof.
  induction xs as [|r rs IH]; intros cur l N H K TO D.
  - destruct cur; reflexivity.
  - cbn [flat_map map forallb] in *.
    unfold names_ok in N. cbn [nodupb forallb] in N. apply andb_true_iff in N as [N1 N2].
    apply andb_true_iff in N1 as [N1a N1b]. apply andb_true_iff in N2 as [N2a N2b].
    apply andb_true_iff in H as [H1 H2]. apply andb_true_iff in K as [K1 K2].
    apply disjointb_app_l in D as [D1 D2]. apply negb_true_iff in N1a, N2a, H1.
    rewrite <- !app_assoc.
    apply disjointb_app_r in D1 as [D1a D1b].
    rewrite (use_type c T tps outer cur (ty r)); [| exact ET | exact K1 | exact TO | exact D1a].
    cbn [app]. unfold dv at 1. rewrite wf_decl_ok; [| exact N2a | exact H1].
    rewrite IH.
    + now rewrite add_vars_cons.
    + unfold names_ok. now rewrite N1b, N2b.
    + apply forallb_forall. intros x Hx. rewrite forallb_forall in H2. specialize (H2 x Hx).
      apply negb_true_iff in H2. apply negb_true_iff. unfold has in *. unfold declare. cbn [sv st].
      apply orb_false_iff in H2 as [H2a H2b]. rewrite smem_cons, H2a, H2b.
      assert (seqb x (nm r) = false) as ->; [|reflexivity].
      apply seqb_neq. intros ->. apply smem_false in N1a. contradiction.
    + exact K2.
    + rewrite tys_ok_declare. exact TO.
    + apply disjointb_app_r in D2 as [D2a D2b]. apply disjointb_app_r. split.
      * cbn [vars_of flat_map declare sv app]. fold (vars_of outer).
        apply disjointb_cons_r.
        -- unfold disjointb in D2b. apply smem_false. intros Hin.
           rewrite forallb_forall in D2b. specialize (D2b _ Hin). cbn [smem] in D2b. now rewrite seqb_refl in D2b.
        -- exact D2a.
      * apply (disjointb_sub_r _ _ _ D2b). intros x Hx. now right.
Qed.
End SeqDecls.

Section SeqResults.
Variables (c : fctx) (T : list str) (tps : list tpdata).
Hypothesis ET : T = map torig tps.
Lemma seq_results outer rs cur l :
  names_ok (rnames rs) = true ->
  forallb (fun n => negb (has n cur)) (rnames rs) = true ->
  forallb (fun r => types_known c tps (rty r)) rs = true ->
  tys_ok T (cur :: outer) = true ->
  disjointb (flat_map (fun r => ty_idents (rty r)) rs) (vars_of (cur :: outer) ++ rnames rs) = true ->
  wf_items c outer cur (flat_map (fun r => intent tps (rty r) ++ [dv (rn r)]) rs ++ l)
  = wf_items c outer (add_vars (rnames rs) cur) l.
Proof. apply (seq_decls c T tps ET rty rn). Qed.
End SeqResults.

Section MatryerTops.
Variables (c : fctx) (o : mopts) (tps : list tpdata) (S : str).
Let T := map tdecl tps.
Hypothesis HTe : map tdecl tps = map torig tps.
Hypothesis HTn : names_ok T = true.
Hypothesis HB : d_builtins c = true.
Hypothesis HS : smem S (c_filetypes c) = true.
Hypothesis HTids : disjointb (tp_idents tps) (mt_vars ++ builtins ++ [S]) = true.

Section Method.
Variable m : mdata.
Let P := pnames (mps m).
Let R := rnames (mrs m).
Hypothesis HD : d_method c tps m = true.
Hypothesis HC : g_capture tps m = true.
Hypothesis HP : g_mt_params m = true.
Hypothesis HF : g_mt_fields m = true.
Hypothesis HT : g_mt_types S tps m = true.

Lemma mt_method_facts :
  names_ok P = true /\ names_ok R = true /\ names_ok (pexps (mps m)) = true /\
  forallb (fun p => types_known c tps (pty p)) (mps m) = true /\
  forallb (fun r => types_known c tps (rty r)) (mrs m) = true /\
  disjointb P (flat_map (fun p => ty_idents (pty p)) (mps m)) = true /\
  disjointb P (flat_map (fun r => ty_idents (rty r)) (mrs m)) = true /\
  disjointb P T = true /\
  disjointb R (flat_map (fun p => ty_idents (pty p)) (mps m)) = true /\
  disjointb R (flat_map (fun r => ty_idents (rty r)) (mrs m)) = true /\
  disjointb R T = true /\
  disjointb P mt_taboo = true /\
  disjointb (flat_map (fun p => ty_idents (pty p)) (mps m)) (mt_vars ++ builtins ++ [S]) = true /\
  disjointb (flat_map (fun r => ty_idents (rty r)) (mrs m)) (mt_vars ++ builtins ++ [S]) = true /\
  disjointb T (mt_vars ++ builtins ++ [S]) = true /\ T = map torig tps.
Proof.
  destruct (d_method_parts _ _ _ HD) as (HPn & HRn & HPe & Hpt & Hrt & Hvis & Hnames).
  unfold g_capture, sig_idents in HC. fold P R in HC.
  apply disjointb_app_l in HC as [HCP HCR].
  apply disjointb_app_r in HCP as [HCP1 HCP]. apply disjointb_app_r in HCP as [HCP2 HCP]. apply disjointb_app_r in HCP as [HCP3 HCP4].
  apply disjointb_app_r in HCR as [HCR1 HCR]. apply disjointb_app_r in HCR as [HCR2 HCR]. apply disjointb_app_r in HCR as [HCR3 HCR4].
  unfold g_mt_types, sig_idents in HT. apply disjointb_app_l in HT as [HT1 HT]. apply disjointb_app_l in HT as [HT2 HT].
  apply disjointb_app_l in HT as [HT3 HT4].
  repeat split; assumption.
Qed.

Ltac mt_prelude :=
  destruct mt_method_facts as (HPn & HRn & HPe & Hpt & Hrt & HCP1 & HCP2 & HCP4 & HCR1 & HCR2 & HCR4 & HP' & HT1 & HT2 & HTfix & ET).

Lemma mt_method_wf i : iftps i = tps -> ifstruct i = S -> wf_top c (mt_method_top o i m) = true.
Proof.
  intros Ei Es. mt_prelude.
  unfold wf_top, mt_method_top. rewrite Ei, Es. cbn [t_items mk_top]. fold P R.
  rewrite tp_binders_eq. fold T.
  (* type parameter binders *)
  rewrite decl_tys; [| exact (names_ok_nd _ HTn) | each; rewrite (names_ok_nb _ _ HTn Hx); reflexivity ].
  fold (s_tp T).
  (* receiver type *)
  cbn [app]. unfold utop at 1.
  rewrite (use_top c T); [| tysok | envc; reflexivity | sf | exact HS].
  (* signature *)
  unfold ptys at 1. rewrite (use_types c T tps _ _ pty); [| exact ET | exact Hpt | tysok | envc; dj].
  unfold rtys at 1. rewrite (use_types c T tps _ _ rty); [| exact ET | exact Hrt | tysok | envc; dj].
  (* receiver and parameters *)
  cbn [app]. unfold dv at 1.
  rewrite wf_decl_ok; [| reflexivity | unfold has; envc; apply orb_false_iff; split; sf].
  rewrite decl_vars; [| exact (names_ok_nd _ HPn)
                      | each; rewrite (names_ok_nb _ _ HPn Hx); unfold has; envc; cbn [andb negb];
                        apply negb_true_iff, orb_false_iff; split; sf].
  (* body *)
  assert (forall l,
     wf_items c [] (add_vars P (declare false (L "mock") (s_tp T)))
       ((if stub_impl o then [] else [IBlock [uv true (L "mock"); ub "nil"; IBlock [ub "panic"]]]) ++ l)
     = wf_items c [] (add_vars P (declare false (L "mock") (s_tp T))) l) as PANIC.
  { intros l. destruct (stub_impl o); [reflexivity|]. cbn [app].
    eapply wf_block_ok. uvar0 c T. ubuiltin c T HB.
    erewrite wf_block_ok; [reflexivity|]. ubuiltin c T HB. reflexivity. }
  rewrite PANIC. clear PANIC.
  rewrite use_fields; [| exact HPe].
  unfold ptys at 1. rewrite (use_types c T tps _ _ pty); [| exact ET | exact Hpt | tysok | envc; dj].
  rewrite (use_vars0 c T); [| tysok | each; envc; apply andb_true_iff; split; [reflexivity | st]].
  ddecl.
  uvar0 c T. ubuiltin c T HB. uvar0 c T. uvar0 c T. uvar0 c T. uvar0 c T.
  assert (forall l,
     wf_items c [] (declare false (L "callInfo") (add_vars P (declare false (L "mock") (s_tp T))))
       ((if stub_impl o
         then [IBlock [uv true (L "mock"); ub "nil";
                       IBlock (flat_map (fun r => intent tps (rty r) ++ [dv (rn r)]) (mrs m) ++ uvs false R)]]
         else []) ++ l)
     = wf_items c [] (declare false (L "callInfo") (add_vars P (declare false (L "mock") (s_tp T)))) l) as STUB.
  { intros l. destruct (stub_impl o); [|reflexivity]. cbn [app].
    eapply wf_block_ok. uvar0 c T. ubuiltin c T HB.
    erewrite wf_block_ok; [reflexivity|].
    rewrite (seq_results c T tps ET); [| exact HRn | each; reflexivity | exact Hrt | tysok | envc; dj].
    rewrite <- (app_nil_r (uvs false R)).
    rewrite (use_varsany c T); [reflexivity | tysok | each; envc; st]. }
  rewrite STUB. clear STUB.
  uvar0 c T.
  rewrite <- (app_nil_r (uvs true P)).
  rewrite (use_vars0 c T); [reflexivity | tysok | each; envc; apply andb_true_iff; split; [reflexivity | st]].
Qed.
Lemma mt_calls_wf i : iftps i = tps -> ifstruct i = S -> wf_top c (mt_calls_top i m) = true.
Proof.
  intros Ei Es. mt_prelude.
  unfold wf_top, mt_calls_top. rewrite Ei, Es. cbn [t_items mk_top]. fold P R.
  rewrite tp_binders_eq. fold T.
  rewrite decl_tys; [| exact (names_ok_nd _ HTn) | each; rewrite (names_ok_nb _ _ HTn Hx); reflexivity ].
  fold (s_tp T).
  cbn [app]. unfold utop at 1.
  rewrite (use_top c T); [| tysok | envc; reflexivity | sf | exact HS].
  rewrite use_fields; [| exact HPe].
  unfold ptys at 1. rewrite (use_types c T tps _ _ pty); [| exact ET | exact Hpt | tysok | envc; dj].
  cbn [app]. ddecl.
  rewrite use_fields; [| exact HPe].
  unfold ptys at 1. rewrite (use_types c T tps _ _ pty); [| exact ET | exact Hpt | tysok | envc; dj].
  cbn [app]. ddecl.
  uvar0 c T. uvar0 c T. uvar0 c T. uvar0 c T. uvar0 c T. reflexivity.
Qed.
End Method.

Lemma mt_triple_ok l :
  wf_items c [] (declare false (L "mock") (s_tp T)) (mt_lock_triple ++ l)
  = wf_items c [] (declare false (L "mock") (s_tp T)) l.
Proof.
  assert (disjointb T (mt_vars ++ builtins ++ [S]) = true) as HTfix.
  { apply (disjointb_sub_l _ _ _ HTids). unfold tp_idents. fold T. incl_solve. }
  unfold mt_lock_triple. cbn [app]. uvar0 c T. ubuiltin c T HB. uvar0 c T. uvar0 c T. reflexivity.
Qed.

Lemma mt_reset_head i l : iftps i = tps -> ifstruct i = S ->
  wf_items c [] empty_scope (tp_binders (iftps i) ++ [utop (ifstruct i); dv (L "mock")] ++ l)
  = wf_items c [] (declare false (L "mock") (s_tp T)) l.
Proof.
  intros Ei Es. rewrite Ei, Es.
  assert (disjointb T (mt_vars ++ builtins ++ [S]) = true) as HTfix.
  { apply (disjointb_sub_l _ _ _ HTids). unfold tp_idents. fold T. incl_solve. }
  rewrite tp_binders_eq. fold T.
  rewrite decl_tys; [| exact (names_ok_nd _ HTn) | each; rewrite (names_ok_nb _ _ HTn Hx); reflexivity ].
  fold (s_tp T). cbn [app]. unfold utop at 1.
  rewrite (use_top c T); [| tysok | envc; reflexivity | sf | exact HS].
  ddecl. reflexivity.
Qed.

Lemma mt_reset_wf i m : iftps i = tps -> ifstruct i = S -> wf_top c (mt_reset_top i m) = true.
Proof.
  intros Ei Es. unfold wf_top, mt_reset_top. cbn [t_items mk_top].
  rewrite (mt_reset_head i _ Ei Es). rewrite <- (app_nil_r mt_lock_triple), mt_triple_ok. reflexivity.
Qed.

Lemma mt_resetall_wf i : iftps i = tps -> ifstruct i = S -> wf_top c (mt_resetall_top i) = true.
Proof.
  intros Ei Es. unfold wf_top, mt_resetall_top. cbn [t_items mk_top].
  rewrite (mt_reset_head i _ Ei Es).
  induction (ifms i) as [|m ms IH]; [reflexivity|]. cbn [flat_map]. rewrite mt_triple_ok. exact IH.
Qed.

Section Struct.
Variables (f : fdata) (i : idata).
Hypothesis Ei : iftps i = tps.
Hypothesis Es : ifstruct i = S.
Hypothesis HTcon : forallb (fun t => types_known c tps (tcon t)) tps = true.
Hypothesis HMs : forallb (d_method c tps) (ifms i) = true.
Hypothesis HF1 : names_ok (map (fun m => func_name (mn m)) (ifms i) ++ [L "calls"] ++ map (fun m => lock_name (mn m)) (ifms i)) = true.
Hypothesis HF2 : names_ok (map mn (ifms i)) = true.
Hypothesis Hsync : ifms i <> [] -> smem (sync_q f) (c_quals c) = true /\ smem (sync_q f) T = false.

Lemma mt_struct_sigs ms l : forallb (d_method c tps) ms = true ->
  wf_items c [] (s_tp T) (flat_map (fun m => ptys tps (mps m) ++ rtys tps (mrs m)) ms ++ l) = wf_items c [] (s_tp T) l.
Proof.
  induction ms as [|m ms IH]; intros H; [reflexivity|]. cbn [forallb flat_map] in *.
  apply andb_true_iff in H as [H1 H2].
  destruct (d_method_parts _ _ _ H1) as (_ & _ & _ & Hpt & Hrt & _ & _).
  rewrite <- !app_assoc.
  unfold ptys at 1. rewrite (use_types c T tps _ _ pty); [| exact HTe | exact Hpt | tysok | envc; dj].
  unfold rtys at 1. rewrite (use_types c T tps _ _ rty); [| exact HTe | exact Hrt | tysok | envc; dj].
  now apply IH.
Qed.

Lemma mt_struct_recs ms l : forallb (d_method c tps) ms = true ->
  wf_items c [] (s_tp T) (flat_map (fun m => fields (pexps (mps m)) :: ptys tps (mps m)) ms ++ l) = wf_items c [] (s_tp T) l.
Proof.
  induction ms as [|m ms IH]; intros H; [reflexivity|]. cbn [forallb flat_map] in *.
  apply andb_true_iff in H as [H1 H2].
  destruct (d_method_parts _ _ _ H1) as (_ & _ & HPe & Hpt & _ & _ & _).
  cbn [app]. rewrite use_fields; [| exact HPe]. rewrite <- app_assoc.
  unfold ptys at 1. rewrite (use_types c T tps _ _ pty); [| exact HTe | exact Hpt | tysok | envc; dj].
  now apply IH.
Qed.

Lemma mt_struct_locks q ms : smem q (c_quals c) = true -> smem q T = false ->
  wf_items c [] (s_tp T) (map (fun _ : mdata => uq q) ms) = Some (s_tp T).
Proof.
  intros Q NT. induction ms as [|m ms IH]; [reflexivity|]. cbn [map]. unfold uq at 1.
  rewrite (use_qual c T); [exact IH | tysok | envc; reflexivity | exact NT | exact Q].
Qed.

Lemma mt_struct_wf : wf_top c (mt_struct_top f i) = true.
Proof.
  unfold wf_top, mt_struct_top. rewrite Ei, Es. cbn [t_items mk_top].
  unfold tp_decl. rewrite tp_binders_eq. fold T. rewrite <- !app_assoc.
  rewrite decl_tys; [| exact (names_ok_nd _ HTn) | each; rewrite (names_ok_nb _ _ HTn Hx); reflexivity ].
  fold (s_tp T).
  rewrite (use_types c T tps _ _ tcon); [| exact HTe | exact HTcon | tysok | envc; dj].
  cbn [app]. rewrite use_fields; [| exact HF1].
  rewrite mt_struct_sigs; [| exact HMs].
  cbn [app]. rewrite use_fields; [| exact HF2].
  rewrite mt_struct_recs; [| exact HMs].
  destruct (ifms i) as [|m0 ms0] eqn:E; [reflexivity|].
  destruct Hsync as [Q NT]; [discriminate|].
  rewrite (mt_struct_locks _ _ Q NT). reflexivity.
Qed.
End Struct.
End MatryerTops.

(* ------------------------------------------------------------------ matryer: the ensure line *)
Lemma tys_ok_nil : tys_ok [] [empty_scope] = true.
Proof. reflexivity. Qed.

Lemma mt_ensure_args_ok c tps l :
  forallb (fun t => match tens t with Some ty => types_known c [] ty | None => false end) tps = true ->
  wf_items c [] empty_scope (ensure_args tps ++ l) = wf_items c [] empty_scope l.
Proof.
  induction tps as [|t tps IH]; intros H; [reflexivity|]. cbn [forallb] in H. apply andb_true_iff in H as [H1 H2].
  unfold ensure_args in *. cbn [flat_map]. destruct (tens t) as [ty|]; [|discriminate].
  rewrite <- app_assoc. rewrite (use_type c [] [] [] empty_scope ty); [now apply IH | reflexivity | exact H1 | reflexivity |].
  cbn [vars_of flat_map sv empty_scope app]. apply disjointb_nil_r.
Qed.

Lemma mt_ensure_wf c f i :
  smem (ifstruct i) (c_filetypes c) = true ->
  (if f_inpkg f then pkg_type_ok c (ifname i) else smem (f_srcname f) (c_quals c)) = true ->
  forallb (fun t => match tens t with Some ty => types_known c [] ty | None => false end) (iftps i) = true ->
  wf_top c (mt_ensure_top f i) = true.
Proof.
  intros HS HQ HA. unfold wf_top, mt_ensure_top. cbn [t_items mk_top].
  assert (forall l, wf_items c [] empty_scope ((if f_inpkg f then [IUse KPkgType (ifname i)] else [uq (f_srcname f)]) ++ l)
                    = wf_items c [] empty_scope l) as HEAD.
  { intros l. destruct (f_inpkg f); cbn [app].
    - rewrite (use_pkgtype c []); [reflexivity | reflexivity | reflexivity | reflexivity | exact HQ].
    - unfold uq. rewrite (use_qual c []); [reflexivity | reflexivity | reflexivity | reflexivity | exact HQ]. }
  rewrite HEAD, mt_ensure_args_ok; [| exact HA]. cbn [app]. unfold utop at 1.
  rewrite (use_top c []); [| reflexivity | reflexivity | reflexivity | exact HS].
  rewrite <- (app_nil_r (ensure_args (iftps i))), mt_ensure_args_ok; [reflexivity | exact HA].
Qed.

(* ------------------------------------------------------------------ file level *)
Lemma wf_file_split s :
  wf_file s =
  (let quals := filter (fun q => negb (seqb q blank) && negb (seqb q dot)) (map snd (s_imports s)) in
   let used := flat_map (fun t => flat_map qual_uses (t_items t)) (s_tops s) in
   nodupb (map fst (s_imports s)) && nodupb quals && forallb (fun q => smem q used) quals)
  && file_names_ok s && forallb (wf_top (skel_ctx s)) (s_tops s).
Proof. unfold wf_file, file_names_ok. cbv zeta. rewrite !andb_assoc. reflexivity. Qed.

Lemma nodupb_filter (p : str -> bool) l : nodupb l = true -> nodupb (filter p l) = true.
Proof.
  rewrite !nodupb_NoDup. apply NoDup_filter.
Qed.

Lemma qual_uses_block l : qual_uses (IBlock l) = flat_map qual_uses l.
Proof. induction l as [|i l IH]; [reflexivity|]. cbn [flat_map]. rewrite <- IH. reflexivity. Qed.

Lemma quses_intent tps ty q : In q (ty_quals ty) -> In q (flat_map qual_uses (intent tps ty)).
Proof.
  unfold ty_quals, intent. induction ty as [|i ty IH]; [tauto|]. cbn [flat_map map]. intros H.
  apply in_app_or in H as [H|H]; apply in_or_app; [left | right; now apply IH].
  destruct i as [[] n| |]; try contradiction. exact H.
Qed.

Lemma quses_types {A} tps (proj : A -> tyitems) xs x q :
  In x xs -> In q (ty_quals (proj x)) -> In q (flat_map qual_uses (flat_map (fun x => intent tps (proj x)) xs)).
Proof.
  intros Hx Hq. apply (quses_intent tps) in Hq. apply in_flat_map in Hq as (it & Hit & Hq).
  apply in_flat_map. exists it. split; [|exact Hq]. apply in_flat_map. exists x. now split.
Qed.

Lemma flat_map_app' {A B} (g : A -> list B) a b : flat_map g (a ++ b) = flat_map g a ++ flat_map g b.
Proof. apply flat_map_app. Qed.

(* registry facts *)
Lemma reg_of_rinv f :
  nodupb (map fst (f_imports f)) = true -> nodupb (map snd (f_imports f)) = true -> RInv (reg_of f).
Proof.
  intros N1 N2. unfold RInv, quals, reg_of. cbn [imports]. rewrite !map_map. cbn [ipath].
  split; [now apply nodupb_NoDup|].
  replace (map (fun x => qualifier {| ipath := fst x; iname := snd x; ialias := [] |}) (f_imports f))
    with (map snd (f_imports f)); [now apply nodupb_NoDup|].
  apply map_ext. reflexivity.
Qed.

Lemma reg_of_quals f : quals (reg_of f) = map snd (f_imports f).
Proof. unfold quals, reg_of. cbn [imports]. rewrite map_map. apply map_ext. reflexivity. Qed.
Lemma reg_of_paths f : map ipath (imports (reg_of f)) = map fst (f_imports f).
Proof. unfold reg_of. cbn [imports]. rewrite map_map. reflexivity. Qed.

Lemma imports_of_paths r : Permutation (map ipath (imports r)) (map fst (imports_of r)).
Proof. unfold imports_of. rewrite map_map. cbn [fst]. apply Permutation_map, imports_sorted_perm. Qed.
Lemma imports_of_quals r : Permutation (quals r) (map snd (imports_of r)).
Proof. unfold imports_of, quals. rewrite map_map. cbn [snd]. apply Permutation_map, imports_sorted_perm. Qed.

Lemma matryer_reg_rinv f : RInv (reg_of f) -> RInv (matryer_reg f).
Proof. intros H. unfold matryer_reg. destruct (implements_some f); [now apply add_import_inv | exact H]. Qed.

Lemma matryer_reg_mono f : incl (imports (reg_of f)) (imports (matryer_reg f)).
Proof.
  unfold matryer_reg. destruct (implements_some f); [|apply incl_refl].
  pose proof (add_import_cases (reg_of f) sync_p sync_p) as H.
  destruct (add_import (reg_of f) sync_p sync_p) as [r' x]. cbn [fst].
  destruct H as (_ & _ & [(_ & -> & _) | [(_ & -> & _) | (_ & _ & i & _ & E & _)]]); try apply incl_refl.
  rewrite E. apply incl_appl, incl_refl.
Qed.

(* either the source already imports "sync", or the template's AddImport appended it *)
Lemma matryer_reg_sync f :
  implements_some f = true -> RInv (reg_of f) ->
  In (sync_q f) (quals (reg_of f)) \/ quals (matryer_reg f) = quals (reg_of f) ++ [sync_q f].
Proof.
  intros I RI. pose proof (matryer_reg_rinv f RI) as RI'.
  unfold sync_q. unfold matryer_reg in *. rewrite I in *.
  pose proof (add_import_cases (reg_of f) sync_p sync_p) as H.
  destruct (add_import (reg_of f) sync_p sync_p) as [r' x] eqn:EA. cbn [fst] in *.
  destruct H as (_ & _ & [([HS1 HS2] & _) | [(_ & -> & i & _ & F) | (_ & F & i & _ & E & P & Q)]]).
  - unfold reg_of in HS2. discriminate.
  - apply find_path_some in F as [Hin Hp]. rewrite <- Hp.
    rewrite (pkg_qualifier_agrees _ _ RI Hin). left. now apply in_map.
  - assert (In i (imports r')) as Hin by (rewrite E; apply in_or_app; right; now left).
    rewrite <- P. rewrite (pkg_qualifier_agrees _ _ RI' Hin). right.
    unfold quals. rewrite E, map_app. reflexivity.
Qed.
Lemma matryer_reg_nosync f : implements_some f = false -> matryer_reg f = reg_of f.
Proof. unfold matryer_reg. now intros ->. Qed.

Lemma matryer_reg_sync' f :
  implements_some f = true -> RInv (reg_of f) ->
  (matryer_reg f = reg_of f) \/ quals (matryer_reg f) = quals (reg_of f) ++ [sync_q f].
Proof.
  intros I RI. pose proof (matryer_reg_rinv f RI) as RI'.
  unfold sync_q. unfold matryer_reg in *. rewrite I in *.
  pose proof (add_import_cases (reg_of f) sync_p sync_p) as H.
  destruct (add_import (reg_of f) sync_p sync_p) as [r' x] eqn:EA. cbn [fst] in *.
  destruct H as (_ & _ & [(_ & -> & _) | [(_ & -> & _) | (_ & F & i & _ & E & P & Q)]]); [now left | now left |].
  assert (In i (imports r')) as Hin by (rewrite E; apply in_or_app; right; now left).
  rewrite <- P. rewrite (pkg_qualifier_agrees _ _ RI' Hin). right.
  unfold quals. rewrite E, map_app. reflexivity.
Qed.

Lemma sync_q_in f : implements_some f = true -> RInv (reg_of f) -> In (sync_q f) (quals (matryer_reg f)).
Proof.
  intros I RI. pose proof (matryer_reg_rinv f RI) as RI'.
  unfold sync_q. unfold matryer_reg in *. rewrite I in *.
  pose proof (add_import_cases (reg_of f) sync_p sync_p) as H.
  destruct (add_import (reg_of f) sync_p sync_p) as [r' x] eqn:EA. cbn [fst] in *.
  destruct H as (_ & _ & [([HS1 HS2] & _) | [(_ & -> & i & _ & F) | (_ & F & i & _ & E & P & Q)]]).
  - unfold reg_of in HS2. discriminate.
  - apply find_path_some in F as [Hin Hp]. rewrite <- Hp. rewrite (pkg_qualifier_agrees _ _ RI Hin). now apply in_map.
  - assert (In i (imports r')) as Hin by (rewrite E; apply in_or_app; right; now left).
    rewrite <- P. rewrite (pkg_qualifier_agrees _ _ RI' Hin). now apply in_map.
Qed.

Lemma data_ok_parts f c : data_ok f c = true ->
  nodupb (map fst (f_imports f)) = true /\ names_ok (map snd (f_imports f)) = true /\
  forallb (fun q => negb (seqb q dot)) (map snd (f_imports f)) = true /\
  forallb (fun q => smem q (all_type_quals f)) (map snd (f_imports f)) = true /\
  nonempty (f_ifaces f) = true /\ d_builtins c = true /\ forallb (d_iface c) (f_ifaces f) = true.
Proof. unfold data_ok. rewrite !andb_true_iff. tauto. Qed.
Lemma d_iface_parts c i : d_iface c i = true ->
  names_ok (map tdecl (iftps i)) = true /\
  forallb (fun t => types_known c (iftps i) (tcon t)) (iftps i) = true /\
  forallb (d_method c (iftps i)) (ifms i) = true.
Proof. unfold d_iface. rewrite !andb_true_iff. tauto. Qed.

Lemma quses_flat {A} (g : A -> list item) xs x q :
  In x xs -> In q (flat_map qual_uses (g x)) -> In q (flat_map qual_uses (flat_map g xs)).
Proof.
  intros Hx Hq. apply in_flat_map in Hq as (it & Hit & Hq).
  apply in_flat_map. exists it. split; [|exact Hq]. apply in_flat_map. exists x. now split.
Qed.

Section MatryerFile.
Variables (o : mopts) (f : fdata).
Let s := matryer_skel o f.
Let c := skel_ctx s.
Hypothesis HD : data_ok f c = true.
Hypothesis HM : d_mt o f c = true.
Hypothesis HG : mt_guards o f = true.
Hypothesis HN : file_names_ok s = true.

Lemma mt_struct_in i : In i (f_ifaces f) -> In (mt_struct_top f i) (s_tops s).
Proof.
  intros Hi. unfold s, matryer_skel. cbn [s_tops]. apply in_flat_map. exists i. split; [exact Hi|].
  unfold matryer_iface. apply in_or_app. right. apply in_or_app. left. now left.
Qed.

Lemma mt_S_filetype i : In i (f_ifaces f) -> smem (ifstruct i) (c_filetypes c) = true.
Proof.
  intros Hi. apply smem_In. unfold c, skel_ctx. cbn [c_filetypes]. unfold top_names.
  change (ifstruct i) with (t_name (mt_struct_top f i)). apply in_map. apply filter_In. split; [now apply mt_struct_in|].
  cbn [t_kind mt_struct_top mk_top is_type t_name andb].
  unfold d_mt in HM. apply andb_true_iff in HM as [_ HM']. rewrite forallb_forall in HM'. specialize (HM' i Hi).
  unfold d_mt_iface in HM'. rewrite !andb_true_iff in HM'. tauto.
Qed.

Lemma mt_rinv : RInv (reg_of f).
Proof.
  destruct (data_ok_parts _ _ HD) as (N1 & N2 & _). apply reg_of_rinv; [exact N1 | exact (names_ok_nd _ N2)].
Qed.

Lemma mt_quals_perm : Permutation (quals (matryer_reg f)) (c_quals c).
Proof. unfold c, skel_ctx, s, matryer_skel. cbn [c_quals s_imports]. apply imports_of_quals. Qed.

Lemma mt_src_quals q : In q (map snd (f_imports f)) -> smem q (c_quals c) = true.
Proof.
  intros H. apply smem_In. eapply Permutation_in; [apply mt_quals_perm|].
  rewrite <- reg_of_quals in H. unfold quals in *. apply in_map_iff in H as (i & <- & Hi).
  apply in_map. now apply matryer_reg_mono.
Qed.

(* every qualifier that occurs in a type of interface i occurs in the struct declaration of its mock *)
Lemma mt_used_types i q : In i (f_ifaces f) ->
  In q (flat_map (fun t => ty_quals (tcon t)) (iftps i)
        ++ flat_map (fun m => flat_map (fun p => ty_quals (pty p)) (mps m) ++ flat_map (fun r => ty_quals (rty r)) (mrs m)) (ifms i)) ->
  In q (flat_map (fun t => flat_map qual_uses (t_items t)) (s_tops s)).
Proof.
  intros Hi Hq. apply in_flat_map. exists (mt_struct_top f i). split; [now apply mt_struct_in|].
  unfold mt_struct_top. cbn [t_items mk_top]. rewrite !flat_map_app'.
  apply in_app_or in Hq as [Hq|Hq].
  - apply in_or_app. left. unfold tp_decl. rewrite flat_map_app'. apply in_or_app. right.
    apply in_flat_map in Hq as (t & Ht & Hq). eapply (quses_types (iftps i) tcon); eauto.
  - apply in_or_app. right. apply in_or_app. right. apply in_or_app. left.
    apply in_flat_map in Hq as (m & Hm & Hq).
    apply (quses_flat _ (ifms i) m); [exact Hm|]. rewrite flat_map_app'.
    apply in_app_or in Hq as [Hq|Hq]; apply in_or_app; [left | right];
      apply in_flat_map in Hq as (x & Hx & Hq).
    + eapply (quses_types (iftps i) pty); eauto.
    + eapply (quses_types (iftps i) rty); eauto.
Qed.

Lemma mt_used_all q : In q (all_type_quals f) -> In q (flat_map (fun t => flat_map qual_uses (t_items t)) (s_tops s)).
Proof.
  unfold all_type_quals. intros H. apply in_flat_map in H as (i & Hi & Hq). eapply mt_used_types; eauto.
Qed.

Lemma mt_used_sync : implements_some f = true ->
  In (sync_q f) (flat_map (fun t => flat_map qual_uses (t_items t)) (s_tops s)).
Proof.
  unfold implements_some. intros H. apply existsb_exists in H as (i & Hi & Hne).
  apply in_flat_map. exists (mt_struct_top f i). split; [now apply mt_struct_in|].
  unfold mt_struct_top. cbn [t_items mk_top]. rewrite !flat_map_app'.
  do 5 (apply in_or_app; right).
  destruct (ifms i) as [|m ms]; [discriminate|]. cbn [map flat_map qual_uses uq app]. now left.
Qed.

Lemma mt_imports_ok :
  (let quals := filter (fun q => negb (seqb q blank) && negb (seqb q dot)) (map snd (s_imports s)) in
   let used := flat_map (fun t => flat_map qual_uses (t_items t)) (s_tops s) in
   nodupb (map fst (s_imports s)) && nodupb quals && forallb (fun q => smem q used) quals) = true.
Proof.
  cbv zeta. pose proof mt_rinv as RI. pose proof (matryer_reg_rinv f RI) as [N1 N2].
  destruct (data_ok_parts _ _ HD) as (_ & _ & _ & Hneeded & _).
  rewrite !andb_true_iff. repeat split.
  - apply nodupb_NoDup. eapply Permutation_NoDup; [apply imports_of_paths | exact N1].
  - apply nodupb_filter. apply nodupb_NoDup. eapply Permutation_NoDup; [apply imports_of_quals | exact N2].
  - apply forallb_forall. intros q Hq. apply filter_In in Hq as [Hq _]. apply smem_In.
    assert (In q (quals (matryer_reg f))) as Hq'.
    { eapply Permutation_in; [apply Permutation_sym, imports_of_quals | exact Hq]. }
    assert (In q (map snd (f_imports f)) -> In q (flat_map (fun t => flat_map qual_uses (t_items t)) (s_tops s))) as FromSrc.
    { intros H. apply mt_used_all. rewrite forallb_forall in Hneeded. apply smem_In. now apply Hneeded. }
    destruct (implements_some f) eqn:I.
    + destruct (matryer_reg_sync' f I RI) as [E|E].
      * rewrite E, reg_of_quals in Hq'. now apply FromSrc.
      * rewrite E, reg_of_quals in Hq'. apply in_app_or in Hq' as [H|[<-|[]]]; [now apply FromSrc | now apply mt_used_sync].
    + rewrite (matryer_reg_nosync f I), reg_of_quals in Hq'. now apply FromSrc.
Qed.
Lemma mt_guards_parts i : In i (f_ifaces f) ->
  g_tparams (iftps i) = true /\ g_mt_tps (ifstruct i) (iftps i) = true /\
  forallb (fun m => g_capture (iftps i) m && g_mt_params m && g_mt_fields m && g_mt_types (ifstruct i) (iftps i) m) (ifms i) = true /\
  (skip_ensure o || (g_mt_ensure_import f && forallb (g_mt_ensure_arg (iftps i)) (iftps i))) = true.
Proof.
  intros Hi. unfold mt_guards in HG. rewrite forallb_forall in HG. specialize (HG i Hi).
  unfold mt_guards_iface in HG. rewrite !andb_true_iff in HG. tauto.
Qed.

Lemma mt_tops_ok : forallb (wf_top c) (s_tops s) = true.
Proof.
  apply forallb_forall. intros t Ht. unfold s, matryer_skel in Ht. cbn [s_tops] in Ht.
  apply in_flat_map in Ht as (i & Hi & Ht).
  destruct (data_ok_parts _ _ HD) as (_ & HQn & _ & _ & _ & HB & HI).
  rewrite forallb_forall in HI. specialize (HI i Hi).
  destruct (d_iface_parts _ _ HI) as (HTn & HTcon & HMs).
  destruct (mt_guards_parts i Hi) as (GT & GTP & GM & GE).
  pose proof (g_tparams_eq _ GT) as HTe.
  pose proof (mt_S_filetype i Hi) as HS.
  unfold d_mt in HM. apply andb_true_iff in HM as [HMe HMi]. rewrite forallb_forall in HMi. specialize (HMi i Hi).
  unfold d_mt_iface in HMi. rewrite !andb_true_iff in HMi. destruct HMi as [[[_ HF1] HF2] HSy].
  unfold matryer_iface in Ht.
  apply in_app_or in Ht as [Ht|Ht]; [| apply in_app_or in Ht as [Ht|Ht]; [| apply in_app_or in Ht as [Ht|Ht]]].
  - (* ensure line *)
    destruct (skip_ensure o) eqn:SK; [contradiction|]. destruct Ht as [<-|[]].
    cbn [orb] in GE. apply andb_true_iff in GE as [GI GA].
    unfold d_mt_ensure in HMe. rewrite SK in HMe. cbn [orb] in HMe. rewrite forallb_forall in HMe. specialize (HMe i Hi).
    apply andb_true_iff in HMe as [HE1 HE2].
    apply mt_ensure_wf; [exact HS | |].
    + unfold g_mt_ensure_import in GI. destruct (f_inpkg f); cbn [negb orb] in *; [exact HE1|].
      apply mt_src_quals. now apply smem_In.
    + apply forallb_forall. intros tp Htp. rewrite forallb_forall in GA, HE2. specialize (GA tp Htp). specialize (HE2 tp Htp).
      unfold g_mt_ensure_arg in GA. destruct (tens tp); [exact HE2 | discriminate].
  - (* struct *)
    destruct Ht as [<-|[]].
    apply (mt_struct_wf c (iftps i) (ifstruct i)); try assumption; try reflexivity.
    intros NE. split.
    + apply smem_In. eapply Permutation_in; [apply mt_quals_perm|]. apply sync_q_in; [|apply mt_rinv].
      unfold implements_some. apply existsb_exists. exists i. split; [exact Hi|]. destruct (ifms i); [congruence | reflexivity].
    + now apply negb_true_iff.
  - (* methods *)
    apply in_flat_map in Ht as (m & Hm & Ht).
    rewrite forallb_forall in HMs, GM. specialize (HMs m Hm). specialize (GM m Hm).
    rewrite !andb_true_iff in GM. destruct GM as [[[GC GP] GF] GTy].
    unfold matryer_method in Ht. cbn [app] in Ht. destruct Ht as [<-|[<-|Ht]].
    + apply (mt_method_wf c o (iftps i) (ifstruct i)); try assumption; reflexivity.
    + apply (mt_calls_wf c (iftps i) (ifstruct i)); try assumption; reflexivity.
    + destruct (with_resets o); [|contradiction]. destruct Ht as [<-|[]].
      apply (mt_reset_wf c (iftps i) (ifstruct i)); try assumption; reflexivity.
  - destruct (with_resets o); [|contradiction]. destruct Ht as [<-|[]].
    apply (mt_resetall_wf c (iftps i) (ifstruct i)); try assumption; reflexivity.
Qed.

Theorem matryer_wf : wf_file s = true.
Proof.
  rewrite wf_file_split. fold c. rewrite mt_imports_ok, HN, mt_tops_ok. reflexivity.
Qed.
End MatryerFile.

(* ================================================================== testify *)
Ltac uqual c T Q := unfold uq at 1; rewrite (use_qual c T); [| tysok | envc; sf | sf | exact Q].
Ltac utopt c T H := unfold utop at 1; rewrite (use_top c T); [| tysok | envc; sf | sf | exact H].
Ltac binders T HTn :=
  rewrite tp_binders_eq; fold T;
  rewrite decl_tys; [| exact (names_ok_nd _ HTn)
                      | each; match goal with H : In _ _ |- _ => rewrite (names_ok_nb _ _ HTn H) end; reflexivity ];
  fold (s_tp T).
Ltac inst c T := rewrite ?tp_inst_eq; fold T;
  rewrite (use_tparams c T); [| tysok | each; envc; apply andb_true_iff; split; [apply negb_true_iff; sf | st]].

Section TestifyTops.
Variables (c : fctx) (o : topts) (tps : list tpdata) (S : str) (ms : list mdata).
Let T := map tdecl tps.
Let E := expecter_name S.
Hypothesis HTe : map tdecl tps = map torig tps.
Hypothesis HTn : names_ok T = true.
Hypothesis HB : d_builtins c = true.
Hypothesis HS : smem S (c_filetypes c) = true.
Hypothesis HE : smem E (c_filetypes c) = true.
Hypothesis HQ : smem mock_q (c_quals c) = true.
Hypothesis HTcon : forallb (fun t => types_known c tps (tcon t)) tps = true.
Hypothesis HTids : disjointb (tp_idents tps) (tf_vars ++ builtins ++ tf_gen_types S ms) = true.
Hypothesis HGen : disjointb (tf_gen_types S ms) tf_vars = true.

Lemma tf_Tfix : disjointb T (tf_vars ++ builtins ++ tf_gen_types S ms) = true.
Proof. apply (disjointb_sub_l _ _ _ HTids). unfold tp_idents. fold T. incl_solve. Qed.
Lemma tf_Cfix : disjointb (flat_map (fun t => ty_idents (tcon t)) tps) (tf_vars ++ builtins ++ tf_gen_types S ms) = true.
Proof. apply (disjointb_sub_l _ _ _ HTids). unfold tp_idents. incl_solve. Qed.

(* the declaration part of a generic declaration: binders, then the constraints *)
Lemma tf_tp_decl l :
  wf_items c [] empty_scope (tp_decl tps ++ l) = wf_items c [] (s_tp T) l.
Proof.
  unfold tp_decl. rewrite <- app_assoc. binders T HTn.
  rewrite (use_types c T tps _ _ tcon); [reflexivity | exact HTe | exact HTcon | tysok | envc; dj].
Qed.

Lemma tf_struct_like n fld :
  wf_top c (mk_top TType n [] (tp_decl tps ++ [IBlock [dv fld]; uq mock_q])) = true.
Proof.
  pose proof tf_Tfix as HTfix.
  unfold wf_top. cbn [t_items mk_top]. rewrite tf_tp_decl.
  destruct (seqb fld blank) eqn:EB.
  - erewrite wf_block_ok; [| unfold dv; cbn [wf_items wf_item]; rewrite EB; reflexivity].
    uqual c T HQ. reflexivity.
  - erewrite wf_block_ok; [| unfold dv; rewrite wf_decl_ok; [reflexivity | exact EB | reflexivity]].
    uqual c T HQ. reflexivity.
Qed.

Lemma tf_ctor_wf i : iftps i = tps -> ifstruct i = S -> wf_top c (tf_ctor_top i) = true.
Proof.
  intros Ei Es. pose proof tf_Tfix as HTfix.
  unfold wf_top, tf_ctor_top. rewrite Ei, Es. cbn [t_items mk_top]. rewrite tf_tp_decl.
  cbn [app]. uqual c T HQ. utopt c T HS. inst c T. cbn [app]. ddecl. utopt c T HS. inst c T.
  cbn [app]. ddecl. uvar0 c T. uvar0 c T. uvar0 c T.
  erewrite wf_block_ok; [| uvar0 c T; uvar0 c T; reflexivity].
  uvar0 c T. reflexivity.
Qed.

Lemma tf_expect_wf i : iftps i = tps -> ifstruct i = S -> wf_top c (tf_expect_top i) = true.
Proof.
  intros Ei Es. pose proof tf_Tfix as HTfix.
  unfold wf_top, tf_expect_top. rewrite Ei, Es. cbn [t_items mk_top]. fold E. binders T HTn.
  cbn [app]. utopt c T HS. utopt c T HE. inst c T. cbn [app]. ddecl. utopt c T HE. inst c T.
  cbn [app]. uvar0 c T. reflexivity.
Qed.
End TestifyTops.

(* ------------------------------------------------------------------ the names the template allocates (C15) *)
Lemma tf_alloc_fresh m :
  forallb (fun n => smem n (mvisible m)) (pnames (mps m)) = true ->
  nodupb [ret_name m; rf_name m; ok_name m] = true /\
  disjointb [ret_name m; rf_name m; ok_name m] (pnames (mps m)) = true.
Proof.
  intros V. unfold ret_name, rf_name, ok_name, tf_alloc, allocate, suggest, add_name. cbn [fst snd].
  set (vis := mvisible m) in *.
  set (r := fresh 1 (B "ret") vis). set (rf := fresh 1 (B "returnFunc") (r :: vis)).
  set (k := fresh 1 (B "ok") (rf :: r :: vis)).
  pose proof (fresh_not_in 1 (B "ret") vis) as F1. fold r in F1.
  pose proof (fresh_not_in 1 (B "returnFunc") (r :: vis)) as F2. fold rf in F2.
  pose proof (fresh_not_in 1 (B "ok") (rf :: r :: vis)) as F3. fold k in F3.
  split.
  - apply nodupb_NoDup. repeat constructor; simpl in *; intuition (subst; auto).
  - apply disjointb_spec. intros x Hx Hp. rewrite forallb_forall in V. specialize (V x Hp). apply smem_In in V.
    simpl in Hx, F2, F3. intuition (subst; auto).
Qed.

(* ------------------------------------------------------------------ the typed Run wrapper *)
Definition anames (ras : list (pdata * option str)) : list str :=
  flat_map (fun x => match snd x with Some a => [a] | None => [] end) ras.

Lemma run_args_fst s i ps : map fst (run_args s i ps) = ps.
Proof.
  revert s i; induction ps as [|p ps IH]; intros s i; [reflexivity|]. cbn [run_args].
  destruct (pnil p).
  - unfold allocate. cbn [map fst]. now rewrite IH.
  - cbn [map fst]. now rewrite IH.
Qed.

Lemma tys_ok_push_empty T env : tys_ok T env = true -> tys_ok T (empty_scope :: env) = true.
Proof. intros H. apply tys_ok_inner; [reflexivity | exact H]. Qed.

Lemma vars_of_declare n cur outer : vars_of (declare false n cur :: outer) = n :: vars_of (cur :: outer).
Proof. reflexivity. Qed.
Lemma vars_of_empty env : vars_of (empty_scope :: env) = vars_of env.
Proof. reflexivity. Qed.

Section RunPre.
Variables (c : fctx) (T : list str) (tps : list tpdata).
Hypothesis ET : T = map torig tps.
Hypothesis HB : d_builtins c = true.
Hypothesis HnilT : smem (L "nil") T = false.

Definition run_pre (ras : list (pdata * option str)) : list item :=
  flat_map (fun x => match snd x with
                     | Some a => intent tps (pty (fst x))
                                 ++ [dv a; IBlock [uv false (L "args"); ub "nil";
                                                   IBlock ([uv false (L "args")] ++ intent tps (pty (fst x)) ++ [uv false a])]]
                     | None => [] end) ras.
Definition run_uses (ras : list (pdata * option str)) : list item :=
  flat_map (fun x => match snd x with
                     | Some a => [uv false a]
                     | None => uv false (L "args") :: intent tps (pty (fst x)) end) ras.

Lemma run_pre_ok outer ras : forall cur l,
  names_ok (anames ras) = true ->
  forallb (fun n => negb (has n cur)) (anames ras) = true ->
  forallb (fun x => types_known c tps (pty (fst x))) ras = true ->
  tys_ok T (cur :: outer) = true ->
  disjointb (flat_map (fun x => ty_idents (pty (fst x))) ras) (vars_of (cur :: outer) ++ anames ras) = true ->
  smem (L "args") (vars_of (cur :: outer)) = true ->
  smem (L "nil") (vars_of (cur :: outer) ++ anames ras) = false ->
  wf_items c outer cur (run_pre ras ++ l) = wf_items c outer (add_vars (anames ras) cur) l.
Proof.
  induction ras as [|[p oa] ras IH]; intros cur l N H K TO D HA HN.
  - destruct cur; reflexivity.
  - unfold run_pre in *. cbn [flat_map snd fst forallb anames] in *. fold (anames ras) in *.
    apply andb_true_iff in K as [K1 K2]. apply disjointb_app_l in D as [D1 D2].
    destruct oa as [a|].
    + cbn [app] in *. unfold names_ok in N. cbn [nodupb forallb] in N. apply andb_true_iff in N as [N1 N2].
      apply andb_true_iff in N1 as [N1a N1b]. apply andb_true_iff in N2 as [N2a N2b].
      cbn [forallb] in H. apply andb_true_iff in H as [H1 H2]. apply negb_true_iff in N1a, N2a, H1.
      apply disjointb_app_r in D1 as [D1a D1b].
      rewrite smem_app in HN. apply orb_false_iff in HN as [HN1 HN2].
      rewrite smem_cons in HN2. apply orb_false_iff in HN2 as [HN2a HN2b].
      rewrite <- !app_assoc.
      rewrite (use_type c T tps outer cur (pty p)); [| exact ET | exact K1 | exact TO | exact D1a].
      cbn [app]. unfold dv at 1. rewrite wf_decl_ok; [| exact N2a | exact H1].
      assert (tys_ok T (declare false a cur :: outer) = true) as TO' by (now rewrite tys_ok_declare).
      assert (disjointb (ty_idents (pty p)) (vars_of (declare false a cur :: outer)) = true) as D1'.
      { rewrite vars_of_declare. apply disjointb_cons_r; [|exact D1a].
        apply smem_false. intros Hin. apply (proj1 (disjointb_spec _ _) D1b a Hin). now left. }
      erewrite wf_block_ok.
      2:{ unfold uv at 1. rewrite (use_varany c T); [| now apply tys_ok_push_empty | rewrite vars_of_empty, vars_of_declare, smem_cons, HA; apply orb_true_r].
          unfold ub at 1. rewrite (use_builtin c T); [| now apply tys_ok_push_empty
                                                     | rewrite vars_of_empty, vars_of_declare; apply smem_cons_false; [exact HN2a | exact HN1]
                                                     | exact HnilT | apply builtin_ok; [exact HB | in_solve]].
          erewrite wf_block_ok; [reflexivity|].
          cbn [app]. unfold uv at 1. rewrite (use_varany c T); [| now do 2 apply tys_ok_push_empty | rewrite !vars_of_empty, vars_of_declare, smem_cons, HA; apply orb_true_r].
          rewrite (use_type c T tps _ _ (pty p)); [| exact ET | exact K1 | now do 2 apply tys_ok_push_empty | rewrite !vars_of_empty; exact D1'].
          cbn [app]. unfold uv at 1. rewrite (use_varany c T); [reflexivity | now do 2 apply tys_ok_push_empty | rewrite !vars_of_empty, vars_of_declare, smem_cons, seqb_refl; reflexivity]. }
      rewrite IH.
      * now rewrite add_vars_cons.
      * unfold names_ok. now rewrite N1b, N2b.
      * apply forallb_forall. intros x Hx. rewrite forallb_forall in H2. specialize (H2 x Hx).
        apply negb_true_iff in H2. apply negb_true_iff. unfold has in *. unfold declare. cbn [sv st].
        apply orb_false_iff in H2 as [H2a H2b]. rewrite smem_cons, H2a, H2b.
        assert (seqb x a = false) as ->; [|reflexivity].
        apply seqb_neq. intros ->. apply smem_false in N1a. contradiction.
      * exact K2.
      * exact TO'.
      * apply disjointb_app_r in D2 as [D2a D2b]. apply disjointb_app_r. split.
        -- rewrite vars_of_declare. apply disjointb_cons_r; [|exact D2a].
           apply smem_false. intros Hin. apply (proj1 (disjointb_spec _ _) D2b a Hin). now left.
        -- apply (disjointb_sub_r _ _ _ D2b). intros x Hx. now right.
      * rewrite vars_of_declare, smem_cons, HA. apply orb_true_r.
      * rewrite vars_of_declare. apply smem_app_false; [apply smem_cons_false; [|exact HN1] | exact HN2b].
        exact HN2a.
    + cbn [app]. apply IH; try assumption.
Qed.

Lemma run_uses_ok outer cur ras : forall l,
  forallb (fun x => types_known c tps (pty (fst x))) ras = true ->
  tys_ok T (cur :: outer) = true ->
  disjointb (flat_map (fun x => ty_idents (pty (fst x))) ras) (vars_of (cur :: outer)) = true ->
  smem (L "args") (vars_of (cur :: outer)) = true ->
  forallb (fun a => smem a (vars_of (cur :: outer))) (anames ras) = true ->
  wf_items c outer cur (run_uses ras ++ l) = wf_items c outer cur l.
Proof.
  induction ras as [|[p oa] ras IH]; intros l K TO D HA HV; [reflexivity|].
  unfold run_uses in *. cbn [flat_map snd fst forallb anames] in *. fold (anames ras) in *.
  apply andb_true_iff in K as [K1 K2]. apply disjointb_app_l in D as [D1 D2].
  destruct oa as [a|].
  - cbn [app forallb] in *. apply andb_true_iff in HV as [HV1 HV2].
    unfold uv at 1. rewrite (use_varany c T); [| exact TO | exact HV1]. now apply IH.
  - cbn [app] in *. rewrite <- app_assoc. cbn [app]. unfold uv at 1. rewrite (use_varany c T); [| exact TO | exact HA].
    rewrite (use_type c T tps outer cur (pty p)); [| exact ET | exact K1 | exact TO | exact D1]. now apply IH.
Qed.
End RunPre.

Lemma forallb_map_fst {A B} (g : A -> bool) (l : list (A * B)) :
  forallb (fun x => g (fst x)) l = forallb g (map fst l).
Proof. induction l as [|x l IH]; [reflexivity|]. cbn [forallb map]. now rewrite IH. Qed.
Lemma flat_map_map_fst {A B X} (g : A -> list X) (l : list (A * B)) :
  flat_map (fun x => g (fst x)) l = flat_map g (map fst l).
Proof. induction l as [|x l IH]; [reflexivity|]. cbn [flat_map map]. now rewrite IH. Qed.
Lemma last_p_in ps p : last_p ps = Some p -> In p ps.
Proof.
  unfold last_p. destruct (rev ps) as [|q r] eqn:E; [discriminate|]. intros H. injection H as ->.
  apply in_rev. rewrite E. now left.
Qed.
Lemma incl_removelast {A} (l : list A) : incl (removelast l) l.
Proof.
  induction l as [|a l IH]; [apply incl_refl|]. cbn [removelast]. destruct l; [intros x []|].
  intros x [->|H]; [now left | right; now apply IH].
Qed.
Lemma forallb_incl {A} (g : A -> bool) l l' : incl l' l -> forallb g l = true -> forallb g l' = true.
Proof. rewrite !forallb_forall. auto. Qed.
Lemma flat_map_incl {A B} (g : A -> list B) l l' : incl l' l -> incl (flat_map g l') (flat_map g l).
Proof. intros I x H. apply in_flat_map in H as (y & Hy & Hx). apply in_flat_map. exists y. split; auto. Qed.

Lemma wf_block_okb c outer cur b l :
  match wf_items c (cur :: outer) empty_scope b with Some _ => true | None => false end = true ->
  wf_items c outer cur (IBlock b :: l) = wf_items c outer cur l.
Proof.
  intros H. destruct (wf_items c (cur :: outer) empty_scope b) as [s'|] eqn:E; [|discriminate].
  eapply wf_block_ok. exact E.
Qed.

Lemma map_blocks_ok c outer cur {A} (blk : A -> list item) xs l :
  (forall x, In x xs -> match wf_items c (cur :: outer) empty_scope (blk x) with Some _ => true | None => false end = true) ->
  wf_items c outer cur (map (fun x => IBlock (blk x)) xs ++ l) = wf_items c outer cur l.
Proof.
  induction xs as [|x xs IH]; intros H; [reflexivity|]. cbn [map app].
  rewrite wf_block_okb; [apply IH; intros y Hy; apply H; now right | apply H; now left].
Qed.
Lemma combine_snd {A B} (a : list A) (b : list B) : length a = length b -> map snd (combine a b) = b.
Proof. revert b; induction a as [|x a IH]; intros [|y b] H; try discriminate; [reflexivity|]. cbn. f_equal. apply IH. now injection H. Qed.
Lemma combine_fst {A B} (a : list A) (b : list B) : length a = length b -> map fst (combine a b) = a.
Proof. revert b; induction a as [|x a IH]; intros [|y b] H; try discriminate; [reflexivity|]. cbn. f_equal. apply IH. now injection H. Qed.
Lemma r_names_from_length i n : length (r_names_from i n) = n.
Proof. revert i; induction n as [|n IH]; intros i; [reflexivity|]. cbn. now rewrite IH. Qed.

Section TestifyMethod.
Variables (c : fctx) (o : topts) (tps : list tpdata) (S : str) (ms : list mdata) (m : mdata).
Let T := map tdecl tps.
Let E := expecter_name S.
Let C := call_name S (mn m).
Let P := pnames (mps m).
Let R := rnames (mrs m).
Let RI := r_names m.
Let A := [ret_name m; rf_name m; ok_name m].
Let AR := arg_names m.
Hypothesis HTe : map tdecl tps = map torig tps.
Hypothesis HTn : names_ok T = true.
Hypothesis HB : d_builtins c = true.
Hypothesis HS : smem S (c_filetypes c) = true.
Hypothesis HE : smem E (c_filetypes c) = true.
Hypothesis HCt : smem C (c_filetypes c) = true.
Hypothesis HQ : smem mock_q (c_quals c) = true.
Hypothesis HGen : disjointb (tf_gen_types S ms) tf_vars = true.
Hypothesis HCin : In C (tf_gen_types S ms).
Hypothesis HD : d_method c tps m = true.
Hypothesis HC : g_capture tps m = true.
Hypothesis HP : g_tf_params m = true.
Hypothesis HR : g_tf_results m = true.
Hypothesis HT : g_tf_types S ms tps m = true.
Hypothesis HPG : disjointb P (tf_gen_types S ms) = true.

Definition FIX := tf_vars ++ builtins ++ A ++ AR ++ RI ++ tf_gen_types S ms.

Lemma tf_method_facts :
  names_ok P = true /\ names_ok R = true /\
  forallb (fun p => types_known c tps (pty p)) (mps m) = true /\
  forallb (fun r => types_known c tps (rty r)) (mrs m) = true /\
  disjointb P (flat_map (fun p => ty_idents (pty p)) (mps m)) = true /\
  disjointb P (flat_map (fun r => ty_idents (rty r)) (mrs m)) = true /\
  disjointb P T = true /\
  disjointb R (flat_map (fun p => ty_idents (pty p)) (mps m)) = true /\
  disjointb R (flat_map (fun r => ty_idents (rty r)) (mrs m)) = true /\
  disjointb R T = true /\
  disjointb P (tf_taboo ++ RI) = true /\
  smem (L "_c") R = false /\
  disjointb (flat_map (fun p => ty_idents (pty p)) (mps m)) FIX = true /\
  disjointb (flat_map (fun r => ty_idents (rty r)) (mrs m)) FIX = true /\
  disjointb T FIX = true /\ T = map torig tps /\
  nodupb A = true /\ disjointb A P = true /\
  nodupb (AR ++ RI) = true /\
  disjointb (A ++ AR ++ RI) (tf_vars ++ builtins ++ [mock_q; blank]) = true /\
  disjointb RI A = true.
Proof.
  destruct (d_method_parts _ _ _ HD) as (HPn & HRn & HPe & Hpt & Hrt & Hvis & Hnames).
  unfold g_capture, sig_idents in HC. fold P R in HC.
  apply disjointb_app_l in HC as [HCP HCR].
  apply disjointb_app_r in HCP as [HCP1 HCP]. apply disjointb_app_r in HCP as [HCP2 HCP]. apply disjointb_app_r in HCP as [HCP3 HCP4].
  apply disjointb_app_r in HCR as [HCR1 HCR]. apply disjointb_app_r in HCR as [HCR2 HCR]. apply disjointb_app_r in HCR as [HCR3 HCR4].
  unfold g_tf_types, sig_idents in HT. apply disjointb_app_l in HT as [HT1 HT]. apply disjointb_app_l in HT as [HT2 HT].
  apply disjointb_app_l in HT as [HT3 HT4].
  destruct (tf_alloc_fresh m Hvis) as [HA1 HA2].
  unfold d_tf_names in Hnames. rewrite !andb_true_iff in Hnames. destruct Hnames as [[N1 N2] N3].
  unfold g_tf_results in HR. apply negb_true_iff in HR.
  repeat split; assumption.
Qed.
Ltac tf_prelude :=
  destruct tf_method_facts as (HPn & HRn & Hpt & Hrt & HCP1 & HCP2 & HCP4 & HCR1 & HCR2 & HCR4 & HPt & HRc & HT1 & HT2 & HTfix & ET
                               & HAn & HAP & HARI & HNfix & HRIA);
  assert (smem C T = false) as HCT by (apply (disjointb_smem_r _ _ _ HTfix); unfold FIX; in_solve);
  assert (smem C tf_vars = false) as HCV by (apply (disjointb_smem_l _ _ _ HGen); exact HCin);
  assert (smem C P = false) as HCP by (apply (disjointb_smem_r _ _ _ HPG); exact HCin).

Lemma tf_expecter_method_wf i : iftps i = tps -> ifstruct i = S -> wf_top c (tf_expecter_method_top i m) = true.
Proof.
  intros Ei Es. tf_prelude.
  unfold wf_top, tf_expecter_method_top. rewrite Ei, Es. cbn [t_items mk_top]. fold E C P. binders T HTn.
  cbn [app]. unfold FIX in HTfix.
  utopt c T HE. utopt c T HCt. inst c T. cbn [app]. ddecl.
  rewrite decl_vars; [| exact (names_ok_nd _ HPn)
                      | each; rewrite (names_ok_nb _ _ HPn Hx); unfold has; envc; cbn [andb negb];
                        apply negb_true_iff, orb_false_iff; split; sf].
  cbn [app]. utopt c T HCt. inst c T. cbn [app]. uvar0 c T.
  assert (forall l, wf_items c [] (add_vars P (declare false (L "_e") (s_tp T)))
                      ((if last_variadic (mps m) then [ub "append"] else []) ++ l)
                    = wf_items c [] (add_vars P (declare false (L "_e") (s_tp T))) l) as AP.
  { intros l. destruct (last_variadic (mps m)); [|reflexivity]. cbn [app]. ubuiltin c T HB. reflexivity. }
  rewrite AP. rewrite <- (app_nil_r (uvs true P)).
  rewrite (use_vars0 c T); [reflexivity | tysok | each; envc; apply andb_true_iff; split; [reflexivity | st]].
Qed.

Lemma tf_return_wf i : iftps i = tps -> ifstruct i = S -> wf_top c (tf_return_top i m) = true.
Proof.
  intros Ei Es. tf_prelude.
  unfold wf_top, tf_return_top. rewrite Ei, Es. cbn [t_items mk_top]. fold E C R. binders T HTn.
  cbn [app]. unfold FIX in *.
  utopt c T HCt.
  unfold rtys at 1. rewrite (use_types c T tps _ _ rty); [| exact ET | exact Hrt | tysok | envc; dj].
  cbn [app]. utopt c T HCt. inst c T. cbn [app]. ddecl.
  rewrite decl_vars; [| exact (names_ok_nd _ HRn)
                      | each; rewrite (names_ok_nb _ _ HRn Hx); unfold has; envc; cbn [andb negb];
                        apply negb_true_iff, orb_false_iff; split; sf].
  cbn [app]. uvar0 c T.
  rewrite (use_vars0 c T); [| tysok | each; envc; apply andb_true_iff; split; [reflexivity | st]].
  cbn [app]. uvar0 c T. reflexivity.
Qed.

Lemma tf_runandreturn_wf i : iftps i = tps -> ifstruct i = S -> wf_top c (tf_runandreturn_top i m) = true.
Proof.
  intros Ei Es. tf_prelude.
  unfold wf_top, tf_runandreturn_top. rewrite Ei, Es. cbn [t_items mk_top]. fold E C. binders T HTn.
  cbn [app]. unfold FIX in *.
  utopt c T HCt.
  unfold ptys at 1. rewrite (use_types c T tps _ _ pty); [| exact ET | exact Hpt | tysok | envc; dj].
  unfold rtys at 1. rewrite (use_types c T tps _ _ rty); [| exact ET | exact Hrt | tysok | envc; dj].
  cbn [app]. utopt c T HCt. inst c T. cbn [app]. ddecl. ddecl.
  uvar0 c T. uvar0 c T. uvar0 c T. reflexivity.
Qed.
Lemma nonvar_incl : incl (nonvar_ps m) (mps m).
Proof. unfold nonvar_ps. destruct (last_variadic (mps m)); [apply incl_removelast | apply incl_refl]. Qed.

Lemma tf_run_wf i : iftps i = tps -> ifstruct i = S -> wf_top c (tf_run_top o i m) = true.
Proof.
  intros Ei Es. tf_prelude.
  unfold wf_top, tf_run_top. rewrite Ei, Es. cbn [t_items mk_top]. fold E C. binders T HTn.
  cbn [app]. unfold FIX in *.
  utopt c T HCt.
  unfold ptys at 1. rewrite (use_types c T tps _ _ pty); [| exact ET | exact Hpt | tysok | envc; dj].
  cbn [app]. utopt c T HCt. inst c T. cbn [app]. ddecl. ddecl. uvar0 c T.
  rewrite wf_block_okb; [uvar0 c T; reflexivity|].
  (* the closure *)
  unfold tf_run_closure. cbv zeta.
  set (ras := run_args (run_scope m) 0 (nonvar_ps m)).
  change (flat_map (fun x : pdata * option str => match snd x with
            | Some a => intent tps (pty (fst x)) ++ [dv a; IBlock [uv false (L "args"); ub "nil"; IBlock ([uv false (L "args")] ++ intent tps (pty (fst x)) ++ [uv false a])]]
            | None => [] end) ras) with (run_pre tps ras).
  change (flat_map (fun x : pdata * option str => match snd x with
            | Some a => [uv false a]
            | None => uv false (L "args") :: intent tps (pty (fst x)) end) ras) with (run_uses tps ras).
  assert (anames ras = AR) as EA by reflexivity.
  assert (map fst ras = nonvar_ps m) as EF by apply run_args_fst.
  assert (nodupb AR = true) as HARn by (apply nodupb_app in HARI; tauto).
  assert (names_ok AR = true) as HARok.
  { unfold names_ok. rewrite HARn. cbn [andb]. apply forallb_forall. intros a Ha. apply negb_true_iff.
    rewrite seqb_sym. apply (seqb_of_smem blank a AR); [|now apply smem_true_In].
    apply smem_false. intros Hb. apply (proj1 (disjointb_spec _ _) HNfix blank); in_solve. }
  assert (forallb (fun x => types_known c tps (pty (fst x))) ras = true) as HK.
  { rewrite (forallb_map_fst (fun p => types_known c tps (pty p))), EF. exact (forallb_incl _ _ _ nonvar_incl Hpt). }
  assert (incl (flat_map (fun x => ty_idents (pty (fst x))) ras) (flat_map (fun p => ty_idents (pty p)) (mps m))) as HI.
  { rewrite (flat_map_map_fst (fun p => ty_idents (pty p))), EF. apply flat_map_incl, nonvar_incl. }
  assert (disjointb (flat_map (fun x => ty_idents (pty (fst x))) ras) (tf_vars ++ builtins ++ A ++ AR ++ RI ++ tf_gen_types S ms) = true) as HTr
    by exact (disjointb_sub_l _ _ _ HT1 HI).
  cbn [app]. uqual c T HQ. ddecl.
  rewrite (run_pre_ok c T tps ET HB); [| sf | rewrite EA; exact HARok | rewrite EA; each; apply negb_true_iff; unfold has; envc; apply orb_false_iff; split; sf
                                       | exact HK | tysok | rewrite EA; envc; dj | envc; st | rewrite EA; envc; sf].
  rewrite EA.
  assert (forall l, wf_items c [declare false (L "run") (declare false (L "_c") (s_tp T))]
                      (add_vars AR (declare false (L "args") empty_scope)) (uv true (L "run") :: run_uses tps ras ++ l)
                    = wf_items c [declare false (L "run") (declare false (L "_c") (s_tp T))]
                      (add_vars AR (declare false (L "args") empty_scope)) l) as RUN.
  { intros l. uvar0 c T.
    rewrite (run_uses_ok c T tps ET); [reflexivity | exact HK | tysok | envc; dj | envc; st | rewrite EA; each; envc; st]. }
  destruct (last_variadic (mps m)) eqn:LV; [| rewrite <- (app_nil_r (run_uses tps ras)), RUN; reflexivity].
  assert (exists elem, (match last_p (mps m) with Some p => intent tps (pty p) | None => [] end) = elem /\
            forall outer cur l, tys_ok T (cur :: outer) = true ->
              disjointb (flat_map (fun p => ty_idents (pty p)) (mps m)) (vars_of (cur :: outer)) = true ->
              wf_items c outer cur (elem ++ l) = wf_items c outer cur l) as (elem & -> & ELEM).
  { eexists. split; [reflexivity|]. intros outer cur l TO DJ. destruct (last_p (mps m)) as [p|] eqn:LP; [|reflexivity].
    apply last_p_in in LP. rewrite (use_type c T tps); [reflexivity | exact ET | | exact TO |].
    - rewrite forallb_forall in Hpt. now apply Hpt.
    - apply (disjointb_sub_l _ _ _ DJ). intros x Hx. apply in_flat_map. exists p. now split. }
  destruct (unroll o).
  - cbn [app]. ubuiltin c T HB. rewrite <- app_assoc. rewrite ELEM; [| tysok | envc; dj]. cbn [app]. ubuiltin c T HB. uvarany c T. ddecl.
    erewrite wf_block_ok.
    2:{ uvarany c T. ddecl. ddecl.
        erewrite wf_block_ok; [reflexivity|].
        erewrite wf_block_ok; [reflexivity|].
        uvarany c T. ubuiltin c T HB.
        erewrite wf_block_ok; [reflexivity|].
        cbn [app]. uvarany c T. rewrite ELEM; [| tysok | envc; dj]. cbn [app]. uvarany c T. uvarany c T. reflexivity. }
    uvar0 c T.
    rewrite (run_uses_ok c T tps ET); [| exact HK | tysok | envc; dj | envc; st | rewrite EA; each; envc; st].
    uvarany c T. reflexivity.
  - rewrite <- app_assoc. rewrite ELEM; [| tysok | envc; dj]. cbn [app]. ddecl.
    erewrite wf_block_ok.
    2:{ ubuiltin c T HB. uvarany c T.
        erewrite wf_block_ok; [reflexivity|].
        cbn [app]. uvarany c T. rewrite ELEM; [| tysok | envc; dj]. cbn [app]. uvarany c T. reflexivity. }
    uvar0 c T.
    rewrite (run_uses_ok c T tps ET); [| exact HK | tysok | envc; dj | envc; st | rewrite EA; each; envc; st].
    uvarany c T. reflexivity.
Qed.
Ltac ddecla := unfold dv at 1; rewrite wf_decl_ok; [| first [reflexivity | assumption] | unfold has; envc; apply orb_false_iff; split; sf].
Ltac p_uses c T := rewrite (use_vars0 c T); [| tysok | each; envc; apply andb_true_iff; split; [apply negb_true_iff; sf | st]].
Ltac p_tys c T tps := unfold ptys at 1; rewrite (use_types c T tps _ _ pty); [| assumption | assumption | tysok | envc; dj].
Ltac r_tys c T tps := unfold rtys at 1; rewrite (use_types c T tps _ _ rty); [| assumption | assumption | tysok | envc; dj].

(* if returnFunc, ok := ret.Get(0).(func(...) (...)); ok { return returnFunc(...) } *)
Ltac tail_whole c T tps :=
  rewrite wf_block_okb;
  [| uvar0 c T; p_tys c T tps; r_tys c T tps;
     cbn [app]; ddecla; ddecla; uvarany c T;
     rewrite wf_block_okb; [reflexivity|];
     uvarany c T; rewrite <- (app_nil_r (uvs true _)); p_uses c T; reflexivity ].

(* one block per result *)
Ltac tail_result c T tps rx nx Hx :=
  let Hf := fresh "Hf" in let Hs := fresh "Hs" in
  pose proof (in_combine_l _ _ _ _ Hx) as Hf; pose proof (in_combine_r _ _ _ _ Hx) as Hs;
  match goal with Hrt : forallb (fun r => types_known c tps (rty r)) ?rs = true |- _ =>
    let K := fresh "K" in
    assert (types_known c tps (rty rx) = true) as K by (rewrite forallb_forall in Hrt; now apply Hrt);
    let I := fresh "I" in
    assert (incl (ty_idents (rty rx)) (flat_map (fun r => ty_idents (rty r)) rs)) as I
      by (intros ? ?; apply in_flat_map; exists rx; now split)
  end;
  match goal with
  | I : incl (ty_idents (rty rx)) ?ids, H1 : disjointb P ?ids = true, H2 : disjointb ?ids ?FIXL = true |- _ =>
    let D1 := fresh "D1" in let D2 := fresh "D2" in
    pose proof (disjointb_sub_r _ _ _ H1 I) as D1; pose proof (disjointb_sub_l _ _ _ H2 I) as D2
  end.

(* ret := <called>; if len(ret) == 0 { panic }; var r_i T_i ...; the provider blocks; return r0, ... *)
Ltac tail c T tps m HB HLEN :=
  cbn [app]; ddecla;
  erewrite wf_block_ok; [| ubuiltin c T HB; uvar0 c T; erewrite wf_block_ok; [reflexivity | ubuiltin c T HB; reflexivity]];
  rewrite (seq_decls c T tps) with (ty := fun x : rdata * str => rty (fst x)) (nm := @snd rdata str);
    [| assumption
     | rewrite (combine_snd _ _ HLEN); assumption
     | rewrite (combine_snd _ _ HLEN); each; apply negb_true_iff; unfold has; envc; apply orb_false_iff; split; sf
     | rewrite (forallb_map_fst (fun r => types_known c tps (rty r))), (combine_fst _ _ HLEN); assumption
     | tysok
     | rewrite (flat_map_map_fst (fun r => ty_idents (rty r))), (combine_fst _ _ HLEN), (combine_snd _ _ HLEN); envc; dj ];
  rewrite (combine_snd _ _ HLEN);
  match goal with
  | |- context [if ?b then [?w] else []] => destruct b; cbn [app]; [tail_whole c T tps | idtac]
  | |- context [if ?b then ?w :: [?w'] else []] => destruct b; cbn [app]; [tail_whole c T tps; tail_whole c T tps | idtac]
  end;
  (rewrite map_blocks_ok;
   [| let rx := fresh "rx" in let nx := fresh "nx" in let Hx := fresh "Hx" in
      intros [rx nx] Hx; cbn [fst snd]; tail_result c T tps rx nx Hx;
      uvar0 c T; p_tys c T tps;
      rewrite (use_type c T tps _ _ (rty rx)); [| assumption | assumption | tysok | envc; dj];
      cbn [app]; ddecla; ddecla; uvarany c T;
      rewrite wf_block_okb; [| uvarany c T; p_uses c T; cbn [app]; uvar0 c T; reflexivity];
      rewrite wf_block_okb; [reflexivity|];
      unfold tf_else; destruct (riserr rx);
      [ uvar0 c T; uvar0 c T; reflexivity
      | destruct (rnil rx);
        [ rewrite wf_block_okb; [reflexivity|]; uvar0 c T; ubuiltin c T HB;
          rewrite wf_block_okb; [reflexivity|]; cbn [app]; uvar0 c T;
          rewrite (use_type c T tps _ _ (rty rx)); [| assumption | assumption | tysok | envc; dj];
          cbn [app]; uvar0 c T; reflexivity
        | cbn [app]; uvar0 c T;
          rewrite (use_type c T tps _ _ (rty rx)); [| assumption | assumption | tysok | envc; dj];
          cbn [app]; uvar0 c T; reflexivity ] ] ];
   rewrite <- (app_nil_r (uvs true _));
   rewrite (use_vars0 c T); [reflexivity | tysok | each; envc; apply andb_true_iff; split; [reflexivity | st]]).

Lemma last_variadic_p : last_variadic (mps m) = true ->
  exists p, last_p (mps m) = Some p /\ In (pn p) P.
Proof.
  unfold last_variadic, last_p. destruct (rev (mps m)) as [|p r] eqn:ER; [discriminate|]. intros _.
  exists p. split; [reflexivity|]. unfold P, pnames. apply in_map. apply in_rev. rewrite ER. now left.
Qed.
Lemma removelast_P : incl (pnames (removelast (mps m))) P.
Proof. unfold P, pnames. intros x H. apply in_map_iff in H as (p & <- & Hp). apply in_map. now apply incl_removelast. Qed.

Lemma tf_mock_wf i : iftps i = tps -> ifstruct i = S -> wf_top c (tf_mock_top o i m) = true.
Proof.
  intros Ei Es. tf_prelude.
  unfold wf_top, tf_mock_top. rewrite Ei, Es. cbn [t_items mk_top]. fold E C P R. binders T HTn.
  cbn [app]. unfold FIX in *.
  utopt c T HS.
  unfold ptys at 1. rewrite (use_types c T tps _ _ pty); [| exact ET | exact Hpt | tysok | envc; dj].
  unfold rtys at 1. rewrite (use_types c T tps _ _ rty); [| exact ET | exact Hrt | tysok | envc; dj].
  cbn [app]. ddecl.
  rewrite decl_vars; [| exact (names_ok_nd _ HPn)
                      | each; rewrite (names_ok_nb _ _ HPn Hx); unfold has; envc; cbn [andb negb];
                        apply negb_true_iff, orb_false_iff; split; sf].
  unfold tf_body. cbv zeta. fold P R RI.
  assert (length (mrs m) = length RI) as HLEN by (unfold RI, r_names; now rewrite r_names_from_length).
  assert (nodupb RI = true) as HRIn by (apply nodupb_app in HARI; tauto).
  assert (forall n, In n RI -> seqb n blank = false) as HRIb.
  { intros n Hn. rewrite seqb_sym. apply (seqb_of_smem blank n RI); [|now apply smem_true_In].
    apply smem_false. intros Hb. apply (proj1 (disjointb_spec _ _) HNfix blank); in_solve. }
  assert (names_ok RI = true) as HRIok.
  { unfold names_ok. rewrite HRIn. cbn [andb]. apply forallb_forall. intros n Hn. now rewrite (HRIb n Hn). }
  assert (seqb (ret_name m) blank = false /\ seqb (rf_name m) blank = false /\ seqb (ok_name m) blank = false) as (HBr & HBf & HBo).
  { repeat split; rewrite seqb_sym; apply (seqb_of_smem blank _ A); try (apply smem_true_In; in_solve);
      apply smem_false; intros Hb; apply (proj1 (disjointb_spec _ _) HNfix blank); in_solve. }
  assert (disjointb P RI = true) as HPRI by (apply disjointb_app_r in HPt; tauto).
  assert (disjointb P tf_taboo = true) as HPtab by (apply disjointb_app_r in HPt; tauto).
  assert (seqb (ret_name m) (rf_name m) = false /\ seqb (ret_name m) (ok_name m) = false /\ seqb (rf_name m) (ok_name m) = false)
    as (HA12 & HA13 & HA23).
  { unfold A in HAn. cbn [nodupb] in HAn. rewrite !andb_true_iff, !negb_true_iff in HAn. destruct HAn as (H1 & H2 & _).
    rewrite !smem_cons in H1, H2. apply orb_false_iff in H1 as [H1a H1b]. apply orb_false_iff in H1b as [H1b _].
    apply orb_false_iff in H2 as [H2 _]. auto. }
  destruct (last_variadic (mps m)) eqn:LV; destruct (unroll o) eqn:UN; cbn [negb orb andb].
  3,4: (destruct (nonempty (mrs m)) eqn:NE; cbn [negb]; cbn [app]; uvar0 c T;
        [ rewrite (use_vars0 c T); [| tysok | each; envc; apply andb_true_iff; split; [reflexivity | st]]; tail c T tps m HB HLEN
        | rewrite <- (app_nil_r (uvs true P));
          rewrite (use_vars0 c T); [reflexivity | tysok | each; envc; apply andb_true_iff; split; [reflexivity | st]] ]).
  - (* variadic, unrolled: _va / _ca *)
    destruct (last_variadic_p LV) as (p & LP & HpP). rewrite LP.
    assert (forall l (cur := add_vars P (declare false (L "_mock") (s_tp T))),
       wf_items c [] cur
         ((if pany p then [] else
            [ub "make"; ub "len"; uv true (pn p); dv (L "_va");
             IBlock [uv true (pn p); dv (L "_i"); IBlock [uv true (pn p); uv false (L "_i"); uv true (L "_va"); uv false (L "_i")]]]) ++ l)
       = wf_items c [] (if pany p then cur else declare false (L "_va") cur) l) as VA.
    { intros l cur. subst cur. destruct (pany p); [reflexivity|]. cbn [app].
      ubuiltin c T HB. ubuiltin c T HB. uvar0 c T. ddecla.
      erewrite wf_block_ok; [reflexivity|]. uvar0 c T. ddecla.
      erewrite wf_block_ok; [reflexivity|]. uvar0 c T. uvarany c T. uvar0 c T. uvarany c T. reflexivity. }

    assert (forall cur l, (cur = add_vars P (declare false (L "_mock") (s_tp T)) \/
                           cur = declare false (L "_va") (add_vars P (declare false (L "_mock") (s_tp T)))) ->
       wf_items c [] (declare false (L "_ca") cur)
         ((if 1 <? length (mps m)
           then [ub "append"; uv true (L "_ca")] ++ uvs true (pnames (removelast (mps m))) ++ [uv true (L "_ca")] else []) ++ l)
       = wf_items c [] (declare false (L "_ca") cur) l) as CA.
    { intros cur l [-> | ->]; (destruct (1 <? length (mps m)); [|reflexivity]); rewrite <- ?app_assoc; cbn [app];
        ubuiltin c T HB; uvar0 c T;
        (rewrite (use_vars0 c T); [| tysok | apply forallb_forall; intros x Hx; apply removelast_P in Hx; envc;
                                             apply andb_true_iff; split; [reflexivity | st]]);
        cbn [app]; uvar0 c T; reflexivity. }
    destruct (nonempty (mrs m)) eqn:NE; cbn [negb]; rewrite <- ?app_assoc; rewrite VA;
      (destruct (pany p); cbn [app]; ddecla; (rewrite CA; [| auto]);
       cbn [app]; ubuiltin c T HB; uvar0 c T; uvar0 c T; uvar0 c T; uvar0 c T; uvar0 c T);
      first [reflexivity | tail c T tps m HB HLEN].
  - (* variadic, not unrolled: tmpRet *)
    destruct (last_variadic_p LV) as (p & LP & HpP). rewrite LP.
    destruct (nonempty (mrs m)) eqn:NE; cbn [negb app].
    + uqual c T HQ. ddecla.
      erewrite wf_block_ok.
      2:{ ubuiltin c T HB. uvar0 c T.
          erewrite wf_block_ok; [| uvar0 c T; p_uses c T; cbn [app]; uvar0 c T; reflexivity].
          erewrite wf_block_ok; [reflexivity|]. uvar0 c T.
          rewrite (use_vars0 c T); [| tysok | apply forallb_forall; intros x Hx; apply removelast_P in Hx; envc;
                                            apply andb_true_iff; split; [reflexivity | st]].
          cbn [app]. uvar0 c T. reflexivity. }
      uvar0 c T. tail c T tps m HB HLEN.
    + erewrite wf_block_ok; [reflexivity|].
      ubuiltin c T HB. uvar0 c T.
      erewrite wf_block_ok; [| uvar0 c T; rewrite app_nil_r; rewrite <- (app_nil_r (uvs true P)); p_uses c T; reflexivity].
      erewrite wf_block_ok; [reflexivity|]. uvar0 c T. rewrite app_nil_r.
      rewrite <- (app_nil_r (uvs true _)).
      rewrite (use_vars0 c T); [reflexivity | tysok | apply forallb_forall; intros x Hx; apply removelast_P in Hx; envc;
                                                      apply andb_true_iff; split; [reflexivity | st]].
Qed.
End TestifyMethod.


(* ------------------------------------------------------------------ testify: the file *)
Lemma suffix_not_blank (s t : str) : 2 <= length t -> seqb (s ++ t) blank = false.
Proof.
  intros L. apply seqb_neq. intros H. apply (f_equal (@length byte)) in H. rewrite app_length in H.
  change (length blank) with 1 in H. lia.
Qed.
Lemma expecter_not_blank s : seqb (expecter_name s) blank = false.
Proof. unfold expecter_name. apply suffix_not_blank. cbn. lia. Qed.
Lemma call_not_blank s n : seqb (call_name s n) blank = false.
Proof. unfold call_name. apply suffix_not_blank. rewrite !app_length. cbn. lia. Qed.

Section TestifyFile.
Variables (o : topts) (f : fdata).
Let s := testify_skel o f.
Let c := skel_ctx s.
Hypothesis HD : data_ok f c = true.
Hypothesis HM : d_tf f = true.
Hypothesis HG : tf_guards f = true.
Hypothesis HN : file_names_ok s = true.

Lemma tf_top_in i t : In i (f_ifaces f) -> In t (testify_iface o i) -> In t (s_tops s).
Proof. intros Hi Ht. unfold s, testify_skel. cbn [s_tops]. apply in_flat_map. exists i. now split. Qed.

Lemma tf_filetype t : In t (s_tops s) -> t_kind t = TType -> seqb (t_name t) blank = false ->
  smem (t_name t) (c_filetypes c) = true.
Proof.
  intros Ht K NB. apply smem_In. unfold c, skel_ctx. cbn [c_filetypes]. unfold top_names.
  apply in_map. apply filter_In. split; [exact Ht|]. rewrite K, NB. reflexivity.
Qed.

Lemma d_tf_parts i : In i (f_ifaces f) ->
  seqb (ifstruct i) blank = false /\ disjointb (tf_gen_types (ifstruct i) (ifms i)) tf_vars = true /\
  forallb (fun m => disjointb (pnames (mps m)) (tf_gen_types (ifstruct i) (ifms i))) (ifms i) = true.
Proof.
  intros Hi. unfold d_tf in HM. rewrite forallb_forall in HM. specialize (HM i Hi). unfold d_tf_iface in HM.
  rewrite !andb_true_iff, negb_true_iff in HM. tauto.
Qed.

Lemma tf_S i : In i (f_ifaces f) -> smem (ifstruct i) (c_filetypes c) = true.
Proof.
  intros Hi. destruct (d_tf_parts i Hi) as (NB & _).
  apply (tf_filetype (tf_struct_top i)); [| reflexivity | exact NB].
  apply (tf_top_in i); [exact Hi|]. unfold testify_iface. right. now left.
Qed.
Lemma tf_E i : In i (f_ifaces f) -> smem (expecter_name (ifstruct i)) (c_filetypes c) = true.
Proof.
  intros Hi. apply (tf_filetype (tf_expecter_type_top i)); [| reflexivity | apply expecter_not_blank].
  apply (tf_top_in i); [exact Hi|]. unfold testify_iface. right. right. now left.
Qed.
Lemma tf_C i m : In i (f_ifaces f) -> In m (ifms i) -> smem (call_name (ifstruct i) (mn m)) (c_filetypes c) = true.
Proof.
  intros Hi Hm. apply (tf_filetype (tf_call_type_top i m)); [| reflexivity | apply call_not_blank].
  apply (tf_top_in i); [exact Hi|]. unfold testify_iface. apply in_or_app. right.
  apply in_flat_map. exists m. split; [exact Hm|]. unfold testify_method. right. now left.
Qed.
Lemma tf_Q : smem mock_q (c_quals c) = true.
Proof.
  apply smem_In. unfold c, skel_ctx, s, testify_skel. cbn [c_quals s_imports]. rewrite map_app. apply in_or_app. right. now left.
Qed.

Lemma tf_guards_parts i : In i (f_ifaces f) ->
  g_tparams (iftps i) = true /\ g_tf_tps (ifstruct i) (ifms i) (iftps i) = true /\
  forallb (fun m => g_capture (iftps i) m && g_tf_params m && g_tf_results m && g_tf_types (ifstruct i) (ifms i) (iftps i) m) (ifms i) = true.
Proof.
  intros Hi. unfold tf_guards in HG. apply andb_true_iff in HG as [_ HG']. rewrite forallb_forall in HG'. specialize (HG' i Hi).
  unfold tf_guards_iface in HG'. rewrite !andb_true_iff in HG'. tauto.
Qed.

Lemma tf_tops_ok : forallb (wf_top c) (s_tops s) = true.
Proof.
  apply forallb_forall. intros t Ht. unfold s, testify_skel in Ht. cbn [s_tops] in Ht.
  apply in_flat_map in Ht as (i & Hi & Ht).
  destruct (data_ok_parts _ _ HD) as (_ & _ & _ & _ & _ & HB & HI).
  rewrite forallb_forall in HI. specialize (HI i Hi).
  destruct (d_iface_parts _ _ HI) as (HTn & HTcon & HMs).
  destruct (tf_guards_parts i Hi) as (GT & GTP & GM).
  destruct (d_tf_parts i Hi) as (NB & HGen & HPGs).
  pose proof (g_tparams_eq _ GT) as HTe.
  pose proof (tf_S i Hi) as HS. pose proof (tf_E i Hi) as HE. pose proof tf_Q as HQ.
  unfold testify_iface in Ht. apply in_app_or in Ht as [Ht|Ht].
  - destruct Ht as [<-|[<-|[<-|[<-|[]]]]].
    + apply (tf_ctor_wf c (iftps i) (ifstruct i) (ifms i)); try assumption; reflexivity.
    + apply (tf_struct_like c (iftps i) (ifstruct i) (ifms i)); assumption.
    + apply (tf_struct_like c (iftps i) (ifstruct i) (ifms i)); assumption.
    + apply (tf_expect_wf c (iftps i) (ifstruct i) (ifms i)); try assumption; reflexivity.
  - apply in_flat_map in Ht as (m & Hm & Ht).
    rewrite forallb_forall in HMs, GM, HPGs. specialize (HMs m Hm). specialize (GM m Hm). specialize (HPGs m Hm).
    rewrite !andb_true_iff in GM. destruct GM as [[[GC GP] GR] GTy].
    pose proof (tf_C i m Hi Hm) as HCt.
    assert (In (call_name (ifstruct i) (mn m)) (tf_gen_types (ifstruct i) (ifms i))) as HCin.
    { unfold tf_gen_types. right. right. apply in_map_iff. exists m. now split. }
    unfold testify_method in Ht. destruct Ht as [<-|[<-|[<-|[<-|[<-|[<-|[]]]]]]].
    + apply (tf_mock_wf c o (iftps i) (ifstruct i) (ifms i) m); try assumption; reflexivity.
    + apply (tf_struct_like c (iftps i) (ifstruct i) (ifms i)); assumption.
    + apply (tf_expecter_method_wf c (iftps i) (ifstruct i) (ifms i) m); try assumption; reflexivity.
    + apply (tf_run_wf c o (iftps i) (ifstruct i) (ifms i) m); try assumption; reflexivity.
    + apply (tf_return_wf c (iftps i) (ifstruct i) (ifms i) m); try assumption; reflexivity.
    + apply (tf_runandreturn_wf c (iftps i) (ifstruct i) (ifms i) m); try assumption; reflexivity.
Qed.

(* imports *)
Lemma tf_used_types i q : In i (f_ifaces f) ->
  In q (flat_map (fun t => ty_quals (tcon t)) (iftps i)
        ++ flat_map (fun m => flat_map (fun p => ty_quals (pty p)) (mps m) ++ flat_map (fun r => ty_quals (rty r)) (mrs m)) (ifms i)) ->
  In q (flat_map (fun t => flat_map qual_uses (t_items t)) (s_tops s)).
Proof.
  intros Hi Hq. apply in_app_or in Hq as [Hq|Hq].
  - apply in_flat_map. exists (tf_struct_top i). split.
    + apply (tf_top_in i); [exact Hi|]. unfold testify_iface. right. now left.
    + unfold tf_struct_top. cbn [t_items mk_top]. rewrite flat_map_app'. apply in_or_app. left.
      unfold tp_decl. rewrite flat_map_app'. apply in_or_app. right.
      apply in_flat_map in Hq as (t & Ht & Hq). eapply (quses_types (iftps i) tcon); eauto.
  - apply in_flat_map in Hq as (m & Hm & Hq).
    apply in_flat_map. exists (tf_runandreturn_top i m). split.
    + apply (tf_top_in i); [exact Hi|]. unfold testify_iface. apply in_or_app. right.
      apply in_flat_map. exists m. split; [exact Hm|]. unfold testify_method. do 5 right. now left.
    + unfold tf_runandreturn_top. cbn [t_items mk_top]. rewrite !flat_map_app'.
      apply in_or_app. right. apply in_or_app. right.
      apply in_app_or in Hq as [Hq|Hq]; apply in_flat_map in Hq as (x & Hx & Hq).
      * apply in_or_app. left. eapply (quses_types (iftps i) pty); eauto.
      * apply in_or_app. right. apply in_or_app. left. eapply (quses_types (iftps i) rty); eauto.
Qed.

Lemma tf_used_mock : In mock_q (flat_map (fun t => flat_map qual_uses (t_items t)) (s_tops s)).
Proof.
  destruct (data_ok_parts _ _ HD) as (_ & _ & _ & _ & NE & _).
  destruct (f_ifaces f) as [|i rest] eqn:EI; [discriminate|].
  apply in_flat_map. exists (tf_struct_top i). split.
  - apply (tf_top_in i); [rewrite EI; now left|]. unfold testify_iface. right. now left.
  - unfold tf_struct_top. cbn [t_items mk_top]. rewrite flat_map_app'. apply in_or_app. right. cbn. auto.
Qed.

Lemma tf_imports_ok :
  (let quals := filter (fun q => negb (seqb q blank) && negb (seqb q dot)) (map snd (s_imports s)) in
   let used := flat_map (fun t => flat_map qual_uses (t_items t)) (s_tops s) in
   nodupb (map fst (s_imports s)) && nodupb quals && forallb (fun q => smem q used) quals) = true.
Proof.
  cbv zeta. destruct (data_ok_parts _ _ HD) as (N1 & N2 & _ & Hneeded & _).
  pose proof (reg_of_rinv f N1 (names_ok_nd _ N2)) as [R1 R2].
  unfold tf_guards in HG. apply andb_true_iff in HG as [GM _]. unfold g_tf_mock_import in GM.
  apply andb_true_iff in GM as [GM1 GM2]. apply negb_true_iff in GM1, GM2.
  unfold s, testify_skel. cbn [s_imports]. rewrite !map_app. cbn [map fst snd].
  rewrite !andb_true_iff. repeat split.
  - apply nodupb_app. repeat split.
    + apply nodupb_NoDup. eapply Permutation_NoDup; [apply imports_of_paths | exact R1].
    + apply disjointb_cons_r; [|apply disjointb_nil_r]. apply smem_false. intros H.
      apply smem_false in GM2. apply GM2. rewrite <- reg_of_paths.
      eapply Permutation_in; [apply Permutation_sym, imports_of_paths | exact H].
  - apply nodupb_filter. apply nodupb_app. repeat split.
    + apply nodupb_NoDup. eapply Permutation_NoDup; [apply imports_of_quals | exact R2].
    + apply disjointb_cons_r; [|apply disjointb_nil_r]. apply smem_false. intros H.
      apply smem_false in GM1. apply GM1. rewrite <- reg_of_quals.
      eapply Permutation_in; [apply Permutation_sym, imports_of_quals | exact H].
  - apply forallb_forall. intros q Hq. apply filter_In in Hq as [Hq _]. apply smem_In.
    apply in_app_or in Hq as [Hq|[<-|[]]]; [| apply tf_used_mock].
    assert (In q (map snd (f_imports f))) as Hq'.
    { rewrite <- reg_of_quals. eapply Permutation_in; [apply Permutation_sym, imports_of_quals | exact Hq]. }
    rewrite forallb_forall in Hneeded. specialize (Hneeded q Hq'). apply smem_In in Hneeded.
    unfold all_type_quals in Hneeded. apply in_flat_map in Hneeded as (i & Hi & Hqi). eapply tf_used_types; eauto.
Qed.

Theorem testify_wf : wf_file s = true.
Proof.
  rewrite wf_file_split. fold c. rewrite tf_imports_ok, HN, tf_tops_ok. reflexivity.
Qed.
End TestifyFile.

(* ================================================================== C01_self *)
Lemma step_self_free d st o :
  dst (fst st) = d -> inpkg (fst st) = true -> ~ In d (map ipath (imports (fst st))) ->
  ~ In d (map ipath (imports (fst (fst (step st o))))).
Proof.
  destruct st as [r s]. cbn [fst]. intros D I N.
  destruct o; cbn [step fst]; try exact N; try (unfold allocate; cbn [fst]; exact N).
  pose proof (add_import_cases r name path) as H. destruct (add_import r name path) as [r' x]. cbn [fst].
    destruct H as (_ & _ & [(_ & -> & _) | [(_ & -> & _) | (NS & _ & i & _ & E & P & _)]]); try exact N.
  rewrite E, map_app. cbn [map]. intros Hin. apply in_app_or in Hin as [Hin|[Hin|[]]]; [now apply N|].
  apply NS. unfold self. rewrite <- Hin, P in *. subst d. now split.
Qed.

Lemma self_never_imported d ops : ~ In d (map ipath (imports (fst (final (init d true) ops)))).
Proof.
  assert (forall st, dst (fst st) = d -> inpkg (fst st) = true -> ~ In d (map ipath (imports (fst st))) ->
                     ~ In d (map ipath (imports (fst (final st ops))))) as G.
  { induction ops as [|o ops IH]; intros st D I N; [exact N|]. cbn [final]. apply IH.
    - destruct (step_reg_consts st o) as [H _]. congruence.
    - destruct (step_reg_consts st o) as [_ H]. congruence.
    - now apply step_self_free. }
  apply G; [reflexivity | reflexivity | intros []].
Qed.

Lemma bare_types_resolve c env n :
  resolve_ok c env KPkgType n = true -> (In n (c_types c) \/ In n universe_types) /\ ~ In n (c_quals c).
Proof.
  unfold resolve_ok. destruct (lookup n env) as [[? ?]|]; [discriminate|]. unfold pkg_type_ok.
  rewrite andb_true_iff, orb_true_iff, negb_true_iff, !smem_In, smem_false. tauto.
Qed.
Lemma qualifiers_resolve c env q :
  resolve_ok c env KQual q = true -> In q (c_quals c) /\ lookup q env = None.
Proof.
  unfold resolve_ok. destruct (lookup q env) as [[? ?]|]; [discriminate|]. rewrite smem_In. tauto.
Qed.

(* ================================================================== generated parameter names *)
Definition ends_with (s suf : str) : bool := has_prefix (rev s) (rev suf).
Lemma ends_with_app a suf : ends_with (a ++ suf) suf = true.
Proof. unfold ends_with. rewrite rev_app_distr. apply has_prefix_spec. eauto. Qed.

(* a generated name is never one of the reserved identifiers: in particular never `mock` or `callInfo`, the
   receiver and the local of the matryer template (and the qualifier of the testify template) *)
Lemma gen_name_not_reserved tn : smem (gen_name tn) reserved_names = false.
Proof.
  unfold gen_name. set (n := if seqb tn (L "error") then _ else _).
  destruct (smem n reserved_names) eqn:E; [|exact E].
  assert (forallb (fun r => negb (ends_with r (L "Param"))) reserved_names = true) as F by (vm_compute; reflexivity).
  apply smem_false. intros H. rewrite forallb_forall in F. specialize (F _ H).
  rewrite ends_with_app in F. discriminate.
Qed.
