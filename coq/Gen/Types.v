(* Go types as mockery sees them through go/types, mirroring the JSON AST of
   harness/gen_pkgs.py (C14, C02).  No proofs in this file.

   Packages are identified by their import path (the package NAME is looked up in a table,
   as go/types does through *types.Package).  [None] as a package means the universe
   (error, comparable, any: Obj().Pkg() == nil).

   All lists of children are lists of LABELLED children:
     type arguments / embedded interfaces      : empty label
     parameters / results                      : lname = the name ("" = unnamed)
     struct fields                             : lname, ltag = the tag, lflag = embedded
     methods of an anonymous interface         : lname = method name, the child is a TFunc
     union terms                               : lflag = tilde                              *)
From Mk Require Import Lib.Bytes.

Inductive dir := DBoth | DSend | DRecv.

Record label := { lname : str; ltag : str; lflag : bool }.
Definition nolabel : label := {| lname := []; ltag := []; lflag := false |}.
Definition named_label (n : str) : label := {| lname := n; ltag := []; lflag := false |}.

Inductive ty :=
| TBasic (n : str)                                          (* predeclared non-interface types: int, string, ... *)
| TUnsafePtr                                                (* unsafe.Pointer: a *types.Basic that lives in package unsafe *)
| TNamed (p : option str) (n : str) (targs : list (label * ty))
| TAlias (p : option str) (n : str) (targs : list (label * ty))
| TPtr (e : ty)
| TSlice (e : ty)
| TArray (len : nat) (e : ty)
| TMap (k e : ty)
| TChan (d : dir) (e : ty)
| TFunc (ps : list (label * ty)) (variadic : bool) (rs : list (label * ty))
| TStruct (fs : list (label * ty))
| TIface (ms : list (label * ty)) (es : list (label * ty))  (* explicit methods in go/types order, then embedded types *)
| TUnion (ts : list (label * ty))
| TParam (n : str).

Definition items (T : Type) := list (label * T).
Definition map_items {A B} (f : A -> B) (l : items A) : items B := map (fun it => (fst it, f (snd it))) l.

(* a method signature *)
Record sig := { sparams : items ty; svariadic : bool; sresults : items ty }.
Definition sig_ty (s : sig) : ty := TFunc (sparams s) (svariadic s) (sresults s).

Definition unsafe_path : str := B "unsafe".

(* ------------------------------------------------------------------------------------
   imports_of: the sequence of addImport calls made by MethodScope.populateImportsHelper
   (template/method_scope.go), constructor by constructor, in the same traversal order.
   The order decides which package gets which alias.
   ------------------------------------------------------------------------------------ *)
Fixpoint imports_of (t : ty) : list str :=
  match t with
  | TBasic _ => []
  | TUnsafePtr => [unsafe_path]                            (* case *types.Basic: Kind() == UnsafePointer *)
  | TNamed p _ targs | TAlias p _ targs =>                 (* populateImportNamedType: the package, then the type arguments *)
      (match p with Some p => [p] | None => [] end) ++ flat_map (fun it => imports_of (snd it)) targs
  | TPtr e | TSlice e | TArray _ e | TChan _ e => imports_of e
  | TMap k e => imports_of k ++ imports_of e
  | TFunc ps _ rs => flat_map (fun it => imports_of (snd it)) ps ++ flat_map (fun it => imports_of (snd it)) rs
  | TStruct fs => flat_map (fun it => imports_of (snd it)) fs
  | TIface ms es => flat_map (fun it => imports_of (snd it)) ms ++ flat_map (fun it => imports_of (snd it)) es
  | TUnion ts => flat_map (fun it => imports_of (snd it)) ts
  | TParam _ => []                                         (* default branch: nothing *)
  end.

(* every reference to a declared object made by a type *)
Inductive ref := RefObj (p : option str) (n : str) | RefTParam (n : str).

Fixpoint refs (t : ty) : list ref :=
  match t with
  | TBasic n => [RefObj None n]
  | TUnsafePtr => [RefObj (Some unsafe_path) (B "Pointer")]
  | TNamed p n targs | TAlias p n targs => RefObj p n :: flat_map (fun it => refs (snd it)) targs
  | TPtr e | TSlice e | TArray _ e | TChan _ e => refs e
  | TMap k e => refs k ++ refs e
  | TFunc ps _ rs => flat_map (fun it => refs (snd it)) ps ++ flat_map (fun it => refs (snd it)) rs
  | TStruct fs => flat_map (fun it => refs (snd it)) fs
  | TIface ms es => flat_map (fun it => refs (snd it)) ms ++ flat_map (fun it => refs (snd it)) es
  | TUnion ts => flat_map (fun it => refs (snd it)) ts
  | TParam n => [RefTParam n]
  end.

(* is the type a bare identifier (its type string is that identifier)? *)
Definition atomic (t : ty) : bool :=
  match t with
  | TBasic _ | TParam _ => true
  | TNamed _ _ [] | TAlias _ _ [] => true
  | _ => false
  end.

(* The identity of the denoted type: which declared objects are referred to, in which
   structure.  Whether a declared name is an alias and whether a predeclared name is a
   "basic" type are properties of the DECLARATION, not of the reference, so they are
   erased: TAlias -> TNamed, TBasic n -> TNamed None n, unsafe.Pointer -> the object
   Pointer of package unsafe. *)
Fixpoint norm (t : ty) : ty :=
  match t with
  | TBasic n => TNamed None n []
  | TUnsafePtr => TNamed (Some unsafe_path) (B "Pointer") []
  | TNamed p n targs | TAlias p n targs => TNamed p n (map_items norm targs)
  | TPtr e => TPtr (norm e)
  | TSlice e => TSlice (norm e)
  | TArray l e => TArray l (norm e)
  | TMap k e => TMap (norm k) (norm e)
  | TChan d e => TChan d (norm e)
  | TFunc ps v rs => TFunc (map_items norm ps) v (map_items norm rs)
  | TStruct fs => TStruct (map_items norm fs)
  | TIface ms es => TIface (map_items norm ms) (map_items norm es)
  | TUnion ts => TUnion (map_items norm ts)
  | TParam n => TParam n
  end.

(* substitution of type parameters (instantiation of a generic interface), C02 *)
Fixpoint lookup_ty (n : str) (m : list (str * ty)) : option ty :=
  match m with
  | [] => None
  | (k, v) :: r => if seqb n k then Some v else lookup_ty n r
  end.

Fixpoint subst (m : list (str * ty)) (t : ty) : ty :=
  match t with
  | TBasic _ | TUnsafePtr => t
  | TNamed p n targs => TNamed p n (map_items (subst m) targs)
  | TAlias p n targs => TAlias p n (map_items (subst m) targs)
  | TPtr e => TPtr (subst m e)
  | TSlice e => TSlice (subst m e)
  | TArray l e => TArray l (subst m e)
  | TMap k e => TMap (subst m k) (subst m e)
  | TChan d e => TChan d (subst m e)
  | TFunc ps v rs => TFunc (map_items (subst m) ps) v (map_items (subst m) rs)
  | TStruct fs => TStruct (map_items (subst m) fs)
  | TIface ms es => TIface (map_items (subst m) ms) (map_items (subst m) es)
  | TUnion ts => TUnion (map_items (subst m) ts)
  | TParam n => match lookup_ty n m with Some u => u | None => t end
  end.

Definition subst_sig (m : list (str * ty)) (s : sig) : sig :=
  {| sparams := map_items (subst m) (sparams s); svariadic := svariadic s; sresults := map_items (subst m) (sresults s) |}.
