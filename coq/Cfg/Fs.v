(* Abstract file system used by the pipeline model (C09, C10).
   Paths are absolute, cleaned, and written as their list of segments (root = []).
   A file system is a total function path -> option node; it need not be tree-shaped
   (the theorems hold for every function).  Mirrors the calls that RootApp.Run and
   findPkgPath make through pathlib/afero: MkdirAll, Exists (Stat), ReadFile, WriteFile.
   No proofs in this file. *)
From Mk Require Import Lib.Bytes.

Definition path := list str.

Fixpoint path_eqb (a b : path) : bool :=
  match a, b with
  | [], [] => true
  | x :: a', y :: b' => seqb x y && path_eqb a' b'
  | _, _ => false
  end.

Inductive node := File (content : str) | Dir.

Definition fs := path -> option node.

Definition upd (f : fs) (p : path) (n : node) : fs :=
  fun q => if path_eqb q p then Some n else f q.

Definition parent (p : path) : path := removelast p.

(* [is_prefix a b]: a is a (possibly equal) prefix of b *)
Fixpoint is_prefix (a b : path) : bool :=
  match a, b with
  | [], _ => true
  | x :: a', y :: b' => seqb x y && is_prefix a' b'
  | _ :: _, [] => false
  end.
Definition strict_prefix (a b : path) : bool := is_prefix a b && negb (path_eqb a b).

(* Permission faults: [ro p] on a directory = no entry can be created in it (mode r-x);
   on a file = it cannot be opened for writing (mode r--). *)
Definition romap := path -> bool.

(* os.MkdirAll d: walk down from the root; an existing directory is kept, a file in the way
   is ENOTDIR, a missing component is created unless the directory that would hold it is
   read-only.  [fresh] = the directory [cur] was created by this very call (then it is
   writable whatever [ro] says).  On failure the directories made so far stay (on a
   tree-shaped file system there are none: the first missing component is where it fails). *)
Fixpoint mk_down (ro : romap) (f : fs) (fresh : bool) (cur rest : path) : bool * fs :=
  match rest with
  | [] => (true, f)
  | s :: r =>
    let nxt := cur ++ [s] in
    match f nxt with
    | Some Dir => mk_down ro f false nxt r
    | Some (File _) => (false, f)
    | None => if negb fresh && ro cur then (false, f)
              else mk_down ro (upd f nxt Dir) true nxt r
    end
  end.
Definition mkdir_all (ro : romap) (f : fs) (d : path) : bool * fs := mk_down ro f false [] d.

(* afero.Exists = Stat succeeds *)
Definition exists_ (f : fs) (p : path) : bool :=
  match f p with Some _ => true | None => false end.

(* os.WriteFile (O_WRONLY|O_CREATE|O_TRUNC): None = error and nothing changed.
   The write itself is atomic in the model (a crash in the middle is outside C10). *)
Definition write_file (ro : romap) (f : fs) (p : path) (c : str) : option fs :=
  match f p with
  | Some Dir => None
  | Some (File _) => if ro p then None else Some (upd f p (File c))
  | None =>
    match f (parent p) with
    | Some Dir => if ro (parent p) then None else Some (upd f p (File c))
    | _ => None
    end
  end.

(* findPkgPath's upward search for a file called [name], starting in directory [rev rd].
   Exists() is true for any node, so a directory called go.mod stops the search and the
   following ReadFile fails. *)
Inductive lookup := Found (content : str) (dir : path) | FoundDir | NotFound.
Fixpoint find_up (f : fs) (name : str) (rd : list str) : lookup :=
  match f (rev rd ++ [name]) with
  | Some (File c) => Found c (rev rd)
  | Some Dir => FoundDir
  | None => match rd with [] => NotFound | _ :: rd' => find_up f name rd' end
  end.
