(* How NewRootConfig (config/config.go) turns the value of a MOCKERY_<KEY> environment
   variable into a configuration value.                                           (C09)
   The value "looks like a boolean" when strings.ToLower(value) is "true" or "false"; it is
   then parsed by strconv.ParseBool(strings.ToLower(value)) and `panic(err)` if that fails;
   otherwise it stays a string (which the strict decoder refuses for a boolean key).
   strings.ToLower is modelled on bytes: A-Z are lowered, every other byte is kept.  For
   bytes >= 0x80 this is not what Go does (it decodes runes), but no non-ASCII rune has one of
   the letters of "true"/"false" as its simple lower-case mapping, so the comparison with the
   two words comes out the same.
   [classify_fold] is the tempting variant with strings.EqualFold (simple case FOLDING: the
   long s U+017F folds to s) - see Env_proofs.v.  No proofs in this file. *)
From Mk Require Import Lib.Bytes.

Definition lower_byte (b : byte) : byte :=
  let n := bnat b in
  if Nat.leb 65 n && Nat.leb n 90 then match Byte.of_nat (n + 32) with Some c => c | None => b end else b.
Definition lower (s : str) : str := map lower_byte s.

(* strconv.ParseBool *)
Definition parse_bool (s : str) : option bool :=
  if smem s [B "1"; B "t"; B "T"; B "TRUE"; B "true"; B "True"] then Some true
  else if smem s [B "0"; B "f"; B "F"; B "FALSE"; B "false"; B "False"] then Some false
  else None.

Inductive envval := EBool (b : bool) | EString (s : str) | EPanic.

(* the callback of env.ProviderWithValue *)
Definition classify (v : str) : envval :=
  if seqb (lower v) (B "true") || seqb (lower v) (B "false") then
    match parse_bool (lower v) with
    | Some b => EBool b
    | None => EPanic                       (* panic(err) *)
    end
  else EString v.

(* what the run makes of it for a boolean key that the config file does not set: a boolean is
   used, a string is refused by the decoder (error, diagnostic), a panic is a crash *)
Inductive envout := EnvUsed (b : bool) | EnvRefused | EnvCrash.
Definition env_bool_key (v : str) : envout :=
  match classify v with
  | EBool b => EnvUsed b
  | EString _ => EnvRefused
  | EPanic => EnvCrash
  end.

(* --- the EqualFold variant: bytes C5 BF (U+017F, long s) fold to s --- *)
Fixpoint fold_s (s : str) : str :=
  match s with
  | xc5 :: xbf :: r => x73 :: fold_s r
  | c :: r => lower_byte c :: fold_s r
  | [] => []
  end.
Definition classify_fold (v : str) : envval :=
  if seqb (fold_s v) (B "true") || seqb (fold_s v) (B "false") then
    match parse_bool (lower v) with
    | Some b => EBool b
    | None => EPanic
    end
  else EString v.
